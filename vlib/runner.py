"""Generic flow of one property check (DESIGN.md §0.6): rebuild, audit proofs, correspondence,
spec on the implementation's trace, search/shrink, verdict, evidence."""
import json
import os
import subprocess
import sys
import time

from . import core


class Finding:
    """A concrete failing input: `kind` is 'spec' (property false on the implementation's trace) or
    'corr' (model and implementation differ)."""

    def __init__(self, kind, what, case_lines, detail=None, classifier_data=None):
        self.kind = kind
        self.what = what
        self.case_lines = case_lines
        self.detail = detail or {}
        self.classifier_data = classifier_data or {}


class Result:
    def __init__(self):
        self.evaluations = 0
        self.distinct_nontrivial = 0
        self.rule = ""
        self.samples = []
        self.stats = {}
        self.spec_failures = []   # list[Finding]
        self.corr_failures = []   # list[Finding]
        self.traces_validated = 0
        self.exhaustive = False
        self.extra = {}


def pipeline(harness_cmd, driver_cmd, save_to, timeout=3600, env=None):
    """Run `harness | tee save_to | driver`; return (harness_rc, driver_rc, driver_output_lines)."""
    os.makedirs(os.path.dirname(save_to), exist_ok=True)
    with open(save_to, "w") as f:
        hp = subprocess.run(harness_cmd, stdout=f, stderr=subprocess.PIPE, timeout=timeout, env=env)
    with open(save_to) as f:
        dp = subprocess.run(driver_cmd, stdin=f, stdout=subprocess.PIPE, stderr=subprocess.PIPE, timeout=timeout,
                            text=True, errors="replace")
    return hp.returncode, hp.stderr.decode(errors="replace")[-3000:], dp.returncode, dp.stdout.splitlines()


_CASE_INDEX = {}


def _case_index(path, start):
    key = (path, start, os.path.getmtime(path), os.path.getsize(path))
    if _CASE_INDEX.get("key") != key:
        offs = []
        pos = 0
        pref = (start + " ").encode()
        with open(path, "rb") as f:
            for line in f:
                if line.startswith(pref):
                    offs.append(pos)
                pos += len(line)
        offs.append(pos)
        _CASE_INDEX["key"] = key
        _CASE_INDEX["offs"] = offs
    return _CASE_INDEX["offs"]


def extract_case(path, case_no, start="C"):
    """Lines of the `case_no`-th case (1-based) in a harness output file (indexed once per file)."""
    offs = _case_index(path, start)
    if case_no < 1 or case_no >= len(offs):
        return []
    with open(path, "rb") as f:
        f.seek(offs[case_no - 1])
        data = f.read(offs[case_no] - offs[case_no - 1])
    return data.decode(errors="replace").splitlines()


# Shrinking is a convenience, never a reason for a check to run out of time on a badly broken tree: once the whole run has
# spent SHRINK_BUDGET seconds inside ddmin, further witnesses are reported unminimised.
SHRINK_BUDGET = float(os.environ.get("VERIF_SHRINK_BUDGET", "150"))
_shrink_spent = [0.0]


def ddmin(header, ops, fails):
    """Delta debugging over the operation lines: smallest subsequence for which fails(header+ops)."""
    t_in = time.time()
    try:
        return _ddmin(header, ops, fails, t_in)
    finally:
        _shrink_spent[0] += time.time() - t_in


def _ddmin(header, ops, fails, t_in):
    n = 2
    while len(ops) >= 2:
        if _shrink_spent[0] + (time.time() - t_in) > SHRINK_BUDGET:
            break
        chunk = max(1, len(ops) // n)
        reduced = False
        for i in range(0, len(ops), chunk):
            cand = ops[:i] + ops[i + chunk:]
            if cand and fails(header + cand):
                ops = cand
                n = max(n - 1, 2)
                reduced = True
                break
        if not reduced:
            if chunk == 1:
                break
            n = min(len(ops), n * 2)
    return ops


def strip_obs(line):
    return line.split(" | ")[0].rstrip()


def main(check):
    import argparse
    ap = argparse.ArgumentParser()
    ap.add_argument("--tier", default=os.environ.get("VERIF_TIER", "quick"), choices=["quick", "thorough"])
    ap.add_argument("--replay")
    args = ap.parse_args(sys.argv[2:])
    seed = int(os.environ.get("VERIF_SEED", "1"))
    prop = check.prop
    t0 = time.time()
    tie_broken = []     # list of (what, detail)
    audit = {"obligations": len(check.required_theorems), "discharged": 0, "theorems": [], "axioms": {}}
    result = Result()
    harness = driver = None

    try:
        core.build_repo()
    except core.InfraError as e:
        print("INFRASTRUCTURE ERROR: " + str(e)[-3000:])
        sys.exit(2)

    # translators (tables regenerated from the source on every run)
    try:
        check.generate()
    except core.TieBroken as e:
        tie_broken.append((e.what, e.detail))

    # proofs
    try:
        audit = core.audit(prop, check.required_theorems)
        ties = core.shared_ties(prop)   # generated tables shared by several properties (gen/enums.py) + their tie theorems
        audit["theorems"] = audit.get("theorems", []) + ties["theorems"]
        audit["axioms"].update(ties["axioms"])
        audit["obligations"] = audit.get("obligations", 0) + len(ties["theorems"])
        audit["discharged"] = audit.get("discharged", 0) + len(ties["theorems"])
        if args.tier == "thorough" and getattr(check, "use_leanchecker", True):
            rc, out = core.leanchecker(prop)
            audit["leanchecker_rc"] = rc
            if rc != 0:
                tie_broken.append((f"proof:{prop}:leanchecker", out))
    except core.TieBroken as e:
        tie_broken.append((e.what, e.detail))

    # correspondence + spec on the implementation's trace
    try:
        harness = check.build_harness()
        driver = core.build_driver(prop) if check.has_driver else None
        if args.replay:
            ok = check.replay(args.replay, harness, driver)
            sys.exit(0 if ok else 1)
        result = check.correspondence(args.tier, seed, harness, driver)
    except core.TieBroken as e:
        tie_broken.append((e.what, e.detail))

    violations = 0
    known_lines = []
    known = core.known_findings(prop)

    def report(finding, suffix=""):
        nonlocal violations
        for k in known:
            if k.get("status") == "known" and check.matches_known(k, finding):
                line = f"KNOWN-FINDING: property={prop} {k['id']}: {k['description']}"
                if line not in known_lines:
                    known_lines.append(line)
                    print(line)
                return
        payload = {"property": prop, "kind": finding.kind, "what": finding.what, "case": finding.case_lines,
                   "detail": finding.detail, "seed": seed, "tier": args.tier,
                   "replay_cmd": f"./check {prop} --replay <this file>"}
        path = core.write_replay(prop, payload)
        violations += 1
        print(f"VIOLATION property={prop} replay={path}{suffix}")

    reported = set()
    for f in result.spec_failures:
        if f.what in reported:
            continue
        reported.add(f.what)
        report(f)
    if not result.spec_failures or violations == 0:
        # disagreement between model and implementation, or a broken proof/translator tie, with no
        # concrete property failure (beyond known findings): report what no longer checks
        for f in result.corr_failures[:1]:
            if violations == 0:
                f2 = Finding("corr", f"corr:{prop}:{f.what}", f.case_lines, f.detail)
                report(f2, " no-failing-input-found")
        for what, detail in tie_broken:
            if violations == 0:
                f2 = Finding("tie", what, [], {"output": detail})
                report(f2, " no-failing-input-found")

    wall = time.time() - t0
    cov = {
        "obligations": audit.get("obligations", 0),
        "discharged": audit.get("discharged", 0),
        "checker_cmd": f"cd lean && lake build IcingaProofs.{prop} && lake env lean <#print axioms for every theorem of IcingaProofs/{prop}.lean>"
                       + (f" && lake env leanchecker IcingaProofs.{prop}" if args.tier == "thorough" else ""),
        "trusted_base": core.TRUSTED_BASE_COMMON + check.trusted_base + (
            ["translator gen/enums.py (shared): a probe program compiled against /repo's headers prints the enumerator values; "
             "lean/IcingaProofs/Tie/" + ",".join(core.SHARED_TIES[prop]) + ".lean proves the model's encodings equal them"]
            if prop in core.SHARED_TIES else []),
        "theorems": audit.get("theorems", []),
        "axioms": audit.get("axioms", {}),
        "evaluations": result.evaluations,
        "distinct_nontrivial": result.distinct_nontrivial,
        "rule": result.rule,
        "samples": result.samples[:8] if result.samples else ["(no correspondence run: " + "; ".join(w for w, _ in tie_broken) + ")"],
        "traces_validated_against_impl": result.traces_validated,
        "disagreements_checked": len(result.corr_failures),
        "spec_failures_on_impl_trace": len(result.spec_failures),
        "known_findings_reported": known_lines,
        "exhaustive": result.exhaustive,
        "stats": result.stats,
        "tie_broken": [w for w, _ in tie_broken],
        "leanchecker_rc": audit.get("leanchecker_rc", "not run (quick tier)"),
    }
    cov.update(result.extra)
    core.write_evidence(prop, args.tier, seed, check.level, cov, check.assumptions, wall, violations)
    core.log(f"{prop} done in {wall:.1f}s: obligations={cov['obligations']} discharged={cov['discharged']} "
             f"evaluations={result.evaluations} violations={violations}")
    sys.exit(1 if violations else 0)

"""Shared machinery of the checks: paths, builds (repo objects with hooks, harness binaries, Lean
library and drivers), proof audit, verdicts, evidence and known findings.

Everything is derived from this file's location; nothing under /tmp is needed."""
import fcntl
import glob
import hashlib
import json
import os
import re
import subprocess
import sys
import time

ROOT = os.path.dirname(os.path.dirname(os.path.abspath(__file__)))
REPO = os.environ.get("VERIF_REPO", "/repo")
WORK = os.environ.get("VERIF_WORK", os.path.join(ROOT, "_work"))
BUILD = os.path.join(WORK, "build-hooks")
BIN = os.path.join(WORK, "bin")
LEAN = os.path.join(ROOT, "lean")
HARNESS = os.path.join(ROOT, "harness")
# a scratch run (VERIF_WORK set: seeded-change validation in a worktree) must not overwrite the committed evidence
EVIDENCE = os.path.join(ROOT, "evidence") if "VERIF_WORK" not in os.environ else os.path.join(WORK, "evidence")
REPLAYS = os.path.join(ROOT, "replays") if "VERIF_WORK" not in os.environ else os.path.join(WORK, "replays")
GUARD = "ICINGA2_VERIF"
NINJA_TARGETS = ["base", "config", "remote", "icinga", "methods", "checker", "notification",
                 "mmatch", "socketpair", "execvpe", "cli"]
OBJ_DIRS = ["lib/base", "lib/config", "lib/remote", "lib/icinga", "lib/methods", "lib/checker",
            "lib/notification", "lib/cli", "third-party"]
FORBIDDEN = re.compile(r"\bsorry\b|\badmit\b|^\s*axiom\s|native_decide|bv_decide|implemented_by|"
                       r"\bunsafe\s|maxHeartbeats\s+0|\bunsafeCast\b|\bpartial\s+def\b.*:.*Prop")
ALLOWED_AXIOMS = {"propext", "Classical.choice", "Quot.sound"}


class InfraError(Exception):
    """The machinery itself could not run (repo does not compile, tool missing)."""


class TieBroken(Exception):
    """The repo builds but the model/harness no longer ties to it (harness compile error,
    translator anchor missing, proof obligation failing)."""

    def __init__(self, what, detail=""):
        super().__init__(what)
        self.what = what
        self.detail = detail


def log(msg):
    print(f"[check] {msg}", file=sys.stderr, flush=True)


def run(cmd, cwd=None, timeout=None, env=None, input=None):
    p = subprocess.run(cmd, cwd=cwd, timeout=timeout, env=env, input=input,
                       stdout=subprocess.PIPE, stderr=subprocess.STDOUT, text=True, errors="replace")
    return p.returncode, p.stdout


class Lock:
    def __init__(self, name):
        os.makedirs(WORK, exist_ok=True)
        self.path = os.path.join(WORK, name + ".lock")

    def __enter__(self):
        self.f = open(self.path, "w")
        fcntl.flock(self.f, fcntl.LOCK_EX)
        return self

    def __exit__(self, *a):
        fcntl.flock(self.f, fcntl.LOCK_UN)
        self.f.close()


# ---------------------------------------------------------------------------------------------
# repo objects (with hooks)

def configure_repo_build():
    os.makedirs(WORK, exist_ok=True)
    if os.path.exists(os.path.join(BUILD, "build.ninja")):
        return
    log("configuring hook build (cmake)")
    cmd = ["cmake", "-S", REPO, "-B", BUILD, "-G", "Ninja", "-DCMAKE_BUILD_TYPE=RelWithDebInfo",
           "-DICINGA2_UNITY_BUILD=OFF", f"-DCMAKE_CXX_FLAGS=-Wno-error -D{GUARD}",
           "-DICINGA2_WITH_MYSQL=OFF", "-DICINGA2_WITH_PGSQL=OFF", "-DICINGA2_WITH_ICINGADB=OFF",
           "-DICINGA2_WITH_LIVESTATUS=OFF", "-DICINGA2_WITH_COMPAT=OFF", "-DICINGA2_WITH_PERFDATA=OFF",
           "-DICINGA2_WITH_TESTS=OFF", "-DUSE_SYSTEMD=OFF",
           "-DCMAKE_CXX_FLAGS_RELWITHDEBINFO=-O2 -DNDEBUG"]
    import shutil
    if shutil.which("ccache"):
        cmd += ["-DCMAKE_CXX_COMPILER_LAUNCHER=ccache", "-DCMAKE_C_COMPILER_LAUNCHER=ccache"]
    rc, out = run(cmd)
    if rc != 0:
        raise InfraError("cmake configure failed:\n" + out[-4000:])


def build_repo():
    """Incremental rebuild of the object libraries from /repo's working tree."""
    with Lock("build"):
        configure_repo_build()
        t0 = time.time()
        env = dict(os.environ, CCACHE_BASEDIR="/", CCACHE_NOHASHDIR="1", CCACHE_SLOPPINESS="time_macros,include_file_mtime,include_file_ctime",
                   CCACHE_DIR=os.environ.get("CCACHE_DIR", os.path.join(ROOT, "_work", "ccache")))
        rc, out = run(["ninja", "-C", BUILD] + NINJA_TARGETS, env=env)
        if rc != 0:
            raise InfraError("/repo does not compile with -D%s:\n%s" % (GUARD, out[-6000:]))
        log("repo objects up to date (%.1fs)" % (time.time() - t0))


def repo_objects():
    objs = []
    for d in OBJ_DIRS:
        objs += glob.glob(os.path.join(BUILD, d, "**", "*.o"), recursive=True)
    # cli contains a main()-less library but conflicting daemon bits are fine; drop nothing
    return sorted(objs)


CXXFLAGS = ["-std=c++17", "-O1", "-g0", "-w", f"-D{GUARD}", "-DBOOST_ASIO_USE_TS_EXECUTOR_AS_DEFAULT",
            "-DBOOST_COROUTINES_NO_DEPRECATION_WARNING", "-DBOOST_FILESYSTEM_NO_DEPRECATED",
            "-D_GNU_SOURCE", "-pthread"]
LIBS = ["-ldl", "-lboost_coroutine", "-lboost_context", "-lboost_date_time", "-lboost_filesystem",
        "-lboost_iostreams", "-lboost_thread", "-lboost_system", "-lboost_program_options",
        "-lboost_regex", "-lboost_atomic", "-lssl", "-lcrypto", "-ledit", "-ltermcap"]


def include_flags():
    return ["-I" + REPO, "-I" + os.path.join(REPO, "lib"), "-I" + BUILD, "-I" + os.path.join(BUILD, "lib"),
            "-isystem", os.path.join(REPO, "third-party/nlohmann_json"),
            "-isystem", os.path.join(REPO, "third-party/utf8cpp/source"),
            "-isystem", os.path.join(REPO, "third-party"),
            "-I" + HARNESS]


def build_harness(name, extra_libs=(), with_cli=False):
    """Compile harness/<name>.cpp and link it against the freshly built objects.
    Raises TieBroken when the harness no longer compiles against the current source."""
    src = os.path.join(HARNESS, name + ".cpp")
    out = os.path.join(BIN, "h_" + name)
    os.makedirs(BIN, exist_ok=True)
    with Lock("harness_" + name):
        objs = [o for o in repo_objects() if with_cli or "/lib/cli/" not in o]
        deps = [src] + glob.glob(os.path.join(HARNESS, "*.hpp")) + objs
        newest = max(os.path.getmtime(p) for p in deps)
        if os.path.exists(out) and os.path.getmtime(out) >= newest:
            return out
        t0 = time.time()
        obj = os.path.join(BIN, name + ".o")
        rc, o1 = run(["g++"] + CXXFLAGS + include_flags() + ["-c", src, "-o", obj])
        if rc != 0:
            raise TieBroken("harness:%s:compile" % name, o1[-6000:])
        rsp = os.path.join(BIN, name + ".rsp")
        with open(rsp, "w") as f:
            f.write("\n".join(objs))
        rc, o2 = run(["g++", "-pthread", "-o", out, obj, "@" + rsp] + LIBS + list(extra_libs))
        if rc != 0:
            raise TieBroken("harness:%s:link" % name, o2[-6000:])
        log("harness h_%s built (%.1fs)" % (name, time.time() - t0))
    return out


# ---------------------------------------------------------------------------------------------
# Lean

def lake_build(targets):
    with Lock("lake"):
        t0 = time.time()
        rc, out = run(["lake", "build"] + list(targets), cwd=LEAN)
        log("lake build %s rc=%d (%.1fs)" % (" ".join(targets), rc, time.time() - t0))
        return rc, out


def lean_sources(prop):
    """Lean files whose content the audit greps for this property."""
    pats = [f"IcingaModel/{prop}/*.lean", f"IcingaModel/Common/*.lean", f"IcingaProofs/{prop}.lean",
            f"IcingaProofs/{prop}/*.lean", f"IcingaProofs/Gen/*.lean", f"Driver/{prop}.lean"]
    files = []
    for p in pats:
        files += glob.glob(os.path.join(LEAN, p))
    return sorted(files)


def strip_comments(text):
    # block comments (non-nested handling is enough for our sources), then line comments
    out = []
    i, depth = 0, 0
    while i < len(text):
        if text.startswith("/-", i):
            depth += 1
            i += 2
        elif text.startswith("-/", i) and depth > 0:
            depth -= 1
            i += 2
        elif depth > 0:
            if text[i] == "\n":
                out.append("\n")
            i += 1
        else:
            out.append(text[i])
            i += 1
    text = "".join(out)
    return "\n".join(l.split("--", 1)[0] for l in text.split("\n"))


def grep_forbidden(prop):
    hits = []
    for f in lean_sources(prop):
        body = strip_comments(open(f, encoding="utf-8").read())
        for n, line in enumerate(body.split("\n"), 1):
            if FORBIDDEN.search(line):
                hits.append(f"{os.path.relpath(f, ROOT)}:{n}: {line.strip()}")
    return hits


THEOREM_RE = re.compile(r"^\s*(?:@\[[^\]]*\]\s*)?(?:protected\s+|private\s+)?theorem\s+([A-Za-z_][A-Za-z0-9_'.]*)", re.M)
NAMESPACE_RE = re.compile(r"^namespace\s+([A-Za-z0-9_.]+)", re.M)


def property_theorems(prop):
    """All theorems declared in IcingaProofs/<prop>.lean, fully qualified."""
    path = os.path.join(LEAN, "IcingaProofs", prop + ".lean")
    body = strip_comments(open(path, encoding="utf-8").read())
    m = NAMESPACE_RE.search(body)
    ns = m.group(1) + "." if m else ""
    return [ns + t for t in THEOREM_RE.findall(body)]


def audit(prop, required):
    """Build the property's proof module, run `#print axioms` on every theorem of
    IcingaProofs/<prop>.lean.  Returns a dict; raises TieBroken on any shortfall."""
    res = {"obligations": 0, "discharged": 0, "theorems": [], "axioms": {}, "forbidden_hits": []}
    hits = grep_forbidden(prop)
    res["forbidden_hits"] = hits
    rc, out = lake_build([f"IcingaProofs.{prop}"])
    if rc != 0:
        raise TieBroken(f"proof:{prop}:build", out[-6000:])
    thms = property_theorems(prop)
    short = {t.split(".")[-1] for t in thms}
    missing = [r for r in required if r not in short]
    res["obligations"] = len(set(thms) | set(missing))
    res["theorems"] = thms
    if missing:
        raise TieBroken(f"proof:{prop}:missing-theorem:" + ",".join(missing), "required theorems absent from IcingaProofs/%s.lean" % prop)
    os.makedirs(os.path.join(WORK, "audit"), exist_ok=True)
    af = os.path.join(WORK, "audit", prop + ".lean")
    with open(af, "w") as f:
        f.write(f"import IcingaProofs.{prop}\n")
        for t in thms:
            f.write(f"#print axioms {t}\n")
    rc, out = run(["lake", "env", "lean", af], cwd=LEAN)
    if rc != 0:
        raise TieBroken(f"proof:{prop}:audit", out[-4000:])
    # parse: "'X' depends on axioms: [a, b]" or "'X' does not depend on any axioms"
    text = out.replace("\n ", " ")
    bad = []
    for t in thms:
        m = re.search(r"'" + re.escape(t) + r"' (does not depend on any axioms|depends on axioms: \[([^\]]*)\])", text)
        if not m:
            bad.append((t, "no #print axioms output"))
            continue
        axs = [a.strip() for a in (m.group(2) or "").split(",") if a.strip()]
        res["axioms"][t] = axs
        extra = [a for a in axs if a not in ALLOWED_AXIOMS]
        if extra:
            bad.append((t, "axioms " + ",".join(extra)))
        else:
            res["discharged"] += 1
    if hits:
        raise TieBroken(f"proof:{prop}:forbidden-token", "\n".join(hits))
    if bad:
        raise TieBroken(f"proof:{prop}:axioms:" + bad[0][0], json.dumps(bad))
    return res


# Shared translator ties: tables several properties rely on, regenerated from /repo on every run of each of them.
# prop -> list of tie modules under lean/IcingaProofs/Tie/ (all of them consume IcingaProofs/Gen/Enums.lean).
SHARED_TIES = {"C01": ["EnumsC01"], "C02": ["EnumsC02"], "C03": ["EnumsC03"], "C06": ["EnumsC06"]}


def shared_ties(prop):
    """Regenerate the shared generated tables this property depends on (gen/enums.py), rebuild the tie modules that
    state the model's encodings against them, and audit their theorems like the property's own (forbidden tokens,
    #print axioms).  Returns {"theorems": [...], "axioms": {...}}; raises TieBroken on a lost anchor, a theorem that
    no longer holds for the source's current values, or an axiom outside the allowed set."""
    mods = SHARED_TIES.get(prop, [])
    res = {"theorems": [], "axioms": {}}
    if not mods:
        return res
    import importlib.util
    spec = importlib.util.spec_from_file_location("gen_enums", os.path.join(ROOT, "gen", "enums.py"))
    gen = importlib.util.module_from_spec(spec)
    spec.loader.exec_module(gen)
    try:
        with Lock("gen_enums"):
            gen.generate(REPO, BUILD, os.path.join(LEAN, "IcingaProofs", "Gen", "Enums.lean"), os.path.join(WORK, "gen-cache"))
    except gen.Lost as e:
        raise TieBroken(f"gen:{prop}:enums-anchor", str(e))
    for mod in mods:
        path = os.path.join(LEAN, "IcingaProofs", "Tie", mod + ".lean")
        body = strip_comments(open(path, encoding="utf-8").read())
        hits = [f"Tie/{mod}.lean:{n}: {l.strip()}" for n, l in enumerate(body.split("\n"), 1) if FORBIDDEN.search(l)]
        if hits:
            raise TieBroken(f"proof:{prop}:tie-{mod}:forbidden-token", "\n".join(hits))
        rc, out = lake_build([f"IcingaProofs.Tie.{mod}"])
        if rc != 0:
            raise TieBroken(f"proof:{prop}:tie-{mod}:build", out[-6000:])
        m = NAMESPACE_RE.search(body)
        ns = m.group(1) + "." if m else ""
        thms = [ns + t for t in THEOREM_RE.findall(body)]
        os.makedirs(os.path.join(WORK, "audit"), exist_ok=True)
        af = os.path.join(WORK, "audit", f"{prop}_tie_{mod}.lean")
        with open(af, "w") as f:
            f.write(f"import IcingaProofs.Tie.{mod}\n" + "".join(f"#print axioms {t}\n" for t in thms))
        rc, out = run(["lake", "env", "lean", af], cwd=LEAN)
        if rc != 0:
            raise TieBroken(f"proof:{prop}:tie-{mod}:audit", out[-4000:])
        text = out.replace("\n ", " ")
        for t in thms:
            mm = re.search(r"'" + re.escape(t) + r"' (does not depend on any axioms|depends on axioms: \[([^\]]*)\])", text)
            if not mm:
                raise TieBroken(f"proof:{prop}:tie-{mod}:axioms:{t}", "no #print axioms output")
            axs = [a.strip() for a in (mm.group(2) or "").split(",") if a.strip()]
            if [a for a in axs if a not in ALLOWED_AXIOMS]:
                raise TieBroken(f"proof:{prop}:tie-{mod}:axioms:{t}", ",".join(axs))
            res["theorems"].append(t)
            res["axioms"][t] = axs
    return res


def build_driver(prop):
    exe = "vd_" + prop.lower()
    rc, out = lake_build([exe])
    if rc != 0:
        raise TieBroken(f"driver:{prop}:build", out[-6000:])
    return os.path.join(LEAN, ".lake", "build", "bin", exe)


def leanchecker(prop):
    rc, out = run(["lake", "env", "leanchecker", f"IcingaProofs.{prop}"], cwd=LEAN, timeout=1800)
    return rc, out[-2000:]


# ---------------------------------------------------------------------------------------------
# verdict / evidence / findings

def known_findings(prop):
    path = os.path.join(ROOT, "known_findings.json")
    if not os.path.exists(path):
        return []
    data = json.load(open(path))
    return [e for e in data.get("findings", []) if e.get("property") == prop]


def write_replay(prop, payload):
    d = os.path.join(REPLAYS, prop)
    os.makedirs(d, exist_ok=True)
    blob = json.dumps(payload, indent=1, sort_keys=True, default=str)
    h = hashlib.sha1(blob.encode()).hexdigest()[:12]
    path = os.path.join(d, h + ".json")
    with open(path, "w") as f:
        f.write(blob + "\n")
    return path


def write_evidence(prop, tier, seed, level, coverage, assumptions, wall_s, violations):
    os.makedirs(EVIDENCE, exist_ok=True)
    ev = {"property_id": prop, "tier": tier, "seed": int(seed), "level": level, "coverage": coverage,
          "assumptions": assumptions, "wall_s": round(wall_s, 2), "violations": int(violations)}
    tmp = os.path.join(EVIDENCE, prop + ".json.tmp")
    with open(tmp, "w") as f:
        json.dump(ev, f, indent=1, sort_keys=True, default=str)
        f.write("\n")
    os.replace(tmp, os.path.join(EVIDENCE, prop + ".json"))


TRUSTED_BASE_COMMON = [
    "Lean 4.33.0 kernel; axioms allowed in property theorems: propext, Classical.choice, Quot.sound (audited by #print axioms on every run)",
    "no sorry/admit/axiom/native_decide/bv_decide/implemented_by/unsafe in the property's Lean sources (grep on every run)",
    "hand-written model tied to /repo's working tree by the correspondence harness (differential execution of the real object code, rebuilt on every run, against the model's executable definitions)",
    "C++ harness and Python orchestrator report faithfully what the real code did",
]


def parse_kv(line):
    d = {}
    for w in line.split()[1:]:
        if "=" in w:
            k, v = w.split("=", 1)
            d[k] = v
    return d

/* C14 harness: state and modified attributes survive a restart; files are old-or-new after a kill.
 * Drives the real ConfigObject::ModifyAttribute/RestoreAttribute, ConfigObject::DumpObjects/RestoreObjects,
 * IcingaApplication::DumpModifiedAttributes + its replay in ConfigItem::ActivateItems, and AtomicFile, with
 * write/fsync/rename/... interposed in this executable.
 *
 * Lines (hex = lower-case hex of bytes, "-" for the empty string; JSON = JsonEncode of the value):
 *   C M <hex JSON fields>                                      new modify/restore case on a fresh Host
 *   M <hex attr> <hex JSON value> | <ok> <hex JSON fields> <hex JSON original_attributes>
 *   R <hex attr>                  | <ok> <hex JSON fields> <hex JSON original_attributes>
 *   I <TypeName> | <field>:<attribute flags> ...              the fields of a reflection type with their FieldAttribute bits (FAState = 4)
 *   S <hex JSON spec> | <known,names|-> <hex state before> <hex state after> <hex cfg before> <hex cfg after> <loaded 0|1> <num>tok,...|-> <hex getters before> <hex getters after>
 *        getters: the attributes the statement names (l_Pinned, mirror of Spec.lean's `pinnedState`) read one by one through
 *        GetField(id) - independent of the attribute mask Serialize applies - nested objects (CheckResult, PerfdataValue) field by
 *        field, each tagged with the member "@object": true (a dictionary with the same members carries no tag)
 *        loaded: modified-attributes.conf compiled at start-up; the last field is the oracle for the config writer's number
 *        text (C17): for every number in the modifications whose JSON token changes through ConfigWriter::EmitValue +
 *        ConfigCompiler, `before>after` (`!` = the text does not compile)
 *        one object through DumpObjects + DumpModifiedAttributes -> fresh process -> same config ->
 *        RestoreObjects + ActivateItems(withModAttrs); state = Serialize(obj, FAState) without `version`,
 *        cfg = Serialize(obj, FAConfig) + original_attributes + version
 *        kind: h Host, s Service, n Notification, d Downtime, c Comment, u User; st.x = {attribute: value} is set through SetField
 *        spec keys: kind, name, vars, notes, st (state), mods [[attr, value]..] (runtime modifications), restore [attr..]
 *        (restored again after a first complete dump: the dump that counts is the second one), deep n (executions nested n deep);
 *        inside st.executions and st.cr.{command,perf,vars_after} a dictionary {"@pdv": [label, value, counter, unit, warn, crit,
 *        min, max]} stands for a PerfdataValue OBJECT at that place (Objectify)
 *   B <batch> <objects> <bytes of the state file>                information only
 *   W <kind> <cseed> | <n> <call:t|T>...                        the intercepted calls of one complete write
 *        (t = on the temp file, T = names the target path / a descriptor opened on the target path)
 *        kinds: state (DumpObjects), modattr (DumpModifiedAttributes), write (AtomicFile::Write) replacing a previous version;
 *        statenew, modattrnew, writenew: the same onto a path that does not exist yet; createobj: the config file of a
 *        runtime-created Host written by ConfigObjectUtility::CreateObject into the _api package of a scratch data directory
 *   K <kind> <cseed> <k> <b|p> | <call> <found>                 kill inside the k-th intercepted call (b = before it
 *        takes effect, p = after half of a write's bytes); k = n: no kill.  found = old|new|absent|other (never `old` for the
 *        kinds without a previous version)
 *        (bytes on disk AND what the real loader makes of them)
 *   L <kind> <cseed> | <tmp files before> <after>               stale temp files before/after the next complete dump
 *
 * Modes:  gen --seed S --tier quick|thorough
 *         ops FILE
 *         restore DIR        (internal: the "fresh process" of the S lines)
 */
#include "common.hpp"
#include "base/atomic-file.hpp"
#include "base/configuration.hpp"
#include "base/dictionary.hpp"
#include "base/array.hpp"
#include "base/type.hpp"
#include "config/configitem.hpp"
#include "config/configcompiler.hpp"
#include "config/expression.hpp"
#include "base/configwriter.hpp"
#include "base/scriptframe.hpp"
#include "base/perfdatavalue.hpp"
#include "base/workqueue.hpp"
#include "icinga/checkcommand.hpp"
#include "remote/configobjectutility.hpp"
#include <dlfcn.h>
#include <fcntl.h>
#include <signal.h>
#include <stdarg.h>
#include <sys/stat.h>
#include <sys/wait.h>
#include <algorithm>
#include <fstream>
#include <map>
#include <set>

using namespace icinga;
using namespace vh;

/* ------------------------------------------------------------------------------------------------
 * interposed system calls */

static volatile bool g_Track = false;
static char g_Target[512];
static size_t g_TargetLen = 0;
static int g_Fd = -1;
static bool g_FdIsTarget = false; /* the tracked descriptor was opened on the target path itself (not on a temp file) */
static int g_KillAt = -1;       /* index of the relevant call inside which the process dies */
static bool g_KillPartial = false;
static int g_Calls = 0;
static char g_Log[16384];
static size_t g_LogLen = 0;

static bool IsTargetPath(const char *p) { return p && g_TargetLen && strcmp(p, g_Target) == 0; }
/* any sibling whose name extends the target's (path.tmp.XXXXXX today; the suffix pattern is the code's business) */
static bool IsTmpPath(const char *p) { return p && g_TargetLen && strncmp(p, g_Target, g_TargetLen) == 0 && p[g_TargetLen] != 0; }

static void LogCall(const char *kind, bool onTarget)
{
	int n = snprintf(g_Log + g_LogLen, sizeof(g_Log) - g_LogLen, "%s%s:%c", g_LogLen ? " " : "", kind, onTarget ? 'T' : 't');
	if (n > 0 && g_LogLen + n < sizeof(g_Log))
		g_LogLen += n;
}

/* returns true when the process has to die inside this call */
static bool Relevant(const char *kind, bool onTarget)
{
	LogCall(kind, onTarget);
	return g_Calls++ == g_KillAt;
}

template<typename F>
static F Real(const char *name)
{
	return (F)dlsym(RTLD_NEXT, name);
}

extern "C" {

ssize_t write(int fd, const void *buf, size_t count)
{
	static auto real = Real<ssize_t (*)(int, const void *, size_t)>("write");
	if (g_Track && fd == g_Fd && fd >= 0) {
		if (Relevant("write", g_FdIsTarget)) {
			if (g_KillPartial && count > 1)
				real(fd, buf, count / 2);
			_exit(77);
		}
	}
	return real(fd, buf, count);
}

int fsync(int fd)
{
	static auto real = Real<int (*)(int)>("fsync");
	if (g_Track && fd == g_Fd && fd >= 0 && Relevant("fsync", g_FdIsTarget))
		_exit(77);
	return real(fd);
}

int fdatasync(int fd)
{
	static auto real = Real<int (*)(int)>("fdatasync");
	if (g_Track && fd == g_Fd && fd >= 0 && Relevant("fdatasync", g_FdIsTarget))
		_exit(77);
	return real(fd);
}

int close(int fd)
{
	static auto real = Real<int (*)(int)>("close");
	if (g_Track && fd == g_Fd && fd >= 0) {
		if (Relevant("close", g_FdIsTarget))
			_exit(77);
		int rc = real(fd);
		g_Fd = -1;
		g_FdIsTarget = false;
		return rc;
	}
	return real(fd);
}

int rename(const char *from, const char *to)
{
	static auto real = Real<int (*)(const char *, const char *)>("rename");
	if (g_Track && (IsTargetPath(to) || IsTargetPath(from) || IsTmpPath(from) || IsTmpPath(to)) && Relevant("rename", IsTargetPath(to) || IsTargetPath(from)))
		_exit(77);
	return real(from, to);
}

int renameat(int fd1, const char *from, int fd2, const char *to)
{
	static auto real = Real<int (*)(int, const char *, int, const char *)>("renameat");
	if (g_Track && (IsTargetPath(to) || IsTargetPath(from) || IsTmpPath(from) || IsTmpPath(to)) && Relevant("rename", IsTargetPath(to) || IsTargetPath(from)))
		_exit(77);
	return real(fd1, from, fd2, to);
}

int unlink(const char *p)
{
	static auto real = Real<int (*)(const char *)>("unlink");
	if (g_Track && (IsTargetPath(p) || IsTmpPath(p)) && Relevant("unlink", IsTargetPath(p)))
		_exit(77);
	return real(p);
}

int unlinkat(int dfd, const char *p, int flags)
{
	static auto real = Real<int (*)(int, const char *, int)>("unlinkat");
	if (g_Track && (IsTargetPath(p) || IsTmpPath(p)) && Relevant("unlink", IsTargetPath(p)))
		_exit(77);
	return real(dfd, p, flags);
}

int remove(const char *p)
{
	static auto real = Real<int (*)(const char *)>("remove");
	if (g_Track && (IsTargetPath(p) || IsTmpPath(p)) && Relevant("unlink", IsTargetPath(p)))
		_exit(77);
	return real(p);
}

int chmod(const char *p, mode_t mode)
{
	static auto real = Real<int (*)(const char *, mode_t)>("chmod");
	if (g_Track && (IsTargetPath(p) || IsTmpPath(p)) && Relevant("chmod", IsTargetPath(p)))
		_exit(77);
	return real(p, mode);
}

int fchmod(int fd, mode_t mode)
{
	static auto real = Real<int (*)(int, mode_t)>("fchmod");
	if (g_Track && fd == g_Fd && fd >= 0 && Relevant("chmod", g_FdIsTarget))
		_exit(77);
	return real(fd, mode);
}

int mkostemp(char *tmpl, int flags)
{
	static auto real = Real<int (*)(char *, int)>("mkostemp");
	if (g_Track && IsTmpPath(tmpl)) {
		if (Relevant("mkstemp", false))
			_exit(77);
		int fd = real(tmpl, flags);
		g_Fd = fd;
		g_FdIsTarget = false;
		return fd;
	}
	return real(tmpl, flags);
}

int mkstemps(char *tmpl, int suffixlen)
{
	static auto real = Real<int (*)(char *, int)>("mkstemps");
	if (g_Track && IsTmpPath(tmpl)) {
		if (Relevant("mkstemp", false))
			_exit(77);
		int fd = real(tmpl, suffixlen);
		g_Fd = fd;
		g_FdIsTarget = false;
		return fd;
	}
	return real(tmpl, suffixlen);
}

int mkostemps(char *tmpl, int suffixlen, int flags)
{
	static auto real = Real<int (*)(char *, int, int)>("mkostemps");
	if (g_Track && IsTmpPath(tmpl)) {
		if (Relevant("mkstemp", false))
			_exit(77);
		int fd = real(tmpl, suffixlen, flags);
		g_Fd = fd;
		g_FdIsTarget = false;
		return fd;
	}
	return real(tmpl, suffixlen, flags);
}

int mkstemp(char *tmpl)
{
	static auto real = Real<int (*)(char *)>("mkstemp");
	if (g_Track && IsTmpPath(tmpl)) {
		if (Relevant("mkstemp", false))
			_exit(77);
		int fd = real(tmpl);
		g_Fd = fd;
		g_FdIsTarget = false;
		return fd;
	}
	return real(tmpl);
}

int open(const char *p, int flags, ...)
{
	static auto real = Real<int (*)(const char *, int, ...)>("open");
	mode_t mode = 0;
	if (flags & (O_CREAT | O_TMPFILE)) {
		va_list ap;
		va_start(ap, flags);
		mode = va_arg(ap, mode_t);
		va_end(ap);
	}
	if (g_Track && (flags & (O_WRONLY | O_RDWR | O_TRUNC | O_CREAT)) && (IsTargetPath(p) || IsTmpPath(p))) {
		if (Relevant("openat", IsTargetPath(p)))
			_exit(77);
		int fd = real(p, flags, mode);
		if (fd >= 0 && g_Fd < 0) {
			/* written in place from now on: its writes/fsync/close are calls of this write */
			g_Fd = fd;
			g_FdIsTarget = IsTargetPath(p);
		}
		return fd;
	}
	return real(p, flags, mode);
}

int open64(const char *p, int flags, ...)
{
	static auto real = Real<int (*)(const char *, int, ...)>("open64");
	mode_t mode = 0;
	if (flags & (O_CREAT | O_TMPFILE)) {
		va_list ap;
		va_start(ap, flags);
		mode = va_arg(ap, mode_t);
		va_end(ap);
	}
	if (g_Track && (flags & (O_WRONLY | O_RDWR | O_TRUNC | O_CREAT)) && (IsTargetPath(p) || IsTmpPath(p))) {
		if (Relevant("openat", IsTargetPath(p)))
			_exit(77);
		int fd = real(p, flags, mode);
		if (fd >= 0 && g_Fd < 0) {
			/* written in place from now on: its writes/fsync/close are calls of this write */
			g_Fd = fd;
			g_FdIsTarget = IsTargetPath(p);
		}
		return fd;
	}
	return real(p, flags, mode);
}

int openat(int dfd, const char *p, int flags, ...)
{
	static auto real = Real<int (*)(int, const char *, int, ...)>("openat");
	mode_t mode = 0;
	if (flags & (O_CREAT | O_TMPFILE)) {
		va_list ap;
		va_start(ap, flags);
		mode = va_arg(ap, mode_t);
		va_end(ap);
	}
	if (g_Track && (flags & (O_WRONLY | O_RDWR | O_TRUNC | O_CREAT)) && (IsTargetPath(p) || IsTmpPath(p))) {
		if (Relevant("openat", IsTargetPath(p)))
			_exit(77);
		int fd = real(dfd, p, flags, mode);
		if (fd >= 0 && g_Fd < 0) {
			/* written in place from now on: its writes/fsync/close are calls of this write */
			g_Fd = fd;
			g_FdIsTarget = IsTargetPath(p);
		}
		return fd;
	}
	return real(dfd, p, flags, mode);
}

} /* extern "C" */

static void TrackBegin(const std::string& target, int killAt, bool partial)
{
	snprintf(g_Target, sizeof(g_Target), "%s", target.c_str());
	g_TargetLen = strlen(g_Target);
	g_Fd = -1;
	g_FdIsTarget = false;
	g_KillAt = killAt;
	g_KillPartial = partial;
	g_Calls = 0;
	g_LogLen = 0;
	g_Log[0] = 0;
	g_Track = true;
}

static void TrackEnd() { g_Track = false; }

/* ------------------------------------------------------------------------------------------------
 * helpers */

namespace vh {
VH_ROB_STATIC(TagDumpModAttrs, void (IcingaApplication::*type)(), IcingaApplication, DumpModifiedAttributes)
}

static std::string Hex(const std::string& s)
{
	if (s.empty())
		return "-";
	static const char *d = "0123456789abcdef";
	std::string r;
	r.reserve(s.size() * 2);
	for (unsigned char c : s) {
		r.push_back(d[c >> 4]);
		r.push_back(d[c & 15]);
	}
	return r;
}

static bool UnHex(const std::string& h, std::string& out)
{
	out.clear();
	if (h == "-")
		return true;
	if (h.size() % 2)
		return false;
	auto v = [](char c) -> int {
		if (c >= '0' && c <= '9') return c - '0';
		if (c >= 'a' && c <= 'f') return c - 'a' + 10;
		if (c >= 'A' && c <= 'F') return c - 'A' + 10;
		return -1;
	};
	for (size_t i = 0; i < h.size(); i += 2) {
		int a = v(h[i]), b = v(h[i + 1]);
		if (a < 0 || b < 0)
			return false;
		out.push_back((char)(a * 16 + b));
	}
	return true;
}

static std::string J(const Value& v) { return JsonEncode(v).GetData(); }

static std::string ReadFileBytes(const std::string& path, bool *exists)
{
	std::ifstream f(path, std::ios::binary);
	if (!f) {
		*exists = false;
		return "";
	}
	*exists = true;
	std::stringstream ss;
	ss << f.rdbuf();
	return ss.str();
}

static void WriteFileBytes(const std::string& path, const std::string& data)
{
	std::ofstream f(path, std::ios::binary | std::ios::trunc);
	f << data;
}

static std::vector<std::string> GlobTmp(const std::string& path)
{
	std::vector<std::string> r;
	try {
		Utility::Glob(String(path) + ".*", [&r](const String& p) { r.push_back(p.GetData()); }, GlobFile);
	} catch (const std::exception&) { }
	return r;
}

static std::vector<std::string> SplitWs(const std::string& line)
{
	std::vector<std::string> w;
	std::istringstream is(line);
	std::string t;
	while (is >> t)
		w.push_back(t);
	return w;
}

/* ------------------------------------------------------------------------------------------------
 * value generator */

static const char *l_Keys[] = { "a", "b", "c", "d", "k" };
static const char *l_OddKeys[] = { "", "a.b", "x y", "\xc3\xa9", "k\"q", "\xf0\x9f\x98\x80", "type " };
static const char *l_Strings[] = { "", "s", "ok", "a b", "\xc3\xa4\xc3\xb6", "q\"uote\\", "line\nbreak", "\xf0\x9f\x98\x80", "null", "0", "x.y", "\x01\x7f" };
static const char *l_TypeNames[] = { "ext4", "xfs", "", "host", "nfs 4" };
/* keys the config writer has to quote or escape (ConfigWriter::EmitIdentifier/EmitString): leading digit, keywords, punctuation */
static const char *l_WriterKeys[] = { "80", "443", "2xx", "1st_disk", "0", "007", "_x", "_", "A9", "9",
	/* every keyword of the lexer (config_lexer.ll): the writer must emit them as @keyword (F-C14i: `in`, `debugger` were missing) */
	"object", "template", "include", "include_recursive", "include_zones", "library", "null", "true", "false", "const", "var", "this",
	"globals", "locals", "use", "using", "apply", "default", "to", "where", "import", "assign", "ignore", "function", "return", "break",
	"continue", "for", "if", "else", "while", "throw", "try", "except", "ignore_on_error", "current_filename", "current_line", "debugger",
	"namespace", "in", "!in",
	"a-b", "1.2", "x y", "\xc3\xa9", "k\"q", "b\\s", "tab\there", "nl\nx", "$x$", "a=b", "{", "#c", "/*", "@at" };

struct GenOpts {
	bool typeKeys = false;   /* dictionaries may carry a `type` key (never naming a registered type) */
	bool oddKeys = false;    /* keys with dots, spaces, quotes, non-ASCII, empty */
	bool dollars = false;
	bool writerKeys = false; /* keys from l_WriterKeys (values that go through the config writer) */
};

static Value GenValue(Rng& rng, int depth, const GenOpts& o);

static Dictionary::Ptr GenDict(Rng& rng, int depth, const GenOpts& o, int minLen = 0)
{
	Dictionary::Ptr d = new Dictionary();
	int n = rng.range(minLen, 3);
	for (int i = 0; i < n; i++) {
		String key = l_Keys[rng.below(5)];
		if (o.oddKeys && rng.below(12) == 0)
			key = l_OddKeys[rng.below(7)];
		if (o.writerKeys && rng.below(2) == 0)
			key = l_WriterKeys[rng.below(sizeof(l_WriterKeys) / sizeof(l_WriterKeys[0]))];
		d->Set(key, GenValue(rng, depth - 1, o));
	}
	if (o.typeKeys && rng.below(10) == 0) {
		if (rng.below(6) == 0)
			d->Set("type", (double)rng.range(0, 9));
		else
			d->Set("type", l_TypeNames[rng.below(5)]);
	}
	return d;
}

static Value GenValue(Rng& rng, int depth, const GenOpts& o)
{
	int k = (int)rng.below(depth > 0 ? 10 : 7);
	switch (k) {
		case 0: return Empty;
		case 1: return rng.coin();
		case 2: return (double)rng.range(-3, 40);
		case 3: return (double)((long long)rng.below(2000000000ULL) * 1000LL);
		case 4:
		case 5: {
			String s = l_Strings[rng.below(12)];
			if (o.dollars && rng.below(8) == 0)
				s += "$x";
			return s;
		}
		case 6: return (double)rng.range(0, 1000) / 4.0;
		case 7: {
			Array::Ptr a = new Array();
			int n = rng.range(0, 3);
			for (int i = 0; i < n; i++)
				a->Add(GenValue(rng, depth - 1, o));
			return a;
		}
		default:
			return GenDict(rng, depth, o);
	}
}

/* ------------------------------------------------------------------------------------------------
 * (1) modify / restore */

struct MCase {
	Host::Ptr host;
};

static Dictionary::Ptr FieldsOf(const Host::Ptr& h)
{
	return new Dictionary({
		{ "check_interval", h->GetCheckInterval() },
		{ "notes", h->GetNotes() },
		{ "vars", h->GetVars() }
	});
}

static void PrintMObs(const Host::Ptr& h, bool ok)
{
	printf(" | %d %s %s\n", ok ? 1 : 0, Hex(J(FieldsOf(h))).c_str(), Hex(J(h->GetOriginalAttributes())).c_str());
}

static Host::Ptr NewMHost(const Dictionary::Ptr& fields)
{
	Host::Ptr h = new Host();
	h->SetName("mh");
	if (fields) {
		if (fields->Contains("check_interval"))
			h->SetCheckInterval(fields->Get("check_interval"));
		if (fields->Contains("notes"))
			h->SetNotes(fields->Get("notes"));
		Value vars = fields->Get("vars");
		if (vars.IsObjectType<Dictionary>())
			h->SetVars(vars);
	}
	return h;
}

static void StartMCase(MCase& c, const Dictionary::Ptr& fields)
{
	c.host = NewMHost(fields);
	printf("C M %s\n", Hex(J(FieldsOf(c.host))).c_str());
}

static void DoModify(MCase& c, const std::string& attr, const Value& value)
{
	bool ok = true;
	printf("M %s %s", Hex(attr).c_str(), Hex(J(value)).c_str());
	try {
		c.host->ModifyAttribute(attr, value);
	} catch (const std::exception&) {
		ok = false;
	}
	PrintMObs(c.host, ok);
}

static void DoRestore(MCase& c, const std::string& attr)
{
	bool ok = true;
	printf("R %s", Hex(attr).c_str());
	try {
		c.host->RestoreAttribute(attr);
	} catch (const std::exception&) {
		ok = false;
	}
	PrintMObs(c.host, ok);
}

static std::string GenPath(Rng& rng, bool odd, const Host::Ptr& h)
{
	int k = (int)rng.below(100);
	if (k < 4) return "vars";
	if (k < 7) return "notes";
	if (k < 9) return "check_interval";
	if (k < 10) return rng.coin() ? "nosuch" : "nosuch.x";
	if (k < 11 && !h->GetNotes().IsEmpty()) return "notes.x"; /* "" would be replaced by a dictionary and coerced to text */
	int depth = k < 50 ? 1 : (k < 88 ? 2 : 3);
	std::string p = "vars";
	Value cur = h->GetVars();
	for (int i = 0; i < depth; i++) {
		p += ".";
		String key;
		std::vector<String> keys;
		if (cur.IsObjectType<Dictionary>())
			keys = static_cast<Dictionary::Ptr>(cur)->GetKeys();
		if (!keys.empty() && rng.below(100) < 80) {
			key = keys[rng.below(keys.size())];        /* an existing key (may be odd: dotted, empty, ...) */
			if (key.IsEmpty() || key.Contains("."))
				key = l_Keys[rng.below(5)];
		} else if (odd && rng.below(25) == 0)
			key = l_OddKeys[1 + rng.below(5)];         /* no empty token here; "a.b" simply adds a level */
		else
			key = l_Keys[rng.below(5)];
		p += key.GetData();
		cur = cur.IsObjectType<Dictionary>() ? static_cast<Dictionary::Ptr>(cur)->Get(key) : Empty;
	}
	return p;
}

static Value GenValueFor(Rng& rng, const std::string& path, const GenOpts& o)
{
	if (path == "vars")
		return GenDict(rng, 2, o);
	if (path == "notes")
		return String(l_Strings[1 + rng.below(10)]);
	if (path == "check_interval")
		return (double)rng.range(1, 600);
	return GenValue(rng, 2, o);
}

static void GenMCases(Rng& rng, int cases, bool odd)
{
	GenOpts o;
	o.typeKeys = true;
	o.oddKeys = odd;
	for (int i = 0; i < cases; i++) {
		MCase c;
		Dictionary::Ptr fields = new Dictionary();
		if (rng.below(20) != 0)
			fields->Set("vars", GenDict(rng, 3, o, 1));
		fields->Set("notes", String(l_Strings[1 + rng.below(10)]));
		if (rng.coin())
			fields->Set("check_interval", (double)rng.range(1, 600));
		StartMCase(c, fields);
		if (rng.below(12) == 0 && c.host->GetVars()) {
			/* directed: a modification BELOW, then one of the whole attribute ABOVE it (`vars`),
			 * the upper one is restored - its value still contains the lower modification - and then the lower one */
			std::vector<std::string> leaves;   /* existing non-dictionary values at depth 1 and 2 (what modify/restore handles exactly) */
			{
				Dictionary::Ptr vars = c.host->GetVars();
				ObjectLock olock(vars);
				for (const auto& kv : vars) {
					if (kv.first.IsEmpty() || kv.first.Contains("."))
						continue;
					if (!kv.second.IsObjectType<Dictionary>()) {
						leaves.push_back("vars." + kv.first.GetData());
						continue;
					}
					Dictionary::Ptr sub = kv.second;
					ObjectLock slock(sub);
					for (const auto& kv2 : sub)
						if (!kv2.first.IsEmpty() && !kv2.first.Contains(".") && !kv2.second.IsObjectType<Dictionary>())
							leaves.push_back("vars." + kv.first.GetData() + "." + kv2.first.GetData());
				}
			}
			if (!leaves.empty()) {
				GenOpts plain;
				int nLow = rng.range(1, 2);
				std::vector<std::string> low;
				for (int j = 0; j < nLow; j++) {
					std::string p = leaves[rng.below(leaves.size())];
					if (std::find(low.begin(), low.end(), p) == low.end()) {
						low.push_back(p);
						DoModify(c, p, GenValue(rng, 0, plain));
					}
				}
				if (rng.below(3) == 0)
					DoModify(c, "notes", String(l_Strings[1 + rng.below(10)]));
				DoModify(c, "vars", GenDict(rng, 2, plain, 1));
				if (rng.below(4) == 0)
					DoModify(c, "vars", GenDict(rng, 1, plain, 0));
				DoRestore(c, "vars");
				if (rng.below(4) == 0)
					DoRestore(c, "vars");
				for (const auto& p : low)
					DoRestore(c, p);
				continue;
			}
		}
		int len = (int)rng.below(10);
		int n = len < 5 ? rng.range(2, 3) : (len < 8 ? rng.range(4, 5) : rng.range(6, 8));
		std::vector<std::string> touched;
		for (int j = 0; j < n; j++) {
			bool restore = !touched.empty() && rng.below(100) < 45;
			if (restore) {
				std::string p = rng.below(100) < 75 ? touched[rng.below(touched.size())] : GenPath(rng, odd, c.host);
				DoRestore(c, p);
			} else {
				std::string p = (!touched.empty() && rng.below(100) < 25) ? touched[rng.below(touched.size())] : GenPath(rng, odd, c.host);
				/* below or above an already touched path, to provoke the interplay of entries */
				if (!touched.empty() && rng.below(100) < 20) {
					p = touched[rng.below(touched.size())];
					if (rng.coin())
						p += std::string(".") + l_Keys[rng.below(5)];
					else {
						size_t dot = p.rfind('.');
						if (dot != std::string::npos)
							p = p.substr(0, dot);
					}
				}
				if (p.compare(0, 6, "notes.") == 0 && c.host->GetNotes().IsEmpty())
					p = "vars.a";
				DoModify(c, p, GenValueFor(rng, p, o));
				touched.push_back(p);
			}
		}
	}
}

/* ------------------------------------------------------------------------------------------------
 * (2) stop / start */

static const double l_Now = 1700000000.0;

/* The attributes the statement names ("states, attempts, check results, acknowledgements, downtime triggers, notification
 * bookkeeping, next check times"), per kind: what the getter record of an S line reads.  Mirror of `pinnedState` in
 * lean/IcingaModel/C14/Spec.lean, which is the authority (a name missing here makes the spec clause fail). */
static const char *l_PinnedCheckable[] = { "next_check", "check_attempt", "state_raw", "state_type", "last_state_raw", "last_hard_state_raw",
	"last_state_type", "last_reachable", "last_check_result", "last_state_change", "last_hard_state_change", "last_state_unreachable",
	"previous_state_change", "force_next_check", "acknowledgement", "acknowledgement_expiry", "acknowledgement_last_change",
	"force_next_notification", "flapping", "flapping_current", "flapping_last_change", "suppressed_notifications",
	"state_before_suppression", "executions", nullptr };
static const char *l_PinnedHost[] = { "last_state_up", "last_state_down", nullptr };
static const char *l_PinnedService[] = { "last_state_ok", "last_state_warning", "last_state_critical", "last_state_unknown", nullptr };
static const char *l_PinnedNotification[] = { "notified_problem_users", "no_more_notifications", "stashed_notifications", "last_notification",
	"next_notification", "notification_number", "last_problem_notification", "suppressed_notifications", "last_notified_state_per_user", nullptr };
static const char *l_PinnedDowntime[] = { "trigger_time", "triggers", "remove_time", nullptr };
static const char *l_PinnedUser[] = { "last_notification", nullptr };
static const char *l_PinnedNone[] = { nullptr };

static std::vector<std::string> PinnedOf(const String& kind)
{
	std::vector<std::string> r;
	auto add = [&r](const char **l) { for (; *l; l++) r.push_back(*l); };
	if (kind == "h") { add(l_PinnedCheckable); add(l_PinnedHost); }
	else if (kind == "s") { add(l_PinnedCheckable); add(l_PinnedService); }
	else if (kind == "n") add(l_PinnedNotification);
	else if (kind == "d") add(l_PinnedDowntime);
	else if (kind == "u") add(l_PinnedUser);
	else add(l_PinnedNone);
	return r;
}

/* A value as the getters show it: dictionaries and arrays member by member, any other object (CheckResult) as the dictionary
 * of ALL its fields read through GetField plus its type name - no attribute mask involved. */
static Value GetterTree(const Value& v)
{
	if (v.IsObjectType<Dictionary>()) {
		Dictionary::Ptr d = v, r = new Dictionary();
		ObjectLock olock(d);
		for (const auto& kv : d)
			r->Set(kv.first, GetterTree(kv.second));
		return r;
	}
	if (v.IsObjectType<Array>()) {
		Array::Ptr a = v, r = new Array();
		ObjectLock olock(a);
		for (const Value& x : a)
			r->Add(GetterTree(x));
		return r;
	}
	if (v.IsObject()) {
		Object::Ptr o = v;
		Type::Ptr t = o->GetReflectionType();
		Dictionary::Ptr r = new Dictionary();
		for (int i = 0; i < t->GetFieldCount(); i++) {
			Field f = t->GetFieldInfo(i);
			if (f.Attributes & FANavigation)
				continue;
			r->Set(f.Name, GetterTree(o->GetField(i)));
		}
		r->Set("type", t->GetName());
		/* an OBJECT of that type, not a dictionary that merely has these members: Serialize() shows both alike, every
		 * consumer of the value (FormatPerfdata, the perfdata writers, macros) tells them apart */
		r->Set("@object", true);
		return r;
	}
	return v;
}

static Dictionary::Ptr GettersOf(const ConfigObject::Ptr& c, const String& kind)
{
	Dictionary::Ptr r = new Dictionary();
	Type::Ptr t = c->GetReflectionType();
	for (const auto& name : PinnedOf(kind)) {
		int fid = t->GetFieldId(name);
		if (fid < 0)
			continue;               /* no such attribute any more: missing from the record, the spec clause says so */
		r->Set(name, GetterTree(c->GetField(fid)));
	}
	return r;
}

static const char *l_InventoryTypes[] = { "Host", "Service", "Notification", "Downtime", "Comment", "User", "CheckResult" };

static void PrintInventory(const std::string& typeName)
{
	printf("I %s |", typeName.c_str());
	Type::Ptr t = Type::GetByName(typeName);
	if (t) {
		for (int i = 0; i < t->GetFieldCount(); i++) {
			Field f = t->GetFieldInfo(i);
			printf(" %s:%d", f.Name, f.Attributes);
		}
	}
	printf("\n");
}

static void SetByName(const ConfigObject::Ptr& c, const char *name, const Value& v)
{
	int fid = c->GetReflectionType()->GetFieldId(name);
	if (fid >= 0)
		c->SetField(fid, v);
}

static bool IsCheckableKind(const String& kind) { return kind == "h" || kind == "s"; }

static ConfigObject::Ptr BuildConfig(const Dictionary::Ptr& spec)
{
	String kind = spec->Get("kind");
	String name = spec->Get("name");
	ConfigObject::Ptr c;
	if (kind == "h") {
		Host::Ptr h = new Host();
		h->SetName(name);
		c = h;
	} else if (kind == "n") {
		Notification::Ptr n = new Notification();
		n->SetName(name + "!n");
		SetByName(n, "host_name", name);
		SetByName(n, "interval", 300);
		c = n;
	} else if (kind == "d") {
		Downtime::Ptr d = new Downtime();
		d->SetName(name + "!d");
		SetByName(d, "host_name", name);
		SetByName(d, "author", "au");
		SetByName(d, "comment", "co");
		SetByName(d, "entry_time", l_Now - 100);
		SetByName(d, "start_time", l_Now - 50);
		SetByName(d, "end_time", l_Now + 5000);
		SetByName(d, "fixed", false);
		SetByName(d, "duration", 600);
		c = d;
	} else if (kind == "c") {
		Comment::Ptr m = new Comment();
		m->SetName(name + "!c");
		SetByName(m, "host_name", name);
		SetByName(m, "author", "au");
		SetByName(m, "text", "te");
		SetByName(m, "entry_time", l_Now - 100);
		c = m;
	} else if (kind == "u") {
		User::Ptr u = new User();
		u->SetName(name);
		c = u;
	} else {
		Service::Ptr s = new Service();
		s->SetName(name + "!s");
		s->SetShortName("s");
		s->SetHostName(name);
		c = s;
	}
	Value vars = spec->Get("vars");
	CustomVarObject::Ptr cv = dynamic_pointer_cast<CustomVarObject>(c);
	if (cv && vars.IsObjectType<Dictionary>())
		{ Dictionary::Ptr d = vars.Clone(); cv->SetVars(d); }
	if (IsCheckableKind(kind))
		static_pointer_cast<Checkable>(c)->SetNotes(spec->Get("notes"));
	c->Register();
	return c;
}

static Value Objectify(const Value& v);

/* st.x: {attribute name: value}, set through the reflection setter of the object's type (no attribute mask involved) */
static void ApplyExtra(const ConfigObject::Ptr& c, const Dictionary::Ptr& st)
{
	if (!st)
		return;
	Value xv = st->Get("x");
	if (!xv.IsObjectType<Dictionary>())
		return;
	Dictionary::Ptr x = xv;
	Type::Ptr t = c->GetReflectionType();
	ObjectLock olock(x);
	for (const auto& kv : x) {
		int fid = t->GetFieldId(kv.first);
		if (fid < 0)
			continue;
		try {
			c->SetField(fid, Objectify(kv.second));
		} catch (const std::exception&) { }
	}
}

/* The spec is JSON; a typed object nested in a state value is written as {"@pdv": [label, value, counter, unit, warn, crit,
 * min, max]} ({"@cr": {output, exit, state, command, perf}} for a CheckResult) and becomes a real PerfdataValue here - inside arrays, dictionaries and any nesting of them (what the built-in
 * icinga/cluster/cluster-zone/ido checks and check results received over the cluster put into performance_data). */
static Value Objectify(const Value& v)
{
	if (v.IsObjectType<Dictionary>()) {
		Dictionary::Ptr d = v;
		Value pv;
		if (d->Get("@pdv", &pv) && pv.IsObjectType<Array>()) {
			Array::Ptr a = pv;
			if (a->GetLength() >= 8)
				return new PerfdataValue(a->Get(0), a->Get(1), a->Get(2), a->Get(3), a->Get(4), a->Get(5), a->Get(6), a->Get(7));
		}
		if (d->Get("@cr", &pv) && pv.IsObjectType<Dictionary>()) {
			/* a CheckResult object (what Notification::stashed_notifications keeps under "cr", inside a dictionary inside an array) */
			Dictionary::Ptr c = pv;
			CheckResult::Ptr cr = new CheckResult();
			cr->SetOutput(c->Get("output"));
			cr->SetExitStatus(c->Get("exit"));
			cr->SetState((ServiceState)(int)c->Get("state"));
			cr->SetCommand(Objectify(c->Get("command")));
			Value perf = Objectify(c->Get("perf"));
			if (perf.IsObjectType<Array>())
				cr->SetPerformanceData(perf);
			cr->SetExecutionStart(l_Now - 9);
			cr->SetExecutionEnd(l_Now - 8);
			return cr;
		}
		Dictionary::Ptr r = new Dictionary();
		ObjectLock olock(d);
		for (const auto& kv : d)
			r->Set(kv.first, Objectify(kv.second));
		return r;
	}
	if (v.IsObjectType<Array>()) {
		Array::Ptr a = v, r = new Array();
		ObjectLock olock(a);
		for (const Value& x : a)
			r->Add(Objectify(x));
		return r;
	}
	return v;
}

static void ApplyState(const ConfigObject::Ptr& obj, const Dictionary::Ptr& st)
{
	if (!st)
		return;
	ApplyExtra(obj, st);
	Checkable::Ptr c = dynamic_pointer_cast<Checkable>(obj);
	if (!c || !st->Contains("state_raw"))
		return;
	c->SetStateRaw((ServiceState)(int)st->Get("state_raw"));
	c->SetStateType((StateType)(int)st->Get("state_type"));
	c->SetCheckAttempt(st->Get("check_attempt"));
	c->SetAcknowledgementRaw(st->Get("acknowledgement"));
	c->SetAcknowledgementExpiry(st->Get("acknowledgement_expiry"));
	c->SetNextCheck(st->Get("next_check"));
	c->SetLastStateChange(st->Get("last_state_change"));
	c->SetLastHardStateChange(st->Get("last_hard_state_change"));
	c->SetFlappingCurrent(st->Get("flapping_current"));
	c->SetForceNextCheck(st->Get("force_next_check"));
	c->SetSuppressedNotifications(st->Get("suppressed_notifications"));
	c->SetLastHardStateRaw((ServiceState)(int)st->Get("last_hard_state_raw"));
	Value ex = st->Get("executions");
	if (ex.IsObjectType<Dictionary>())
		{ Dictionary::Ptr d = Objectify(ex); c->SetExecutions(d); }
	if (st->Contains("deep")) {
		/* dictionaries: Serialize's cycle check compares arrays by value, which makes deep arrays cubic */
		Value v = new Dictionary();
		for (int i = 0, n = st->Get("deep"); i < n; i++)
			v = new Dictionary({ { "d", v } });
		c->SetExecutions(new Dictionary({ { "deep", v } }));
	}
	Value crv = st->Get("cr");
	if (crv.IsObjectType<Dictionary>()) {
		Dictionary::Ptr crd = crv;
		CheckResult::Ptr cr = new CheckResult();
		cr->SetCommand(Objectify(crd->Get("command")));
		Value perf = crd->Get("perf");
		if (perf.IsObjectType<Array>())
			{ Array::Ptr a = Objectify(perf); cr->SetPerformanceData(a); }
		cr->SetOutput(crd->Get("output"));
		Value va = crd->Get("vars_after");
		if (va.IsObjectType<Dictionary>())
			{ Dictionary::Ptr d = Objectify(va); cr->SetVarsAfter(d); }
		cr->SetExitStatus(crd->Get("exit"));
		cr->SetState((ServiceState)(int)crd->Get("state"));
		cr->SetExecutionStart(crd->Get("start"));
		cr->SetExecutionEnd(crd->Get("end"));
		cr->SetScheduleStart(crd->Get("start"));
		cr->SetScheduleEnd(crd->Get("end"));
		c->SetLastCheckResult(cr);
	}
}

static void ApplyMods(const ConfigObject::Ptr& c, const Array::Ptr& mods)
{
	if (!mods)
		return;
	ObjectLock olock(mods);
	for (const Value& m : mods) {
		Array::Ptr pair = m;
		try {
			c->ModifyAttribute(pair->Get(0), pair->Get(1).Clone());
		} catch (const std::exception&) { }
	}
}

static void ApplyRestores(const ConfigObject::Ptr& c, const Array::Ptr& restores)
{
	if (!restores)
		return;
	ObjectLock olock(restores);
	for (const Value& r : restores) {
		try {
			c->RestoreAttribute(r);
		} catch (const std::exception&) { }
	}
}

static void DumpBoth(const std::string& statePath)
{
	ConfigObject::DumpObjects(statePath);
	try {
		IcingaApplication::Ptr app = IcingaApplication::GetInstance();
		((*app).*get(vh::TagDumpModAttrs()))();
	} catch (const std::exception&) {
		/* the modified attributes are not persisted: the restart below shows it */
	}
}

static Dictionary::Ptr StateOf(const ConfigObject::Ptr& c)
{
	Dictionary::Ptr d = Serialize(c, FAState);
	d->Remove("version"); /* rewritten by the modified-attributes replay; reported with the config */
	return d;
}

static Dictionary::Ptr CfgOf(const ConfigObject::Ptr& c)
{
	Dictionary::Ptr d = Serialize(c, FAConfig);
	d->Set("__original_attributes", Serialize(c->GetOriginalAttributes(), 0));
	d->Set("__version", c->GetVersion());
	return d;
}

static Value GenOddNumberValue(Rng& rng);

static Array::Ptr GenNames(Rng& rng)
{
	Array::Ptr a = new Array();
	int n = rng.range(0, 3);
	for (int i = 0; i < n; i++)
		a->Add(String("user") + Convert::ToString((long)rng.below(5)) + (rng.below(4) == 0 ? "!\xc3\xa4 x" : ""));
	return a;
}

static const char *l_PerfLabels[] = { "load1", "rta", "pl", "time", "api_num_conn_endpoints", "a b", "\xc3\xa4=x" };
static const char *l_PerfUnits[] = { "", "s", "%", "B", "c", "ms" };

/* a PerfdataValue object, in the spec's notation (see Objectify) */
static Value GenPdv(Rng& rng)
{
	auto thr = [&rng]() -> Value { return rng.below(3) == 0 ? Value(Empty) : Value((double)rng.range(-5, 2000) / 4.0); };
	return new Dictionary({ { "@pdv", new Array({ Value(l_PerfLabels[rng.below(7)]), Value((double)rng.range(-40, 4000) / 8.0), Value(rng.below(4) == 0),
		Value(l_PerfUnits[rng.below(6)]), thr(), thr(), thr(), thr() }) } });
}

static double GenTs(Rng& rng) { return rng.below(5) == 0 ? 0.0 : l_Now - rng.range(-5000, 100000) + (rng.coin() ? 0.5 : 0.0); }

static Dictionary::Ptr GenSpec(Rng& rng, int idx)
{
	GenOpts cfgOpts;  /* config goes through the config loader again, not through the state file */
	cfgOpts.oddKeys = true;
	GenOpts stOpts;
	stOpts.oddKeys = true;
	stOpts.dollars = true;
	stOpts.typeKeys = rng.below(4) == 0;
	Dictionary::Ptr spec = new Dictionary();
	int kk = (int)rng.below(100);
	String kind = kk < 45 ? "h" : kk < 65 ? "s" : kk < 78 ? "n" : kk < 89 ? "d" : kk < 96 ? "u" : "c";
	spec->Set("kind", kind);
	spec->Set("name", "vh" + Convert::ToString(idx));
	bool hasVars = kind != "d" && kind != "c";
	if (hasVars)
		spec->Set("vars", GenDict(rng, 3, cfgOpts, 1));
	if (IsCheckableKind(kind))
		spec->Set("notes", String(l_Strings[rng.below(12)]));
	Dictionary::Ptr st = new Dictionary();
	Dictionary::Ptr x = new Dictionary();
	st->Set("x", x);
	if (kind == "n") {
		x->Set("notified_problem_users", GenNames(rng));
		x->Set("no_more_notifications", rng.coin());
		Array::Ptr stash = new Array();
		for (int i = 0, n = rng.range(0, 2); i < n; i++)
			stash->Add(new Dictionary({ { "notification_type", (double)(1 << rng.below(9)) },
				{ "cr", rng.coin() ? GenValue(rng, 2, stOpts) : Value(new Dictionary({ { "@cr", new Dictionary({ { "output", String(l_Strings[rng.below(12)]) },
					{ "exit", (double)rng.range(0, 3) }, { "state", (double)rng.range(0, 3) }, { "command", GenValue(rng, 1, stOpts) },
					{ "perf", new Array({ Value("a=1"), GenPdv(rng) }) } }) } })) },
				{ "force", rng.coin() },
				{ "reminder", rng.coin() }, { "author", String(l_Strings[rng.below(12)]) }, { "text", String(l_Strings[rng.below(12)]) } }));
		x->Set("stashed_notifications", stash);
		x->Set("last_notification", GenTs(rng));
		x->Set("next_notification", GenTs(rng));
		x->Set("notification_number", (double)rng.range(0, 50));
		x->Set("last_problem_notification", GenTs(rng));
		x->Set("suppressed_notifications", (double)rng.range(0, 511));
		Dictionary::Ptr per = new Dictionary();
		for (int i = 0, n = rng.range(0, 3); i < n; i++)
			per->Set(String("user") + Convert::ToString((long)rng.below(5)) + (rng.below(5) == 0 ? ".x y" : ""), (double)rng.range(0, 3));
		x->Set("last_notified_state_per_user", per);
	} else if (kind == "d") {
		x->Set("trigger_time", GenTs(rng));
		Array::Ptr trig = new Array();
		for (int i = 0, n = rng.range(0, 3); i < n; i++)
			trig->Add(String("vh") + Convert::ToString((long)rng.below(300)) + "!d");
		x->Set("triggers", trig);
		x->Set("legacy_id", (double)rng.range(0, 100000));
		x->Set("remove_time", GenTs(rng));
	} else if (kind == "c") {
		x->Set("legacy_id", (double)rng.range(0, 100000));
	} else if (kind == "u") {
		x->Set("last_notification", GenTs(rng));
	}
	if (!IsCheckableKind(kind)) {
		spec->Set("st", st);
	} else {
	x->Set("last_state_raw", (double)rng.range(0, 3));
	x->Set("last_state_type", (double)rng.range(0, 1));
	x->Set("last_reachable", rng.coin());
	x->Set("last_state_unreachable", GenTs(rng));
	x->Set("previous_state_change", GenTs(rng));
	x->Set("acknowledgement_last_change", GenTs(rng));
	x->Set("force_next_notification", rng.coin());
	x->Set("flapping", rng.coin());
	x->Set("flapping_last_change", GenTs(rng));
	x->Set("state_before_suppression", (double)rng.range(0, 3));
	if (kind == "h") {
		x->Set("last_state_up", GenTs(rng));
		x->Set("last_state_down", GenTs(rng));
	} else {
		x->Set("last_state_ok", GenTs(rng));
		x->Set("last_state_warning", GenTs(rng));
		x->Set("last_state_critical", GenTs(rng));
		x->Set("last_state_unknown", GenTs(rng));
	}
	st->Set("state_raw", (double)rng.range(0, 3));
	st->Set("state_type", (double)rng.range(0, 1));
	st->Set("check_attempt", (double)rng.range(1, 5));
	st->Set("acknowledgement", (double)rng.range(0, 2));
	st->Set("acknowledgement_expiry", rng.coin() ? 0.0 : l_Now + rng.range(1, 100000));
	st->Set("next_check", l_Now + rng.range(-1000, 1000));
	st->Set("last_state_change", l_Now - rng.range(0, 100000));
	st->Set("last_hard_state_change", l_Now - rng.range(0, 100000));
	st->Set("flapping_current", (double)rng.range(0, 400) / 4.0);
	st->Set("force_next_check", rng.coin());
	st->Set("suppressed_notifications", (double)rng.range(0, 63));
	st->Set("last_hard_state_raw", (double)rng.range(0, 3));
	if (rng.below(3) != 0) {
		Dictionary::Ptr ex = GenDict(rng, 3, stOpts, 1);
		if (rng.below(8) == 0)         /* typed objects below dictionaries and arrays of any state attribute */
			ex->Set("pd", rng.coin() ? GenPdv(rng) : Value(new Array({ Value("x"), new Dictionary({ { "in", new Array({ GenPdv(rng) }) } }) })));
		st->Set("executions", ex);
	}
	if (rng.below(4) != 0) {
		Dictionary::Ptr cr = new Dictionary();
		cr->Set("command", GenValue(rng, 3, stOpts));
		Array::Ptr perf = new Array();
		int n = rng.range(0, 3);
		bool objs = rng.below(3) == 0;   /* PerfdataValue objects (internal checks, cluster) instead of / beside plugin strings */
		for (int i = 0; i < n; i++)
			perf->Add(objs && rng.below(4) != 0 ? GenPdv(rng) : GenValue(rng, 2, stOpts));
		cr->Set("perf", perf);
		cr->Set("output", String(l_Strings[rng.below(12)]) + (rng.coin() ? " | $x$" : ""));
		cr->Set("vars_after", GenDict(rng, 2, stOpts));
		cr->Set("exit", (double)rng.range(0, 3));
		cr->Set("state", (double)rng.range(0, 3));
		cr->Set("start", l_Now - 5);
		cr->Set("end", l_Now - 4);
		st->Set("cr", cr);
	}
	spec->Set("st", st);
	}
	if (hasVars && rng.below(3) == 0) {
		/* runtime modifications of existing leaves (what modify_restore_partial covers) and of `notes` */
		Array::Ptr mods = new Array();
		Dictionary::Ptr vars = spec->Get("vars");
		std::vector<String> keys = vars->GetKeys();
		int n = rng.range(1, 3);
		GenOpts mo;
		mo.writerKeys = true;   /* the values are written as DSL text by the config writer and read back by the compiler */
		std::set<String> usedKeys;
		for (int i = 0; i < n; i++) {
			if (IsCheckableKind(kind) && rng.below(4) == 0) {
				mods->Add(new Array({ "notes", String(l_Strings[1 + rng.below(10)]) }));
				continue;
			}
			String key = keys[rng.below(keys.size())];
			if (key.IsEmpty() || key.Contains("."))
				continue;
			usedKeys.insert(key);
			if (vars->Get(key).IsObjectType<Dictionary>())
				continue;
			int vk = (int)rng.below(100);
			mods->Add(new Array({ Value("vars." + key), vk < 30 ? GenOddNumberValue(rng) : vk < 60 ? Value(GenDict(rng, 2, mo, 1)) : GenValue(rng, 2, mo) }));
		}
		spec->Set("mods", mods);
		if (rng.below(4) == 0 && mods->GetLength() > 0) {
			/* some of them are restored again before the shutdown */
			Array::Ptr restores = new Array();
			ObjectLock olock(mods);
			for (const Value& m : mods) {
				/* only attributes modified exactly once (what modify_restore_partial covers; repeated modification is F-C14b's
				 * territory and explored by the modify/restore cases) */
				String path = static_cast<Array::Ptr>(m)->Get(0);
				int times = 0;
				for (const Value& m2 : mods)
					if (static_cast<Array::Ptr>(m2)->Get(0) == path)
						times++;
				if (times == 1 && rng.coin())
					restores->Add(path);
			}
			spec->Set("restore", restores);
		}
	}
	if (hasVars && !spec->Contains("mods") && rng.below(8) == 0) {
		/* a nested leaf is modified, then the enclosing attribute as a whole, and the whole attribute is restored again before
		 * the shutdown: the value it returns to still contains the nested modification, which therefore is still a runtime
		 * modification (written to modified-attributes.conf, restorable) */
		Dictionary::Ptr vars = spec->Get("vars");
		std::vector<String> leaves;
		for (const String& key : vars->GetKeys())
			if (!key.IsEmpty() && !key.Contains(".") && !vars->Get(key).IsObjectType<Dictionary>())
				leaves.push_back(key);
		if (!leaves.empty()) {
			GenOpts mo;
			mo.writerKeys = rng.coin();
			Array::Ptr mods = new Array(), restores = new Array();
			String key = leaves[rng.below(leaves.size())];
			Value nested = new Array({ Value("vars." + key), rng.coin() ? Value((double)rng.range(1, 99)) : GenValue(rng, 1, mo) });
			Dictionary::Ptr whole = GenDict(rng, 2, GenOpts(), 1);
			/* F-C14j: in the other order (whole attribute first, then a key of the NEW value) the nested entry recorded in
			 * between survives the restore of the whole attribute as a stale original */
			bool nestedFirst = rng.below(5) != 0;
			if (nestedFirst)
				mods->Add(nested);
			mods->Add(new Array({ Value("vars"), Value(whole) }));
			if (!nestedFirst) {
				whole->Set(key, "w");
				mods->Add(nested);
			}
			if (IsCheckableKind(kind) && rng.coin())
				mods->Add(new Array({ "notes", String(l_Strings[1 + rng.below(10)]) }));
			restores->Add("vars");
			spec->Set("mods", mods);
			spec->Set("restore", restores);
		}
	}
	return spec;
}

static const double l_OddNumbers[] = { 1e-300, 1e300, 9007199254740991.0, 9007199254740992.0, 9007199254740994.0, 1e17, 1e-4, 5e-5,
	-1e17, -5e-5, 0.1234567, 1234567.1234567, -2.5, 1e-7, 1.2345678901234568e20, 1.7976931348623157e308, 4.9e-324, 0.000001, 0.5,
	-1234.5678912, 1e16, 99999999999999990000.0, 0.1, 1e-5, 123456.125 };

static Value GenOddNumberValue(Rng& rng)
{
	double x = l_OddNumbers[rng.below(sizeof(l_OddNumbers) / sizeof(l_OddNumbers[0]))];
	switch (rng.below(4)) {
		case 0: return new Array({ Value(x), Value("s") });
		case 1: return new Dictionary({ { "n", Value(x) } });
		default: return x;
	}
}

static void CollectNumbers(const Value& v, std::vector<double>& out)
{
	if (v.IsNumber() && !v.IsBoolean())
		out.push_back(v);
	else if (v.IsObjectType<Dictionary>()) {
		Dictionary::Ptr d = v;
		ObjectLock olock(d);
		for (const auto& kv : d)
			CollectNumbers(kv.second, out);
	} else if (v.IsObjectType<Array>()) {
		Array::Ptr a = v;
		ObjectLock olock(a);
		for (const Value& x : a)
			CollectNumbers(x, out);
	}
}

/* What the config writer + compiler make of each number in the modifications (oracle input: the text format is C17's subject). */
static std::string NumOracle(const Array::Ptr& mods)
{
	std::vector<double> nums;
	if (mods) {
		ObjectLock olock(mods);
		for (const Value& m : mods)
			CollectNumbers(static_cast<Array::Ptr>(m)->Get(1), nums);
	}
	std::string r;
	std::set<std::string> seen;
	for (double x : nums) {
		std::string before = J(x), after;
		if (seen.count(before))
			continue;
		seen.insert(before);
		try {
			std::ostringstream os;
			ConfigWriter::EmitValue(os, 0, x);
			std::unique_ptr<Expression> expr = ConfigCompiler::CompileText("<oracle>", os.str());
			ScriptFrame frame(true);
			after = J(expr->Evaluate(frame));
		} catch (const std::exception&) {
			after = "!";
		}
		if (after != before)
			r += (r.empty() ? "" : ",") + before + ">" + after;
	}
	return r.empty() ? "-" : r;
}

static void CollectKeys(const Value& v, std::set<std::string>& out)
{
	if (v.IsObjectType<Dictionary>()) {
		Dictionary::Ptr d = v;
		ObjectLock olock(d);
		for (const auto& kv : d) {
			out.insert(kv.first.GetData());
			CollectKeys(kv.second, out);
		}
	} else if (v.IsObjectType<Array>()) {
		Array::Ptr a = v;
		ObjectLock olock(a);
		for (const Value& x : a)
			CollectKeys(x, out);
	}
}

/* What the config writer + compiler make of each dictionary key inside the modifications (oracle input, as for numbers): a key
 * `k` for which `{ k = 1 }` written by ConfigWriter::EmitValue does not evaluate to the same dictionary again is reported as
 * `k:<hex key>>!` (the statement holding it fails when modified-attributes.conf is evaluated at start-up). */
static std::string KeyOracle(const Array::Ptr& mods)
{
	std::set<std::string> keys;
	if (mods) {
		ObjectLock olock(mods);
		for (const Value& m : mods)
			CollectKeys(static_cast<Array::Ptr>(m)->Get(1), keys);
	}
	std::string r;
	for (const auto& k : keys) {
		Dictionary::Ptr d = new Dictionary({ { String(k), 1 } });
		std::string before = J(d), after;
		try {
			std::ostringstream os;
			ConfigWriter::EmitValue(os, 0, d);
			std::unique_ptr<Expression> expr = ConfigCompiler::CompileText("<oracle>", os.str());
			ScriptFrame frame(true);
			after = J(expr->Evaluate(frame));
		} catch (const std::exception&) {
			after = "!";
		}
		if (after != before)
			r += (r.empty() ? "" : ",") + std::string("k:") + (k.empty() ? "" : Hex(k)) + ">!";
	}
	return r;
}

static std::string Oracle(const Array::Ptr& mods)
{
	std::string n = NumOracle(mods), k = KeyOracle(mods);
	if (k.empty())
		return n;
	return n == "-" ? k : n + "," + k;
}

static std::set<std::string> l_TypeValues;

static void CollectTypeValues(const Value& v)
{
	if (v.IsObjectType<Dictionary>()) {
		Dictionary::Ptr d = v;
		ObjectLock olock(d);
		for (const auto& kv : d) {
			if (kv.first == "type" && kv.second.IsString())
				l_TypeValues.insert(static_cast<String>(kv.second).GetData());
			CollectTypeValues(kv.second);
		}
	} else if (v.IsObjectType<Array>()) {
		Array::Ptr a = v;
		ObjectLock olock(a);
		for (const Value& x : a)
			CollectTypeValues(x);
	}
}

static std::string KnownTypes(const Value& tree)
{
	l_TypeValues.clear();
	CollectTypeValues(tree);
	std::string r;
	for (const auto& t : l_TypeValues) {
		if (t.empty() || t.find_first_of(", ") != std::string::npos)
			continue;
		if (Type::GetByName(t)) {
			if (!r.empty())
				r += ",";
			r += t;
		}
	}
	return r.empty() ? "-" : r;
}

static std::string l_Self;

static void RunSBatch(const std::vector<Dictionary::Ptr>& specs, int batchNo)
{
	if (specs.empty())
		return;
	std::string dir = "/tmp/vh_c14_" + std::to_string((long)getpid()) + "_" + std::to_string(batchNo);
	mkdir(dir.c_str(), 0700);
	std::string statePath = dir + "/icinga2.state";
	std::string modPath = dir + "/modified-attributes.conf";
	Configuration::ModAttrPath = modPath;
	SetNow(l_Now);

	std::vector<ConfigObject::Ptr> objs;
	{
		std::ofstream sf(dir + "/specs.txt");
		for (const auto& spec : specs) {
			sf << Hex(J(spec)) << "\n";
			ConfigObject::Ptr c = BuildConfig(spec);
			ApplyState(c, spec->Get("st"));
			ApplyMods(c, spec->Get("mods"));
			objs.push_back(c);
		}
	}
	/* modifications restored again at run time: a complete dump happens first (as the retention timer would), the dump that
	 * the restart reads is made after the restores */
	bool anyRestore = false;
	for (const auto& spec : specs)
		anyRestore = anyRestore || spec->Contains("restore");
	if (anyRestore) {
		DumpBoth(statePath);
		for (size_t i = 0; i < specs.size(); i++)
			ApplyRestores(objs[i], specs[i]->Get("restore"));
	}
	std::vector<std::string> sb, cb, gb;
	for (size_t i = 0; i < objs.size(); i++) {
		sb.push_back(J(StateOf(objs[i])));
		cb.push_back(J(CfgOf(objs[i])));
		gb.push_back(J(GettersOf(objs[i], specs[i]->Get("kind"))));
	}
	DumpBoth(statePath);
	{
		struct stat stt;
		printf("B %d %zu %lld\n", batchNo, specs.size(), stat(statePath.c_str(), &stt) == 0 ? (long long)stt.st_size : -1LL);
	}

	fflush(stdout);
	pid_t pid = fork();
	if (pid == 0) {
		execl(l_Self.c_str(), l_Self.c_str(), "restore", dir.c_str(), (char *)nullptr);
		_exit(99);
	}
	int status = 0;
	waitpid(pid, &status, 0);
	std::ifstream af(dir + "/after.txt");
	std::string loaded = "0";
	af >> loaded;
	for (size_t i = 0; i < specs.size(); i++) {
		std::string sa = "-", ca = "-", ga = "-";
		af >> sa >> ca >> ga;
		Dictionary::Ptr stateTree = JsonDecode(sb[i]);
		printf("S %s | %s %s %s %s %s %s %s %s %s\n", Hex(J(specs[i])).c_str(), KnownTypes(stateTree).c_str(),
			Hex(sb[i]).c_str(), sa.c_str(), Hex(cb[i]).c_str(), ca.c_str(), loaded.c_str(), Oracle(specs[i]->Get("mods")).c_str(),
			Hex(gb[i]).c_str(), ga.c_str());
	}
	for (const auto& c : objs)
		c->Unregister();
	Utility::RemoveDirRecursive(dir);
}

static int RestoreMain(const std::string& dir)
{
	Configuration::ModAttrPath = dir + "/modified-attributes.conf";
	SetNow(l_Now + 60);
	std::ifstream sf(dir + "/specs.txt");
	std::vector<ConfigObject::Ptr> objs;
	std::vector<String> kinds;
	std::string hx;
	while (sf >> hx) {
		std::string js;
		UnHex(hx, js);
		Dictionary::Ptr spec = JsonDecode(js);
		objs.push_back(BuildConfig(spec));
		kinds.push_back(spec->Get("kind"));
	}
	ConfigObject::RestoreObjects(dir + "/icinga2.state");          /* daemoncommand.cpp:289 */
	int loaded = 1;
	try {
		ConfigItem::ActivateItems({}, false, false, true);         /* daemoncommand.cpp:302 → configitem.cpp:648-664 */
	} catch (const std::exception&) {
		loaded = 0;                                                /* modified-attributes.conf does not compile */
	}
	std::ofstream af(dir + "/after.txt");
	af << loaded << "\n";
	for (size_t i = 0; i < objs.size(); i++)
		af << Hex(J(StateOf(objs[i]))) << " " << Hex(J(CfgOf(objs[i]))) << " " << Hex(J(GettersOf(objs[i], kinds[i]))) << "\n";
	af.close();
	_exit(0);
}

/* ------------------------------------------------------------------------------------------------
 * (3) kill during a write */

static std::vector<Host::Ptr> l_KHosts;
static std::string l_KDir;
static std::string l_KObjPath;   /* config file of the runtime-created object of kind `createobj` */
static const char *l_KObjName = "kcobj";

static void KSetup()
{
	if (!l_KHosts.empty())
		return;
	l_KDir = "/tmp/vh_c14_k_" + std::to_string((long)getpid());
	mkdir(l_KDir.c_str(), 0700);
	for (int i = 0; i < 3; i++) {
		Host::Ptr h = new Host();
		h->SetName("kh" + Convert::ToString(i));
		h->SetVars(new Dictionary({ { "x", "config" }, { "y", 1 } }));
		h->Register();
		l_KHosts.push_back(h);
	}
	/* kind `createobj`: the config file of a runtime-created object, written by its real caller
	 * ConfigObjectUtility::CreateObject (configobjectutility.cpp:181-321, the path of PUT /v1/objects) into the _api package
	 * of a scratch data directory; the package and its active stage exist before the first tracked write */
	Configuration::DataDir = l_KDir + "/data";
	Utility::MkDirP(Configuration::DataDir, 0700);
	try {
		ConfigObjectUtility::CreateStorage();
		{
			Array::Ptr errors = new Array();
			String cfg = ConfigObjectUtility::CreateObjectConfig(CheckCommand::TypeInstance, "kc-cmd", false, nullptr,
				new Dictionary({ { "command", new Array({ "/bin/true" }) } }));
			if (!ConfigObjectUtility::CreateObject(CheckCommand::TypeInstance, "kc-cmd", cfg, errors, nullptr))
				fprintf(stderr, "createobj setup: %s\n", JsonEncode(errors).CStr());
		}
		l_KObjPath = ConfigObjectUtility::ComputeNewObjectConfigPath(Host::TypeInstance, l_KObjName).GetData();
	} catch (const std::exception& ex) {
		fprintf(stderr, "createobj setup failed: %s\n", ex.what());
	}
}

/* `statenew`, `modattrnew`, `writenew`: the same writes onto a path that does NOT exist yet - the first state file / modified
 * attributes file of an installation, the config file of a runtime-created object (ConfigObjectUtility::CreateObject ->
 * AtomicFile::Write).  The complete previous version is "no file": after a kill the path is absent or holds the complete new
 * version. */
static bool IsNewKind(const std::string& kind) { return kind == "createobj" || (kind.size() > 3 && kind.compare(kind.size() - 3, 3, "new") == 0); }
static std::string BaseKind(const std::string& kind) { return (kind != "createobj" && IsNewKind(kind)) ? kind.substr(0, kind.size() - 3) : kind; }

static std::string KPath(const std::string& kindIn)
{
	std::string kind = BaseKind(kindIn);
	if (kind == "state") return l_KDir + "/icinga2.state";
	if (kind == "modattr") return l_KDir + "/modified-attributes.conf";
	if (kind == "createobj") return l_KObjPath;
	return l_KDir + "/object.conf";
}

/* the content of version `ver` (0 = old, 1 = new) for content seed `cseed` is applied to this process's objects */
static std::string KApply(const std::string& kindIn, uint64_t cseed, int ver)
{
	std::string kind = BaseKind(kindIn);
	Rng rng(cseed * 2 + ver + 1);
	GenOpts o;
	o.oddKeys = true;
	SetNow(l_Now + ver);
	if (kind == "state") {
		for (auto& h : l_KHosts) {
			h->SetExecutions(GenDict(rng, 3, o, 1));
			h->SetCheckAttempt(1 + ver);
			CheckResult::Ptr cr = new CheckResult();
			std::string out(3000 + rng.below(3000), ver ? 'n' : 'o');
			cr->SetOutput(out);
			cr->SetCommand(GenValue(rng, 2, o));
			h->SetLastCheckResult(cr);
		}
	} else if (kind == "modattr") {
		GenOpts mo;
		for (auto& h : l_KHosts) {
			h->ModifyAttribute("vars.x", String(std::string(2000 + rng.below(2000), ver ? 'n' : 'o')));
			h->ModifyAttribute("vars.y", GenValue(rng, 2, mo));
			h->ModifyAttribute("notes", ver ? "new" : "old");
		}
	} else if (kind == "createobj") {
		Dictionary::Ptr attrs = new Dictionary({ { "check_command", "kc-cmd" }, { "vars", Value(GenDict(rng, 3, o, 1)) },
			{ "notes", String(std::string(6000 + rng.below(6000), 'n')) }, { "address", String("192.0.2." + std::to_string(rng.below(250))) } });
		return ConfigObjectUtility::CreateObjectConfig(Host::TypeInstance, l_KObjName, false, nullptr, attrs).GetData();
	} else {
		std::string s;
		size_t n = 9000 + rng.below(6000);
		for (size_t i = 0; i < n; i++)
			s.push_back((char)('a' + rng.below(26)));
		return (ver ? "new:" : "old:") + s;
	}
	return "";
}

static void KWrite(const std::string& kindIn, const std::string& content)
{
	std::string kind = BaseKind(kindIn);
	std::string path = KPath(kind);
	if (kind == "state")
		ConfigObject::DumpObjects(path);
	else if (kind == "modattr") {
		Configuration::ModAttrPath = path;
		IcingaApplication::Ptr app = IcingaApplication::GetInstance();
		((*app).*get(vh::TagDumpModAttrs()))();
	} else if (kind == "createobj") {
		Array::Ptr errors = new Array();
		if (!ConfigObjectUtility::CreateObject(Host::TypeInstance, l_KObjName, content, errors, nullptr))
			BOOST_THROW_EXCEPTION(std::runtime_error(("CreateObject: " + JsonEncode(errors)).GetData()));
	} else
		AtomicFile::Write(path, 0644, content);
}

/* fork a child that applies version `ver` and performs the write, dying inside call `killAt` (-1: never);
 * returns the child's call log ("" when it died) */
static std::string KChildWrite(const std::string& kind, uint64_t cseed, int ver, int killAt, bool partial, bool *hung)
{
	int pfd[2];
	if (pipe(pfd) != 0)
		return "";
	fflush(stdout);
	pid_t pid = fork();
	if (pid == 0) {
		::close(pfd[0]);
		alarm(20);
		std::string content = KApply(kind, cseed, ver);
		TrackBegin(KPath(kind), killAt, partial);
		try {
			KWrite(kind, content);
		} catch (const std::exception& ex) {
			TrackEnd();
			std::string msg = std::string("EXC ") + ex.what();
			(void)!::write(pfd[1], msg.data(), msg.size());
			_exit(3);
		}
		TrackEnd();
		(void)!::write(pfd[1], g_Log, g_LogLen);
		_exit(0);
	}
	::close(pfd[1]);
	std::string log;
	char buf[4096];
	ssize_t n;
	while ((n = read(pfd[0], buf, sizeof(buf))) > 0)
		log.append(buf, n);
	::close(pfd[0]);
	int status = 0;
	waitpid(pid, &status, 0);
	if (WIFSIGNALED(status) && WTERMSIG(status) == SIGALRM)
		*hung = true;
	return log;
}

/* fork a child (from this pristine process) that loads the file with the real loader and reports what it got */
static std::string KChildLoad(const std::string& kindIn, bool *hung)
{
	std::string kind = BaseKind(kindIn);
	if (kind == "write")
		return "";
	int pfd[2];
	if (pipe(pfd) != 0)
		return "";
	fflush(stdout);
	pid_t pid = fork();
	if (pid == 0) {
		::close(pfd[0]);
		alarm(20);
		std::string out;
		try {
			if (kind == "state") {
				ConfigObject::RestoreObjects(KPath(kind));
				for (auto& h : l_KHosts)
					out += J(Serialize(h, FAState)) + "\n";
			} else if (kind == "createobj") {
				/* what start-up makes of the file (include_recursive of the _api package's conf.d): compile, evaluate, commit */
				std::unique_ptr<Expression> expr = ConfigCompiler::CompileFile(KPath(kind), String(), "_api");
				ActivationScope ascope;
				ScriptFrame frame(true);
				expr->Evaluate(frame);
				expr.reset();
				WorkQueue upq;
				std::vector<ConfigItem::Ptr> newItems;
				if (!ConfigItem::CommitItems(ascope.GetContext(), upq, newItems, true))
					out = "COMMIT-FAILED";
				else
					for (const auto& item : newItems)
						out += J(Serialize(item->GetObject(), FAConfig)) + "\n";
			} else {
				Configuration::ModAttrPath = KPath(kind);
				ConfigItem::ActivateItems({}, false, false, true);
				for (auto& h : l_KHosts)
					out += J(h->GetVars()) + " " + J(h->GetNotes()) + " " + J(h->GetOriginalAttributes()) + " " + J(h->GetVersion()) + "\n";
			}
		} catch (const std::exception& ex) {
			out = std::string("EXC ") + ex.what();
		}
		size_t off = 0;
		while (off < out.size()) {
			ssize_t w = ::write(pfd[1], out.data() + off, out.size() - off);
			if (w <= 0)
				break;
			off += w;
		}
		_exit(0);
	}
	::close(pfd[1]);
	std::string res;
	char buf[4096];
	ssize_t n;
	while ((n = read(pfd[0], buf, sizeof(buf))) > 0)
		res.append(buf, n);
	::close(pfd[0]);
	int status = 0;
	waitpid(pid, &status, 0);
	if (WIFSIGNALED(status) && WTERMSIG(status) == SIGALRM)
		*hung = true;
	return res;
}

/* The denotation of a file, independent of the order in which the objects were written: the state file as the sorted
 * list of its netstring frames, the modified-attributes script as the sorted list of its per-object blocks. */
static std::string Canon(const std::string& kindIn, const std::string& bytes)
{
	std::string kind = BaseKind(kindIn);
	std::vector<std::string> parts;
	if (kind == "state") {
		size_t i = 0;
		while (i < bytes.size()) {
			size_t colon = bytes.find(':', i);
			if (colon == std::string::npos || colon == i || colon - i > 9)
				return "!" + bytes;
			size_t len = 0;
			for (size_t k = i; k < colon; k++) {
				if (bytes[k] < '0' || bytes[k] > '9')
					return "!" + bytes;
				len = len * 10 + (bytes[k] - '0');
			}
			if (colon + 1 + len >= bytes.size() || bytes[colon + 1 + len] != ',')
				return "!" + bytes;
			parts.push_back(bytes.substr(colon + 1, len));
			i = colon + 1 + len + 1;
		}
	} else if (kind == "modattr") {
		size_t i = 0;
		while (i <= bytes.size()) {
			size_t j = bytes.find("\n\nvar obj = ", i);
			if (j == std::string::npos) {
				parts.push_back(bytes.substr(i));
				break;
			}
			parts.push_back(bytes.substr(i, j - i) + "\n");
			i = j + 2;
		}
	} else
		return bytes;
	std::sort(parts.begin(), parts.end());
	std::string r;
	for (const auto& p : parts)
		r += std::to_string(p.size()) + ":" + p + ",";
	return r;
}

struct KRef {
	std::string oldBytes, newBytes, oldLoad, newLoad;
	std::vector<std::string> calls;
};

static void KClean(const std::string& kind)
{
	for (const auto& p : GlobTmp(KPath(kind)))
		::unlink(p.c_str());
}

static bool KPrepare(const std::string& kind, uint64_t cseed, KRef& ref, int *hangs)
{
	std::string path = KPath(kind);
	bool ex, hung = false;
	::unlink(path.c_str());
	KClean(kind);
	if (!IsNewKind(kind)) {
		KChildWrite(kind, cseed, 0, -1, false, &hung);
		ref.oldBytes = ReadFileBytes(path, &ex);
		if (!ex)
			return false;
		ref.oldLoad = KChildLoad(kind, &hung);
	}
	std::string log = KChildWrite(kind, cseed, 1, -1, false, &hung);
	ref.newBytes = ReadFileBytes(path, &ex);
	if (!ex) {
		fprintf(stderr, "K %s: no file after the complete write (%s): %s\n", kind.c_str(), path.c_str(), log.substr(0, 600).c_str());
		return false;
	}
	ref.newLoad = KChildLoad(kind, &hung);
	ref.calls = SplitWs(log);
	if (hung)
		(*hangs)++;
	if (IsNewKind(kind))
		return !ref.newBytes.empty();
	return Canon(kind, ref.oldBytes) != Canon(kind, ref.newBytes) && (kind == "write" || ref.oldLoad != ref.newLoad);
}

static void KOne(const std::string& kind, uint64_t cseed, const KRef& ref, int k, bool partial, int *hangs)
{
	std::string path = KPath(kind);
	bool hung = false;
	KClean(kind);
	if (IsNewKind(kind))
		::unlink(path.c_str());         /* no previous version */
	else
		WriteFileBytes(path, ref.oldBytes);
	int n = (int)ref.calls.size();
	KChildWrite(kind, cseed, 1, k >= n ? -1 : k, partial, &hung);
	bool ex;
	std::string bytes = ReadFileBytes(path, &ex);
	const char *found = "other";
	if (!ex)
		found = "absent";
	else {
		std::string load = KChildLoad(kind, &hung);
		std::string canon = Canon(kind, bytes);
		if (!IsNewKind(kind) && canon == Canon(kind, ref.oldBytes) && load == ref.oldLoad)
			found = "old";
		else if (canon == Canon(kind, ref.newBytes) && load == ref.newLoad)
			found = "new";
	}
	std::string call = k < n ? ref.calls[k].substr(0, ref.calls[k].find(':')) : "end";
	printf("K %s %llu %d %c | %s %s\n", kind.c_str(), (unsigned long long)cseed, k, partial ? 'p' : 'b', call.c_str(), found);
	if (hung)
		(*hangs)++;
}

static void KLeftover(const std::string& kind, uint64_t cseed, int *hangs)
{
	bool hung = false;
	KChildWrite(kind, cseed, 1, 3, false, &hung); /* dies inside the first write: a temp file stays behind */
	size_t before = GlobTmp(KPath(kind)).size();
	KChildWrite(kind, cseed, 1, -1, false, &hung);
	size_t after = GlobTmp(KPath(kind)).size();
	printf("L %s %llu | %zu %zu\n", kind.c_str(), (unsigned long long)cseed, before, after);
	if (hung)
		(*hangs)++;
}

static void PrintW(const std::string& kind, uint64_t cseed, const KRef& ref)
{
	printf("W %s %llu | %zu", kind.c_str(), (unsigned long long)cseed, ref.calls.size());
	for (const auto& c : ref.calls)
		printf(" %s", c.c_str());
	printf("\n");
}

static int GenK(Rng& rng, int rounds)
{
	KSetup();
	int hangs = 0;
	const char *kinds[] = { "state", "modattr", "write", "writenew", "statenew", "modattrnew", "createobj" };
	for (int r = 0; r < rounds; r++) {
		for (const char *kind : kinds) {
			uint64_t cseed = rng.below(1000000);
			KRef ref;
			if (!KPrepare(kind, cseed, ref, &hangs)) {
				printf("W %s %llu | 0 PREPARE-FAILED\n", kind, (unsigned long long)cseed);
				continue;
			}
			PrintW(kind, cseed, ref);
			int n = (int)ref.calls.size();
			for (int k = 0; k <= n; k++) {
				KOne(kind, cseed, ref, k, false, &hangs);
				if (k < n && ref.calls[k].compare(0, 5, "write") == 0)
					KOne(kind, cseed, ref, k, true, &hangs);
			}
			KLeftover(kind, cseed, &hangs);
		}
	}
	return hangs;
}

/* ------------------------------------------------------------------------------------------------
 * ops replay */

static int RunOps(const char *file)
{
	std::ifstream in(file);
	std::string line;
	MCase mc;
	bool haveM = false;
	std::vector<Dictionary::Ptr> specs;
	std::map<std::string, KRef> refs;
	int hangs = 0;
	int batch = 0;
	while (std::getline(in, line)) {
		size_t bar = line.find(" | ");
		if (bar != std::string::npos)
			line = line.substr(0, bar);
		std::vector<std::string> w = SplitWs(line);
		if (w.empty())
			continue;
		try {
			if (w[0] == "C" && w.size() >= 3 && w[1] == "M") {
				std::string js;
				UnHex(w[2], js);
				StartMCase(mc, JsonDecode(js));
				haveM = true;
			} else if (w[0] == "M" && w.size() >= 3) {
				if (!haveM) { StartMCase(mc, nullptr); haveM = true; }
				std::string attr, js;
				UnHex(w[1], attr);
				UnHex(w[2], js);
				DoModify(mc, attr, JsonDecode(js));
			} else if (w[0] == "R" && w.size() >= 2) {
				if (!haveM) { StartMCase(mc, nullptr); haveM = true; }
				std::string attr;
				UnHex(w[1], attr);
				DoRestore(mc, attr);
			} else if (w[0] == "I" && w.size() >= 2) {
				PrintInventory(w[1]);
			} else if (w[0] == "S" && w.size() >= 2) {
				std::string js;
				UnHex(w[1], js);
				specs.push_back(JsonDecode(js));
			} else if ((w[0] == "W" || w[0] == "K" || w[0] == "L") && w.size() >= 3) {
				KSetup();
				std::string kind = w[1];
				uint64_t cseed = strtoull(w[2].c_str(), nullptr, 10);
				std::string key = kind + ":" + w[2];
				if (!refs.count(key)) {
					KRef ref;
					if (!KPrepare(kind, cseed, ref, &hangs)) {
						printf("W %s %llu | 0 PREPARE-FAILED\n", kind.c_str(), (unsigned long long)cseed);
						continue;
					}
					refs[key] = ref;
					PrintW(kind, cseed, ref); /* the driver needs the word before the K lines */
				}
				if (w[0] == "K" && w.size() >= 5)
					KOne(kind, cseed, refs[key], atoi(w[3].c_str()), w[4] == "p", &hangs);
				else if (w[0] == "L")
					KLeftover(kind, cseed, &hangs);
			} else {
				printf("%s\n", line.c_str()); /* unknown: let the driver flag it */
			}
		} catch (const std::exception& ex) {
			printf("X harness-exception %s\n", Hex(ex.what()).c_str());
		}
	}
	RunSBatch(specs, batch++);
	fflush(stdout);
	return hangs ? 4 : 0;
}

int main(int argc, char **argv)
{
	if (argc < 2) {
		fprintf(stderr, "usage: %s gen --seed S --tier quick|thorough | ops FILE | restore DIR\n", argv[0]);
		return 2;
	}
	{
		char buf[4096];
		ssize_t n = readlink("/proc/self/exe", buf, sizeof(buf) - 1);
		l_Self = n > 0 ? std::string(buf, n) : argv[0];
	}
	InitIcinga();
	Configuration::Concurrency = 2;
	std::string mode = argv[1];
	if (mode == "restore" && argc >= 3)
		return RestoreMain(argv[2]);
	if (mode == "ops" && argc >= 3) {
		int rc = RunOps(argv[2]);
		if (!l_KDir.empty())
			Utility::RemoveDirRecursive(l_KDir);
		fflush(stdout);
		_exit(rc);
	}
	uint64_t seed = strtoull(argOr(argc, argv, "--seed", "1"), nullptr, 10);
	bool thorough = !strcmp(argOr(argc, argv, "--tier", "quick"), "thorough");
	Rng rng(seed);

	/* (3) first: the process is still small and quiet when it forks */
	int hangs = GenK(rng, thorough ? 6 : 1);
	fflush(stdout);

	/* (1) */
	GenMCases(rng, thorough ? 40000 : 4000, false);
	GenMCases(rng, thorough ? 4000 : 400, true);
	fflush(stdout);

	/* (2) */
	for (const char *t : l_InventoryTypes)
		PrintInventory(t);
	int batches = thorough ? 10 : 2;
	int idx = 0;
	{
		/* every modification of the whole process is restored again before the shutdown: the second dump has nothing to write */
		std::vector<Dictionary::Ptr> specs;
		for (int i = 0; i < 4; i++) {
			Dictionary::Ptr spec = new Dictionary({ { "kind", i % 2 ? "s" : "h" }, { "name", "vr" + Convert::ToString(i) }, { "notes", "n" },
				{ "vars", new Dictionary({ { "a", "s" }, { "b", (double)i }, { "c", Empty }, { "d", "" } }) },
				{ "st", new Dictionary({ { "state_raw", 2.0 }, { "state_type", 1.0 }, { "check_attempt", 1.0 } }) } });
			Array::Ptr mods = new Array(), restores = new Array();
			const char *keys[] = { "vars.a", "vars.b", "vars.c", "vars.d", "notes" };
			for (int k = 0; k < 5; k++) {
				if (rng.below(3) == 0 && k > 0)
					continue;
				mods->Add(new Array({ Value(keys[k]), Value(k == 4 ? Value("m") : GenValue(rng, 1, GenOpts())) }));
				restores->Add(keys[k]);
			}
			spec->Set("mods", mods);
			spec->Set("restore", restores);
			specs.push_back(spec);
		}
		RunSBatch(specs, 900);
	}
	{
		/* state nested up to, at and beyond the limit of the JSON decoder (frame depth = n + 4) */
		std::vector<Dictionary::Ptr> specs;
		int depths[] = { 10, 995, 996, 997 };
		for (int i = 0; i < 4; i++)
			specs.push_back(new Dictionary({ { "kind", "h" }, { "name", "vd" + Convert::ToString(i) }, { "notes", "n" },
				{ "vars", new Dictionary({ { "a", "s" } }) },
				{ "st", new Dictionary({ { "state_raw", 1.0 }, { "state_type", 1.0 }, { "check_attempt", 2.0 }, { "deep", (double)depths[i] } }) } }));
		RunSBatch(specs, 901);
	}
	for (int b = 0; b < batches; b++) {
		std::vector<Dictionary::Ptr> specs;
		for (int i = 0; i < 200; i++)
			specs.push_back(GenSpec(rng, idx++));
		RunSBatch(specs, b);
	}
	if (!l_KDir.empty())
		Utility::RemoveDirRecursive(l_KDir);
	fflush(stdout);
	_exit(hangs ? 4 : 0);
}

/* C08 harness: drives real TimePeriod objects (UpdateRegion / IsInside, includes / excludes by name)
 * and the real LegacyTimePeriod::ScriptFunc, and prints one operation per line followed by what the
 * implementation did.
 *
 *   Z <tzname> <lo>:<off>,<t1>:<off1>,...       time zone for what follows (setenv TZ + tzset); the list is the
 *                                              UTC offset in effect from <lo> and every change instant up to the
 *                                              probe horizon, probed from libc (oracle input for the calendar model)
 *   C <label>                                  new case; the periods of the previous case are unregistered
 *   P <id> <prefer> <incs> <excs> <ranges>     define period <id>; incs/excs: "id,id" or "-"; ranges: "-" (update
 *                                              function returns the segments given on the U line) or
 *                                              "key=value;key=value" with '_' for blanks (update = LegacyTimePeriod)
 *   U <id> <b> <e> <clear> <own> | <vb> <ve> <segs> <fb> <fe> <ownret>
 *                                              UpdateRegion(b, e, clear); own: "b:e,b:e" or "-";  observation:
 *                                              valid_begin, valid_end ("-" = Empty), the segment list in order,
 *                                              the (begin, end) the update function was invoked with ("-" = not invoked)
 *                                              and the segments it returned
 *   Q <id> <t,t,...> | <bits>                  IsInside(t) for every t
 *   G <id> <now> | <bits>                      virtual clock := now; the `is_inside` attribute as the consumers read it: GetIsInside() and the
 *                                              reflected field "is_inside" (what the API and the DSL see); two bits.
 *   K <b> <e> <ranges> | <segs>                LegacyTimePeriod::ScriptFunc on a period with these ranges ("!" = threw)
 *   A <id> <now> <own> | <vb> <ve> <segs> <fb> <fe> <ownret>
 *                                              virtual clock := now; PreActivate() + Activate() of the period, i.e. the real
 *                                              TimePeriod::Start (creates the 300 s timer on first use, pre-fills now..now+24h)
 *   T <now> <owns> | <fired> <order> {<id> <active> <vb> <ve> <segs> <fb> <fe> <ownret>}*
 *                                              virtual clock := now; Timer::VerifFireDue(now), i.e. the real
 *                                              TimePeriod::UpdateTimerHandler if the timer is due (PurgeSegments(now-3600) +
 *                                              non-clearing UpdateRegion(valid_end, now+24h) on every active period).
 *                                              owns: "id=b:e,b:e;id=..." or "-" (what the native update functions return);
 *                                              fired: did the handler run (a sentinel period sees it); order: the ids of the
 *                                              periods whose update function was not asked, then the others in the order their
 *                                              update functions were asked (oracle input: the iteration order of the handler
 *                                              is not the property's business); then the state of every period of the case.
 *                                              Within one process the <now> values of A/T lines must not decrease.
 *
 * Modes:  gen --seed S --tier quick|thorough --layer alg|cal [--tz NAME]
 *         ops FILE        replay the lines of FILE (text after " | " ignored)
 */
#include "common.hpp"
#include "icinga/timeperiod.hpp"
#include "icinga/legacytimeperiod.hpp"
#include "base/function.hpp"
#include "base/array.hpp"
#include "base/dictionary.hpp"
#include <map>
#include <set>
#include <algorithm>
#include <time.h>

using namespace icinga;
using namespace vh;

typedef std::pair<long long, long long> Seg;

struct PInfo {
	TimePeriod::Ptr tp;
	std::vector<Seg> own;   /* what the native update function returns next */
	bool invoked = false;
	unsigned long seq = 0;   /* position of the last invocation of the update function in the process-wide sequence */
	long long fb = 0, fe = 0;
	bool legacy = false;
	std::string ownret = "-"; /* what the update function returned at its last invocation */
};

static std::map<std::string, PInfo*> l_ByName; /* object name -> info */
static std::map<int, PInfo*> l_ById;
static int l_CaseNo = 0;
static unsigned long l_InvokeSeq = 0;

static std::string ShowSegsArr(const Array::Ptr& segments);

static Array::Ptr VerifUpdate(const TimePeriod::Ptr& tp, double begin, double end)
{
	auto it = l_ByName.find(tp->GetName().GetData());
	Array::Ptr res = new Array();
	if (it == l_ByName.end())
		return res;
	PInfo *pi = it->second;
	pi->invoked = true;
	pi->seq = ++l_InvokeSeq;
	pi->fb = (long long)begin;
	pi->fe = (long long)end;
	for (auto& s : pi->own)
		res->Add(new Dictionary({ { "begin", (double)s.first }, { "end", (double)s.second } }));
	pi->ownret = ShowSegsArr(res);
	return res;
}

static Array::Ptr LegacyUpdate(const TimePeriod::Ptr& tp, double begin, double end)
{
	auto it = l_ByName.find(tp->GetName().GetData());
	if (it != l_ByName.end()) {
		it->second->invoked = true;
		it->second->seq = ++l_InvokeSeq;
		it->second->fb = (long long)begin;
		it->second->fe = (long long)end;
	}
	Array::Ptr res = LegacyTimePeriod::ScriptFunc(tp, begin, end);
	if (it != l_ByName.end())
		it->second->ownret = ShowSegsArr(res);
	return res;
}

static Function::Ptr l_VerifFn, l_LegacyFn;

static std::string PName(int id)
{
	return "c" + std::to_string(l_CaseNo) + "_p" + std::to_string(id);
}

static void EndCase()
{
	for (auto& kv : l_ById) {
		kv.second->tp->Unregister();
		delete kv.second;
	}
	l_ById.clear();
	l_ByName.clear();
}

static std::vector<std::string> SplitStr(const std::string& s, char sep)
{
	std::vector<std::string> out;
	if (s == "-" || s.empty())
		return out;
	size_t i = 0;
	while (i <= s.size()) {
		size_t j = s.find(sep, i);
		if (j == std::string::npos) j = s.size();
		out.push_back(s.substr(i, j - i));
		i = j + 1;
	}
	return out;
}

static std::vector<Seg> ParseSegs(const std::string& s)
{
	std::vector<Seg> out;
	for (auto& w : SplitStr(s, ',')) {
		long long b, e;
		if (sscanf(w.c_str(), "%lld:%lld", &b, &e) == 2)
			out.emplace_back(b, e);
	}
	return out;
}

static std::string ShowSegsArr(const Array::Ptr& segments)
{
	std::string out;
	if (segments) {
		ObjectLock olock(segments);
		for (const Dictionary::Ptr& seg : segments) {
			if (!out.empty()) out += ",";
			out += std::to_string((long long)(double)seg->Get("begin")) + ":" + std::to_string((long long)(double)seg->Get("end"));
		}
	}
	return out.empty() ? "-" : out;
}

static std::string ShowSegs(const std::vector<Seg>& v)
{
	std::string out;
	for (auto& s : v) {
		if (!out.empty()) out += ",";
		out += std::to_string(s.first) + ":" + std::to_string(s.second);
	}
	return out.empty() ? "-" : out;
}

static std::string ShowVal(const Value& v)
{
	if (v.IsEmpty()) return "-";
	return std::to_string((long long)(double)v);
}

static Dictionary::Ptr ParseRanges(const std::string& enc)
{
	Dictionary::Ptr d = new Dictionary();
	for (auto& ent : SplitStr(enc, ';')) {
		size_t eq = ent.find('=');
		if (eq == std::string::npos) continue;
		std::string k = ent.substr(0, eq), v = ent.substr(eq + 1);
		std::replace(k.begin(), k.end(), '_', ' ');
		d->Set(String(k), Value(String(v)));
	}
	return d;
}

/* ---- operations ------------------------------------------------------------------------- */

static void OpCase(const std::string& label)
{
	EndCase();
	l_CaseNo++;
	printf("C %s\n", label.c_str());
}

static void OpPeriod(int id, int prefer, const std::string& incs, const std::string& excs, const std::string& ranges)
{
	PInfo *pi = new PInfo();
	TimePeriod::Ptr tp = new TimePeriod();
	std::string name = PName(id);
	tp->SetName(name, true);
	pi->legacy = ranges != "-";
	if (pi->legacy) {
		tp->SetRanges(ParseRanges(ranges), true);
		tp->SetUpdate(l_LegacyFn, true);
	} else {
		tp->SetUpdate(l_VerifFn, true);
	}
	tp->SetPreferIncludes(prefer != 0, true);
	Array::Ptr ia = new Array(), ea = new Array();
	for (auto& w : SplitStr(incs, ',')) ia->Add(String(PName(atoi(w.c_str()))));
	for (auto& w : SplitStr(excs, ',')) ea->Add(String(PName(atoi(w.c_str()))));
	tp->SetIncludes(ia, true);
	tp->SetExcludes(ea, true);
	tp->Register();
	pi->tp = tp;
	if (l_ById.count(id)) { l_ById[id]->tp->Unregister(); delete l_ById[id]; }
	l_ById[id] = pi;
	l_ByName[name] = pi;
	printf("P %d %d %s %s %s\n", id, prefer, incs.c_str(), excs.c_str(), ranges.c_str());
}

static bool OpUpdate(int id, long long b, long long e, int clear, const std::string& own)
{
	auto it = l_ById.find(id);
	if (it == l_ById.end()) return false;
	PInfo *pi = it->second;
	pi->own = ParseSegs(own);
	pi->invoked = false;
	pi->ownret = "-";
	bool threw = false;
	try {
		pi->tp->UpdateRegion((double)b, (double)e, clear != 0);
	} catch (const std::exception&) {
		threw = true;
	}
	std::string f = pi->invoked ? std::to_string(pi->fb) + " " + std::to_string(pi->fe) : std::string("- -");
	printf("U %d %lld %lld %d %s | %s %s %s %s %s%s\n", id, b, e, clear, own.c_str(),
		ShowVal(pi->tp->GetValidBegin()).c_str(), ShowVal(pi->tp->GetValidEnd()).c_str(),
		ShowSegsArr(pi->tp->GetSegments()).c_str(), f.c_str(), pi->ownret.c_str(), threw ? " !" : "");
	return true;
}

static bool OpQuery(int id, const std::string& ts)
{
	auto it = l_ById.find(id);
	if (it == l_ById.end()) return false;
	std::string bits;
	for (auto& w : SplitStr(ts, ','))
		bits += it->second->tp->IsInside((double)atoll(w.c_str())) ? '1' : '0';
	printf("Q %d %s | %s\n", id, ts.c_str(), bits.c_str());
	return true;
}

static void OpScript(long long b, long long e, const std::string& ranges)
{
	TimePeriod::Ptr tp = new TimePeriod();
	tp->SetRanges(ParseRanges(ranges), true);
	std::string obs;
	try {
		Array::Ptr segs = LegacyTimePeriod::ScriptFunc(tp, (double)b, (double)e);
		obs = ShowSegsArr(segs);
	} catch (const std::exception&) {
		obs = "!";
	}
	printf("K %lld %lld %s | %s\n", b, e, ranges.c_str(), obs.c_str());
}

/* ---- activation and the update timer ------------------------------------------------------ */

static TimePeriod::Ptr l_Sentinel;
static bool l_SentinelInvoked = false;
static Function::Ptr l_SentinelFn;

static Array::Ptr SentinelUpdate(const TimePeriod::Ptr&, double, double)
{
	l_SentinelInvoked = true;
	return new Array();
}

static void EnsureSentinel()
{
	if (l_Sentinel)
		return;
	l_SentinelFn = new Function("VerifSentinel", SentinelUpdate, { "tp", "begin", "end" });
	l_Sentinel = new TimePeriod();
	l_Sentinel->SetName("c08_sentinel", true);
	l_Sentinel->SetUpdate(l_SentinelFn, true);
	l_Sentinel->SetIncludes(new Array(), true);
	l_Sentinel->SetExcludes(new Array(), true);
	l_Sentinel->Register();
	l_Sentinel->PreActivate(); /* active, but never started: it must not be what creates the timer */
}

static bool OpGet(int id, long long now)
{
	auto it = l_ById.find(id);
	if (it == l_ById.end()) return false;
	TimePeriod::Ptr tp = it->second->tp;
	SetNow((double)now);
	bool direct = tp->GetIsInside();
	int fid = tp->GetReflectionType()->GetFieldId("is_inside");
	bool reflected = fid >= 0 && tp->GetField(fid).ToBool();
	printf("G %d %lld | %c%c\n", id, now, direct ? '1' : '0', reflected ? '1' : '0');
	return true;
}

static std::string ObsOf(PInfo *pi, bool threw)
{
	std::string f = pi->invoked ? std::to_string(pi->fb) + " " + std::to_string(pi->fe) : std::string("- -");
	return ShowVal(pi->tp->GetValidBegin()) + " " + ShowVal(pi->tp->GetValidEnd()) + " " + ShowSegsArr(pi->tp->GetSegments()) + " " + f + " "
		+ pi->ownret + (threw ? " !" : "");
}

static bool OpActivate(int id, long long now, const std::string& own)
{
	auto it = l_ById.find(id);
	if (it == l_ById.end() || it->second->tp->IsActive()) return false;
	PInfo *pi = it->second;
	pi->own = ParseSegs(own);
	pi->invoked = false;
	pi->ownret = "-";
	SetNow((double)now);
	bool threw = false;
	try {
		pi->tp->PreActivate();
		pi->tp->Activate(false, Empty);
	} catch (const std::exception&) {
		threw = true;
	}
	printf("A %d %lld %s | %s\n", id, now, own.c_str(), ObsOf(pi, threw).c_str());
	return true;
}

static void OpTick(long long now, const std::string& owns)
{
	EnsureSentinel();
	for (auto& kv : l_ById) {
		kv.second->own.clear();
		kv.second->invoked = false;
		kv.second->ownret = "-";
	}
	for (auto& ent : SplitStr(owns, ';')) {
		size_t eq = ent.find('=');
		if (eq == std::string::npos) continue;
		auto it = l_ById.find(atoi(ent.substr(0, eq).c_str()));
		if (it != l_ById.end())
			it->second->own = ParseSegs(ent.substr(eq + 1));
	}
	{
		ObjectLock olock(l_Sentinel);
		l_Sentinel->SetValidBegin(Empty);
		l_Sentinel->SetValidEnd(Empty);
		l_Sentinel->SetSegments(new Array());
	}
	l_SentinelInvoked = false;
	SetNow((double)now);
	Timer::VerifFireDue((double)now);
	/* the order in which the handler went through the periods, as far as it can make a difference from the cut-off on:
	 * periods whose update function was not asked (nothing to refresh) first, then the others in the order of the calls */
	std::string order;
	std::vector<std::pair<unsigned long, int>> byseq;
	for (auto& kv : l_ById)
		byseq.emplace_back(kv.second->invoked ? kv.second->seq : 0UL, kv.first);
	std::sort(byseq.begin(), byseq.end());
	for (auto& p : byseq) {
		if (!order.empty()) order += ",";
		order += std::to_string(p.second);
	}
	std::string obs = std::string(l_SentinelInvoked ? "1" : "0") + " " + (order.empty() ? "-" : order);
	for (auto& kv : l_ById)
		obs += " " + std::to_string(kv.first) + " " + (kv.second->tp->IsActive() ? "1" : "0") + " " + ObsOf(kv.second, false);
	printf("T %lld %s | %s\n", now, owns.c_str(), obs.c_str());
}

/* ---- time zone --------------------------------------------------------------------------- */

static long OffAt(time_t t)
{
	struct tm tmv;
	localtime_r(&t, &tmv);
	return tmv.tm_gmtoff;
}

static const long long PROBE_LO = 1672531200LL;  /* 2023-01-01 00:00:00 UTC */
static const long long PROBE_HI = 1956528000LL;  /* 2032-01-01 00:00:00 UTC */

static void OpZone(const std::string& tz)
{
	setenv("TZ", tz.c_str(), 1);
	tzset();
	std::string out = std::to_string(PROBE_LO) + ":" + std::to_string(OffAt((time_t)PROBE_LO));
	long cur = OffAt((time_t)PROBE_LO);
	const long long step = 6 * 3600;
	for (long long t = PROBE_LO; t < PROBE_HI; t += step) {
		long nxt = OffAt((time_t)(t + step));
		if (nxt != cur) {
			long long lo = t, hi = t + step; /* off(lo) = cur, off(hi) = nxt: bisect to the first instant with a different offset */
			while (hi - lo > 1) {
				long long mid = lo + (hi - lo) / 2;
				if (OffAt((time_t)mid) == cur) lo = mid; else hi = mid;
			}
			out += "," + std::to_string(hi) + ":" + std::to_string(OffAt((time_t)hi));
			cur = OffAt((time_t)(t + step));
		}
	}
	printf("Z %s %s\n", tz.c_str(), out.c_str());
}

/* ---- generators: interval algebra -------------------------------------------------------- */

static std::string AllTs(long long lo, long long hi)
{
	std::string s;
	for (long long t = lo; t <= hi; t++) {
		if (!s.empty()) s += ",";
		s += std::to_string(t);
	}
	return s;
}

/* own segments, one excluded period (id 1), optionally one included period (id 2), main = id 0 */
static void SmallCase(const std::vector<Seg>& own, const std::vector<Seg>& exc, const std::vector<Seg>& inc,
	bool hasInc, int prefer, int N)
{
	OpCase("small");
	OpPeriod(1, 1, "-", "-", "-");
	if (hasInc) OpPeriod(2, 1, "-", "-", "-");
	OpPeriod(0, prefer, hasInc ? "2" : "-", "1", "-");
	OpUpdate(1, 0, N, 1, ShowSegs(exc));
	if (hasInc) OpUpdate(2, 0, N, 1, ShowSegs(inc));
	OpUpdate(0, 0, N, 1, ShowSegs(own));
	OpQuery(0, AllTs(-1, N + 1));
}

static void EnumerateSmall(int N, bool fullInc)
{
	std::vector<Seg> all;
	for (int b = 0; b <= N; b++)
		for (int e = b + 1; e <= N; e++)
			all.emplace_back(b, e);
	std::vector<std::vector<Seg>> owns;
	for (auto& a : all) owns.push_back({ a });
	for (auto& a : all) for (auto& b : all) owns.push_back({ a, b });
	for (auto& own : owns)
		for (auto& x : all)
			for (int prefer = 0; prefer < 2; prefer++) {
				SmallCase(own, { x }, {}, false, prefer, N);
				if (fullInc || own.size() == 1)
					for (auto& i : all)
						SmallCase(own, { x }, { i }, true, prefer, N);
			}
}

static Seg RandSeg(Rng& rng, long long lo, long long hi)
{
	long long b = lo + (long long)rng.below((uint64_t)(hi - lo));
	long long e = b + 1 + (long long)rng.below((uint64_t)(hi - b));
	return Seg(b, e);
}

static std::vector<Seg> RandSegs(Rng& rng, int maxN, long long lo, long long hi)
{
	std::vector<Seg> v;
	int n = (int)rng.below((uint64_t)maxN + 1);
	for (int i = 0; i < n; i++) v.push_back(RandSeg(rng, lo, hi));
	return v;
}

/* queries: every boundary of the given segments +-1, window bounds +-1, some random instants */
static std::string BoundaryTs(Rng& rng, const std::vector<std::vector<Seg>>& lists, long long lo, long long hi)
{
	std::set<long long> ts;
	for (auto& l : lists) for (auto& s : l) for (int d = -1; d <= 1; d++) { ts.insert(s.first + d); ts.insert(s.second + d); }
	for (int d = -1; d <= 1; d++) { ts.insert(lo + d); ts.insert(hi + d); }
	for (int i = 0; i < 6; i++) ts.insert(lo - 3 + (long long)rng.below((uint64_t)(hi - lo + 6)));
	std::string s;
	for (long long t : ts) { if (!s.empty()) s += ","; s += std::to_string(t); }
	return s;
}

/* three own segments x two excluded x two included over the small alphabet (sampled) */
static void RandomSmall(Rng& rng, int n, int N)
{
	for (int k = 0; k < n; k++) {
		std::vector<Seg> own = RandSegs(rng, 3, 0, N), exc = RandSegs(rng, 2, 0, N), inc = RandSegs(rng, 2, 0, N);
		SmallCase(own, exc, inc, rng.coin(), (int)rng.below(2), N);
	}
}

/* nested forests, several includes/excludes, missing names, non-clearing updates */
static void RandomNested(Rng& rng, int n, long long span)
{
	for (int k = 0; k < n; k++) {
		OpCase("nested");
		int np = 2 + (int)rng.below(5);
		/* period i may only refer to periods with a larger id (acyclic); id 99 is never defined */
		std::vector<std::vector<Seg>> owns(np);
		std::vector<std::vector<Seg>> all;
		for (int i = np - 1; i >= 0; i--) {
			std::string incs, excs;
			for (int j = i + 1; j < np; j++) {
				int r = (int)rng.below(4);
				if (r == 0) incs += (incs.empty() ? "" : ",") + std::to_string(j);
				else if (r == 1) excs += (excs.empty() ? "" : ",") + std::to_string(j);
			}
			if (rng.below(12) == 0) incs += (incs.empty() ? "" : ",") + std::string("99");
			if (rng.below(12) == 0) excs += (excs.empty() ? "" : ",") + std::string("99");
			OpPeriod(i, (int)rng.below(2), incs.empty() ? "-" : incs, excs.empty() ? "-" : excs, "-");
		}
		long long lo = (long long)rng.below(50), hi = lo + 1 + (long long)rng.below((uint64_t)span);
		bool aligned = rng.coin(); /* aligned: endpoints on a coarse grid, so that boundaries coincide often */
		long long grid = aligned ? std::max<long long>(1, (hi - lo) / 8) : 1;
		for (int i = np - 1; i >= 0; i--) {
			std::vector<Seg> own = RandSegs(rng, 4, lo, hi);
			if (aligned)
				for (auto& s : own) {
					s.first = lo + (s.first - lo) / grid * grid;
					s.second = lo + ((s.second - lo) / grid + 1) * grid;
				}
			owns[i] = own;
			all.push_back(own);
			OpUpdate(i, lo, hi, 1, ShowSegs(own));
		}
		OpQuery(0, BoundaryTs(rng, all, lo, hi));
		if (np > 1) OpQuery(1, BoundaryTs(rng, all, lo, hi));
		/* follow-up, non-clearing updates of the main period (what the 300 s timer does) */
		int follow = (int)rng.below(3);
		long long e2 = hi;
		for (int f = 0; f < follow; f++) {
			long long b2 = e2 - (long long)rng.below(5) + (long long)rng.below(5);
			e2 = e2 - 2 + (long long)rng.below((uint64_t)span / 2 + 4);
			std::vector<Seg> own = RandSegs(rng, 3, std::min(b2, e2), std::max(b2, e2) + 2);
			all.push_back(own);
			OpUpdate(0, b2, e2, 0, ShowSegs(own));
			OpQuery(0, BoundaryTs(rng, all, lo, std::max(hi, e2)));
		}
	}
}

/* Activation (real Start) and runs of the real update timer on nested periods with native update functions.  Every case
 * lives in its own, later stretch of the time axis (the timer of the process is due relative to the virtual clock). */
static long long l_TickBase = 10000000;

static void RandomTicks(Rng& rng, int n)
{
	for (int k = 0; k < n; k++) {
		OpCase("tick");
		long long now = l_TickBase + 1000 + (long long)rng.below(5000);
		int np = 1 + (int)rng.below(4);
		/* period i may only refer to periods with a larger id; the definition (= registration) order is random, so the
		 * handler meets an includer before or after what it includes */
		std::vector<int> ord;
		for (int i = 0; i < np; i++) ord.insert(ord.begin() + (long)rng.below(ord.size() + 1), i);
		for (int i : ord) {
			std::string incs, excs;
			for (int j = i + 1; j < np; j++) {
				int r = (int)rng.below(3);
				if (r == 0) incs += (incs.empty() ? "" : ",") + std::to_string(j);
				else if (r == 1) excs += (excs.empty() ? "" : ",") + std::to_string(j);
			}
			OpPeriod(i, (int)rng.below(2), incs.empty() ? "-" : incs, excs.empty() ? "-" : excs, "-");
		}
		std::vector<std::vector<Seg>> all;
		bool coarse = rng.coin(); /* coarse grid: boundaries coincide often */
		long long grid = coarse ? 3600 : 1;
		auto segs = [&](int maxN, long long lo, long long hi) {
			std::vector<Seg> v = RandSegs(rng, maxN, lo, hi);
			for (auto& s : v) { s.first = s.first / grid * grid; s.second = (s.second / grid + 1) * grid; }
			all.push_back(v);
			return v;
		};
		/* activation, leaves first or in definition order (what the start-up does is not defined) */
		std::vector<int> act = ord;
		if (rng.coin()) { act.clear(); for (int i = np - 1; i >= 0; i--) act.push_back(i); }
		for (int i : act) {
			if (rng.below(10) == 0) continue; /* stays inactive: the handler skips it, others still refer to it */
			OpActivate(i, now, ShowSegs(segs(4, now - 20000, now + 110000)));
			if (rng.below(4) == 0) now += (long long)rng.below(200);
		}
		OpQuery(0, BoundaryTs(rng, all, now - 3600, now + 86400));
		OpGet((int)rng.below((uint64_t)np), now);
		int ticks = 1 + (int)rng.below(5);
		for (int f = 0; f < ticks; f++) {
			static const long long jumps[] = { 0, 0, 300, 3000, 20000, 50000 };
			now += 300 + (long long)rng.below(4) + jumps[rng.below(6)];
			std::string owns;
			for (int i = 0; i < np; i++) {
				if (rng.below(3) == 0) continue;
				if (!owns.empty()) owns += ";";
				owns += std::to_string(i) + "=" + ShowSegs(segs(3, now + 60000, now + 120000));
			}
			OpTick(now, owns.empty() ? "-" : owns);
			std::vector<std::vector<Seg>> probe = all;
			probe.push_back({ Seg(now - 3600, now + 86400) });
			OpQuery((int)rng.below((uint64_t)np), BoundaryTs(rng, probe, now - 3600, now + 86400));
			if (rng.coin()) OpQuery(0, BoundaryTs(rng, probe, now - 3600, now + 86400));
			/* the attribute at the (virtual) present, a little after the run; the next run is at least 300 s later */
			if (rng.coin()) {
				/* ... or anywhere else (the clock of a consumer need not be the clock of the last timer run): beyond the window, at its
				 * end, at a boundary.  The next T line sets the clock again. */
				long long g = now + (long long)rng.below(250);
				switch ((int)rng.below(4)) {
				case 0: g = now + 86400 - 2 + (long long)rng.below(6000); break;
				case 1: { auto ts = SplitStr(BoundaryTs(rng, probe, now - 3600, now + 86400), ','); g = atoll(ts[rng.below(ts.size())].c_str()); break; }
				default: break;
				}
				OpGet((int)rng.below((uint64_t)np), g);
			}
		}
		l_TickBase = now + 400000;
	}
}

static void GenAlgebra(uint64_t seed, bool thorough)
{
	Rng rng(seed);
	EnumerateSmall(thorough ? 6 : 5, true);
	RandomSmall(rng, thorough ? 200000 : 30000, 6);
	RandomNested(rng, thorough ? 100000 : 15000, 40);
	RandomNested(rng, thorough ? 20000 : 3000, 100000);
	RandomTicks(rng, thorough ? 40000 : 6000);
}

/* ---- generators: calendar ----------------------------------------------------------------- */

static const char *WD[7] = { "sunday", "monday", "tuesday", "wednesday", "thursday", "friday", "saturday" };
static const char *MON[12] = { "january", "february", "march", "april", "may", "june", "july", "august", "september",
	"october", "november", "december" };

static std::string Two(int v) { char b[8]; snprintf(b, sizeof b, "%02d", v); return b; }

static long long CivilToDays(int y, int m, int d) /* days since 1970-01-01, m 1..12 */
{
	y -= m <= 2;
	long long era = (y >= 0 ? y : y - 399) / 400;
	unsigned yoe = (unsigned)(y - era * 400);
	unsigned doy = (153 * (m + (m > 2 ? -3 : 9)) + 2) / 5 + d - 1;
	unsigned doe = yoe * 365 + yoe / 4 - yoe / 100 + doy;
	return era * 146097 + (long long)doe - 719468;
}

static void DaysToCivil(long long z, int& y, int& m, int& d)
{
	z += 719468;
	long long era = (z >= 0 ? z : z - 146096) / 146097;
	unsigned doe = (unsigned)(z - era * 146097);
	unsigned yoe = (doe - doe / 1460 + doe / 36524 - doe / 146096) / 365;
	y = (int)(yoe + era * 400);
	unsigned doy = doe - (365 * yoe + yoe / 4 - yoe / 100);
	unsigned mp = (5 * doy + 2) / 153;
	d = (int)(doy - (153 * mp + 2) / 5 + 1);
	m = (int)(mp < 10 ? mp + 3 : mp - 9);
	y += m <= 2;
}

static std::string DateStr(long long day)
{
	int y, m, d;
	DaysToCivil(day, y, m, d);
	return std::to_string(y) + "-" + Two(m) + "-" + Two(d);
}

/* A time of day that is not inside a skipped or repeated local hour on any day: stay away from 00:00-04:00
 * except for the exact values 00:00 / 24:00 (none of the probed zones switches at midnight). */
static int RandTod(Rng& rng, bool allowEdge)
{
	int k = (int)rng.below(10);
	if (allowEdge && k == 0) return 0;
	if (allowEdge && k == 1) return 24 * 3600;
	int h = 4 + (int)rng.below(20);
	int m = (int)rng.below(4) * 15;
	int s = rng.below(8) == 0 ? (int)rng.below(60) : 0;
	return h * 3600 + m * 60 + s;
}

static std::string TodStr(int tod)
{
	std::string s = Two(tod / 3600) + ":" + Two(tod / 60 % 60);
	if (tod % 60) s += ":" + Two(tod % 60);
	return s;
}

static std::string RandTimeRanges(Rng& rng, std::vector<std::pair<int, int>>& out)
{
	int n = 1 + (int)rng.below(3);
	std::string s;
	for (int i = 0; i < n; i++) {
		int a = RandTod(rng, true), b = RandTod(rng, true);
		if (a == 24 * 3600) a = 0;
		if (rng.below(3) != 0 && a > b && b != 0) std::swap(a, b); /* mostly forward ranges, some wrap past midnight */
		if (!s.empty()) s += ",";
		s += TodStr(a) + "-" + TodStr(b);
		out.emplace_back(a, b);
	}
	return s;
}

/* A day definition in one of the specification forms, placed near `day0` (days since epoch). */
static std::string RandDayDef(Rng& rng, long long day0)
{
	int y, m, d;
	long long near = day0 - 3 + (long long)rng.below(12);
	DaysToCivil(near, y, m, d);
	switch ((int)rng.below(12)) {
	case 0: case 1:
		return WD[rng.below(7)];
	case 2:
		return DateStr(near);
	case 3:
		return std::string("day_") + std::to_string(rng.coin() ? d : 1 + (int)rng.below(31));
	case 4:
		return std::string("day_-") + std::to_string(1 + (int)rng.below(rng.coin() ? 3 : 31));
	case 5:
		return std::string(MON[rng.coin() ? m - 1 : (int)rng.below(12)]) + "_" + std::to_string(rng.coin() ? d : 1 + (int)rng.below(31));
	case 6:
		return std::string(MON[rng.coin() ? m - 1 : (int)rng.below(12)]) + "_-" + std::to_string(1 + (int)rng.below(5));
	case 7: {
		int n = 1 + (int)rng.below(5);
		return std::string(WD[rng.below(7)]) + "_" + std::to_string(rng.coin() ? n : -n);
	}
	case 8: {
		int n = 1 + (int)rng.below(5);
		return std::string(WD[rng.below(7)]) + "_" + std::to_string(rng.coin() ? n : -n) + "_" + MON[rng.coin() ? m - 1 : (int)rng.below(12)];
	}
	case 9: { /* calendar-date range, optionally with stride */
		bool wide = rng.below(3) == 0;
		long long a = near - (long long)rng.below(wide ? 25 : 6), b = near + (long long)rng.below(wide ? 25 : 8);
		std::string s = DateStr(a) + "_-_" + DateStr(b);
		static const int strides[] = { 1, 2, 3, 4, 7 };
		if (rng.coin()) s += "_/_" + std::to_string(strides[rng.below(5)]);
		return s;
	}
	case 10: { /* month-day range */
		int a = 1 + (int)rng.below(28), b = a + (int)rng.below(31 - a + 1);
		std::string s = "day_" + std::to_string(a) + "_-_" + std::to_string(b);
		if (rng.below(3) == 0) s += "_/_" + std::to_string(1 + (int)rng.below(4));
		return s;
	}
	default: { /* weekday range */
		std::string s = std::string(WD[rng.below(7)]) + "_-_" + WD[rng.below(7)];
		if (rng.below(4) == 0) s += "_/_" + std::to_string(1 + (int)rng.below(3));
		return s;
	}
	}
}

static long long MkLocal(long long day, int tod)
{
	int y, m, d;
	DaysToCivil(day, y, m, d);
	struct tm t;
	memset(&t, 0, sizeof t);
	t.tm_year = y - 1900; t.tm_mon = m - 1; t.tm_mday = d;
	t.tm_hour = tod / 3600; t.tm_min = tod / 60 % 60; t.tm_sec = tod % 60;
	t.tm_isdst = -1;
	return (long long)mktime(&t);
}

/* Strided day ranges around New Year: the day index of a stride must count calendar days across the year
 * boundary, after leap years (2024->2025, 2028->2029) as well as after common years.  Enumerated, not sampled. */
static void GenNewYear(Rng& rng, bool thorough)
{
	static const int strides[] = { 2, 3, 7 };
	static const int begins[] = { 20, 26, 29, 31 };  /* December */
	static const int ends[] = { 2, 6, 11 };          /* January */
	int n = 0;
	for (int y = 2023; y <= 2028; y++)
	for (int st : strides)
	for (int bd : begins)
	for (int ed : ends) {
		std::string def = DateStr(CivilToDays(y, 12, bd)) + "_-_" + DateStr(CivilToDays(y + 1, 1, ed)) + "_/_" + std::to_string(st);
		std::string enc = def + "=" + (n % 3 == 0 ? "00:00-24:00" : n % 3 == 1 ? "09:00-17:00" : "22:00-06:00");
		long long d0 = CivilToDays(y, 12, bd) - 2, d1 = CivilToDays(y + 1, 1, ed) + 2;
		long long b = MkLocal(d0, (int)rng.below(86400)), e = MkLocal(d1, (int)rng.below(86400));
		OpCase("newyear");
		if (n % 2 == 0) {
			OpScript(b, e, enc);
		} else {
			OpPeriod(0, 1, "-", "-", enc);
			OpUpdate(0, b, e, 1, "-");
			std::string ts;
			for (long long d = d0; d <= d1; d++) { /* noon and the range boundaries of every day of the window */
				for (int tod : { 0, 32400, 43200, 61200, 79200 }) {
					long long t = MkLocal(d, tod);
					if (!ts.empty()) ts += ",";
					ts += std::to_string(t - 1) + "," + std::to_string(t);
				}
			}
			OpQuery(0, ts);
		}
		n++;
	}
	/* month-day forms around the turn of the year (they are evaluated within the reference's year, so they do not
	 * cross it): strided ranges in December and January, counted from the begin and from the end of the month */
	static const char *mdforms[] = { "december_20_-_31", "january_1_-_12", "day_20_-_31", "day_1_-_12", "day_-12_-_-1",
		"december_-10_-_-1", "january_-31_-_-20", "february_20_-_29", "february_-9_-_-1" };
	for (int y = 2024; y <= 2029; y += (thorough ? 1 : 2))
	for (const char *f : mdforms)
	for (int st : strides) {
		std::string enc = std::string(f) + "_/_" + std::to_string(st) + "=00:00-24:00";
		bool feb = std::string(f).find("february") != std::string::npos;
		long long d0 = feb ? CivilToDays(y, 2, 15) : CivilToDays(y - 1, 12, 15), d1 = feb ? CivilToDays(y, 3, 3) : CivilToDays(y, 1, 16);
		OpCase("monthday_stride");
		OpScript(MkLocal(d0, (int)rng.below(86400)), MkLocal(d1, (int)rng.below(86400)), enc);
	}
}

/* Day definitions that NAME a month ("<weekday> <n> <month>", "<month> <d>", "<month> <a> - <b>") or count from the end
 * of the month, evaluated on EVERY day of a whole year: the reference day then also takes the values that do not exist
 * in the named month (29th..31st), lies in every other month, and is the n-th last day of its own month.  Enumerated:
 * every month x every weekday for the last / 5th weekday, every month for the month-day forms. */
static void GenNamedMonth(Rng& rng, bool thorough, int year)
{
	std::vector<std::string> defs;
	for (int mo = 0; mo < 12; mo++) {
		for (int w = 0; w < 7; w++)
			for (int n : { -1, 5 })
				defs.push_back(std::string(WD[w]) + "_" + std::to_string(n) + "_" + MON[mo]);
		for (int n : { -2, -5, 1, 2, 4 })
			defs.push_back(std::string(WD[rng.below(7)]) + "_" + std::to_string(n) + "_" + MON[mo]);
		for (int d : { -1, -2, -28, 1, 15, 28, 29, 30, 31 })
			defs.push_back(std::string(MON[mo]) + "_" + std::to_string(d));
		defs.push_back(std::string(MON[mo]) + "_15_-_-1");
		defs.push_back(std::string(MON[mo]) + "_-5_-_-2_/_2");
		defs.push_back(std::string(MON[mo]) + "_" + std::to_string(1 + (int)rng.below(10)) + "_-_" + std::to_string(20 + (int)rng.below(9)) + "_/_" + std::to_string(1 + (int)rng.below(3)));
	}
	for (int w = 0; w < 7; w++)
		for (int n : { -1, -2, 1, 5 })
			defs.push_back(std::string(WD[w]) + "_" + std::to_string(n));
	for (int d : { -1, -2, -3, -30, -31, 1, 29, 30, 31 })
		defs.push_back("day_" + std::to_string(d));
	defs.push_back("day_-7_-_-1");
	defs.push_back("day_25_-_-3");
	defs.push_back("monday_1_-_friday_-1");
	defs.push_back("monday_2_march_-_sunday_-1_october");
	long long d0 = CivilToDays(year, 1, 1), d1 = CivilToDays(year, 12, 31);
	int n = 0;
	for (auto& def : defs) {
		if (!thorough && n % 2 == (year & 1) && def.find("day_") == 0) { n++; continue; }
		std::string enc = def + "=" + (n % 3 == 0 ? "00:00-24:00" : n % 3 == 1 ? "09:00-17:00" : "12:00-12:30");
		long long b = MkLocal(d0, (int)rng.below(86400)), e = MkLocal(d1, (int)rng.below(86400));
		OpCase("named_month");
		if (n % 4 != 3) {
			OpScript(b, e, enc);
		} else { /* through UpdateRegion / IsInside: 12:15 of every day of the year */
			OpPeriod(0, 1, "-", "-", enc);
			OpUpdate(0, b, e, 1, "-");
			std::string ts;
			for (long long d = d0; d <= d1; d++) {
				if (!ts.empty()) ts += ",";
				ts += std::to_string(MkLocal(d, 12 * 3600 + 900));
			}
			OpQuery(0, ts);
		}
		n++;
	}
}

/* Windows that end within the first hour of a local day shortly after a UTC-offset change (and one second before
 * that day begins): the place where "number of days = seconds / 86400" and "every local day whose midnight is not
 * after end" disagree.  Enumerated for every offset change of the zone in 2024..2029. */
static void GenDstEdges(Rng& rng, const std::vector<long long>& changeDays)
{
	static const int ends[] = { 0, 1, 1799, 3599, 3600 };
	int n = 0;
	for (long long A : changeDays)
	for (int k = 0; k <= 3; k++)
	for (int tod : ends) {
		long long b = MkLocal(A - 1 - (long long)rng.below(2), (int)rng.below(86400));
		long long e = MkLocal(A + k, tod);
		if (tod == 0 && (n & 1)) e -= 1; /* one second before midnight */
		std::string enc = DateStr(A - 4) + "_-_" + DateStr(A + 6) + "=" + (n % 2 ? "00:00-00:30,12:00-13:00" : "00:00-24:00");
		OpCase("dst_edge");
		if (n % 3 == 0) {
			OpScript(b, e, enc);
		} else {
			OpPeriod(0, 1, "-", "-", enc);
			OpUpdate(0, b, e, 1, "-");
			std::string ts;
			for (long long t : { b, e - 3600, e - 1800, e - 1, e, MkLocal(A + k, 0) - 1, MkLocal(A + k, 0), MkLocal(A + k, 900) }) {
				if (!ts.empty()) ts += ",";
				ts += std::to_string(t);
			}
			OpQuery(0, ts);
		}
		n++;
	}
}

/* Production shape: legacy periods (ranges + LegacyTimePeriod update function) with a legacy exclude / include, started
 * through the real Start at a random time of day and kept up to date by the real update timer for one to three days,
 * on and around the days on which the UTC offset changes and on ordinary days.  Cases in ascending time. */
static void GenCalTicks(Rng& rng, bool thorough, const std::vector<long long>& changeDays)
{
	std::vector<long long> days = changeDays;
	for (long long d = CivilToDays(2024, 1, 3); d < CivilToDays(2029, 12, 1); d += (thorough ? 9 : 45) + (long long)rng.below(5))
		days.push_back(d);
	std::sort(days.begin(), days.end());
	long long now = 0;
	for (long long A : days) {
		long long day0 = A - 1 + (long long)rng.below(2);
		if (MkLocal(day0, 0) < now + 600) continue; /* the virtual clock must not run backwards */
		now = MkLocal(day0, (int)rng.below(86400));
		OpCase("cal_tick");
		std::vector<std::pair<int, int>> tods;
		auto legacy = [&](bool wide) {
			/* mostly forms that match on the days of the case, so that the segments matter */
			std::string k;
			switch ((int)rng.below(wide ? 3 : 5)) {
			case 0: k = DateStr(day0 - 2) + "_-_" + DateStr(day0 + 5) + (rng.coin() ? "_/_2" : ""); break;
			case 1: k = std::string(WD[rng.below(7)]) + "_-_" + WD[rng.below(7)]; break;
			case 2: k = "day_1_-_31"; break;
			default: k = RandDayDef(rng, day0); break;
			}
			return k + "=" + RandTimeRanges(rng, tods);
		};
		bool withExc = rng.below(3) != 0, withInc = rng.below(3) == 0;
		std::vector<int> ord;
		ord.push_back(0);
		if (withExc) ord.insert(ord.begin() + (long)rng.below(ord.size() + 1), 1);
		if (withInc) ord.insert(ord.begin() + (long)rng.below(ord.size() + 1), 2);
		for (int i : ord) {
			if (i == 0) OpPeriod(0, (int)rng.below(2), withInc ? "2" : "-", withExc ? "1" : "-", legacy(true));
			else OpPeriod(i, 1, "-", "-", legacy(false));
		}
		std::vector<int> act = ord;
		if (rng.coin()) std::reverse(act.begin(), act.end());
		for (int i : act) OpActivate(i, now, "-");
		auto probe = [&](long long lo, long long hi) {
			std::set<long long> ts;
			for (long long d = (lo - 86400) / 86400; d <= (hi + 86400) / 86400; d++)
				for (auto& p : tods)
					for (int w = 0; w < 2; w++) {
						long long t = MkLocal(d, w ? p.second : p.first);
						if (t < lo - 7200 || t > hi + 7200) continue;
						ts.insert(t - 1); ts.insert(t); ts.insert(t + 1);
					}
			for (int d2 = -1; d2 <= 1; d2++) { ts.insert(lo + d2); ts.insert(hi + d2); }
			for (int i = 0; i < 12; i++) ts.insert(lo - 3600 + (long long)rng.below((uint64_t)(hi - lo + 7200)));
			std::string s;
			for (long long t : ts) { if (!s.empty()) s += ","; s += std::to_string(t); }
			return s;
		};
		OpQuery(0, probe(now, now + 86400));
		int ticks = 2 + (int)rng.below(6);
		for (int f = 0; f < ticks; f++) {
			static const long long jumps[] = { 300, 300, 600, 3900, 14400, 43200, 86400 };
			now += jumps[rng.below(7)] + (long long)rng.below(3);
			OpTick(now, "-");
			OpQuery(0, probe(now - 3600, now + 86400));
			OpGet(0, now + (long long)rng.below(250));
			if (withExc && rng.below(4) == 0) OpQuery(1, probe(now - 3600, now + 86400));
		}
	}
}

static void GenCalendar(uint64_t seed, bool thorough, const std::string& tz)
{
	Rng rng(seed * 1000003ULL + std::hash<std::string>()(tz) % 1000);
	OpZone(tz);
	GenNewYear(rng, thorough);
	{
		/* one whole year per zone (leap and common years over the five zones); thorough: two */
		int y0 = tz == "UTC" ? 2024 : tz == "Europe/Berlin" ? 2025 : tz == "America/New_York" ? 2028 : tz == "Australia/Lord_Howe" ? 2026 : 2027;
		GenNamedMonth(rng, thorough, y0);
		if (thorough) GenNamedMonth(rng, thorough, y0 == 2024 ? 2027 : 2024);
	}
	/* anchor days: every offset change of this zone in 2024..2029, month ends, leap day, plus random days */
	std::vector<long long> anchors;
	{
		long cur = OffAt((time_t)PROBE_LO);
		for (long long t = CivilToDays(2024, 1, 1) * 86400; t < CivilToDays(2030, 1, 1) * 86400; t += 3600) {
			long o = OffAt((time_t)t);
			if (o != cur) { anchors.push_back((t + o) / 86400); cur = o; }
		}
	}
	GenDstEdges(rng, anchors); /* at this point the list holds exactly the offset-change days */
	GenCalTicks(rng, thorough, anchors);
	anchors.push_back(CivilToDays(2024, 2, 29));
	anchors.push_back(CivilToDays(2028, 2, 29));
	for (int y = 2023; y <= 2029; y++) { /* every New Year, after leap years (2024, 2028) and after common years */
		anchors.push_back(CivilToDays(y, 12, 31));
		anchors.push_back(CivilToDays(y, 1, 1));
	}
	anchors.push_back(CivilToDays(2025, 3, 1));
	anchors.push_back(CivilToDays(2027, 1, 31));
	int n = thorough ? 12000 : 1500;
	for (int k = 0; k < n; k++) {
		long long day0 = rng.below(4) == 0
			? CivilToDays(2024, 1, 1) + (long long)rng.below(365 * 5)
			: anchors[rng.below(anchors.size())] - 2 + (long long)rng.below(4);
		int ndays = 1 + (int)rng.below(rng.below(4) == 0 ? 40 : 6);
		long long b = MkLocal(day0, (int)rng.below(86400));
		long long e = MkLocal(day0 + ndays - 1, (int)rng.below(86400));
		if (e < b) e = b + (long long)rng.below(86400);
		/* ranges dictionary: 1..3 entries */
		std::map<std::string, std::string> ranges;
		int ne = 1 + (int)rng.below(3);
		std::vector<std::pair<int, int>> tods;
		for (int i = 0; i < ne; i++) {
			std::string k = RandDayDef(rng, day0);
			std::replace(k.begin(), k.end(), '_', ' '); /* order like the Dictionary does: by the real key */
			ranges[k] = RandTimeRanges(rng, tods);
		}
		std::string enc;
		for (auto& kv : ranges) {
			std::string k = kv.first;
			std::replace(k.begin(), k.end(), ' ', '_');
			if (!enc.empty()) enc += ";";
			enc += k + "=" + kv.second;
		}
		OpCase("cal");
		if (rng.below(3) == 0) {
			OpScript(b, e, enc);
			continue;
		}
		/* through the production entry point, sometimes with an excluded / included legacy period */
		bool withExc = rng.below(3) == 0, withInc = rng.below(4) == 0;
		if (withExc) {
			std::vector<std::pair<int, int>> t2;
			OpPeriod(1, 1, "-", "-", RandDayDef(rng, day0) + "=" + RandTimeRanges(rng, t2));
			for (auto& p : t2) tods.push_back(p);
		}
		if (withInc) {
			std::vector<std::pair<int, int>> t2;
			OpPeriod(2, 1, "-", "-", RandDayDef(rng, day0) + "=" + RandTimeRanges(rng, t2));
			for (auto& p : t2) tods.push_back(p);
		}
		OpPeriod(0, (int)rng.below(2), withInc ? "2" : "-", withExc ? "1" : "-", enc);
		if (withExc) OpUpdate(1, b, e, 1, "-");
		if (withInc) OpUpdate(2, b, e, 1, "-");
		OpUpdate(0, b, e, 1, "-");
		/* instants: every range boundary of every day of the window +-1 s, the window bounds, random instants */
		std::set<long long> ts;
		int shown = std::min(ndays, 8);
		for (int dd = -1; dd <= shown; dd++)
			for (auto& p : tods)
				for (int w = 0; w < 2; w++) {
					long long t = MkLocal(day0 + dd, w ? p.second : p.first);
					ts.insert(t - 1); ts.insert(t); ts.insert(t + 1);
				}
		for (int d2 = -1; d2 <= 1; d2++) { ts.insert(b + d2); ts.insert(e + d2); }
		int nr = thorough ? 200 : 40;
		for (int i = 0; i < nr; i++) ts.insert(b - 7200 + (long long)rng.below((uint64_t)(e - b + 14400)));
		std::string s;
		for (long long t : ts) { if (!s.empty()) s += ","; s += std::to_string(t); }
		OpQuery(0, s);
	}
}

/* ---- main ---------------------------------------------------------------------------------- */

int main(int argc, char **argv)
{
	if (argc < 2) { fprintf(stderr, "usage: h_c08 gen|ops ...\n"); return 2; }
	setenv("TZ", "UTC", 1);
	tzset();
	InitIcinga();
	l_VerifFn = new Function("VerifUpdate", VerifUpdate, { "tp", "begin", "end" });
	l_LegacyFn = new Function("LegacyTimePeriod", LegacyUpdate, { "tp", "begin", "end" });
	EnsureSentinel();

	std::string mode = argv[1];
	if (mode == "gen") {
		uint64_t seed = strtoull(argOr(argc, argv, "--seed", "1"), nullptr, 10);
		bool thorough = std::string(argOr(argc, argv, "--tier", "quick")) == "thorough";
		std::string layer = argOr(argc, argv, "--layer", "alg");
		if (layer == "alg")
			GenAlgebra(seed, thorough);
		else
			GenCalendar(seed, thorough, argOr(argc, argv, "--tz", "UTC"));
	} else if (mode == "ops") {
		if (argc < 3) return 2;
		FILE *f = fopen(argv[2], "r");
		if (!f) { perror("open"); return 2; }
		static char line[1 << 20];
		while (fgets(line, sizeof line, f)) {
			std::string l(line);
			size_t bar = l.find(" | ");
			if (bar != std::string::npos) l = l.substr(0, bar);
			while (!l.empty() && (l.back() == '\n' || l.back() == ' ' || l.back() == '\r')) l.pop_back();
			std::vector<std::string> w;
			{
				std::istringstream is(l);
				std::string x;
				while (is >> x) w.push_back(x);
			}
			if (w.empty()) continue;
			bool ok = true;
			if (w[0] == "Z" && w.size() >= 2) OpZone(w[1]);
			else if (w[0] == "C") OpCase(w.size() > 1 ? w[1] : "x");
			else if (w[0] == "P" && w.size() >= 6) OpPeriod(atoi(w[1].c_str()), atoi(w[2].c_str()), w[3], w[4], w[5]);
			else if (w[0] == "U" && w.size() >= 6) ok = OpUpdate(atoi(w[1].c_str()), atoll(w[2].c_str()), atoll(w[3].c_str()), atoi(w[4].c_str()), w[5]);
			else if (w[0] == "Q" && w.size() >= 3) ok = OpQuery(atoi(w[1].c_str()), w[2]);
			else if (w[0] == "G" && w.size() >= 3) ok = OpGet(atoi(w[1].c_str()), atoll(w[2].c_str()));
			else if (w[0] == "K" && w.size() >= 4) OpScript(atoll(w[1].c_str()), atoll(w[2].c_str()), w[3]);
			else if (w[0] == "A" && w.size() >= 4) ok = OpActivate(atoi(w[1].c_str()), atoll(w[2].c_str()), w[3]);
			else if (w[0] == "T" && w.size() >= 3) OpTick(atoll(w[1].c_str()), w[2]);
			else ok = false;
			if (!ok) printf("X %s\n", l.c_str()); /* not executable (e.g. period removed by shrinking): the driver skips it */
		}
		fclose(f);
	} else {
		return 2;
	}
	EndCase();
	fflush(stdout);
	_exit(0);
}

/* C20 harness: wire codecs.  Drives the real JsonEncode/JsonDecode, the real buffered
 * NetString::ReadStringFromStream + StreamReadContext::FillFromStream (through a chunk-delivering Stream,
 * the real FIFO and the real StdioStream), the real NetString::WriteStringToStream, and the real TLS
 * readers (JsonRpc::ReadMessage -> NetString::ReadStringFromStream(AsioTlsStream), synchronous and
 * coroutine variant) over a real TLS connection on the loopback interface.
 *
 * Bytes are lowercase hex ("-" = empty).  One operation per line, observation after " | ":
 *
 *   T <s|c> <max> <hexstream> <cuts> | ok <hexpayload> <restlen>  |  err <code> <restlen>  |  eof
 *        TLS reader, s = synchronous, c = coroutine; max = -1 no limit; cuts = "-" or n1,n2,.. sizes of the
 *        writes on the sending side; restlen = bytes of the stream still unread afterwards
 *   F <c|s|f> <max> <payloads> <cuts> | <hexstream> <status>...
 *        payloads = "-" (none) or p1,p2,.. (hex, "e" = empty payload) written by the real WriteStringToStream;
 *        the resulting stream is cut into chunks (kind c: ChunkStream with EOF, f: FIFO fed chunk by chunk,
 *        s: StdioStream over a stringstream -- cuts ignored) and read with the buffered reader until EOF
 *   B <c|s|f> <max> <hexstream> <cuts> | <status>...      same with arbitrary (hostile) bytes
 *        status: i<hex> item ("i-" empty), n need-data, e eof, x<code> invalid_argument, h call budget exceeded
 *   J <valuetokens> | <hex of JsonEncode(v)> <valuetokens of JsonDecode(JsonEncode(v))>
 *   K <hexjson> | ok <valuetokens>  |  err
 *        value tokens (comma separated, prefix order): z null, t, f, i<int> integral number, d<bits>:<hextext>
 *        other number (bits of the double, text = what JsonEncode prints for it: oracle for the number codec),
 *        s<hexutf8>, a<n> then n values, o<n> then n times k<hexutf8> value
 *
 *   D <hexpayload> | dict <valuetokens>  |  rejected  |  null  |  other
 *        JsonRpc::DecodeMessage on the payload: a non-null dictionary, an exception, a null pointer
 *   M <s|c> <max> <hexstream> <cuts> | msg <valuetokens> <restlen> | rejected <restlen> | err <code> <restlen> | eof
 *        one iteration of JsonRpcConnection::HandleIncomingMessages over the TLS connection:
 *        JsonRpc::ReadMessage, JsonRpc::DecodeMessage, message->Get("method")
 *   U <hexbytes> | <hex of Utility::ValidateUTF8(bytes)>          the UTF-8 sanitising step on arbitrary bytes
 *   C <auth 0|1> <ep 0|1> <items> <cuts> | d<id.id...|-> <closed|hang>
 *        a REAL, started JsonRpcConnection (constructor, Start(), HandleIncomingMessages, MessageHandler, Disconnect) on
 *        the server end of the TLS connection: auth = the `authenticated` constructor argument, ep = the identity names
 *        a configured Endpoint object (1) or nothing (0).  items (comma separated) make up the stream the peer sends:
 *        p<n> = one canonical frame carrying {"jsonrpc":"2.0","method":"verif::probe","params":{"i":<index of the item>,
 *        "pad":"x"*n}}, r<hex> = raw bytes (last item only).  Observation: the `i` of every message that reached the
 *        registered handler of verif::probe, in order, and whether the connection shut itself down after the peer's
 *        end of stream.
 *   S <hexbytes> | ok <attempt> | err
 *        ConfigObject::RestoreObjects on a state file with these bytes (a Host "vh" exists, check_attempt reset to 1
 *        before): returned (check_attempt of vh afterwards) or threw
 *   R <k1> <n1> <k2> <n2> <valuetokens> | <hexfile|-> ok <k1'> <n1'> <g1'> <k2'> <n2'> <g2'> <valuetokens'>  |  <hexfile|-> err
 *        the state file written AND read by the real code: Host "vh" gets check_attempt k1 and a last_check_result whose output is
 *        n1 bytes 'x' and whose `command` is the given value, Host "vh2" gets k2 and n2 bytes 'y'; ConfigObject::DumpObjects writes
 *        the file, both objects are reset, ConfigObject::RestoreObjects reads it.  Observation: the file (hex, "-" when longer than
 *        6000 bytes), then what the two objects hold afterwards (attempt, output length, how many output bytes are the right one,
 *        the command value) or that RestoreObjects threw
 *   T lines carry a last token a<N>: the largest single `operator new` request (bytes) made while the reader ran
 *   X <signal> <operation line>       printed by the parent: the child died (signal; 0 = exit code != 0, 14 = hang)
 *        while processing that operation
 *
 * Modes:  gen --seed S --tier quick|thorough     ops FILE
 * The parent process only generates operation lines (it never calls the code under test); batches of them
 * are executed in forked children, so that a crash/abort/hang of the real code is attributed to the
 * operation being processed and the remaining operations still run.
 */
#include "common.hpp"
#include "base/netstring.hpp"
#include "base/fifo.hpp"
#include "base/stdiostream.hpp"
#include "base/tlsstream.hpp"
#include "base/io-engine.hpp"
#include "base/array.hpp"
#include "base/dictionary.hpp"
#include "remote/jsonrpc.hpp"
#include "remote/jsonrpcconnection.hpp"
#include "remote/apilistener.hpp"
#include "remote/apifunction.hpp"
#include "remote/endpoint.hpp"
#include "remote/messageorigin.hpp"
#include "base/configobject.hpp"
#include "base/configuration.hpp"
#include <boost/asio.hpp>
#include <boost/asio/ssl.hpp>
#include <openssl/evp.h>
#include <openssl/x509.h>
#include <cmath>
#include <fstream>
#include <thread>
#include <future>
#include <mutex>
#include <sys/mman.h>
#include <sys/wait.h>
#include <signal.h>
#include <functional>

#include <atomic>
#include <new>
#include "icinga/checkresult.hpp"

/* allocation probe: the largest single request to the global operator new since the last reset (every thread).  The TLS
 * reader's payload buffer (`payload.Append(len, 0)`) is a std::string, i.e. comes from here. */
static std::atomic<size_t> l_MaxAlloc{0};
void *operator new(std::size_t n)
{
	size_t cur = l_MaxAlloc.load(std::memory_order_relaxed);
	while (n > cur && !l_MaxAlloc.compare_exchange_weak(cur, n, std::memory_order_relaxed)) { }
	void *p = malloc(n ? n : 1);
	if (!p) throw std::bad_alloc();
	return p;
}
void *operator new[](std::size_t n) { return operator new(n); }
void *operator new(std::size_t n, const std::nothrow_t&) noexcept { try { return operator new(n); } catch (...) { return nullptr; } }
void *operator new[](std::size_t n, const std::nothrow_t&) noexcept { try { return operator new(n); } catch (...) { return nullptr; } }
void operator delete(void *p) noexcept { free(p); }
void operator delete(void *p, std::size_t) noexcept { free(p); }
void operator delete[](void *p) noexcept { free(p); }
void operator delete[](void *p, std::size_t) noexcept { free(p); }
void operator delete(void *p, const std::nothrow_t&) noexcept { free(p); }
void operator delete[](void *p, const std::nothrow_t&) noexcept { free(p); }

using namespace icinga;
using namespace vh;
namespace asio = boost::asio;

/* access to the private static ApiListener::m_Instance (explicit instantiation may name private members) */
struct ApiInstTag { typedef ApiListener::Ptr *type; };
template<typename Tag> struct Stash { static typename Tag::type value; };
template<typename Tag> typename Tag::type Stash<Tag>::value;
template<typename Tag, typename Tag::type M> struct RobFill { RobFill() { Stash<Tag>::value = M; } static RobFill inst; };
template<typename Tag, typename Tag::type M> RobFill<Tag, M> RobFill<Tag, M>::inst;
template struct RobFill<ApiInstTag, &ApiListener::m_Instance>;

/* ---------------------------------------------------------------- hex helpers */

static std::string Hex(const std::string& s)
{
	if (s.empty()) return "-";
	static const char *d = "0123456789abcdef";
	std::string r;
	r.reserve(s.size() * 2);
	for (unsigned char c : s) { r += d[c >> 4]; r += d[c & 15]; }
	return r;
}

static bool UnHex(const std::string& h, std::string& out)
{
	out.clear();
	if (h == "-" || h.empty()) return true;
	if (h.size() % 2) return false;
	for (size_t i = 0; i < h.size(); i += 2) {
		int v = 0;
		for (int k = 0; k < 2; k++) {
			char c = h[i + k];
			int x = (c >= '0' && c <= '9') ? c - '0' : (c >= 'a' && c <= 'f') ? c - 'a' + 10 : -1;
			if (x < 0) return false;
			v = v * 16 + x;
		}
		out += (char)v;
	}
	return true;
}

static std::vector<std::string> Split(const std::string& s, char sep)
{
	std::vector<std::string> r;
	std::string cur;
	for (char c : s) { if (c == sep) { r.push_back(cur); cur.clear(); } else cur += c; }
	r.push_back(cur);
	return r;
}

static std::vector<std::string> Words(const std::string& line)
{
	std::vector<std::string> r;
	std::istringstream is(line);
	std::string w;
	while (is >> w) { if (w == "|") break; r.push_back(w); }
	return r;
}

static int ErrCode(const std::string& what)
{
	if (what.find("must not exceed 9") != std::string::npos) return 1;
	if (what.find("leading zero") != std::string::npos) return 2;
	if (what.find("no length specifier") != std::string::npos) return 3;
	if (what.find("missing :") != std::string::npos) return 4;
	if (what.find("Max data length exceeded") != std::string::npos) return 5;
	if (what.find("missing ,") != std::string::npos) return 6;
	return 9;
}

/* ---------------------------------------------------------------- emit / fork machinery */

static bool l_Emit = false;                 /* parent: Do*() only record the operation line */
static std::vector<std::string> l_Batch;
static size_t l_BatchMax = 5000;
static void FlushBatch();

static void Emit(const std::string& line)
{
	l_Batch.push_back(line);
	if (l_Batch.size() >= l_BatchMax) FlushBatch();
}

/* cut `s` into chunks of the given sizes (zero sizes skipped, remainder = last chunk), each at most 4096 bytes */
static std::vector<std::string> Cut(const std::string& s, const std::string& cuts)
{
	std::vector<std::string> r;
	size_t pos = 0;
	if (cuts != "-")
		for (auto& c : Split(cuts, ',')) {
			size_t n = strtoull(c.c_str(), nullptr, 10);
			if (n > 4096) n = 4096;
			if (!n || pos >= s.size()) continue;
			r.push_back(s.substr(pos, n));
			pos += r.back().size();
		}
	while (pos < s.size()) { r.push_back(s.substr(pos, 4096)); pos += r.back().size(); }
	return r;
}

/* ---------------------------------------------------------------- buffered reader */

/* A Stream that delivers exactly one prepared chunk per Read() and reports EOF after the last one. */
class ChunkStream final : public Stream
{
public:
	DECLARE_PTR_TYPEDEFS(ChunkStream);
	std::vector<std::string> Chunks;
	size_t Next{0};

	size_t Read(void *buffer, size_t count) override
	{
		if (Next >= Chunks.size()) return 0;
		const std::string& c = Chunks[Next++];
		if (c.size() > count) { fprintf(stderr, "chunk larger than read size\n"); _exit(3); }
		memcpy(buffer, c.data(), c.size());
		return c.size();
	}
	void Write(const void *, size_t) override { }
	bool IsEof() const override { return Next >= Chunks.size(); }
	bool IsDataAvailable() const override { return false; }
};

static void AppendStatus(std::string& out, StreamReadStatus srs, const String& msg)
{
	if (srs == StatusNewItem) out += " i" + Hex(msg.GetData());
	else if (srs == StatusNeedData) out += " n";
	else out += " e";
}

/* the read loop of configobject.cpp:544-556 / apilistener.cpp:1507-1517, recording every status */
static std::string ReadLoop(const Stream::Ptr& stream, StreamReadContext& src, long long max, size_t budget, bool stopAtNeed, bool& failed)
{
	std::string out;
	String msg;
	for (size_t calls = 0;; calls++) {
		if (calls > budget) { out += " h"; failed = true; break; }
		StreamReadStatus srs;
		try {
			srs = NetString::ReadStringFromStream(stream, &msg, src, false, (ssize_t)max);
		} catch (const std::invalid_argument& ex) {
			out += " x" + std::to_string(ErrCode(ex.what()));
			failed = true;
			break;
		}
		AppendStatus(out, srs, msg);
		if (srs == StatusEof) break;
		if (stopAtNeed && srs == StatusNeedData) break;
	}
	return out;
}

static std::string RunBuffered(char kind, long long max, const std::string& bytes, const std::string& cuts)
{
	size_t budget = 2 * bytes.size() + 20;
	bool failed = false;
	if (kind == 'c') {
		ChunkStream::Ptr cs = new ChunkStream();
		cs->Chunks = Cut(bytes, cuts);
		budget += 2 * cs->Chunks.size();
		StreamReadContext src;
		return ReadLoop(cs, src, max, budget, false, failed);
	} else if (kind == 's') {
		std::stringstream ss(bytes);
		StdioStream::Ptr sfp = new StdioStream(&ss, false);
		StreamReadContext src;
		return ReadLoop(sfp, src, max, budget, false, failed);
	} else {
		FIFO::Ptr fifo = new FIFO();
		StreamReadContext src;
		std::string out;
		for (auto& c : Cut(bytes, cuts)) {
			fifo->Write(c.data(), c.size());
			out += ReadLoop(fifo, src, max, budget, true, failed);
			if (failed) break;
		}
		return out;
	}
}

static void DoFramed(char kind, long long max, const std::string& payloads, const std::string& cuts)
{
	if (l_Emit) { Emit(std::string("F ") + kind + " " + std::to_string(max) + " " + payloads + " " + cuts); return; }
	/* the real writer produces the stream */
	FIFO::Ptr w = new FIFO();
	if (payloads != "-")
		for (auto& ph : Split(payloads, ',')) {
			std::string p;
			if (ph != "e" && !UnHex(ph, p)) { fprintf(stderr, "bad payload hex\n"); _exit(2); }
			NetString::WriteStringToStream(w, String(p));
		}
	std::string bytes(w->GetAvailableBytes(), '\0');
	if (!bytes.empty()) w->Read(&bytes[0], bytes.size());
	printf("F %c %lld %s %s | %s%s\n", kind, max, payloads.c_str(), cuts.c_str(), Hex(bytes).c_str(),
		RunBuffered(kind, max, bytes, cuts).c_str());
}

static void DoBytes(char kind, long long max, const std::string& hex, const std::string& cuts)
{
	if (l_Emit) { Emit(std::string("B ") + kind + " " + std::to_string(max) + " " + hex + " " + cuts); return; }
	std::string bytes;
	if (!UnHex(hex, bytes)) { fprintf(stderr, "bad hex\n"); _exit(2); }
	std::string st = RunBuffered(kind, max, bytes, cuts);
	printf("B %c %lld %s %s |%s\n", kind, max, hex.c_str(), cuts.c_str(), st.c_str());
}

/* ---------------------------------------------------------------- TLS reader */

struct Tls {
	asio::io_context io;
	asio::ssl::context sctx{asio::ssl::context::tls_server};
	asio::ssl::context cctx{asio::ssl::context::tls_client};
	asio::ip::tcp::acceptor acceptor{io};

	Tls()
	{
		EVP_PKEY *pkey = EVP_EC_gen("P-256");
		X509 *x = X509_new();
		X509_set_version(x, 2);
		ASN1_INTEGER_set(X509_get_serialNumber(x), 1);
		X509_gmtime_adj(X509_getm_notBefore(x), -3600);
		X509_gmtime_adj(X509_getm_notAfter(x), 365L * 24 * 3600);
		X509_set_pubkey(x, pkey);
		X509_NAME *name = X509_get_subject_name(x);
		X509_NAME_add_entry_by_txt(name, "CN", MBSTRING_ASC, (const unsigned char *)"verif", -1, -1, 0);
		X509_set_issuer_name(x, name);
		X509_sign(x, pkey, EVP_sha256());
		SSL_CTX_use_certificate(sctx.native_handle(), x);
		SSL_CTX_use_PrivateKey(sctx.native_handle(), pkey);
		acceptor.open(asio::ip::tcp::v4());
		acceptor.set_option(asio::socket_base::reuse_address(true));
		acceptor.bind(asio::ip::tcp::endpoint(asio::ip::address_v4::loopback(), 0));
		acceptor.listen();
	}
};

static Tls *l_Tls;

static void Render(const Value& v, std::string& out, int depth = 0);

/* decode = false: T line (frame layer only); decode = true: M line (ReadMessage + DecodeMessage + use of the result) */
static void DoTls(char variant, long long max, const std::string& hex, const std::string& cuts, bool decode = false)
{
	/* sanitizer pass: ASan cannot follow exceptions thrown on Boost coroutine stacks (google/sanitizers#189,
	 * "False positive error reports may follow"), so the coroutine variant is replaced by the synchronous one there */
	static const bool noCoro = getenv("C20_NO_CORO") != nullptr;
	if (noCoro && variant == 'c') variant = 's';
	if (l_Emit) { Emit(std::string(decode ? "M " : "T ") + variant + " " + std::to_string(max) + " " + hex + " " + cuts); return; }
	std::string bytes;
	if (!UnHex(hex, bytes)) { fprintf(stderr, "bad hex\n"); _exit(2); }
	Tls& t = *l_Tls;
	auto server = Shared<AsioTlsStream>::Make(t.io, t.sctx);
	auto client = Shared<AsioTlsStream>::Make(t.io, t.cctx);
	client->lowest_layer().connect(t.acceptor.local_endpoint());
	t.acceptor.accept(server->lowest_layer());
	client->lowest_layer().set_option(asio::ip::tcp::no_delay(true));

	int hs = 0;
	server->next_layer().async_handshake(asio::ssl::stream_base::server, [&](const boost::system::error_code& ec) { if (!ec) hs++; });
	client->next_layer().async_handshake(asio::ssl::stream_base::client, [&](const boost::system::error_code& ec) { if (!ec) hs++; });
	t.io.restart();
	t.io.run();
	if (hs != 2) { fprintf(stderr, "TLS handshake failed\n"); _exit(3); }

	/* sender: the stream in the given write sizes (one TLS record each), then end of stream */
	boost::system::error_code ec;
	auto send = [&]() {
		try {
			for (auto& c : Cut(bytes, cuts))
				asio::write(client->next_layer(), asio::buffer(c.data(), c.size()));
		} catch (const std::exception&) { /* the reader went away (rejected the frame): fine */ }
		boost::system::error_code sec;
		client->lowest_layer().shutdown(asio::ip::tcp::socket::shutdown_send, sec);
	};
	/* small streams fit into the socket buffers: written completely before the reader starts (deterministic);
	 * large ones are written by a thread so that neither side can block the other */
	std::thread writer;
	if (bytes.size() > 32768) writer = std::thread(send); else send();

	std::string obs;
	size_t maxAlloc = 0;
	auto body = [&](std::function<String()> read) {
		try {
			String p;
			try { p = read(); } catch (...) { maxAlloc = l_MaxAlloc.load(); throw; }
			maxAlloc = l_MaxAlloc.load();       /* before the harness's own rendering of the payload */
			if (!decode) {
				obs = "ok " + Hex(p.GetData());
			} else {
				/* jsonrpcconnection.cpp:99-100 */
				try {
					Dictionary::Ptr message = JsonRpc::DecodeMessage(p);
					String method = message->Get("method");
					std::string r;
					Render(message, r);
					obs = "msg " + r;
				} catch (const std::exception&) {
					obs = "rejected";
				}
			}
		} catch (const std::invalid_argument& ex) {
			obs = "err " + std::to_string(ErrCode(ex.what()));
		} catch (const boost::system::system_error&) {
			obs = "eof";
		} catch (const std::exception& ex) {
			obs = std::string("other:") + typeid(ex).name();
		}
	};
	l_MaxAlloc.store(0);
	if (variant == 's') {
		body([&]() { return JsonRpc::ReadMessage(server, (ssize_t)max); });
	} else {
		IoEngine::SpawnCoroutine(t.io, [&](asio::yield_context yc) {
			body([&]() { return JsonRpc::ReadMessage(server, yc, (ssize_t)max); });
		});
		t.io.restart();
		t.io.run();
	}
	if (obs != "eof") {
		/* what is left unread in the stream */
		size_t rest = 0;
		char buf[4096];
		for (;;) {
			boost::system::error_code rec;
			size_t n = server->read_some(asio::buffer(buf, sizeof buf), rec);
			rest += n;
			if (rec || !n) break;
		}
		obs += " " + std::to_string(rest);
	}
	if (writer.joinable()) { server->lowest_layer().close(ec); writer.join(); }
	client->lowest_layer().close(ec);
	server->lowest_layer().close(ec);
	if (!decode) obs += " a" + std::to_string(maxAlloc);
	printf("%c %c %lld %s %s | %s\n", decode ? 'M' : 'T', variant, max, hex.c_str(), cuts.c_str(), obs.c_str());
}


/* ---------------------------------------------------------------- a real JsonRpcConnection (limit selection, receive loop) */


static std::vector<long long> l_Delivered;
static std::mutex l_DeliveredMutex;

static Value ProbeHandler(const MessageOrigin::Ptr&, const Dictionary::Ptr& params)
{
	std::unique_lock<std::mutex> lock(l_DeliveredMutex);
	l_Delivered.push_back((long long)(double)params->Get("i"));
	return Empty;
}

static std::string ProbePayload(size_t idx, size_t pad)
{
	return "{\"jsonrpc\":\"2.0\",\"method\":\"verif::probe\",\"params\":{\"i\":" + std::to_string(idx) + ",\"pad\":\"" + std::string(pad, 'x') + "\"}}";
}

static std::string Frame(const std::string& p);

static bool ConnStream(const std::string& items, std::string& out)
{
	out.clear();
	size_t idx = 0;
	if (items != "-")
		for (auto& it : Split(items, ',')) {
			if (it.empty()) return false;
			if (it[0] == 'p') out += Frame(ProbePayload(idx, strtoull(it.c_str() + 1, nullptr, 10)));
			else if (it[0] == 'r') { std::string raw; if (!UnHex(it.substr(1), raw)) return false; out += raw; }
			else return false;
			idx++;
		}
	return true;
}

static void DoConn(int auth, int ep, const std::string& items, const std::string& cuts)
{
	/* sanitizer pass: the connection's receive loop runs on Boost coroutine stacks and ends with an exception (end of stream,
	 * rejected frame) -- ASan cannot follow those (see DoTls); the connection cases are left to the regular pass */
	static const bool noCoro = getenv("C20_NO_CORO") != nullptr;
	if (noCoro) return;
	if (l_Emit) { Emit("C " + std::to_string(auth) + " " + std::to_string(ep) + " " + items + " " + cuts); return; }
	std::string bytes;
	if (!ConnStream(items, bytes)) { fprintf(stderr, "bad items\n"); _exit(2); }
	static bool once = false;
	if (!once) {
		once = true;
		/* Disconnect() of an anonymous connection and Endpoint::Add/RemoveClient ask the ApiListener singleton (no
		 * certificates, no listening socket needed for that) */
		*Stash<ApiInstTag>::value = new ApiListener();
		Endpoint::Ptr e = new Endpoint();
		e->SetName("vep");
		e->Register();
		ApiFunction::Register("verif::probe", new ApiFunction(&ProbeHandler));
	}
	/* the connection lives on the IoEngine's io_context (public constructor), served by the IoEngine's threads; the peer is
	 * this thread, with blocking operations */
	Tls& t = *l_Tls;
	auto server = Shared<AsioTlsStream>::Make(IoEngine::Get().GetIoContext(), t.sctx);
	auto client = Shared<AsioTlsStream>::Make(t.io, t.cctx);
	client->lowest_layer().connect(t.acceptor.local_endpoint());
	t.acceptor.accept(server->lowest_layer());
	client->lowest_layer().set_option(asio::ip::tcp::no_delay(true));
	std::promise<bool> hsDone;
	server->next_layer().async_handshake(asio::ssl::stream_base::server, [&](const boost::system::error_code& ec) { hsDone.set_value(!ec); });
	boost::system::error_code hec;
	client->next_layer().handshake(asio::ssl::stream_base::client, hec);
	if (hec || !hsDone.get_future().get()) { fprintf(stderr, "TLS handshake failed\n"); _exit(3); }

	{ std::unique_lock<std::mutex> lock(l_DeliveredMutex); l_Delivered.clear(); }
	String identity = ep ? "vep" : "nobody";
	JsonRpcConnection::Ptr conn = new JsonRpcConnection(identity, auth != 0, server, RoleServer);
	/* what ApiListener::NewClientHandlerInternal does with the new connection */
	Endpoint::Ptr endpoint = conn->GetEndpoint();
	if (endpoint) endpoint->AddClient(conn); else ApiListener::GetInstance()->AddAnonymousClient(conn);
	conn->Start();

	/* the peer: the stream in the given write sizes, end of stream, then wait until the connection has shut itself down
	 * (a receiver that neither reads nor closes ends the child through its alarm: reported as a hang) */
	try {
		for (auto& c : Cut(bytes, cuts))
			asio::write(client->next_layer(), asio::buffer(c.data(), c.size()));
	} catch (const std::exception&) { /* the connection was shut down by the receiver: fine */ }
	boost::system::error_code ec;
	client->lowest_layer().shutdown(asio::ip::tcp::socket::shutdown_send, ec);
	for (;;) {
		char buf[4096];
		boost::system::error_code rec;
		size_t n = client->next_layer().read_some(asio::buffer(buf, sizeof buf), rec);
		if (rec || !n) break;
	}
	client->lowest_layer().close(ec);
	std::string d;
	{
		std::unique_lock<std::mutex> lock(l_DeliveredMutex);
		for (long long i : l_Delivered) { if (!d.empty()) d += '.'; d += std::to_string(i); }
	}
	printf("C %d %d %s %s | d%s closed\n", auth, ep, items.c_str(), cuts.c_str(), d.empty() ? "-" : d.c_str());
}

/* ---------------------------------------------------------------- state file: ConfigObject::RestoreObjects */

/* the two probe objects of the state-file cases */
static Host::Ptr StateHost(int which)
{
	static Host::Ptr hosts[2];
	if (!hosts[0]) {
		const char *names[2] = { "vh", "vh2" };
		for (int i = 0; i < 2; i++) {
			hosts[i] = new Host();
			hosts[i]->SetName(names[i]);
			hosts[i]->Register();
		}
		Configuration::Concurrency = 2;
	}
	return hosts[which];
}

static void Render(const Value& v, std::string& out, int depth);
static bool ParseTokens(const std::vector<std::string>& toks, size_t& pos, Value& out, int depth);

/* the state file written by ConfigObject::DumpObjects and read back by ConfigObject::RestoreObjects */
static void DoStateRoundtrip(long long k1, size_t n1, long long k2, size_t n2, const std::string& toks)
{
	if (l_Emit) { Emit("R " + std::to_string(k1) + " " + std::to_string(n1) + " " + std::to_string(k2) + " " + std::to_string(n2) + " " + toks); return; }
	Value v;
	{
		auto tl = Split(toks, ',');
		size_t pos = 0;
		if (!ParseTokens(tl, pos, v, 0) || pos != tl.size()) { fprintf(stderr, "bad value tokens\n"); _exit(2); }
	}
	Host::Ptr h[2] = { StateHost(0), StateHost(1) };
	long long ks[2] = { k1, k2 };
	size_t ns[2] = { n1, n2 };
	for (int i = 0; i < 2; i++) {
		CheckResult::Ptr cr = new CheckResult();
		cr->SetOutput(String(std::string(ns[i], i ? 'y' : 'x')));
		if (i == 0) cr->SetCommand(v);
		h[i]->SetCheckAttempt((int)ks[i]);
		h[i]->SetLastCheckResult(cr);
	}
	char path[64];
	snprintf(path, sizeof path, "/tmp/vd_c20_state.%d", (int)getpid());
	std::string obs, file;
	try {
		ConfigObject::DumpObjects(path, FAState);
		{ std::ifstream f(path, std::ios::binary); std::stringstream ss; ss << f.rdbuf(); file = ss.str(); }
		for (int i = 0; i < 2; i++) { h[i]->SetCheckAttempt(1); h[i]->SetLastCheckResult(nullptr); }
		ConfigObject::RestoreObjects(path, FAState);
		obs = "ok";
		for (int i = 0; i < 2; i++) {
			CheckResult::Ptr cr = h[i]->GetLastCheckResult();
			std::string out = cr ? cr->GetOutput().GetData() : std::string();
			size_t good = 0;
			for (char c : out) if (c == (i ? 'y' : 'x')) good++;
			obs += " " + std::to_string(h[i]->GetCheckAttempt()) + " " + std::to_string(out.size()) + " " + std::to_string(good);
		}
		std::string back;
		CheckResult::Ptr cr = h[0]->GetLastCheckResult();
		Render(cr ? cr->GetCommand() : Value(Empty), back, 0);
		obs += " " + back;
	} catch (const std::exception&) {
		obs = "err";
	}
	unlink(path);
	printf("R %lld %zu %lld %zu %s | %s %s\n", k1, n1, k2, n2, toks.c_str(), file.size() <= 6000 && !file.empty() ? Hex(file).c_str() : "-", obs.c_str());
}

static void DoState(const std::string& hex)
{
	if (l_Emit) { Emit("S " + hex); return; }
	std::string bytes;
	if (!UnHex(hex, bytes)) { fprintf(stderr, "bad hex\n"); _exit(2); }
	Host::Ptr host = StateHost(0);
	host->SetCheckAttempt(1);
	char path[64];
	snprintf(path, sizeof path, "/tmp/vd_c20_state.%d", (int)getpid());
	{ std::ofstream f(path, std::ios::binary | std::ios::trunc); f.write(bytes.data(), bytes.size()); }
	std::string obs;
	try {
		ConfigObject::RestoreObjects(path, FAState);
		obs = "ok " + std::to_string(host->GetCheckAttempt());
	} catch (const std::exception&) {
		obs = "err";
	}
	unlink(path);
	printf("S %s | %s\n", hex.c_str(), obs.c_str());
}

/* ---------------------------------------------------------------- JSON */

static void Render(const Value& v, std::string& out, int depth)
{
	if (!out.empty()) out += ',';
	/* the harness's own recursion must not be what overflows the stack on deeply nested values */
	if (depth > 3000) { out += '?'; return; }
	if (v.GetType() == ValueEmpty) { out += 'z'; return; }
	if (v.IsBoolean()) { out += v.ToBool() ? 't' : 'f'; return; }
	if (v.IsNumber()) {
		double d = v.Get<double>();
		if (std::isfinite(d) && std::fabs(d) <= 9007199254740992.0 && (double)(long long)d == d) {
			out += 'i' + std::to_string((long long)d);
		} else {
			uint64_t bits;
			memcpy(&bits, &d, 8);
			char b[32];
			snprintf(b, sizeof b, "d%016llx:", (unsigned long long)bits);
			out += b;
			if (!l_Emit) {   /* the parent never calls the code under test; the executing child fills the oracle in */
				std::string txt;
				try { txt = JsonEncode(v).GetData(); } catch (...) { txt = "?"; }
				out += Hex(txt);
			}
		}
		return;
	}
	if (v.IsString()) { std::string h = Hex(v.Get<String>().GetData()); out += 's' + (h == "-" ? std::string() : h); return; }
	if (v.IsObjectType<Array>()) {
		Array::Ptr a = v;
		ObjectLock olock(a);
		out += 'a' + std::to_string(a->GetLength());
		for (const Value& e : a) Render(e, out, depth + 1);
		return;
	}
	if (v.IsObjectType<Dictionary>()) {
		Dictionary::Ptr d = v;
		ObjectLock olock(d);
		out += 'o' + std::to_string(d->GetLength());
		for (const Dictionary::Pair& kv : d) {
			std::string h = Hex(kv.first.GetData());
			out += ",k" + (h == "-" ? std::string() : h);
			Render(kv.second, out, depth + 1);
		}
		return;
	}
	out += '?';
}

static bool ParseTokens(const std::vector<std::string>& toks, size_t& pos, Value& out, int depth = 0)
{
	if (pos >= toks.size() || depth > 20000) return false;
	const std::string& t = toks[pos++];
	if (t.empty()) return false;
	std::string rest = t.substr(1), raw;
	switch (t[0]) {
		case 'z': out = Empty; return true;
		case 't': out = true; return true;
		case 'f': out = false; return true;
		case 'i': out = (double)strtoll(rest.c_str(), nullptr, 10); return true;
		case 'd': {
			uint64_t bits = strtoull(rest.substr(0, 16).c_str(), nullptr, 16);
			double d;
			memcpy(&d, &bits, 8);
			out = d;
			return true;
		}
		case 's': if (!UnHex(rest, raw)) return false; out = String(raw); return true;
		case 'a': {
			Array::Ptr a = new Array();
			size_t n = strtoull(rest.c_str(), nullptr, 10);
			for (size_t i = 0; i < n; i++) { Value e; if (!ParseTokens(toks, pos, e, depth + 1)) return false; a->Add(e); }
			out = a;
			return true;
		}
		case 'o': {
			Dictionary::Ptr d = new Dictionary();
			size_t n = strtoull(rest.c_str(), nullptr, 10);
			for (size_t i = 0; i < n; i++) {
				if (pos >= toks.size() || toks[pos].empty() || toks[pos][0] != 'k') return false;
				std::string k;
				if (!UnHex(toks[pos].substr(1), k)) return false;
				pos++;
				Value e;
				if (!ParseTokens(toks, pos, e, depth + 1)) return false;
				d->Set(String(k), e);
			}
			out = d;
			return true;
		}
	}
	return false;
}

static void DoJsonValue(const Value& v)
{
	std::string orig, back;
	Render(v, orig);
	if (l_Emit) { Emit("J " + orig); return; }
	String enc = JsonEncode(v);
	try {
		Value dec = JsonDecode(enc);
		Render(dec, back);
	} catch (const std::exception&) {
		back = "err";
	}
	printf("J %s | %s %s\n", orig.c_str(), Hex(enc.GetData()).c_str(), back.c_str());
}

static void DoJsonText(const std::string& hex)
{
	if (l_Emit) { Emit("K " + hex); return; }
	std::string txt;
	if (!UnHex(hex, txt)) { fprintf(stderr, "bad hex\n"); _exit(2); }
	std::string obs;
	try {
		Value dec = JsonDecode(String(txt));
		obs = "ok ";
		std::string r;
		Render(dec, r);
		obs += r;
	} catch (const std::exception&) {
		obs = "err";
	}
	printf("K %s | %s\n", hex.c_str(), obs.c_str());
}

/* Utility::ValidateUTF8 (utility.cpp:1782-1794) on arbitrary bytes */
static void DoUtf8(const std::string& hex)
{
	if (l_Emit) { Emit("U " + hex); return; }
	std::string raw;
	if (!UnHex(hex, raw)) { fprintf(stderr, "bad hex\n"); _exit(2); }
	String out = Utility::ValidateUTF8(String(raw));
	printf("U %s | %s\n", hex.c_str(), Hex(out.GetData()).c_str());
}

/* JsonRpc::DecodeMessage (jsonrpc.cpp:147-157) on one payload */
static void DoMessage(const std::string& hex)
{
	if (l_Emit) { Emit("D " + hex); return; }
	std::string txt;
	if (!UnHex(hex, txt)) { fprintf(stderr, "bad hex\n"); _exit(2); }
	std::string obs;
	try {
		Dictionary::Ptr message = JsonRpc::DecodeMessage(String(txt));
		if (!message) obs = "null";
		else { std::string r; Render(message, r); obs = "dict " + r; }
	} catch (const std::exception&) {
		obs = "rejected";
	}
	printf("D %s | %s\n", hex.c_str(), obs.c_str());
}

/* compact JSON text of a value, written by the harness itself (mutation base for hostile texts; the
 * parent must not call JsonEncode) */
static void MiniJson(const Value& v, std::string& out)
{
	auto str = [&](const String& s) {
		/* ensure_ascii like the encoder (the strings generated here are valid UTF-8) */
		const std::string& d = s.GetData();
		out += '"';
		for (size_t i = 0; i < d.size();) {
			unsigned char c = d[i];
			uint32_t cp; int n;
			if (c < 0x80) { cp = c; n = 1; }
			else if (c < 0xE0) { cp = c & 0x1F; n = 2; }
			else if (c < 0xF0) { cp = c & 0x0F; n = 3; }
			else { cp = c & 0x07; n = 4; }
			for (int k = 1; k < n && i + k < d.size(); k++) cp = (cp << 6) | ((unsigned char)d[i + k] & 0x3F);
			i += n;
			char b[16];
			if (cp == '"' || cp == '\\') { out += '\\'; out += (char)cp; }
			else if (cp < 0x20 || cp >= 0x7F) {
				if (cp <= 0xFFFF) snprintf(b, sizeof b, "\\u%04x", cp);
				else snprintf(b, sizeof b, "\\u%04x\\u%04x", 0xD7C0 + (cp >> 10), 0xDC00 + (cp & 0x3FF));
				out += b;
			}
			else out += (char)cp;
		}
		out += '"';
	};
	if (v.GetType() == ValueEmpty) out += "null";
	else if (v.IsBoolean()) out += v.ToBool() ? "true" : "false";
	else if (v.IsNumber()) { char b[40]; snprintf(b, sizeof b, "%.17g", v.Get<double>()); out += b; }
	else if (v.IsString()) str(v.Get<String>());
	else if (v.IsObjectType<Array>()) {
		Array::Ptr a = v; ObjectLock olock(a);
		out += '[';
		bool first = true;
		for (const Value& e : a) { if (!first) out += ','; first = false; MiniJson(e, out); }
		out += ']';
	} else if (v.IsObjectType<Dictionary>()) {
		Dictionary::Ptr d = v; ObjectLock olock(d);
		out += '{';
		bool first = true;
		for (const Dictionary::Pair& kv : d) { if (!first) out += ','; first = false; str(kv.first); out += ':'; MiniJson(kv.second, out); }
		out += '}';
	}
}

/* ---------------------------------------------------------------- generators */

static void PutUtf8(std::string& s, uint32_t cp)
{
	if (cp < 0x80) s += (char)cp;
	else if (cp < 0x800) { s += (char)(0xC0 | (cp >> 6)); s += (char)(0x80 | (cp & 0x3F)); }
	else if (cp < 0x10000) { s += (char)(0xE0 | (cp >> 12)); s += (char)(0x80 | ((cp >> 6) & 0x3F)); s += (char)(0x80 | (cp & 0x3F)); }
	else { s += (char)(0xF0 | (cp >> 18)); s += (char)(0x80 | ((cp >> 12) & 0x3F)); s += (char)(0x80 | ((cp >> 6) & 0x3F)); s += (char)(0x80 | (cp & 0x3F)); }
}

static uint32_t GenCp(Rng& r)
{
	static const uint32_t special[] = { 0, 1, 8, 9, 10, 12, 13, 0x1f, 0x20, 0x22, 0x2f, 0x5c, 0x7e, 0x7f, 0x80, 0x7ff, 0x800,
		0xd7ff, 0xe000, 0xfffd, 0xffff, 0x10000, 0x1f600, 0x10ffff };
	switch (r.below(8)) {
		case 0: return special[r.below(sizeof special / sizeof *special)];
		case 1: return (uint32_t)r.below(0x20);
		case 2: case 3: return 0x20 + (uint32_t)r.below(0x5f);
		case 4: return 0x80 + (uint32_t)r.below(0x780);
		case 5: { uint32_t c = 0x800 + (uint32_t)r.below(0xf800); return (c >= 0xd800 && c <= 0xdfff) ? 0xfffd : c; }
		case 6: return 0x10000 + (uint32_t)r.below(0x100000);
		default: return 'a' + (uint32_t)r.below(26);
	}
}

static String GenString(Rng& r)
{
	std::string s;
	int n = r.below(4) == 0 ? 0 : (int)r.below(r.below(10) == 0 ? 60 : 8);
	for (int i = 0; i < n; i++) PutUtf8(s, GenCp(r));
	if (r.below(12) == 0 && !s.empty()) {
		/* ill-formed UTF-8 (sanitised to U+FFFD by the encoder): stray trail/lead bytes, truncation, overlongs, surrogates */
		static const char *bad[] = { "\x80", "\xbf", "\xc0\x80", "\xc1\xbf", "\xe0\x80\x80", "\xed\xa0\x80", "\xed\xbf\xbf", "\xf4\x90\x80\x80",
			"\xf5\x80\x80\x80", "\xf8", "\xff", "\xfe", "\xc3", "\xe2\x82", "\xf0\x9f\x98", "\xe2\x28\xa1", "\xf0\x28\x8c\xbc", "\xc3\xc3\xa9" };
		int k = 1 + (int)r.below(2);
		for (int i = 0; i < k; i++) {
			switch (r.below(3)) {
				case 0: s.insert(r.below(s.size() + 1), bad[r.below(sizeof bad / sizeof *bad)]); break;
				case 1: s.resize(1 + r.below(s.size())); break;               /* may cut inside a sequence */
				default: s[r.below(s.size())] = (char)(0x80 + r.below(0x80)); break;
			}
		}
	}
	return String(s);
}

static std::string GenUtf8Hostile(Rng& r)
{
	static const char *fixed[] = { "", "a", "\x7f", "\x80", "\xbf", "\xc0", "\xc0\x80", "\xc1\xbf", "\xc2", "\xc2\x80", "\xdf\xbf", "\xe0\x80\x80", "\xe0\x9f\xbf",
		"\xe0\xa0\x80", "\xed\x9f\xbf", "\xed\xa0\x80", "\xed\xbf\xbf", "\xee\x80\x80", "\xef\xbf\xbd", "\xef\xbf\xbf", "\xf0\x80\x80\x80", "\xf0\x8f\xbf\xbf",
		"\xf0\x90\x80\x80", "\xf4\x8f\xbf\xbf", "\xf4\x90\x80\x80", "\xf5\x80\x80\x80", "\xf7\xbf\xbf\xbf", "\xf8\x88\x80\x80\x80", "\xfc\x84\x80\x80\x80\x80",
		"\xfe", "\xff", "\xe2\x82", "\xe2", "\xf0\x9f\x98", "\xf0\x9f", "\xf0", "\xe2\x28\xa1", "\xe2\x82\x28", "\xf0\x28\x8c\xbc", "\xf0\x90\x28\xbc",
		"\xf0\x28\x8c\x28", "a\x80\x80\x80z", "\xc3\xa9\x80", "\x80\xc3\xa9", "\xc3\xc3\xa9", "\xe2\x82\xe2\x82\xac", "\xed\xa0\x80\xed\xb0\x80", "ab\xc3" };
	std::string s;
	switch (r.below(5)) {
		case 0: return fixed[r.below(sizeof fixed / sizeof *fixed)];
		case 1: { int n = (int)r.below(12); for (int i = 0; i < n; i++) s += (char)r.below(256); return s; }
		case 2: { int n = (int)r.below(10); static const unsigned char b[] = { 0x41, 0x7f, 0x80, 0xbf, 0xc0, 0xc2, 0xdf, 0xe0, 0xed, 0xef, 0xf0, 0xf4, 0xf5, 0xa0, 0x90, 0x8f, 0x9f };
			for (int i = 0; i < n; i++) s += (char)b[r.below(sizeof b)]; return s; }
		default: return GenString(r).GetData();
	}
}

static double GenNumber(Rng& r)
{
	static const double special[] = { 0.0, -0.0, 1.0, -1.0, 0.5, 0.1, 1e-7, 4.9406564584124654e-324, 2.2250738585072014e-308,
		1.7976931348623157e308, -1.7976931348623157e308, 1e300, -1e300, 1e-300, 9007199254740992.0, -9007199254740992.0,
		9007199254740991.0, 9007199254740993.0, 18446744073709551615.0, 9223372036854775807.0, -9223372036854775808.0,
		1e19, 1e20, 1e21, 1e22, 123456789012345680000.0, 1234567.1234567, 3.141592653589793, 1.5e-5 };
	switch (r.below(8)) {
		case 0: return special[r.below(sizeof special / sizeof *special)];
		case 1: return (double)(long long)r.below(1000) - 500;
		case 2: { double d = (double)(r.next() >> (11 + r.below(53))); return r.coin() ? d : -d; } /* integers of every magnitude up to 2^53 */
		case 3: { uint64_t b = r.next(); double d; memcpy(&d, &b, 8); return std::isfinite(d) ? d : 1.25; } /* any finite double */
		case 4: { uint64_t b = r.next() & 0x800fffffffffffffULL; double d; memcpy(&d, &b, 8); return d; } /* subnormals */
		case 5: return (double)(long long)(r.next() >> 20) / 1000.0;
		case 6: return 1600000000.0 + (double)r.below(100000000) + (double)r.below(1000000) / 1e6; /* timestamps */
		default: return (double)r.below(100);
	}
}

static Value GenValue(Rng& r, int depth, int& budget)
{
	budget--;
	int k = (depth <= 0 || budget <= 0) ? (int)r.below(5) : (int)r.below(8);
	switch (k) {
		case 0: return Empty;
		case 1: return r.coin();
		case 2: return GenNumber(r);
		case 3: case 4: return GenString(r);
		case 5: case 6: {
			Array::Ptr a = new Array();
			int n = (int)r.below(5);
			for (int i = 0; i < n && budget > 0; i++) a->Add(GenValue(r, depth - 1, budget));
			return a;
		}
		default: {
			Dictionary::Ptr d = new Dictionary();
			int n = (int)r.below(5);
			for (int i = 0; i < n && budget > 0; i++) d->Set(GenString(r), GenValue(r, depth - 1, budget));
			return d;
		}
	}
}

static Value GenDeep(Rng& r, int depth)
{
	Value v = GenString(r);
	for (int i = 0; i < depth; i++) {
		if (r.coin()) { Array::Ptr a = new Array(); if (r.coin()) a->Add(GenNumber(r)); a->Add(v); v = a; }
		else { Dictionary::Ptr d = new Dictionary(); d->Set(GenString(r), v); if (r.coin()) d->Set(GenString(r), Empty); v = d; }
	}
	return v;
}

static std::string GenPayload(Rng& r, int maxLen)
{
	std::string p;
	int n = r.below(5) == 0 ? 0 : (int)r.below((uint64_t)maxLen + 1);
	int mode = (int)r.below(4);
	for (int i = 0; i < n; i++) {
		if (mode == 0) p += (char)r.below(256);
		else if (mode == 1) p += "0123456789:,"[r.below(12)];          /* payloads that look like framing */
		else p += (char)(32 + r.below(95));
	}
	return p;
}

static std::string RandomCuts(Rng& r, size_t len)
{
	if (r.below(6) == 0) return "-";
	std::string c;
	size_t pos = 0;
	int style = (int)r.below(3);
	while (pos < len) {
		size_t n = style == 0 ? 1 : style == 1 ? 1 + r.below(4) : 1 + r.below(200);
		if (!c.empty()) c += ',';
		c += std::to_string(n);
		pos += n;
	}
	return c.empty() ? "-" : c;
}

static std::string Frame(const std::string& p) { return std::to_string(p.size()) + ":" + p + ","; }

/* hostile netstring streams: mutations of valid frame sequences, bad length fields, truncations */
static std::string GenHostileStream(Rng& r)
{
	static const char *fixed[] = { "", ":", ",", "0", "0:", "0:,", "0:,0:,", "00:,", "01:a,", "1:a", "1:a;", "1:ab,", "a:,", "12ab:", "1a:x,",
		"1 :a,", " 1:a,", "+1:a,", "-1:a,", "1:a,2", "1:a,2:b", "999999999:", "1000000000:", "9999999999:x,", "99999999999999999:", "999999999999999999:",
		"12345678901234567", "123456789012345678", "1048576:", "1048577:", "1048575:", "1048576:x", "2:a,,", "1:,", "0x1:a,", "1:a,\n", "4294967296:", "3:ab" };
	std::string s;
	switch (r.below(6)) {
		case 0: return fixed[r.below(sizeof fixed / sizeof *fixed)];
		case 1: { int n = (int)r.below(30); for (int i = 0; i < n; i++) s += "0123456789:,ax"[r.below(14)]; return s; }
		case 2: { int n = (int)r.below(40); for (int i = 0; i < n; i++) s += (char)r.below(256); return s; }
		default: {
			int k = 1 + (int)r.below(3);
			for (int i = 0; i < k; i++) s += Frame(GenPayload(r, 12));
			int m = (int)r.below(4);
			if (s.empty()) return s;
			if (m == 0) s.resize(r.below(s.size() + 1));                                  /* truncate */
			else if (m == 1) s[r.below(s.size())] = "0123456789:,a"[r.below(13)];         /* overwrite one byte */
			else if (m == 2) s.insert(r.below(s.size() + 1), 1, "0123456789:, "[r.below(13)]); /* insert */
			else s.erase(r.below(s.size()), 1);                                           /* delete */
			return s;
		}
	}
}

static std::string GenHostileJson(Rng& r)
{
	static const char *fixed[] = { "", " ", "nul", "nulll", "tru", "[", "]", "{", "}", "[1,]", "[,1]", "{\"a\"}", "{\"a\":}", "{\"a\":1,}", "{1:2}", "\"", "\"abc",
		"\"\\", "\"\\u", "\"\\u12", "\"\\ud800\"", "\"\\udc00\"", "\"\\ud800\\u0041\"", "\"\\ud83d\\ude00\"", "\"\\uD83D\\uDE00\"", "\"\\x41\"", "\"\t\"", "\"\x7f\"",
		"01", "-", "-0", "1.", ".5", "1e", "1e+", "1E5", "1e999", "-1e999", "123456789012345678901234567890", "0.1e-400", "1 2", "[1 2]", "{\"a\":1 \"b\":2}",
		"{\"a\":1,\"a\":2}", "{\"b\":1,\"a\":2}", " [ 1 , 2 ] ", "\xff", "\"\xff\"", "\"\xc3\"", "\"\xed\xa0\x80\"", "\"\xf4\x90\x80\x80\"", "\"\xc0\x80\"", "[\"\xe2\x82\"]",
		"nan", "NaN", "Infinity", "-Infinity", "'a'", "/**/1", "1//x", "\xef\xbb\xbf" "1", "[[[[[[[[[[]]]]]]]]]]", "{\"\":{\"\":{\"\":[]}}}", "true false", "[true,false,null]" };
	std::string s;
	switch (r.below(8)) {
		case 0: case 1: return fixed[r.below(sizeof fixed / sizeof *fixed)];
		case 2: { int n = (int)r.below(40); for (int i = 0; i < n; i++) s += (char)r.below(256); return s; }
		case 3: { int n = (int)r.below(40); for (int i = 0; i < n; i++) s += "[]{}\",:\\u0123dDcCnulltruefalse-+.eE \n"[r.below(37)]; return s; }
		default: {
			int budget = 12;
			MiniJson(GenValue(r, 3, budget), s);
			if (s.empty()) return s;
			int m = (int)r.below(5);
			if (m == 0) s.resize(r.below(s.size() + 1));
			else if (m == 1) s[r.below(s.size())] = (char)r.below(256);
			else if (m == 2) s.insert(r.below(s.size() + 1), 1, "[]{}\",:\\ \n0e-"[r.below(14)]);
			else if (m == 3) s.erase(r.below(s.size()), 1);
			/* m == 4: unchanged valid text */
			return s;
		}
	}
}

static void AllCompositions(const std::string& kind_max_prefix, char line, const std::string& field, size_t len)
{
	/* every way of cutting `len` bytes into consecutive non-empty chunks: 2^(len-1) */
	if (len == 0) return;
	for (uint64_t mask = 0; mask < (1ULL << (len - 1)); mask++) {
		std::string cuts;
		size_t run = 1;
		for (size_t i = 0; i + 1 < len; i++) {
			if (mask & (1ULL << i)) { if (!cuts.empty()) cuts += ','; cuts += std::to_string(run); run = 1; }
			else run++;
		}
		if (!cuts.empty()) cuts += ',';
		cuts += std::to_string(run);
		char kind = kind_max_prefix[0];
		long long max = atoll(kind_max_prefix.c_str() + 2);
		if (line == 'F') DoFramed(kind, max, field, cuts);
		else DoBytes(kind, max, field, cuts);
	}
}

static void Generate(uint64_t seed, bool thorough)
{
	Rng r(seed);

	/* --- JSON: fixed corner values, then random trees, then deep nesting */
	{
		Array::Ptr a = new Array({ Empty, true, false, 0.0, -0.0, 1.5, String(""), String("a\"b\\c/d\n\t\r\b\f\x01\x7f"), new Array(), new Dictionary() });
		DoJsonValue(a);
		DoJsonValue(new Dictionary({ { "", Empty }, { "k", new Dictionary({ { "x", new Array({ 1.0 }) } }) }, { "\xc3\xa9", "\xf0\x9f\x98\x80" } }));
		DoJsonValue(String("\xef\xbf\xbd"));
		DoJsonValue(Empty); DoJsonValue(true); DoJsonValue(-0.0); DoJsonValue(9007199254740992.0);
	}
	int nJson = thorough ? 400000 : 30000;
	for (int i = 0; i < nJson; i++) {
		int budget = 1 + (int)r.below(r.below(10) == 0 ? 120 : 20);
		DoJsonValue(GenValue(r, 1 + (int)r.below(6), budget));
	}
	for (int i = 0; i < (thorough ? 400 : 40); i++)
		DoJsonValue(GenDeep(r, 1 + (int)r.below(64)));
	/* number codec (assumed law, fuzzed bit-exactly) and string escapes on their own */
	for (int i = 0; i < (thorough ? 1000000 : 60000); i++) DoJsonValue(GenNumber(r));
	for (int i = 0; i < (thorough ? 300000 : 20000); i++) DoJsonValue(GenString(r));

	/* --- hostile JSON text */
	for (int i = 0; i < (thorough ? 600000 : 60000); i++) DoJsonText(Hex(GenHostileJson(r)));
	for (int depth : { 100, 1000, 10000 }) {
		DoJsonText(Hex(std::string(depth, '[') + std::string(depth, ']')));
		DoJsonText(Hex(std::string(depth, '[')));
		std::string o;
		for (int i = 0; i < depth; i++) o += "{\"a\":";
		DoJsonText(Hex(o + "1" + std::string(depth, '}')));
	}
	/* the nesting limit of JsonDecode (json.cpp l_JsonMaxNestingDepth = 1000; repair of F-C20a): exactly at the
	 * boundary for arrays, objects and mixtures, and far beyond it -- directly, through DecodeMessage, and through
	 * the receive path on the coroutine stack */
	{
		auto nestArr = [](int d) { return std::string(d, '[') + std::string(d, ']'); };
		auto nestObj = [](int d) { std::string o; for (int i = 1; i < d; i++) o += "{\"a\":"; o += "{}"; o += std::string(d - 1, '}'); return o; };
		auto nestMix = [](int d) { std::string o, c; for (int i = 1; i < d; i++) { if (i % 2) { o += "{\"k\":"; c = "}" + c; } else { o += "[1,"; c = "]" + c; } } return o + "[]" + c; };
		for (int d : { 998, 999, 1000, 1001, 1002, 2000 }) {
			for (const std::string& t : { nestArr(d), nestObj(d), nestMix(d), nestArr(d).substr(0, d), "[" + nestObj(d - 1) + "," + nestObj(d) + "]" }) {
				DoJsonText(Hex(t));
				DoMessage(Hex(t));
			}
			DoTls('c', 1048576, Hex(Frame(nestObj(d))), "-", true);
			DoTls('s', -1, Hex(Frame(nestObj(d))), "-", true);
			DoTls('c', -1, Hex(Frame(nestArr(d))), "-", true);
		}
		for (int d : { 12000, 100000 }) {
			DoJsonText(Hex(std::string(d, '[')));
			DoMessage(Hex(nestObj(d)));
			DoTls('c', 1048576, Hex(Frame(std::string(d, '['))), "-", true);
			DoTls('c', 1048576, Hex(Frame(nestArr(d))), "-", true);
			DoTls('c', 1048576, Hex(Frame(nestObj(d))), "-", true);
			DoTls('s', 1048576, Hex(Frame(nestObj(d))), "-", true);
		}
	}

	/* --- buffered reader: every chunking of short framed streams (exhaustive), random chunkings of long ones */
	{
		const char *sets[] = { "-", "e", "61", "e,e", "6869", "31,e", "3a2c", "61,62", "303132", "e,61,e", "2c,3a", "30313233343536373839", "61,6263" };
		for (const char *ps : sets) {
			/* stream length is known only after writing; compute it the same way the writer does */
			size_t len = 0;
			if (std::string(ps) != "-")
				for (auto& ph : Split(ps, ',')) { std::string p; if (ph != "e") UnHex(ph, p); len += Frame(p).size(); }
			if (len == 0) { DoFramed('c', -1, ps, "-"); DoFramed('s', -1, ps, "-"); continue; }
			if (len <= (thorough ? 16u : 13u)) {
				AllCompositions("c -1", 'F', ps, len);
				AllCompositions("f -1", 'F', ps, len);
			}
			DoFramed('s', -1, ps, "-");
			DoFramed('c', 5, ps, "-");
		}
	}
	int nFramed = thorough ? 60000 : 10000;
	for (int i = 0; i < nFramed; i++) {
		int k = (int)r.below(6);
		std::string ps, total;
		int maxLen = r.below(20) == 0 ? 3000 : r.below(4) == 0 ? 150 : 12;
		for (int j = 0; j < k; j++) {
			std::string p = GenPayload(r, maxLen);
			if (!ps.empty()) ps += ',';
			ps += p.empty() ? "e" : Hex(p);
			total += Frame(p);
		}
		if (ps.empty()) ps = "-";
		char kind = "ccfs"[r.below(4)];
		long long max = r.below(4) == 0 ? (long long)r.below(200) : -1;
		DoFramed(kind, max, ps, RandomCuts(r, total.size()));
	}
	/* long streams through StdioStream (64 KiB fills) and 4 KiB chunks */
	for (int i = 0; i < (thorough ? 40 : 6); i++) {
		std::string ps;
		int k = 2 + (int)r.below(5);
		for (int j = 0; j < k; j++) {
			std::string p = GenPayload(r, 60000);
			if (!ps.empty()) ps += ',';
			ps += p.empty() ? "e" : Hex(p);
		}
		DoFramed(i % 2 ? 's' : 'c', -1, ps, "-");
	}

	/* --- buffered reader on hostile bytes: all chunkings of short ones, random chunkings otherwise */
	{
		const char *hs[] = { "12ab:", "a:,", "01:a,", "1:a;", ":", "1:a,2:b", "0:,0", "1234567890:", "1:a,:", "3:ab" };
		for (const char *h : hs) {
			std::string s(h);
			AllCompositions("c -1", 'B', Hex(s), s.size());
		}
	}
	int nHostile = thorough ? 300000 : 80000;
	for (int i = 0; i < nHostile; i++) {
		std::string s = GenHostileStream(r);
		char kind = "ccfs"[r.below(4)];
		long long max = r.below(4) == 0 ? (long long)r.below(40) : -1;
		DoBytes(kind, max, Hex(s), RandomCuts(r, s.size()));
	}

	/* --- TLS readers over a real TLS connection */
	int nTls = thorough ? 20000 : 5000;
	for (int i = 0; i < nTls; i++) {
		std::string s;
		long long max = -1;
		int m = (int)r.below(10);
		if (m < 3) {                         /* valid frame(s) plus a tail */
			s = Frame(GenPayload(r, r.below(10) == 0 ? 3000 : 20));
			if (r.coin()) s += GenHostileStream(r);
			if (r.coin()) max = (long long)r.below(30);
		} else if (m < 5) {                  /* declared length against the limit; little or no payload present */
			static const long long lims[] = { 0, 1, 10, 1024, 1048576 };
			max = lims[r.below(5)];
			long long decl = max + (long long)r.below(3) - 1;
			if (r.below(4) == 0) decl = 999999999;
			if (decl < 0) decl = 0;
			s = std::to_string(decl) + ":" + GenPayload(r, 8);
		} else {
			s = GenHostileStream(r);
			if (r.below(3) == 0) max = (long long)r.below(20);
		}
		DoTls(r.coin() ? 's' : 'c', max, Hex(s), RandomCuts(r, s.size()));
	}
	/* the 1 MiB limit of unauthenticated connections (jsonrpcconnection.cpp:75) */
	DoTls('s', 1048576, Hex("1048577:abc"), "-");
	DoTls('c', 1048576, Hex("1048577:abc"), "-");
	DoTls('s', 1048576, Hex("999999999:"), "-");
	DoTls('c', 1048576, Hex("1048576:x"), "-");
	{
		std::string big(1048576, 'x');
		DoTls('s', 1048576, Hex(Frame(big)), "-");
		if (thorough) DoTls('c', 1048576, Hex(Frame(big)), "-");
	}

	/* --- the UTF-8 sanitising step on its own */
	for (int i = 0; i < (thorough ? 400000 : 40000); i++) DoUtf8(Hex(GenUtf8Hostile(r)));

	/* --- JSON-RPC messages: DecodeMessage directly, and through ReadMessage over TLS as the receive loop does */
	static const char *msgs[] = { "null", "42", "-1.5", "\"x\"", "\"\"", "true", "false", "[]", "[1]", "[{}]", "[null]", "{}", "{\"method\":\"x\"}",
		"{\"jsonrpc\":\"2.0\",\"method\":\"event::Heartbeat\",\"params\":{\"timeout\":120}}", "{\"method\":null}", "{\"method\":1}",
		" null ", " {} ", "\n{\"a\":1}\n", "", " ", "nul", "nulll", "null null", "{", "}", "{null}", "{\"a\"}", "[{}", "{}{}", "0", "1e999", "\xff", "NULL", "Null" };
	auto genMsg = [&](Rng& rr) -> std::string {
		std::string m;
		switch (rr.below(6)) {
			case 0: case 1: return msgs[rr.below(sizeof msgs / sizeof *msgs)];
			case 2: return GenHostileJson(rr);
			case 3: { int budget = 10; MiniJson(GenValue(rr, 3, budget), m); return m; }           /* any kind of value */
			default: {                                                                                /* dictionaries */
				Dictionary::Ptr d = new Dictionary();
				int n = (int)rr.below(4), budget = 10;
				if (rr.coin()) d->Set("method", rr.coin() ? Value(GenString(rr)) : GenValue(rr, 1, budget));
				for (int i = 0; i < n; i++) d->Set(GenString(rr), GenValue(rr, 2, budget));
				MiniJson(d, m);
				return m;
			}
		}
	};
	for (const char *m : msgs) DoMessage(Hex(m));
	for (int i = 0; i < (thorough ? 200000 : 30000); i++) DoMessage(Hex(genMsg(r)));
	for (const char *m : msgs) {
		DoTls('s', -1, Hex(Frame(m)), "-", true);
		DoTls('c', 1048576, Hex(Frame(m)), "-", true);
	}
	for (int i = 0; i < (thorough ? 10000 : 2500); i++) {
		std::string s;
		long long max = r.below(3) == 0 ? (long long)r.below(60) : r.coin() ? 1048576 : -1;
		if (r.below(8) == 0) s = GenHostileStream(r);
		else { s = Frame(genMsg(r)); if (r.below(4) == 0) s += GenHostileStream(r); }
		DoTls(r.coin() ? 's' : 'c', max, Hex(s), RandomCuts(r, s.size()), true);
	}

	/* --- a real JsonRpcConnection: which limit applies to which peer (jsonrpcconnection.cpp:45-46,75), the receive loop */
	{
		const size_t MiB = 1048576;
		auto padFor = [](size_t idx, size_t payloadLen) { return payloadLen - ProbePayload(idx, 0).size(); };
		for (int auth = 0; auth < 2; auth++)
			for (int ep = 0; ep < 2; ep++) {
				DoConn(auth, ep, "-", "-");
				DoConn(auth, ep, "p0,p10,p100", "-");
				DoConn(auth, ep, "p0,p10,p100", "1,1,1,1,1,1,1,1,1,1,1,1,1,1,1,1,1,1,1,1,1,1,1,1,1,1,1,1,1,1,1,1,1,1,1,1,1,1,1,1,1,1,1,1,1,1,1,1,1,1,1,1,1,1,1,1,1,1,1,1,1,1,1,1,1,1,1,1,1,1,1,1,1,1,1,1,1,1,1,1,1,1,1,1,1,1,1,1,1,1,1,1,1,1,1,1,1,1,1,1");
				DoConn(auth, ep, "p3,r" + Hex("4:null,"), "-");
				DoConn(auth, ep, "p3,r" + Hex("00:,"), "-");
				DoConn(auth, ep, "p3,p4,r" + Hex("2:[],"), "-");
				DoConn(auth, ep, "p" + std::to_string(padFor(0, MiB)) + ",p7", "-");              /* exactly 1 MiB: within every limit */
				if (auth && !ep) continue;   /* an authenticated peer without Endpoint object: the statement names no limit for it */
				DoConn(auth, ep, "p" + std::to_string(padFor(0, MiB + 1)) + ",p7", "-");          /* one byte more */
				DoConn(auth, ep, "p5,p" + std::to_string(padFor(1, MiB + 1)) + ",p7", "-");
				DoConn(auth, ep, "p5,p" + std::to_string(padFor(1, 2 * MiB + 12345)) + ",p7", "-");
				if (thorough) DoConn(auth, ep, "p" + std::to_string(padFor(0, 10 * MiB)) + ",p7", "-");
				DoConn(auth, ep, "p1,r" + Hex("1048577:abc"), "-");
				DoConn(auth, ep, "p1,r" + Hex("999999999:"), "-");
			}
		for (int i = 0; i < (thorough ? 2500 : 500); i++) {
			int auth = (int)r.below(2), ep = (int)r.below(2);
			std::string items;
			size_t total = 0;
			int k = (int)r.below(5);
			for (int j = 0; j < k; j++) {
				size_t pad = r.below(10) == 0 ? r.below(5000) : r.below(40);
				if (!items.empty()) items += ',';
				items += "p" + std::to_string(pad);
				total += Frame(ProbePayload(j, pad)).size();
			}
			if (r.below(3) == 0) {
				std::string tail = r.below(4) == 0 ? Frame(msgs[r.below(sizeof msgs / sizeof *msgs)]) : GenHostileStream(r);
				if (!tail.empty()) {
					if (!items.empty()) items += ',';
					items += "r" + Hex(tail);
					total += tail.size();
				}
			}
			if (items.empty()) items = "-";
			DoConn(auth, ep, items, RandomCuts(r, total));
		}
	}

	/* --- the state file: ConfigObject::RestoreObjects on well-framed records that are not what RestoreObject expects, and
	 *     on damaged framing */
	{
		static const char *recs[] = { "null", " null ", "[]", "5", "\"x\"", "\"\"", "true", "false", "{}", "[null]", "nul", "", "{",
			"{\"type\":\"Host\"}", "{\"name\":\"vh\"}", "{\"type\":\"Host\",\"name\":\"vh\"}",
			"{\"type\":\"Host\",\"name\":\"vh\",\"update\":null}", "{\"type\":\"Host\",\"name\":\"vh\",\"update\":[]}",
			"{\"type\":\"Host\",\"name\":\"vh\",\"update\":5}", "{\"type\":\"Host\",\"name\":\"vh\",\"update\":\"s\"}",
			"{\"type\":\"Host\",\"name\":\"vh\",\"update\":{}}", "{\"type\":\"Host\",\"name\":\"vh\",\"update\":true}",
			"{\"type\":null,\"name\":null,\"update\":{}}", "{\"type\":[],\"name\":\"vh\",\"update\":{}}", "{\"type\":\"Host\",\"name\":[],\"update\":{}}",
			"{\"type\":{},\"name\":{},\"update\":{}}", "{\"type\":5,\"name\":6,\"update\":{}}", "{\"type\":true,\"name\":\"vh\",\"update\":{}}",
			"{\"type\":\"Host\",\"name\":\"nohost\",\"update\":{\"check_attempt\":9}}", "{\"type\":\"NoSuchType\",\"name\":\"vh\",\"update\":{}}",
			"{\"type\":\"Array\",\"name\":\"vh\",\"update\":{}}", "{\"type\":\"\",\"name\":\"\",\"update\":{}}",
			"{\"type\":\"Host\",\"name\":\"vh\",\"update\":{\"check_attempt\":\"x\"}}", "{\"type\":\"Host\",\"name\":\"vh\",\"update\":{\"check_attempt\":[]}}",
			"{\"type\":\"Host\",\"name\":\"vh\",\"update\":{\"check_attempt\":null}}", "{\"type\":\"Host\",\"name\":\"vh\",\"update\":{\"no_such_attribute\":1}}",
			"{\"update\":{\"check_attempt\":9}}", "[{\"type\":\"Host\",\"name\":\"vh\",\"update\":{\"check_attempt\":9}}]" };
		const std::string valid = "{\"type\":\"Host\",\"name\":\"vh\",\"update\":{\"type\":\"Host\",\"check_attempt\":3}}";
		const size_t nrecs = sizeof recs / sizeof *recs;
		DoState(Hex(""));
		DoState(Hex(Frame(valid)));
		for (const char *rec : recs) {
			DoState(Hex(Frame(rec)));
			DoState(Hex(Frame(valid) + Frame(rec)));
			DoState(Hex(Frame(rec) + Frame(valid)));
		}
		for (int i = 0; i < (thorough ? 6000 : 1200); i++) {
			std::string f;
			int k = 1 + (int)r.below(3);
			int validAt = r.below(3) == 0 ? -1 : (int)r.below(k);       /* at most one record that really applies: the records run in parallel */
			for (int j = 0; j < k; j++) f += Frame(j == validAt ? valid : std::string(recs[r.below(nrecs)]));
			switch (r.below(6)) {
				case 0: f.resize(r.below(f.size() + 1)); break;
				case 1: f[r.below(f.size())] = "0123456789:,a"[r.below(13)]; break;
				case 2: f += GenHostileStream(r); break;
				case 3: f = GenHostileStream(r) + f; break;
				default: break;
			}
			DoState(Hex(f));
		}
		/* well-framed files with LARGE records (the writer knows no limit: configobject.cpp:465-503) before and behind the applicable one */
		auto bigRec = [](size_t n) { return "{\"type\":\"Host\",\"name\":\"nohost\",\"update\":{\"pad\":\"" + std::string(n, 'x') + "\"}}"; };
		for (size_t n : { (size_t)4000, (size_t)65000, (size_t)65536 - 60, (size_t)65536, (size_t)70000, (size_t)140000, (size_t)300000 }) {
			DoState(Hex(Frame(bigRec(n)) + Frame(valid)));
			DoState(Hex(Frame(valid) + Frame(bigRec(n))));
		}
	}

	/* --- the state file written by ConfigObject::DumpObjects and read back by ConfigObject::RestoreObjects: records of every size
	 *     (below and above every buffer size and limit of the readers: 4 KiB fills, 64 KiB, 1 MiB), arbitrary values inside */
	{
		static const size_t sizes[] = { 0, 1, 100, 4000, 4096, 65000, 65535, 65536, 66000, 131072, 200000, 1048576, 1100000, 3000000 };
		for (size_t n : sizes) {
			DoStateRoundtrip(2, n, 3, 5, "z");
			DoStateRoundtrip(4, 7, 2, n, "s6162");
		}
		if (thorough) { DoStateRoundtrip(2, 20000000, 3, 5, "z"); DoStateRoundtrip(2, 5, 3, 20000000, "z"); }
		for (int i = 0; i < (thorough ? 3000 : 400); i++) {
			int budget = 1 + (int)r.below(r.below(10) == 0 ? 60 : 12);
			Value v = GenValue(r, 1 + (int)r.below(5), budget);
			std::string toks;
			Render(v, toks);
			auto len = [&]() -> size_t { return r.below(12) == 0 ? (size_t)r.below(300000) : (size_t)r.below(200); };
			size_t n1 = len(), n2 = len();
			DoStateRoundtrip(1 + (long long)r.below(9), n1, 1 + (long long)r.below(9), n2, toks);
		}
	}
}

/* execute one operation line against the real code (child process) */
static bool ExecLine(const std::string& line)
{
	auto w = Words(line);
	if (w.empty() || w[0][0] == '#') return true;
	if (w[0] == "T" && w.size() == 5) DoTls(w[1][0], atoll(w[2].c_str()), w[3], w[4]);
	else if (w[0] == "M" && w.size() == 5) DoTls(w[1][0], atoll(w[2].c_str()), w[3], w[4], true);
	else if (w[0] == "F" && w.size() == 5) DoFramed(w[1][0], atoll(w[2].c_str()), w[3], w[4]);
	else if (w[0] == "B" && w.size() == 5) DoBytes(w[1][0], atoll(w[2].c_str()), w[3], w[4]);
	else if (w[0] == "J" && w.size() == 2) {
		auto toks = Split(w[1], ',');
		size_t pos = 0;
		Value v;
		if (!ParseTokens(toks, pos, v) || pos != toks.size()) return false;
		DoJsonValue(v);
	}
	else if (w[0] == "K" && w.size() == 2) DoJsonText(w[1]);
	else if (w[0] == "D" && w.size() == 2) DoMessage(w[1]);
	else if (w[0] == "U" && w.size() == 2) DoUtf8(w[1]);
	else if (w[0] == "C" && w.size() == 5) DoConn(atoi(w[1].c_str()), atoi(w[2].c_str()), w[3], w[4]);
	else if (w[0] == "S" && w.size() == 2) DoState(w[1]);
	else if (w[0] == "R" && w.size() == 6) DoStateRoundtrip(atoll(w[1].c_str()), strtoull(w[2].c_str(), nullptr, 10), atoll(w[3].c_str()), strtoull(w[4].c_str(), nullptr, 10), w[5]);
	else return false;
	return true;
}

/* Run the collected operations in forked children.  The child publishes the index of the operation it is
 * working on in shared memory and flushes its output after every operation; when it dies, the parent prints
 * `X <signal> <operation>` for that operation and continues with the next one in a fresh child. */
static void FlushBatch()
{
	static volatile size_t *cur = nullptr;
	if (!cur) {
		cur = (volatile size_t *)mmap(nullptr, 4096, PROT_READ | PROT_WRITE, MAP_SHARED | MAP_ANONYMOUS, -1, 0);
		if (cur == MAP_FAILED) { perror("mmap"); _exit(2); }
	}
	size_t start = 0;
	while (start < l_Batch.size()) {
		fflush(stdout);
		*cur = start;
		pid_t pid = fork();
		if (pid < 0) { perror("fork"); _exit(2); }
		if (pid == 0) {
			l_Emit = false;
			InitIcinga();
			l_Tls = new Tls();
			for (size_t i = start; i < l_Batch.size(); i++) {
				*cur = i;
				alarm(120);                      /* a hang of the real code ends the child with SIGALRM */
				if (!ExecLine(l_Batch[i])) { fprintf(stderr, "bad line: %s\n", l_Batch[i].substr(0, 200).c_str()); fflush(stdout); _exit(2); }
				fflush(stdout);
			}
			alarm(0);
			_exit(0);
		}
		int status = 0;
		while (waitpid(pid, &status, 0) < 0 && errno == EINTR) { }
		if (WIFEXITED(status) && WEXITSTATUS(status) == 0) break;
		if (WIFEXITED(status) && WEXITSTATUS(status) == 2) _exit(2);   /* unreadable operation line: harness usage error */
		size_t i = *cur;
		int sig = WIFSIGNALED(status) ? WTERMSIG(status) : 0;
		{ char path[64]; snprintf(path, sizeof path, "/tmp/vd_c20_state.%d", (int)pid); unlink(path); }
		/* a partially written line of the dead child may precede this one: start on a fresh line */
		printf("\nX %d %s\n", sig, l_Batch[i].c_str());
		start = i + 1;
	}
	fflush(stdout);
	l_Batch.clear();
}

int main(int argc, char **argv)
{
	if (argc < 2) { fprintf(stderr, "usage: h_c20 gen|ops ...\n"); return 2; }
	static char outbuf[1 << 20];
	setvbuf(stdout, outbuf, _IOFBF, sizeof outbuf);

	std::string mode = argv[1];
	l_Emit = true;
	if (mode == "gen") {
		uint64_t seed = strtoull(argOr(argc, argv, "--seed", "1"), nullptr, 10);
		std::string tier = argOr(argc, argv, "--tier", "quick");
		l_BatchMax = tier == "thorough" ? 20000 : 5000;
		Generate(seed, tier == "thorough");
	} else if (mode == "ops") {
		if (argc < 3) return 2;
		std::ifstream f(argv[2]);
		if (!f) { perror("open"); return 2; }
		l_BatchMax = 1000000;
		std::string line;
		while (std::getline(f, line)) {
			/* an X line replays the operation it names */
			if (line.size() > 2 && line[0] == 'X' && line[1] == ' ') {
				size_t sp = line.find(' ', 2);
				if (sp == std::string::npos) continue;
				line = line.substr(sp + 1);
			}
			size_t bar = line.find(" | ");
			if (bar != std::string::npos) line = line.substr(0, bar);
			auto w = Words(line);
			if (w.empty() || w[0][0] == '#') continue;
			l_Batch.push_back(line);
		}
	} else {
		return 2;
	}
	FlushBatch();
	fflush(stdout);
	_exit(0);
}

/* C17 harness: runtime object creation/deletion through ConfigObjectUtility (CreateObjectConfig, CreateObject,
 * DeleteObject) in a scratch Configuration::DataDir, next to a handful of static (non-API) objects that were
 * loaded from config text. Prints every operation followed by what the implementation did and the complete
 * observable state (objects, config items, files of the _api stage, hash of the global namespace).
 *
 * Modes:  gen --seed S --tier quick|thorough     hand-written prelude + seeded generator
 *         ops FILE                                replay the `C`/`create`/`delete` lines of FILE (text after " | " ignored)
 *
 * Value encoding `enc` (ASCII, no spaces):  z | t | f | n<dec>; | s<hex>; | a<count>:<v>* | d<count>:(k<hex>;<v>)*
 *
 * Lines:
 *   T <Type> cfg=<fields with FAConfig> other=<other fields> plural=<lower-case plural name: the type's directory below conf.d>
 *   C <n> | <state>
 *   create <Type> <nameHex|-> <ioe> <templatesEnc> <attrsEnc> | now= parts= cfg= ok= parents= file= attrs= <state>
 *   delete <Type> <nameHex|-> <cascade> | found= ok= <state>
 *   A delete line may end in the token `thr=<Type>:<nameHex|->` (after `http`, if present): a subscriber of
 *   ConfigObject::OnActiveChanged (in production: cluster relay, IDO, Icinga DB, API event streams) throws once, the first time
 *   that object is deactivated during this call; the observation then carries threw=<0|1> (did the subscriber fire) before found=.
 *   An operation line may end in the token `http`: the operation then goes through HttpHandler::ProcessRequest
 *   (PUT /v1/objects/<plural>/<name> with a JSON body, DELETE /v1/objects/<plural>/<name>[?cascade=1]) with an ApiUser
 *   holding permission "*"; cfg= is then computed by the harness with the same call the handler makes; ok=1 HTTP 200,
 *   ok=0 HTTP 500, ok=x anything else; delete: found=0 ok=- on HTTP 404.
 *   Process layout: the process started by the user (the parent) only generates or reads operation lines; it hands them,
 *   one at a time and in batches of whole cases, to exec'ed worker processes (`h_c17 worker`, each with its own scratch
 *   data directory) and forwards what they print. If a worker dies the parent prints `X <signal or exit code> <op line>`
 *   in place of that operation's result, drops the rest of that case and goes on with the next case in a new worker
 *   (124 = no answer within the time limit). `ops` mode treats an `X <n> <op line>` line as that op line.
 *   After a create whose parents= names an object that is not the live registered object of that name (F-C17f: a
 *   deleted/rolled-back Service still in its host's service map) the worker itself executes and prints
 *   `delete <Type> <nameHex> 1` for the object just created; if the next input line is exactly that line it is skipped.
 *   create lines carry children=<DependencyGraph::GetChildren> directly after parents=.
 *   ok: 1 true, 0 false, x exception escaped, - no call, c call not made because it is known to crash /repo (see WouldCrash)
 *   <state> = objs=<Type:nameHex:api:active:hash:reg,...> items=<Type:nameHex,...> files=<hex,...> glob=<hash>
 *            (reg = 1: ConfigType::GetObject(name) returns this very object)
 *   An operation line ending in `httpn` instead of `http` (creates with an empty attribute dictionary only): the request body
 *   has no "attrs" member at all.
 *
 * The virtual clock of a create is 1700000000 + 64*<case number> + <1-based index of the operation in its case>, so a
 * replay of any subset of whole cases reproduces the lines of those cases byte for byte.
 * An empty object name is written `-` on operation lines (an empty token could not be split on blanks).
 */
#include "common.hpp"
#include "base/array.hpp"
#include "base/configuration.hpp"
#include "base/dependencygraph.hpp"
#include "base/dictionary.hpp"
#include "base/exception.hpp"
#include "base/namespace.hpp"
#include "base/scriptglobal.hpp"
#include "base/tlsutility.hpp"
#include "base/workqueue.hpp"
#include "config/activationcontext.hpp"
#include "config/configcompiler.hpp"
#include "config/configitem.hpp"
#include "config/expression.hpp"
#include "remote/configobjectutility.hpp"
#include "remote/configpackageutility.hpp"
#include "remote/apiuser.hpp"
#include "remote/httphandler.hpp"
#include "remote/httpserverconnection.hpp"
#include "remote/zone.hpp"
#include "base/io-engine.hpp"
#include "base/tlsstream.hpp"
#include <boost/asio/spawn.hpp>
#include <fcntl.h>
#include <poll.h>
#include <signal.h>
#include <sys/wait.h>
#include <boost/beast/http.hpp>
#include <boost/filesystem.hpp>
#include <algorithm>
#include <cmath>
#include <fstream>
#include <map>
#include <set>

using namespace icinga;
using namespace vh;

namespace vh {
typedef std::map<String, intrusive_ptr<Service> > HostServiceMap;
VH_ROB_MEMBER(HostServicesTag, Host, HostServiceMap, m_Services)
VH_ROB_MEMBER(HostServicesMutexTag, Host, std::mutex, m_ServicesMutex)
VH_ROB_STATIC(UnnamedItemsTag, std::vector<ConfigItem::Ptr> *type, ConfigItem, m_UnnamedItems)
}

/* ---------------------------------------------------------------- encoding */

static std::string Hex(const std::string& s)
{
	static const char *d = "0123456789abcdef";
	std::string out;
	out.reserve(s.size() * 2);
	for (unsigned char c : s) {
		out.push_back(d[c >> 4]);
		out.push_back(d[c & 15]);
	}
	return out;
}

static int HexVal(char c)
{
	if (c >= '0' && c <= '9') return c - '0';
	if (c >= 'a' && c <= 'f') return c - 'a' + 10;
	if (c >= 'A' && c <= 'F') return c - 'A' + 10;
	return -1;
}

static bool UnHex(const char *b, const char *e, std::string& out)
{
	out.clear();
	if ((e - b) % 2)
		return false;
	for (; b < e; b += 2) {
		int h = HexVal(b[0]), l = HexVal(b[1]);
		if (h < 0 || l < 0)
			return false;
		out.push_back((char)(h * 16 + l));
	}
	return true;
}

static void EncNum(double v, std::string& out)
{
	if (!std::isfinite(v)) {
		out += "s" + Hex(std::isnan(v) ? "<nan>" : (v > 0 ? "<inf>" : "<-inf>")) + ";";
		return;
	}
	static thread_local char buf[1600];
	int n = snprintf(buf, sizeof buf, "%.1100f", v);
	if (n <= 0 || n >= (int)sizeof buf) {
		out += "s" + Hex("<num>") + ";";
		return;
	}
	while (n > 0 && buf[n - 1] == '0')
		n--;
	if (n > 0 && buf[n - 1] == '.')
		n--;
	std::string s(buf, n);
	if (s == "-0")
		s = "0";
	out += "n" + s + ";";
}

static void Enc(const Value& v, std::string& out)
{
	switch (v.GetType()) {
		case ValueEmpty:
			out += 'z';
			return;
		case ValueBoolean:
			out += v.ToBool() ? 't' : 'f';
			return;
		case ValueNumber:
			EncNum(v.Get<double>(), out);
			return;
		case ValueString:
			out += "s" + Hex(v.Get<String>().GetData()) + ";";
			return;
		case ValueObject:
			break;
	}
	if (v.IsObjectType<Array>()) {
		Array::Ptr a = v;
		ObjectLock olock(a);
		out += "a" + std::to_string(a->GetLength()) + ":";
		for (const Value& item : a)
			Enc(item, out);
		return;
	}
	if (v.IsObjectType<Dictionary>()) {
		Dictionary::Ptr d = v;
		ObjectLock olock(d);
		out += "d" + std::to_string(d->GetLength()) + ":";
		for (const Dictionary::Pair& kv : d) {
			out += "k" + Hex(kv.first.GetData()) + ";";
			Enc(kv.second, out);
		}
		return;
	}
	out += "s" + Hex("<object>") + ";";
}

static std::string EncS(const Value& v)
{
	std::string s;
	Enc(v, s);
	return s;
}

static bool Dec(const char *& p, const char *e, Value& out, int depth = 0)
{
	if (p >= e || depth > 64)
		return false;
	char c = *p++;
	switch (c) {
		case 'z': out = Empty; return true;
		case 't': out = true; return true;
		case 'f': out = false; return true;
		case 'n': {
			const char *q = (const char *)memchr(p, ';', e - p);
			if (!q || q == p) return false;
			std::string s(p, q);
			char *endp = nullptr;
			double d = strtod(s.c_str(), &endp);
			if (!endp || *endp) return false;
			out = d;
			p = q + 1;
			return true;
		}
		case 's': {
			const char *q = (const char *)memchr(p, ';', e - p);
			if (!q) return false;
			std::string s;
			if (!UnHex(p, q, s)) return false;
			out = String(s);
			p = q + 1;
			return true;
		}
		case 'a':
		case 'd': {
			const char *q = (const char *)memchr(p, ':', e - p);
			if (!q || q == p) return false;
			long n = 0;
			for (const char *x = p; x < q; x++) {
				if (*x < '0' || *x > '9') return false;
				n = n * 10 + (*x - '0');
				if (n > 10000000) return false;
			}
			p = q + 1;
			if (c == 'a') {
				Array::Ptr a = new Array();
				for (long i = 0; i < n; i++) {
					Value item;
					if (!Dec(p, e, item, depth + 1)) return false;
					a->Add(item);
				}
				out = a;
			} else {
				Dictionary::Ptr d = new Dictionary();
				for (long i = 0; i < n; i++) {
					if (p >= e || *p != 'k') return false;
					p++;
					const char *r = (const char *)memchr(p, ';', e - p);
					if (!r) return false;
					std::string key;
					if (!UnHex(p, r, key)) return false;
					p = r + 1;
					Value item;
					if (!Dec(p, e, item, depth + 1)) return false;
					d->Set(String(key), item);
				}
				out = d;
			}
			return true;
		}
		default:
			return false;
	}
}

static bool DecS(const std::string& s, Value& out)
{
	const char *p = s.data(), *e = s.data() + s.size();
	return Dec(p, e, out) && p == e;
}

static std::string Join(const std::vector<std::string>& v)
{
	if (v.empty())
		return "-";
	std::string out;
	for (size_t i = 0; i < v.size(); i++) {
		if (i) out += ",";
		out += v[i];
	}
	return out;
}

/* ---------------------------------------------------------------- globals of the harness */

static const char *l_TypeNames[] = {
	"Host", "Service", "CheckCommand", "User", "UserGroup", "HostGroup", "ServiceGroup", "TimePeriod",
	"Notification", "Dependency", "Comment", "Downtime", "Zone", "Endpoint", "ApiUser", "NotificationCommand",
	"EventCommand", "FileLogger"
};
static std::vector<Type::Ptr> l_Types;             /* types under test, sorted by name */
static std::string l_DataDir, l_StageDir;          /* l_StageDir: <DataDir>/api/packages/_api/<stage> */
static std::set<std::pair<std::string, std::string>> l_Static; /* (type, name) of the objects loaded from config text */
static std::set<std::string> l_GlobalKeys;         /* keys of the global namespace after set-up */
static long long l_CaseNo = 0;
static int l_OpIdx = 0;
static bool l_Flush = false;

/* statistics (stderr only) */
static std::map<std::string, std::array<long, 5>> l_Stat; /* type -> created, refused(0), exception(x), config refused(!), ok-but-absent */
static long l_NHttp = 0;
static long l_NCreate = 0, l_NDelete = 0, l_NDelOk = 0, l_NDelRefused = 0, l_NDelMissing = 0, l_NDelExc = 0, l_NCases = 0;

static Type::Ptr TypeOf(const std::string& name)
{
	for (const Type::Ptr& t : l_Types)
		if (t->GetName().GetData() == name)
			return t;
	return nullptr;
}

static std::string RelToStage(const std::string& path)
{
	std::string prefix = l_StageDir + "/";
	if (path.size() >= prefix.size() && path.compare(0, prefix.size(), prefix) == 0)
		return path.substr(prefix.size());
	return path;
}

/* ---------------------------------------------------------------- observation */

static std::string ObjHash(const ConfigObject::Ptr& obj)
{
	try {
		Dictionary::Ptr d = Serialize(obj, FAConfig);
		/* source_location.path holds the absolute path below the scratch directory: make it relative to the stage */
		Value sl = d->Get("source_location");
		if (sl.IsObjectType<Dictionary>()) {
			Dictionary::Ptr sld = sl;
			Value p = sld->Get("path");
			if (p.IsString())
				sld->Set("path", String(RelToStage(p.Get<String>().GetData())));
		}
		return SHA1(JsonEncode(d)).SubStr(0, 8).GetData();
	} catch (...) {
		return "xxxxxxxx";
	}
}

static std::string GlobHash()
{
	std::string acc;
	try {
		Namespace::Ptr g = ScriptGlobal::GetGlobals();
		ObjectLock olock(g);
		for (const Namespace::Pair& kv : g) {
			acc += "k" + Hex(kv.first.GetData()) + ";";
			const Value& v = kv.second.Val;
			if (v.IsObject() && !v.IsObjectType<Array>() && !v.IsObjectType<Dictionary>())
				continue;
			try {
				acc += "v" + std::string(JsonEncode(v).GetData()) + ";";
			} catch (...) {
				acc += "v!;";
			}
		}
	} catch (...) {
		acc += "!";
	}
	return SHA1(String(acc)).SubStr(0, 8).GetData();
}

static std::string State()
{
	std::vector<std::string> objs, items, files;

	for (const Type::Ptr& type : l_Types) {
		auto *ctype = dynamic_cast<ConfigType *>(type.get());
		std::string tn = type->GetName().GetData();
		std::vector<std::pair<std::string, std::string>> es;
		for (const ConfigObject::Ptr& obj : ctype->GetObjects()) {
			std::string name = obj->GetName().GetData();
			/* reg: looking the name up (ConfigType::GetObject, what every API call does) finds THIS object */
			bool reg = false;
			try { reg = ctype->GetObject(obj->GetName()) == obj; } catch (...) { }
			std::string e = tn + ":" + Hex(name) + ":" + (obj->GetPackage() == "_api" ? "1" : "0") + ":" +
				(obj->IsActive() ? "1" : "0") + ":" + ObjHash(obj) + ":" + (reg ? "1" : "0");
			es.emplace_back(name, e);
		}
		std::sort(es.begin(), es.end());
		for (auto& e : es)
			objs.push_back(e.second);

		std::vector<std::string> ns;
		for (const ConfigItem::Ptr& item : ConfigItem::GetItems(type))
			if (!item->IsAbstract())
				ns.push_back(item->GetName().GetData());
		/* items with composite names are not registered by name; what is (still) queued as unnamed item is listed too */
		try {
			for (const ConfigItem::Ptr& item : *get(vh::UnnamedItemsTag()))
				if (item && !item->IsAbstract() && item->GetType() == type)
					ns.push_back(item->GetName().GetData());
		} catch (...) { }
		std::sort(ns.begin(), ns.end());
		for (auto& n : ns)
			items.push_back(tn + ":" + Hex(n));
	}

	namespace fs = boost::filesystem;
	boost::system::error_code ec;
	fs::path confd(l_StageDir + "/conf.d");
	if (fs::is_directory(confd, ec)) {
		std::vector<std::string> rel;
		fs::recursive_directory_iterator it(confd, ec), end;
		while (!ec && it != end) {
			boost::system::error_code ec2;
			if (fs::is_regular_file(it->path(), ec2))
				rel.push_back(RelToStage(it->path().string()));
			it.increment(ec);
		}
		std::sort(rel.begin(), rel.end());
		for (auto& r : rel)
			files.push_back(Hex(r));
	}

	return "objs=" + Join(objs) + " items=" + Join(items) + " files=" + Join(files) + " glob=" + GlobHash();
}

/* ---------------------------------------------------------------- set-up and clean-up */

static const char *l_StaticConf = R"CONF(
object CheckCommand "scc" { command = [ "/bin/true" ] }
object NotificationCommand "snc" { command = [ "/bin/true" ] }
object EventCommand "sec" { command = [ "/bin/true" ] }
object TimePeriod "stp" { ranges = { "monday" = "00:00-24:00" } }
object HostGroup "shg" { }
object ServiceGroup "ssg" { }
object UserGroup "sug" { }
object User "su" { groups = [ "sug" ] }
object Host "sh" { check_command = "scc", groups = [ "shg" ] }
object Service "ss" { host_name = "sh", check_command = "scc", groups = [ "ssg" ] }
object Host "sh2" { check_command = "scc" }
object Service "ss2" { host_name = "sh2", check_command = "scc" }
object Zone "sz" { endpoints = [ "se" ] }
object Endpoint "se" { }
object ApiUser "sa" { password = "static" }
template Host "tpl" { notes = "from-tpl" }
template Service "tpl" { notes = "from-tpl" }
template CheckCommand "tpl" { timeout = 77 }
template NotificationCommand "tpl" { timeout = 77 }
template EventCommand "tpl" { timeout = 77 }
template User "tpl" { email = "from-tpl" }
template UserGroup "tpl" { display_name = "from-tpl" }
template HostGroup "tpl" { notes = "from-tpl" }
template ServiceGroup "tpl" { notes = "from-tpl" }
template TimePeriod "tpl" { display_name = "from-tpl" }
template Comment "tpl" { persistent = true }
template Downtime "tpl" { fixed = true }
template Notification "tpl" { interval = 77 }
template Dependency "tpl" { disable_checks = true }
apply Service "c17-ap-ok" { check_command = "scc"; assign where host.vars.c17_apply }
apply Service "c17-ap-cmd" { check_command = host.vars.c17_cmd; assign where host.vars.c17_apply && host.vars.c17_cmd }
apply Notification "c17-ap-n" to Host { command = "snc"; users = [ "su" ]; assign where host.vars.c17_notify }
globals.c17_canary = "intact"
)CONF";

static void Die(const char *msg, const std::string& detail = "")
{
	printf("FATAL %s %s\n", msg, detail.c_str());
	fflush(stdout);
	fprintf(stderr, "FATAL %s %s\n", msg, detail.c_str());
	if (!l_DataDir.empty()) {
		try { Utility::RemoveDirRecursive(l_DataDir); } catch (...) { }
	}
	_exit(3);
}

static void LoadStatic()
{
	std::string err;
	try {
		std::unique_ptr<Expression> expr = ConfigCompiler::CompileText("static.conf", l_StaticConf);
		if (!expr)
			Die("static config: compile returned null");
		ActivationScope ascope;
		ScriptFrame frame(true);
		expr->Evaluate(frame);
		expr.reset();
		WorkQueue upq;
		upq.SetName("c17-static");
		std::vector<ConfigItem::Ptr> newItems;
		if (!ConfigItem::CommitItems(ascope.GetContext(), upq, newItems, true)) {
			for (const boost::exception_ptr& ex : upq.GetExceptions())
				err += std::string(DiagnosticInformation(ex, false).GetData()) + "\n";
			Die("static config: commit failed", err);
		}
		if (!ConfigItem::ActivateItems(newItems, false, false, false)) {
			for (const boost::exception_ptr& ex : upq.GetExceptions())
				err += std::string(DiagnosticInformation(ex, false).GetData()) + "\n";
			Die("static config: activation failed", err);
		}
	} catch (const std::exception& ex) {
		Die("static config: exception", DiagnosticInformation(ex, false).GetData());
	}
}

static bool InitHttp();

static void SetupBase()
{
	SetNow(1700000000.0);
	InitIcinga();

	std::vector<std::string> names(std::begin(l_TypeNames), std::end(l_TypeNames));
	std::sort(names.begin(), names.end());
	for (auto& n : names) {
		Type::Ptr t = Type::GetByName(n);
		if (!t || !dynamic_cast<ConfigType *>(t.get()))
			Die("unknown type", n);
		l_Types.push_back(t);
	}
}

static void SetupWorker()
{

	std::string base = "/verif/_work/c17";
	Utility::MkDirP(base, 0700);
	std::string tmpl = base + "/run.XXXXXX";
	std::vector<char> buf(tmpl.begin(), tmpl.end());
	buf.push_back(0);
	if (!mkdtemp(buf.data())) { perror("mkdtemp"); _exit(2); }
	l_DataDir = buf.data();
	Configuration::DataDir = l_DataDir;

	if (getenv("VERIF_C17_LOG")) {
		Logger::EnableConsoleLog();
		Logger::SetConsoleLogSeverity(LogDebug);
	}
	l_Flush = getenv("VERIF_C17_FLUSH") != nullptr;

	LoadStatic();
	InitHttp();
	if (Zone::GetLocalZone())
		fprintf(stderr, "note: a local zone exists; http creates get a zone attribute\n");

	/* the _api package (CreateObject would create it on first use) */
	ConfigObjectUtility::CreateStorage();
	String stage = ConfigPackageUtility::GetActiveStage("_api");
	if (stage.IsEmpty())
		Die("no active stage");
	l_StageDir = l_DataDir + "/api/packages/_api/" + stage.GetData();

	for (const Type::Ptr& type : l_Types) {
		auto *ctype = dynamic_cast<ConfigType *>(type.get());
		for (const ConfigObject::Ptr& obj : ctype->GetObjects())
			l_Static.emplace(type->GetName().GetData(), obj->GetName().GetData());
	}
	{
		Namespace::Ptr g = ScriptGlobal::GetGlobals();
		ObjectLock olock(g);
		for (const Namespace::Pair& kv : g)
			l_GlobalKeys.insert(kv.first.GetData());
	}
}

static void Teardown()
{
	fflush(stdout);
	try { Utility::RemoveDirRecursive(l_DataDir); } catch (...) { }
}

static void ForceRemove(const ConfigObject::Ptr& obj)
{
	try {
		ConfigItem::Ptr item = ConfigItem::GetByTypeAndName(obj->GetReflectionType(), obj->GetName());
		try { obj->Deactivate(true); } catch (...) { }
		if (item)
			item->Unregister();
		else
			obj->Unregister();
	} catch (...) { }
}

/* Is the object on a cycle of the dependency graph (e.g. a TimePeriod which includes itself)? A cascading delete of
 * such an object recurses until the stack overflows. */
static bool OnCycle(const ConfigObject::Ptr& start)
{
	std::set<ConfigObject *> seen;
	std::vector<ConfigObject::Ptr> todo = DependencyGraph::GetChildren(start);
	while (!todo.empty()) {
		ConfigObject::Ptr o = todo.back();
		todo.pop_back();
		if (!o)
			continue;
		if (o == start)
			return true;
		if (!seen.insert(o.get()).second)
			continue;
		for (const ConfigObject::Ptr& c : DependencyGraph::GetChildren(o))
			todo.push_back(c);
	}
	return false;
}

/* Removes everything a previous case left behind, so that cases are independent. */
static void Cleanup()
{
	for (int round = 0; round < 50; round++) {
		std::vector<ConfigObject::Ptr> left;
		for (const Type::Ptr& type : l_Types) {
			auto *ctype = dynamic_cast<ConfigType *>(type.get());
			for (const ConfigObject::Ptr& obj : ctype->GetObjects())
				if (!l_Static.count({type->GetName().GetData(), obj->GetName().GetData()}))
					left.push_back(obj);
		}
		if (left.empty())
			break;
		for (const ConfigObject::Ptr& obj : left) {
			auto *ctype = dynamic_cast<ConfigType *>(obj->GetReflectionType().get());
			if (ctype->GetObject(obj->GetName()) != obj)
				continue; /* went away with a cascade */
			bool done = false;
			bool cyclic = false;
			try { cyclic = OnCycle(obj); } catch (...) { }
			if (cyclic) {
				ForceRemove(obj);
				continue;
			}
			if (round < 3 && obj->GetPackage() == "_api") {
				try {
					Array::Ptr errors = new Array();
					done = ConfigObjectUtility::DeleteObject(obj, true, errors, nullptr);
				} catch (...) { }
			}
			if (!done && (round >= 3 || obj->GetPackage() != "_api"))
				ForceRemove(obj);
		}
	}

	/* configuration items without an object (for instance ignored ones) */
	for (const Type::Ptr& type : l_Types) {
		for (const ConfigItem::Ptr& item : ConfigItem::GetItems(type)) {
			if (item->IsAbstract() || l_Static.count({type->GetName().GetData(), item->GetName().GetData()}))
				continue;
			try { item->Unregister(); } catch (...) { }
		}
	}

	try {
		std::vector<ConfigItem::Ptr> unnamed = *get(vh::UnnamedItemsTag());
		for (const ConfigItem::Ptr& item : unnamed)
			if (item && !item->IsAbstract())
				item->Unregister();
	} catch (...) { }

	/* services which were deleted or rolled back stay in their host's service map (F-C17f): drop them from the hosts
	 * that survive the clean-up, else a later case (or only a later case in the same worker) would find them */
	try {
		for (const ConfigObject::Ptr& obj : dynamic_cast<ConfigType *>(TypeOf("Host").get())->GetObjects()) {
			Host::Ptr host = static_pointer_cast<Host>(obj);
			std::unique_lock<std::mutex> lock((*host).*get(vh::HostServicesMutexTag()));
			HostServiceMap& m = (*host).*get(vh::HostServicesTag());
			for (auto it = m.begin(); it != m.end(); ) {
				ConfigObject::Ptr reg = it->second ? dynamic_cast<ConfigType *>(TypeOf("Service").get())->GetObject(it->second->GetName()) : nullptr;
				if (!it->second || reg != it->second)
					it = m.erase(it);
				else
					++it;
			}
		}
	} catch (...) { }

	/* left-over files */
	namespace fs = boost::filesystem;
	boost::system::error_code ec;
	fs::path confd(l_StageDir + "/conf.d");
	if (fs::is_directory(confd, ec)) {
		std::vector<fs::path> rm;
		fs::recursive_directory_iterator it(confd, ec), end;
		while (!ec && it != end) {
			boost::system::error_code ec2;
			if (!fs::is_directory(it->path(), ec2))
				rm.push_back(it->path());
			it.increment(ec);
		}
		for (auto& p : rm)
			fs::remove(p, ec);
	}

	/* globals an injected statement may have added */
	try {
		Namespace::Ptr g = ScriptGlobal::GetGlobals();
		std::vector<String> extra;
		{
			ObjectLock olock(g);
			for (const Namespace::Pair& kv : g)
				if (!l_GlobalKeys.count(kv.first.GetData()))
					extra.push_back(kv.first);
		}
		for (const String& k : extra)
			g->Remove(k);
		Value canary = g->Get("c17_canary");
		if (!canary.IsString() || canary.Get<String>() != "intact")
			g->Set("c17_canary", "intact");
	} catch (...) { }
}

/* ---------------------------------------------------------------- HTTP layer */

static boost::asio::io_context l_Io;
static Shared<AsioTlsStream>::Ptr l_Stream;
static HttpServerConnection::Ptr l_Conn;
static ApiUser::Ptr l_User;
static bool l_HttpOk = false;

static bool InitHttp()
{
	namespace asio = boost::asio;
	using tcp = asio::ip::tcp;
	try {
		static asio::ssl::context ssl(asio::ssl::context::tls);
		static tcp::acceptor acc(l_Io, tcp::endpoint(asio::ip::address_v4::loopback(), 0));
		static tcp::socket peer(l_Io);
		l_Stream = Shared<AsioTlsStream>::Make(l_Io, ssl);
		l_Stream->lowest_layer().connect(acc.local_endpoint());
		acc.accept(peer);
		l_Conn = new HttpServerConnection("verif", false, l_Stream);
		l_User = new ApiUser(); /* not registered: does not show up in the state */
		l_User->SetName("c17-http");
		l_User->SetPermissions(new Array({ String("*") }));
		l_HttpOk = true;
	} catch (const std::exception& ex) {
		fprintf(stderr, "HTTP layer unavailable: %s\n", ex.what());
		l_HttpOk = false;
	}
	return l_HttpOk;
}

static std::string UrlEnc(const std::string& s)
{
	std::string out;
	char buf[4];
	for (unsigned char c : s) {
		if (isalnum(c) || c == '-' || c == '_' || c == '.') out += (char)c;
		else { snprintf(buf, sizeof buf, "%%%02X", c); out += buf; }
	}
	return out;
}

static bool ValidUtf8(const std::string& s)
{
	size_t i = 0, n = s.size();
	while (i < n) {
		unsigned char c = s[i];
		int len;
		uint32_t cp;
		if (c < 0x80) { i++; continue; }
		else if ((c & 0xe0) == 0xc0) { len = 2; cp = c & 0x1f; }
		else if ((c & 0xf0) == 0xe0) { len = 3; cp = c & 0x0f; }
		else if ((c & 0xf8) == 0xf0) { len = 4; cp = c & 0x07; }
		else return false;
		if (i + len > n) return false;
		for (int j = 1; j < len; j++) {
			unsigned char d = s[i + j];
			if ((d & 0xc0) != 0x80) return false;
			cp = (cp << 6) | (d & 0x3f);
		}
		if ((len == 2 && cp < 0x80) || (len == 3 && cp < 0x800) || (len == 4 && cp < 0x10000) || cp > 0x10ffff ||
			(cp >= 0xd800 && cp <= 0xdfff))
			return false;
		i += len;
	}
	return true;
}

/* Can the value be written as JSON (valid UTF-8 everywhere, finite numbers, no foreign objects)? */
static bool JsonExpressible(const Value& v)
{
	switch (v.GetType()) {
		case ValueEmpty: case ValueBoolean: return true;
		case ValueNumber: return std::isfinite(v.Get<double>());
		case ValueString: return ValidUtf8(v.Get<String>().GetData());
		case ValueObject: break;
	}
	if (v.IsObjectType<Array>()) {
		Array::Ptr a = v;
		ObjectLock olock(a);
		for (const Value& item : a)
			if (!JsonExpressible(item)) return false;
		return true;
	}
	if (v.IsObjectType<Dictionary>()) {
		Dictionary::Ptr d = v;
		ObjectLock olock(d);
		for (const Dictionary::Pair& kv : d)
			if (!ValidUtf8(kv.first.GetData()) || !JsonExpressible(kv.second)) return false;
		return true;
	}
	return false;
}

static bool HttpName(const std::string& name)
{
	return !name.empty() && name.find('/') == std::string::npos && name.find('\0') == std::string::npos;
}

static void JsonStr(const std::string& s, std::string& out)
{
	out += '"';
	char buf[8];
	for (unsigned char c : s) {
		if (c == '"') out += "\\\"";
		else if (c == '\\') out += "\\\\";
		else if (c < 0x20) { snprintf(buf, sizeof buf, "\\u%04x", c); out += buf; }
		else out += (char)c;
	}
	out += '"';
}

static void JsonVal(const Value& v, std::string& out)
{
	switch (v.GetType()) {
		case ValueEmpty: out += "null"; return;
		case ValueBoolean: out += v.ToBool() ? "true" : "false"; return;
		case ValueNumber: {
			char buf[64];
			snprintf(buf, sizeof buf, "%.17g", v.Get<double>());
			out += buf;
			return;
		}
		case ValueString: JsonStr(v.Get<String>().GetData(), out); return;
		case ValueObject: break;
	}
	if (v.IsObjectType<Array>()) {
		Array::Ptr a = v;
		ObjectLock olock(a);
		out += '[';
		bool first = true;
		for (const Value& item : a) {
			if (!first) out += ',';
			first = false;
			JsonVal(item, out);
		}
		out += ']';
		return;
	}
	if (v.IsObjectType<Dictionary>()) {
		Dictionary::Ptr d = v;
		ObjectLock olock(d);
		out += '{';
		bool first = true;
		for (const Dictionary::Pair& kv : d) {
			if (!first) out += ',';
			first = false;
			JsonStr(kv.first.GetData(), out);
			out += ':';
			JsonVal(kv.second, out);
		}
		out += '}';
		return;
	}
	out += "null";
}

/* Sends one request through the production dispatcher; returns the HTTP status (599: an exception escaped). */
static int HttpCall(boost::beast::http::verb verb, const std::string& target, const std::string& body)
{
	namespace http = boost::beast::http;
	http::request<http::string_body> req{verb, target, 11};
	req.set(http::field::accept, "application/json");
	req.body() = body;
	req.prepare_payload();
	http::response<http::string_body> resp;
	bool crashed = false;
	IoEngine::SpawnCoroutine(l_Io, [&](boost::asio::yield_context yc) {
		try {
			HttpHandler::ProcessRequest(*l_Stream, l_User, req, resp, yc, *l_Conn);
		} catch (const std::exception&) {
			crashed = true;
		}
	});
	l_Io.run();
	l_Io.restart();
	return crashed ? 599 : (int)resp.result_int();
}

static std::string PluralOf(const Type::Ptr& type)
{
	return type->GetPluralName().ToLower().GetData();
}

/* ---------------------------------------------------------------- operations */

static void Emit(const std::string& line)
{
	fwrite(line.data(), 1, line.size(), stdout);
	fputc('\n', stdout);
	if (l_Flush)
		fflush(stdout);
}

static std::string NameTok(const std::string& name)
{
	return name.empty() ? "-" : Hex(name);
}

static void BeginCase(long long n)
{
	l_CaseNo = n;
	l_OpIdx = 0;
	l_NCases++;
	Cleanup();
	Emit("C " + std::to_string(n) + " | " + State());
}

static std::string l_SkipLine; /* the automatic delete just executed: skipped if it is the next input line */
static void DoDelete(const Type::Ptr& type, const std::string& name, bool cascade, bool viaHttp, const std::string& thr = std::string());
static bool NameFromTok(const std::string& tok, std::string& name);

/* /repo segfaults (Service::OnAllConfigLoaded, null host) when a Service is created for a host name that has a Host
 * configuration item but no Host object of that name; that state is reachable by creating a Host with the attribute
 * `__name` set to a different name. The harness does not make the call in that situation (ok=c). */
static bool WouldCrash(const Type::Ptr& type, const String& fullName, const Dictionary::Ptr& attrs)
{
	if (type->GetName() != "Service")
		return false;
	try {
		std::set<String> hosts;
		auto *nc = dynamic_cast<NameComposer *>(type.get());
		Dictionary::Ptr parts = nc->ParseName(fullName);
		Value h = parts->Get("host_name");
		if (h.IsString())
			hosts.insert(h);
		if (attrs) {
			Value a = attrs->Get("host_name");
			if (a.IsString())
				hosts.insert(a);
		}
		Type::Ptr hostType = Type::GetByName("Host");
		for (const String& hn : hosts)
			if (ConfigItem::GetByTypeAndName(hostType, hn) && !dynamic_cast<ConfigType *>(hostType.get())->GetObject(hn))
				return true;
	} catch (...) { }
	return false;
}

static void DoCreate(const Type::Ptr& type, const std::string& name, bool ioe, const Array::Ptr& templates,
	const Dictionary::Ptr& attrs, bool viaHttp, bool noAttrsMember = false)
{
	l_OpIdx++;
	l_NCreate++;
	if (viaHttp)
		l_NHttp++;
	long long now = 1700000000LL + 64 * l_CaseNo + l_OpIdx;
	SetNow((double)now);

	std::string tn = type->GetName().GetData();
	String fullName(name);
	std::string head = "create " + tn + " " + NameTok(name) + " " + (ioe ? "1" : "0") + " " + EncS(templates) + " " + EncS(attrs) + (viaHttp ? (noAttrsMember ? " httpn" : " http") : "");
	if (l_Flush) {
		fprintf(stderr, "%s\n", head.c_str());
		fflush(stderr);
	}

	std::string parts = "-";
	if (auto *nc = dynamic_cast<NameComposer *>(type.get())) {
		try {
			Dictionary::Ptr p = nc->ParseName(fullName);
			parts = EncS(p);
		} catch (...) {
			parts = "-";
		}
	}

	std::string cfg = "!", ok = "-";
	String config;
	bool haveCfg = false;
	try {
		Dictionary::Ptr cattrs = attrs;
		if (viaHttp) {
			/* what CreateObjectHandler does to the attributes before it makes the same call */
			cattrs = attrs->ShallowClone();
			Zone::Ptr localZone = Zone::GetLocalZone();
			if (localZone && !cattrs->Contains("zone"))
				cattrs->Set("zone", localZone->GetName());
			if (cattrs->Contains("groups")) {
				Array::Ptr groups = cattrs->Get("groups"); /* throws like the handler if it is not an array */
				if (groups)
					cattrs->Set("groups", groups->Unique());
			}
		}
		config = ConfigObjectUtility::CreateObjectConfig(type, fullName, ioe,
			templates && templates->GetLength() > 0 ? templates : Array::Ptr(), cattrs);
		haveCfg = true;
		cfg = Hex(config.GetData());
		if (cfg.empty())
			cfg = "-";
	} catch (...) {
		haveCfg = false;
	}

	if (haveCfg && getenv("VERIF_C17_GUARD") && WouldCrash(type, fullName, attrs)) { /* off by default: workers are crash-isolated, the death is reported as an X line */
		ok = "c";
	} else if (viaHttp) {
		std::string body = "{";
		if (!noAttrsMember) {
			body += "\"attrs\":";
			JsonVal(attrs, body);
			body += ",";
		}
		if (templates && templates->GetLength() > 0) {
			body += "\"templates\":";
			JsonVal(templates, body);
			body += ",";
		}
		body += std::string("\"ignore_on_error\":") + (ioe ? "true" : "false") + "}";
		int status = HttpCall(boost::beast::http::verb::put, "/v1/objects/" + PluralOf(type) + "/" + UrlEnc(name), body);
		if (haveCfg)
			ok = status == 200 ? "1" : status == 500 ? "0" : "x";
		else
			ok = status == 500 ? "-" : "x";
		if (getenv("VERIF_C17_ERRORS") && status != 200)
			fprintf(stderr, "http create %s %s: %d\n", tn.c_str(), Hex(name).c_str(), status);
	} else if (haveCfg) {
		try {
			Array::Ptr errors = new Array();
			bool r = ConfigObjectUtility::CreateObject(type, fullName, config, errors, nullptr);
			ok = r ? "1" : "0";
			if (!r && getenv("VERIF_C17_ERRORS"))
				fprintf(stderr, "refused %s %s: %s\n", tn.c_str(), Hex(name).c_str(), JsonEncode(errors).CStr());
		} catch (const std::exception& ex) {
			ok = "x";
			if (getenv("VERIF_C17_ERRORS"))
				fprintf(stderr, "exception %s %s: %s\n", tn.c_str(), Hex(name).c_str(), DiagnosticInformation(ex, false).CStr());
		} catch (...) {
			ok = "x";
		}
	}

	try { Application::GetTP().Restart(); } catch (...) { }

	std::string parents = "-", children = "-", file = "-", oattrs = "-";
	bool zombieParent = false;
	ConfigObject::Ptr obj;
	try {
		obj = dynamic_cast<ConfigType *>(type.get())->GetObject(fullName);
	} catch (...) { }

	if (obj) {
		try {
			std::vector<std::string> ps;
			for (const ConfigObject::Ptr& p : DependencyGraph::GetParents(obj)) {
				if (!p)
					continue;
				ps.push_back(std::string(p->GetReflectionType()->GetName().GetData()) + ":" + Hex(p->GetName().GetData()));
				auto *ptype = dynamic_cast<ConfigType *>(p->GetReflectionType().get());
				if (!ptype || ptype->GetObject(p->GetName()) != p)
					zombieParent = true;
			}
			std::sort(ps.begin(), ps.end());
			parents = Join(ps);
		} catch (...) {
			parents = "!";
		}
		try {
			std::vector<std::string> cs;
			for (const ConfigObject::Ptr& c : DependencyGraph::GetChildren(obj))
				if (c)
					cs.push_back(std::string(c->GetReflectionType()->GetName().GetData()) + ":" + Hex(c->GetName().GetData()));
			std::sort(cs.begin(), cs.end());
			children = Join(cs);
		} catch (...) {
			children = "!";
		}
		try {
			file = Hex(RelToStage(obj->GetDebugInfo().Path.GetData()));
			if (file.empty())
				file = "-";
		} catch (...) {
			file = "!";
		}
		try {
			Dictionary::Ptr ser = Serialize(obj, FAConfig);
			Dictionary::Ptr res = new Dictionary();
			if (attrs) {
				ObjectLock olock(attrs);
				for (const Dictionary::Pair& kv : attrs) {
					String k = kv.first.SubStr(0, kv.first.FindFirstOf("."));
					if (!res->Contains(k))
						res->Set(k, ser->Get(k));
				}
			}
			oattrs = EncS(res);
		} catch (...) {
			oattrs = "!";
		}
	}

	if (viaHttp && ok == "1" && obj && obj->GetPackage() == "_api") {
		/* self-check: the file the handler wrote holds the text reported as cfg= */
		try {
			std::ifstream in(obj->GetDebugInfo().Path.CStr(), std::ios::binary);
			std::string text((std::istreambuf_iterator<char>(in)), std::istreambuf_iterator<char>());
			if (in && text != config.GetData())
				fprintf(stderr, "WARNING case %lld op %d: config written by the http handler differs from cfg=\n", l_CaseNo, l_OpIdx);
		} catch (...) { }
	}

	auto& st = l_Stat[tn];
	if (ok == "1" && obj) st[0]++;
	else if (ok == "1") st[4]++;
	else if (ok == "0") st[1]++;
	else if (ok == "x") st[2]++;
	else st[3]++;

	Emit(head + " | now=" + std::to_string(now) + " parts=" + parts + " cfg=" + cfg + " ok=" + ok + " parents=" + parents +
		" children=" + children + " file=" + file + " attrs=" + oattrs + " " + State());

	/* F-C17f is repaired (edf9289): a create on a deleted service must FAIL. Nothing is cleaned up here any more - an object
	 * created on a dead parent stays, is reported (spec clause dangling_parent) and whatever follows from it is observed. */
	(void) zombieParent;
}

static void DoDelete(const Type::Ptr& type, const std::string& name, bool cascade, bool viaHttp, const std::string& thr)
{
	l_OpIdx++;
	l_NDelete++;
	if (viaHttp)
		l_NHttp++;
	long long now = 1700000000LL + 64 * l_CaseNo + l_OpIdx;
	SetNow((double)now);

	std::string tn = type->GetName().GetData();
	std::string head = "delete " + tn + " " + NameTok(name) + " " + (cascade ? "1" : "0") + (viaHttp ? " http" : "") +
		(thr.empty() ? "" : " thr=" + thr);
	if (l_Flush) {
		fprintf(stderr, "%s\n", head.c_str());
		fflush(stderr);
	}

	ConfigObject::Ptr obj;
	try {
		obj = dynamic_cast<ConfigType *>(type.get())->GetObject(String(name));
	} catch (...) { }

	/* fault injection: the first deactivation of the named object during this call is answered by an exception
	 * from an OnActiveChanged subscriber */
	ConfigObject::Ptr thrObj;
	bool fired = false;
	if (!thr.empty()) {
		size_t colon = thr.find(':');
		Type::Ptr tt = TypeOf(thr.substr(0, colon));
		std::string tname;
		if (tt && colon != std::string::npos && NameFromTok(thr.substr(colon + 1), tname)) {
			try { thrObj = dynamic_cast<ConfigType *>(tt.get())->GetObject(String(tname)); } catch (...) { }
		}
	}
	boost::signals2::scoped_connection thrConn;
	if (thrObj) {
		thrConn = ConfigObject::OnActiveChanged.connect([&fired, &thrObj](const ConfigObject::Ptr& o, const Value&) {
			if (!fired && o == thrObj && !o->IsActive()) {
				fired = true;
				throw std::runtime_error("c17: injected failure of an OnActiveChanged subscriber");
			}
		});
	}
	std::string threwF;

	std::string ok = "-";
	if (viaHttp) {
		/* "cascade=0" would count as true (non-empty string), so the parameter is left out for a plain delete */
		int status = HttpCall(boost::beast::http::verb::delete_,
			"/v1/objects/" + PluralOf(type) + "/" + UrlEnc(name) + (cascade ? "?cascade=1" : ""), "");
		try { Application::GetTP().Restart(); } catch (...) { }
		bool found = status != 404;
		if (!found) l_NDelMissing++;
		else if (status == 200) { ok = "1"; l_NDelOk++; }
		else if (status == 500) { ok = "0"; l_NDelRefused++; }
		else { ok = "x"; l_NDelExc++; }
		thrConn.disconnect();
		if (!thr.empty()) threwF = std::string("threw=") + (fired ? "1 " : "0 ");
		Emit(head + " | " + threwF + "found=" + (found ? "1" : "0") + " ok=" + ok + " " + State());
		return;
	}
	if (obj) {
		try {
			Array::Ptr errors = new Array();
			bool r = ConfigObjectUtility::DeleteObject(obj, cascade, errors, nullptr);
			ok = r ? "1" : "0";
			if (r) l_NDelOk++; else l_NDelRefused++;
		} catch (...) {
			ok = "x";
			l_NDelExc++;
		}
		try { Application::GetTP().Restart(); } catch (...) { }
	} else {
		l_NDelMissing++;
	}

	thrConn.disconnect();
	if (!thr.empty()) threwF = std::string("threw=") + (fired ? "1 " : "0 ");
	Emit(head + " | " + threwF + "found=" + (obj ? "1" : "0") + " ok=" + ok + " " + State());
}

static std::vector<std::string> SplitSp(const std::string& s)
{
	std::vector<std::string> out;
	size_t b = 0;
	for (;;) {
		size_t e = s.find(' ', b);
		if (e == std::string::npos) {
			out.push_back(s.substr(b));
			break;
		}
		out.push_back(s.substr(b, e - b));
		b = e + 1;
	}
	return out;
}

static bool NameFromTok(const std::string& tok, std::string& name)
{
	if (tok == "-") {
		name.clear();
		return true;
	}
	return UnHex(tok.data(), tok.data() + tok.size(), name);
}

/* Executes one line (of a file, or produced by the generator). */
static void ExecLine(std::string line)
{
	while (!line.empty() && (line.back() == '\n' || line.back() == '\r'))
		line.pop_back();
	size_t bar = line.find(" | ");
	if (bar != std::string::npos)
		line.resize(bar);
	while (!line.empty() && line.back() == ' ')
		line.pop_back();
	if (line.empty())
		return;

	{
		std::string skip;
		skip.swap(l_SkipLine);
		if (!skip.empty() && line == skip)
			return;
	}

	std::vector<std::string> tok = SplitSp(line);
	if (tok[0] == "C") {
		if (tok.size() < 2) { fprintf(stderr, "bad C line\n"); return; }
		char *endp = nullptr;
		long long n = strtoll(tok[1].c_str(), &endp, 10);
		if (!endp || *endp || n < 0 || n > 100000000000LL) { fprintf(stderr, "bad C line\n"); return; }
		BeginCase(n);
	} else if (tok[0] == "create") {
		bool noAttrsMember = tok.size() == 7 && tok[6] == "httpn";
		bool viaHttp = tok.size() == 7 && (tok[6] == "http" || noAttrsMember);
		if (tok.size() != 6 && !viaHttp) { fprintf(stderr, "bad create line (%zu tokens)\n", tok.size()); return; }
		Type::Ptr type = TypeOf(tok[1]);
		std::string name;
		Value tv, av;
		if (!type || !NameFromTok(tok[2], name) || (tok[3] != "0" && tok[3] != "1") || !DecS(tok[4], tv) || !DecS(tok[5], av) ||
			!(tv.IsEmpty() || tv.IsObjectType<Array>()) || !av.IsObjectType<Dictionary>()) {
			fprintf(stderr, "bad create line\n");
			return;
		}
		Array::Ptr templates = tv.IsEmpty() ? Array::Ptr(new Array()) : Array::Ptr(tv);
		if (viaHttp && !(l_HttpOk && HttpName(name) && JsonExpressible(templates) && JsonExpressible(av))) {
			fprintf(stderr, "create line cannot go through http\n");
			return;
		}
		if (noAttrsMember && Dictionary::Ptr(av)->GetLength() > 0) {
			fprintf(stderr, "httpn create line with attributes\n");
			return;
		}
		DoCreate(type, name, tok[3] == "1", templates, av, viaHttp, noAttrsMember);
	} else if (tok[0] == "delete") {
		std::string thr;
		if (tok.size() >= 5 && tok.back().compare(0, 4, "thr=") == 0) {
			thr = tok.back().substr(4);
			tok.pop_back();
			if (thr.empty() || thr.find(':') == std::string::npos) { fprintf(stderr, "bad delete line\n"); return; }
		}
		bool viaHttp = tok.size() == 5 && tok[4] == "http";
		if (tok.size() != 4 && !viaHttp) { fprintf(stderr, "bad delete line\n"); return; }
		Type::Ptr type = TypeOf(tok[1]);
		std::string name;
		if (!type || !NameFromTok(tok[2], name) || (tok[3] != "0" && tok[3] != "1")) {
			fprintf(stderr, "bad delete line\n");
			return;
		}
		if (viaHttp && !(l_HttpOk && HttpName(name))) {
			fprintf(stderr, "delete line cannot go through http\n");
			return;
		}
		DoDelete(type, name, tok[3] == "1", viaHttp, thr);
	}
	/* everything else (T lines, comments) is skipped */
}

/* ---------------------------------------------------------------- parent side: workers */

struct Worker {
	pid_t pid = -1;
	int in = -1, out = -1;   /* our ends: write to the worker's stdin, read its stdout */
	std::string buf, dir;
	int cases = 0;
};

static Worker l_W;
static int l_Batch = 60;
static bool l_DropCase = false;
static long l_PX = 0, l_PAuto = 0, l_PHttp = 0, l_PCases = 0, l_PCreate = 0, l_PDelete = 0, l_PApplyOk = 0, l_PApplyFail = 0, l_PZombie = 0;
static long l_PThrew = 0;
static long l_PDel[4] = { 0, 0, 0, 0 }; /* ok, refused, missing, other */
static std::map<std::string, std::array<long, 5>> l_PStat;

/* Reads one line of the worker's output; false: end of file, error or no answer in time (timedOut set). */
static bool WorkerLine(std::string& line, bool& timedOut)
{
	timedOut = false;
	for (;;) {
		size_t nl = l_W.buf.find('\n');
		if (nl != std::string::npos) {
			line = l_W.buf.substr(0, nl);
			l_W.buf.erase(0, nl + 1);
			return true;
		}
		struct pollfd pfd = { l_W.out, POLLIN, 0 };
		int pr = poll(&pfd, 1, 120000);
		if (pr == 0) { timedOut = true; return false; }
		if (pr < 0) { if (errno == EINTR) continue; return false; }
		char tmp[65536];
		ssize_t n = read(l_W.out, tmp, sizeof tmp);
		if (n < 0 && errno == EINTR) continue;
		if (n <= 0) return false;
		l_W.buf.append(tmp, (size_t)n);
	}
}

/* Collects the worker's death (kills it first if asked); returns the signal number or the exit code. */
static int ReapWorker(bool kill9)
{
	if (l_W.pid < 0)
		return 0;
	if (kill9)
		kill(l_W.pid, SIGKILL);
	if (l_W.in >= 0) close(l_W.in);
	if (l_W.out >= 0) close(l_W.out);
	int status = 0;
	while (waitpid(l_W.pid, &status, 0) < 0 && errno == EINTR) { }
	if (!l_W.dir.empty() && l_W.dir.compare(0, 17, "/verif/_work/c17/") == 0) {
		try { Utility::RemoveDirRecursive(l_W.dir); } catch (...) { }
	}
	l_W = Worker();
	if (WIFSIGNALED(status)) return WTERMSIG(status);
	return WEXITSTATUS(status);
}

static void StopWorker()
{
	if (l_W.pid < 0)
		return;
	close(l_W.in);
	l_W.in = -1;
	/* the worker cleans up and removes its directory on end of input */
	std::string line;
	bool to;
	while (WorkerLine(line, to)) { }
	int code = ReapWorker(to);
	if (code != 0)
		fprintf(stderr, "WARNING a worker ended with %d during its final clean-up\n", code);
}

static void StartWorker()
{
	int toW[2], fromW[2];
	if (pipe2(toW, O_CLOEXEC) < 0 || pipe2(fromW, O_CLOEXEC) < 0) { perror("pipe"); _exit(2); }
	fflush(stdout);
	pid_t pid = fork();
	if (pid < 0) { perror("fork"); _exit(2); }
	if (pid == 0) {
		dup2(toW[0], 0);
		dup2(fromW[1], 1);
		char a0[] = "h_c17", a1[] = "worker";
		char *args[] = { a0, a1, nullptr };
		execv("/proc/self/exe", args);
		_exit(127);
	}
	close(toW[0]);
	close(fromW[1]);
	l_W = Worker();
	l_W.pid = pid;
	l_W.in = toW[1];
	l_W.out = fromW[0];
	/* handshake: `D <data directory>` then the sentinel */
	std::string line;
	bool to;
	for (;;) {
		if (!WorkerLine(line, to)) {
			int code = ReapWorker(to);
			printf("FATAL worker did not start (%d)\n", code);
			fflush(stdout);
			fprintf(stderr, "FATAL worker did not start (%d)\n", code);
			_exit(3);
		}
		if (line == ".")
			break;
		if (line.compare(0, 2, "D ") == 0)
			l_W.dir = line.substr(2);
		else if (line.compare(0, 5, "FATAL") == 0)
			fprintf(stderr, "%s\n", line.c_str());
	}
}

static std::string FieldOf(const std::string& line, const char *key)
{
	std::string k = std::string(" ") + key + "=";
	size_t p = line.find(k, line.find(" | ") == std::string::npos ? 0 : line.find(" | "));
	if (p == std::string::npos)
		return "";
	p += k.size();
	size_t e = line.find(' ', p);
	return line.substr(p, e == std::string::npos ? std::string::npos : e - p);
}

static void Account(const std::string& op, const std::string& out, int idx)
{
	if (out.compare(0, 7, "create ") == 0) {
		l_PCreate++;
		std::string tn = out.substr(7, out.find(' ', 7) - 7);
		std::string ok = FieldOf(out, "ok"), attrs = FieldOf(out, "attrs");
		auto& st = l_PStat[tn];
		if (ok == "1" && attrs != "-") st[0]++;
		else if (ok == "1") st[4]++;
		else if (ok == "0") st[1]++;
		else if (ok == "x") st[2]++;
		else st[3]++;
		if (op.find(" http") != std::string::npos && (op.rfind(" http") == op.size() - 5 || op.rfind(" httpn") == op.size() - 6)) l_PHttp++;
		if (tn == "Host" && (op.find("k6331375f6170706c79;") != std::string::npos || op.find("k6331375f6e6f74696679;") != std::string::npos)) {
			if (ok == "1" && attrs != "-") l_PApplyOk++; else l_PApplyFail++;
		}
	} else if (out.compare(0, 7, "delete ") == 0) {
		if (idx > 0) { l_PAuto++; return; }
		l_PDelete++;
		std::string ok = FieldOf(out, "ok"), found = FieldOf(out, "found");
		if (found == "0") l_PDel[2]++;
		else if (ok == "1") l_PDel[0]++;
		else if (ok == "0") l_PDel[1]++;
		else l_PDel[3]++;
		if (op.find(" http") != std::string::npos) l_PHttp++;
		if (FieldOf(out, "threw") == "1") l_PThrew++;
	}
}

/* Hands one operation line (no observation part) to a worker and forwards what it prints. */
static void Submit(const std::string& op)
{
	bool isCase = op.compare(0, 2, "C ") == 0;
	if (isCase) {
		l_DropCase = false;
		l_PCases++;
		if (l_W.pid >= 0 && l_W.cases >= l_Batch)
			StopWorker();
	} else if (l_DropCase) {
		return;
	}
	if (l_W.pid < 0)
		StartWorker();
	if (isCase)
		l_W.cases++;

	std::string msg = op + "\n";
	size_t off = 0;
	bool dead = false, to = false;
	while (off < msg.size()) {
		ssize_t n = write(l_W.in, msg.data() + off, msg.size() - off);
		if (n < 0 && errno == EINTR) continue;
		if (n <= 0) { dead = true; break; }
		off += (size_t)n;
	}
	std::vector<std::string> outs;
	if (!dead) {
		std::string line;
		for (;;) {
			if (!WorkerLine(line, to)) { dead = true; break; }
			if (line == ".")
				break;
			outs.push_back(line);
		}
	}
	if (dead) {
		/* what the worker printed for this operation before it died is not a result */
		int code = ReapWorker(to);
		if (to) code = 124;
		Emit("X " + std::to_string(code) + " " + op);
		l_PX++;
		l_DropCase = true;
		return;
	}
	for (size_t i = 0; i < outs.size(); i++) {
		Account(op, outs[i], (int)i);
		Emit(outs[i]);
	}
}

/* Strips a line of a file down to its operation part; empty if it is not an operation. */
static std::string OpPart(std::string line)
{
	while (!line.empty() && (line.back() == '\n' || line.back() == '\r'))
		line.pop_back();
	if (line.compare(0, 2, "X ") == 0) {
		size_t sp = line.find(' ', 2);
		if (sp == std::string::npos)
			return "";
		line = line.substr(sp + 1);
	}
	size_t bar = line.find(" | ");
	if (bar != std::string::npos)
		line.resize(bar);
	while (!line.empty() && line.back() == ' ')
		line.pop_back();
	if (line.compare(0, 2, "C ") == 0 || line.compare(0, 7, "create ") == 0 || line.compare(0, 7, "delete ") == 0)
		return line;
	return "";
}

/* wantHttp is honoured only if the operation can be expressed as a request */
static void OpCreate(const std::string& type, const std::string& name, bool ioe, const Array::Ptr& templates, const Dictionary::Ptr& attrs,
	bool wantHttp = false, bool noAttrsMember = false)
{
	Array::Ptr t = templates ? templates : Array::Ptr(new Array());
	Dictionary::Ptr a = attrs ? attrs : Dictionary::Ptr(new Dictionary());
	bool viaHttp = wantHttp && HttpName(name) && JsonExpressible(t) && JsonExpressible(a);
	bool bare = viaHttp && noAttrsMember && a->GetLength() == 0;
	Submit("create " + type + " " + NameTok(name) + " " + (ioe ? "1" : "0") + " " + EncS(t) + " " + EncS(a) + (viaHttp ? (bare ? " httpn" : " http") : ""));
}

/* thrType/thrName: the object whose first deactivation during the call is answered by an exception (fault injection) */
static void OpDelete(const std::string& type, const std::string& name, bool cascade, bool wantHttp = false,
	const std::string& thrType = std::string(), const std::string& thrName = std::string())
{
	bool viaHttp = wantHttp && HttpName(name);
	Submit("delete " + type + " " + NameTok(name) + " " + (cascade ? "1" : "0") + (viaHttp ? " http" : "") +
		(thrType.empty() ? "" : " thr=" + thrType + ":" + NameTok(thrName)));
}

static void OpCase(long long n)
{
	Submit("C " + std::to_string(n));
}

/* ---------------------------------------------------------------- generator */

static const std::string l_Long300(300, 'L');

static const std::vector<std::string>& Fragments()
{
	static const std::vector<std::string> f = {
		"\"", "\\", "\n", "\r", "\t", "\b", "\f", "*/", "/*", "//", "#", "}}}", "{{{", "$", "$$", " ", "\xc3\xa9",
		"\xe6\x97\xa5\xe6\x9c\xac", "\xf0\x9f\x98\x80", "\x01", "\x7f", "!", "..", "/", "'", "%", "%41", ";", ",", "=", "{", "}",
		"[", "]", "(", ")", "@", "<", ">", ":", "|", "?", "*", "\\n", "\\\"", "\\101", "\\0", "\\x41", "\\u0041", "\\\\",
		"\n}\nobject Host \"evil\" {", "\" + globals.c17_canary + \"", "*/ globals.c17_pwned3 = 1 /*"
	};
	return f;
}

static std::string SimpleWord(Rng& r)
{
	static const char *w[] = { "a", "b", "c", "x", "y", "web", "db", "linux", "prod", "eu-west", "http_check", "v1", "42", "ok", "disk C", "10.0.0.1" };
	return w[r.below(sizeof w / sizeof *w)];
}

static std::string GenString(Rng& r)
{
	std::string s;
	int k = (int)r.below(100);
	if (k < 35) {
		s = SimpleWord(r);
	} else if (k < 40) {
		s = "";
	} else if (k < 46) {
		static const char *sp[] = {
			"\n}\nobject Host \"evil\" {", "ends with backslash\\", "\\", "\\\\", "a\\1", "a\\12b", "a\\nb", "a\\\"b", "\"", "\"\"\"",
			"$host.name$", "$$", "$", "{{{ x }}}", "}}}", "/* c */", "// c", "# c", "x\"\n  globals.c17_pwned4 = 1\n  y = \"", "\\\"\\"
		};
		s = sp[r.below(sizeof sp / sizeof *sp)];
	} else {
		int n = r.range(1, 3);
		for (int i = 0; i < n; i++) {
			if (r.below(3) == 0)
				s += SimpleWord(r);
			s += Fragments()[r.below(Fragments().size())];
		}
		if (r.below(3) == 0)
			s += SimpleWord(r);
		if (r.below(12) == 0)
			s += "\\";
	}
	if (r.below(100) < 3) {
		size_t pos = r.below(s.size() + 1);
		s.insert(pos, 1, '\0');
	}
	return s;
}

static std::string GenKey(Rng& r)
{
	int k = (int)r.below(100);
	if (k < 45) {
		static const char *w[] = { "a", "b", "c", "n", "l", "key1", "k_2", "os", "Env", "_x", "http_vhost", "A1" };
		return w[r.below(sizeof w / sizeof *w)];
	}
	if (k < 65) {
		static const char *w[] = {
			"if", "in", "object", "null", "true", "false", "import", "debugger", "globals", "this", "for", "else", "while", "function",
			"return", "var", "const", "template", "apply", "to", "where", "assign", "ignore", "use", "using", "namespace", "default",
			"ignore_on_error", "current_filename", "current_line", "include", "include_recursive", "include_zones", "library",
			"locals", "break", "continue", "throw", "try", "except", "__if", "vars", "name", "type"
		};
		return w[r.below(sizeof w / sizeof *w)];
	}
	if (k < 93) {
		static const char *w[] = {
			"a.b", "a.b.c", ".", "..", ".a", "a.", "x y", " x", "x ", " ", "q\"k", "\"", "'", "", "1abc", "0", "007", "1.5", "-1", "a-b", "-",
			"--flag", "-H", "$k$", "$", "\xc3\xa9", "\xe6\x97\xa5", "a\tb", "a\\b", "\\", "a/b", "a*b", "/*", "*/", "//", "#k", "k#", "{", "}", "}}}",
			"{{{", "a=b", "a = 1", "a,b", "a;b", "[0]", "a[0]", "a!b", "@if", "@", "%", "x\x01", "x\x7f", "A-Za-z", "a+b", "(", ")"
		};
		return w[r.below(sizeof w / sizeof *w)];
	}
	if (k < 97) {
		static const char *w[] = {
			"x = 1\nb", "a\nb", "x\rb", "q\fz", "x\bz", "x = 1\nglobals.c17_pwned = 1\nb",
			"x = 1\n}\n}\nobject CheckCommand \"evil\" {\nvars = {\nb", "\n", "a\n", "\nb", "a\r\nb"
		};
		return w[r.below(sizeof w / sizeof *w)];
	}
	return GenString(r);
}

static double GenNumber(Rng& r)
{
	int k = (int)r.below(100);
	if (k < 25)
		return (double)r.range(0, 20);
	if (k < 33)
		return -(double)r.range(1, 1000);
	if (k < 60) {
		static const double w[] = {
			0, 0.5, 0.1, 1e-7, 5e-7, 4.9e-7, 1e-6, 1.5e-6, 1234567.1234567, 1e15, 1e16, 1e21, 1e22, 1.7e308, 5e-324, 2.2250738585072014e-308,
			9007199254740991.0, 9007199254740992.0, 9007199254740993.0, 9007199254740994.0, -9007199254740993.0, 0.000001, 0.0000005,
			0.9999995, 0.9999994999, 1.0000005, 2.5e-6, 0.3, 1.0 / 3.0, 2.0 / 3.0, 123456789012.0, 1700000000.0, 1700000000.123456,
			4294967296.0, 2147483647.0, -2147483648.0, 1e100, -1e-7, -0.5, 3.14159, 65535, 0.125, 1e-10, 99999999999999990000.0
		};
		return w[r.below(sizeof w / sizeof *w)];
	}
	if (k < 72)
		return (double)(long long)r.below(100000000) / 1000000.0; /* exactly (as far as binary64 allows) 6 fractional digits */
	if (k < 80)
		return (double)(long long)r.below(2000000) / 1000.0 - 1000.0;
	if (k < 88) {
		double m = (double)r.below(1000000) / 1000.0;
		return m * std::pow(10.0, r.range(-12, 25));
	}
	for (;;) {
		uint64_t bits = r.next();
		double d;
		memcpy(&d, &bits, sizeof d);
		if (std::isfinite(d) && d != 0)
			return d;
	}
}

static Value GenValue(Rng& r, int depth)
{
	int k = (int)r.below(100);
	if (depth >= 5 && k >= 64)
		k = (int)r.below(64);
	if (k < 30)
		return String(GenString(r));
	if (k < 50)
		return GenNumber(r);
	if (k < 58)
		return r.coin();
	if (k < 64)
		return Empty;
	if (k < 78) {
		Array::Ptr a = new Array();
		int n = r.below(4) == 0 ? 0 : r.range(1, depth < 2 ? 4 : 2);
		bool dicts = r.below(4) == 0;
		for (int i = 0; i < n; i++) {
			if (dicts && depth < 4) {
				Dictionary::Ptr d = new Dictionary();
				int m = r.range(0, 2);
				for (int j = 0; j < m; j++)
					d->Set(String(GenKey(r)), GenValue(r, depth + 2));
				a->Add(d);
			} else
				a->Add(GenValue(r, depth + 1));
		}
		return a;
	}
	Dictionary::Ptr d = new Dictionary();
	int n = r.below(5) == 0 ? 0 : r.range(1, depth < 2 ? 4 : 2);
	for (int i = 0; i < n; i++)
		d->Set(String(GenKey(r)), GenValue(r, depth + 1));
	return d;
}

static Dictionary::Ptr GenVars(Rng& r)
{
	Dictionary::Ptr d = new Dictionary();
	int n = r.below(8) == 0 ? 0 : r.range(1, 4);
	for (int i = 0; i < n; i++)
		d->Set(String(GenKey(r)), GenValue(r, 1));
	return d;
}

static std::string GenName(Rng& r)
{
	int k = (int)r.below(100);
	if (k < 75) {
		static const char *w[] = { "a", "b", "c", "h1", "h2", "web", "db-1", "x_y", "n0", "srv.example.org", "A", "tpl" };
		return w[r.below(k < 72 ? 11 : 12)];
	}
	if (k < 90) {
		static const std::vector<std::string> w = {
			"q\"q", "b\\s", "l\nf", "c\rr", "t\tb", "b\bs", "f\ff", "e*/x", "s/*x", "d//x", "h#x", "c}}}x", "o{{{x", "m$x", "m$$x", "sp ace",
			" lead", "trail ", "\xc3\xa9t\xc3\xa9", "\xe6\x97\xa5\xe6\x9c\xac", "\xf0\x9f\x98\x80x", "\x01x", "x\x7f", "a!b", "!", "a!", "!b", "a!b!c",
			"..", ".", "a/b", "/abs", "../up", "a/../b", l_Long300, "", std::string("nu\0l", 4), std::string("\0", 1), "%41", "a%", "x.conf", "*", "?",
			"<>:|", "a\\", "\\", "\"", "e\" {\n}\nobject Host \"evil2", "x\" ignore_on_error {\n}\n//", "$host.name$", "a\nb\nc",
			std::string(255, 'm'), std::string(249, 'k'), std::string(250, 'k'), std::string(120, '/'), std::string(90, '"')
		};
		return w[r.below(w.size())];
	}
	std::string s;
	int n = r.range(1, 3);
	for (int i = 0; i < n; i++) {
		if (r.coin())
			s += SimpleWord(r);
		s += Fragments()[r.below(Fragments().size())];
	}
	if (r.coin())
		s += SimpleWord(r);
	if (r.below(40) == 0)
		s.insert(r.below(s.size() + 1), 1, '\0');
	return s;
}

typedef std::pair<std::string, std::string> GKey; /* (type, full name) */

/* the objects of the static configuration, as the generator knows them (it never looks at a worker's state) */
static const std::vector<GKey>& GenStatic()
{
	static const std::vector<GKey> v = {
		{ "ApiUser", "sa" }, { "CheckCommand", "scc" }, { "Endpoint", "se" }, { "EventCommand", "sec" }, { "Host", "sh" }, { "Host", "sh2" },
		{ "HostGroup", "shg" }, { "NotificationCommand", "snc" }, { "Service", "sh!ss" }, { "Service", "sh2!ss2" }, { "ServiceGroup", "ssg" },
		{ "TimePeriod", "stp" }, { "User", "su" }, { "UserGroup", "sug" }, { "Zone", "sz" }
	};
	return v;
}

static bool IsGenStatic(const GKey& k)
{
	return std::find(GenStatic().begin(), GenStatic().end(), k) != GenStatic().end();
}

struct GenCtx {
	Rng& r;
	std::vector<std::string> pool;                                 /* short names of this case */
	std::vector<std::pair<std::string, std::string>> att;          /* (type, full name) of every create so far */
	std::vector<std::pair<std::string, std::string>> svcs;         /* (host, short name) of every Service create so far */

	/* the generator's own book-keeping of what it believes exists (wrong beliefs only produce refused operations) */
	std::set<GKey> live;
	std::map<GKey, std::vector<GKey>> deps;                        /* believed-live object -> what it refers to */
	std::vector<GKey> curDeps;                                     /* references of the create being built */
	bool curBad = false;                                           /* the create being built is meant to fail */
	int curApply = -1;                                             /* apply variant of the Host create being built */
	bool lastOp = false;                                           /* the create being built is the last operation of its case */
	std::string forceName;                                         /* next Host create: this name ... */
	int forceApply = -1;                                           /* ... and this apply variant */

	explicit GenCtx(Rng& rng) : r(rng) { }

	bool Exists(const std::string& type, const std::string& name) const
	{
		GKey k(type, name);
		return live.count(k) || IsGenStatic(k);
	}

	std::vector<GKey> Dependents(const GKey& k) const
	{
		std::vector<GKey> v;
		for (auto& l : live) {
			auto it = deps.find(l);
			if (it != deps.end() && std::find(it->second.begin(), it->second.end(), k) != it->second.end())
				v.push_back(l);
		}
		return v;
	}

	void BelieveDelete(const GKey& k, bool cascade)
	{
		if (!live.count(k))
			return;
		std::vector<GKey> d = Dependents(k);
		if (!d.empty() && !cascade)
			return;
		live.erase(k);
		deps.erase(k);
		for (auto& c : d)
			BelieveDelete(c, true);
	}

	std::string PoolName() { return pool[r.below(pool.size())]; }

	std::vector<std::string> Names(const char *type)
	{
		std::vector<std::string> v;
		for (auto& a : att)
			if (a.first == type)
				v.push_back(a.second);
		return v;
	}

	/* a name of an object of `type`: created earlier in this case, the static one, or (rarely) a missing one */
	std::string Ref(const char *type, const char *stat, const char *missing, int missPct = 6)
	{
		std::vector<std::string> v = Names(type);
		int x = (int)r.below(100);
		if (r.below(100) < 88) {
			/* prefer names whose object is believed to exist at this point */
			std::vector<std::string> w;
			for (auto& n : v)
				if (Exists(type, n))
					w.push_back(n);
			v.swap(w);
		}
		if (x < missPct) {
			curBad = true;
			return missing;
		}
		if (!v.empty() && x < 65) {
			std::string n = v[r.below(v.size())];
			curDeps.emplace_back(type, n);
			return n;
		}
		return stat;
	}

	/* host and (possibly empty) service the composite name of a child refers to */
	std::pair<std::string, std::string> Checkable()
	{
		if (r.coin())
			return { Ref("Host", "sh", "nohost"), "" };
		std::vector<std::pair<std::string, std::string>> v, gone;
		for (auto& s : svcs)
			(Exists("Service", s.first + "!" + s.second) ? v : gone).push_back(s);
		/* a service which was deleted, or whose creation failed: the trigger of F-C17f */
		if (!gone.empty() && r.below(100) < 22)
			return gone[r.below(gone.size())];
		if (!v.empty() && r.below(100) < 65) {
			auto s = v[r.below(v.size())];
			curDeps.emplace_back("Host", s.first);
			curDeps.emplace_back("Service", s.first + "!" + s.second);
			return s;
		}
		if (r.below(100) < 6) {
			curBad = true;
			return { "sh", "nosvc" };
		}
		return { "sh", "ss" };
	}
};

static Value StrArray(std::initializer_list<std::string> items)
{
	Array::Ptr a = new Array();
	for (auto& s : items)
		a->Add(String(s));
	return a;
}

static void GenCommandAttrs(GenCtx& g, Dictionary::Ptr& a)
{
	Rng& r = g.r;
	if (r.below(100) < 70) {
		if (r.coin())
			a->Set("command", StrArray({ "/bin/true" }));
		else if (r.coin())
			a->Set("command", new Array({ String("/usr/lib/nagios/plugins/check_x"), String(GenString(r)) }));
		else
			a->Set("command", String("/bin/echo " + SimpleWord(r)));
	}
	if (r.below(100) < 35) {
		Dictionary::Ptr args = new Dictionary();
		int n = r.range(0, 3);
		for (int i = 0; i < n; i++) {
			std::string key = r.below(3) ? std::string(r.coin() ? "-H" : (r.coin() ? "--warn" : "-c")) : GenKey(r);
			if (r.below(4) == 0) {
				Dictionary::Ptr spec = new Dictionary();
				spec->Set("value", String(r.coin() ? "$address$" : GenString(r)));
				if (r.coin()) spec->Set("description", String(GenString(r)));
				if (r.coin()) spec->Set("required", r.coin());
				if (r.coin()) spec->Set("order", (double)r.range(0, 5));
				args->Set(String(key), spec);
			} else
				args->Set(String(key), String(r.coin() ? "$host.name$" : (r.coin() ? SimpleWord(r) : GenString(r))));
		}
		a->Set("arguments", args);
	}
	if (r.below(100) < 25) {
		Dictionary::Ptr env = new Dictionary();
		int n = r.range(0, 2);
		for (int i = 0; i < n; i++)
			env->Set(String(r.coin() ? std::string("LANG") : GenKey(r)), String(r.coin() ? SimpleWord(r) : GenString(r)));
		a->Set("env", env);
	}
	if (r.below(100) < 25)
		a->Set("timeout", (double)r.range(1, 600));
}

/* Builds type-correct attributes for `type`; returns the full name to use. */
static std::string GenCreate(GenCtx& g, const std::string& type, Dictionary::Ptr& a, bool& ioe, Array::Ptr& templates)
{
	Rng& r = g.r;
	a = new Dictionary();
	ioe = false;
	templates = new Array();
	g.curDeps.clear();
	g.curBad = false;
	g.curApply = -1;
	std::string sn = g.PoolName();
	if (type == "Host" && !g.forceName.empty()) {
		sn = g.forceName;
		g.forceName.clear();
	}
	std::string full = sn;

	auto str = [&](const char *key, int pct) {
		if ((int)r.below(100) < pct) {
			std::string v = r.below(3) ? SimpleWord(r) : GenString(r);
			if (v.empty() && !strcmp(key, "display_name"))
				v = "dn"; /* an empty display_name reads back as the object name */
			a->Set(key, String(v));
		}
	};

	if (type == "Host" || type == "Service") {
		if (type == "Service") {
			std::string h = g.Ref("Host", "sh", "nohost");
			g.curDeps.emplace_back("Host", h);
			full = h + "!" + sn;
			g.svcs.emplace_back(h, sn);
		}
		if (r.below(100) < 96)
			a->Set("check_command", String(g.Ref("CheckCommand", "scc", "nocmd", 4)));
		str("notes", 30);
		str("display_name", 20);
		if (type == "Host")
			str("address", 25);
		if (r.below(100) < 20)
			a->Set("max_check_attempts", (double)r.range(1, 5));
		if (r.below(100) < 15)
			a->Set("check_interval", (double)r.range(1, 600));
		if (r.below(100) < 15)
			a->Set("enable_active_checks", r.coin());
		if (r.below(100) < 20)
			a->Set("groups", type == "Host" ? StrArray({ g.Ref("HostGroup", "shg", "nogroup") }) : StrArray({ g.Ref("ServiceGroup", "ssg", "nogroup") }));
		if (r.below(100) < 8)
			a->Set("check_period", String(g.Ref("TimePeriod", "stp", "notp")));
		if (r.below(100) < 8)
			a->Set("event_command", String(g.Ref("EventCommand", "sec", "noec")));
	} else if (type == "CheckCommand" || type == "NotificationCommand" || type == "EventCommand") {
		GenCommandAttrs(g, a);
	} else if (type == "User") {
		str("display_name", 30);
		str("email", 30);
		str("pager", 15);
		if (r.below(100) < 40)
			a->Set("groups", StrArray({ g.Ref("UserGroup", "sug", "nogroup") }));
		if (r.below(100) < 15)
			a->Set("enable_notifications", r.coin());
		if (r.below(100) < 15)
			a->Set("period", String(g.Ref("TimePeriod", "stp", "notp")));
	} else if (type == "UserGroup" || type == "HostGroup" || type == "ServiceGroup") {
		str("display_name", 40);
		if (type != "UserGroup") {
			str("notes", 25);
			str("notes_url", 10);
		}
		/* no nested groups: members of a group inside another group get the outer group appended to their `groups` */
	} else if (type == "TimePeriod") {
		str("display_name", 30);
		if (r.below(100) < 85) {
			Dictionary::Ptr ranges = new Dictionary();
			static const char *days[] = { "monday", "tuesday", "sunday", "2024-01-01", "monday 2", "day 1", "january 1" };
			static const char *times[] = { "00:00-24:00", "09:00-17:00", "00:00-09:00,17:00-24:00", "22:00-06:00" };
			int n = r.range(0, 3);
			for (int i = 0; i < n; i++)
				ranges->Set(days[r.below(7)], times[r.below(4)]);
			if (r.below(12) == 0)
				ranges->Set(String(GenKey(r)), String(GenString(r)));
			a->Set("ranges", ranges);
		}
		if (r.below(100) < 15)
			a->Set("prefer_includes", r.coin());
		if (r.below(100) < 15) {
			/* never the period itself: a cascading delete of a self-including period overflows the stack of /repo */
			std::string tp = g.Ref("TimePeriod", "stp", "notp");
			a->Set(r.coin() ? "includes" : "excludes", StrArray({ tp == sn ? std::string("stp") : tp }));
		}
	} else if (type == "Notification") {
		auto c = g.Checkable();
		full = c.first + "!" + (c.second.empty() ? "" : c.second + "!") + sn;
		if (r.below(100) < 96)
			a->Set("command", String(g.Ref("NotificationCommand", "snc", "nonc", 4)));
		int w = (int)r.below(100);
		if (w < 60)
			a->Set("users", StrArray({ g.Ref("User", "su", "nouser", 4) }));
		else if (w < 92)
			a->Set("user_groups", StrArray({ g.Ref("UserGroup", "sug", "nogroup", 4) }));
		if (r.below(100) < 25)
			a->Set("interval", (double)r.range(0, 3600));
		if (r.below(100) < 15)
			a->Set("period", String(g.Ref("TimePeriod", "stp", "notp")));
		if (r.below(100) < 15)
			a->Set("times", new Dictionary({ { "begin", (double)r.range(0, 600) }, { "end", (double)r.range(600, 7200) } }));
	} else if (type == "Dependency") {
		auto c = g.Checkable();
		full = c.first + "!" + (c.second.empty() ? "" : c.second + "!") + sn;
		if (r.below(100) < 96) {
			std::string ph = g.Ref("Host", "sh2", "nohost", 4);
			if (ph == c.first && r.below(100) < 90)
				ph = c.first == "sh2" ? "sh" : "sh2"; /* a checkable depending on itself is a cycle */
			a->Set("parent_host_name", String(ph));
		}
		if (r.below(100) < 25) {
			if (!g.svcs.empty() && r.coin()) {
				auto s = g.svcs[r.below(g.svcs.size())];
				a->Set("parent_host_name", String(s.first));
				a->Set("parent_service_name", String(s.second));
			} else {
				a->Set("parent_host_name", "sh2");
				a->Set("parent_service_name", "ss2");
			}
		}
		if (r.below(100) < 20) a->Set("disable_checks", r.coin());
		if (r.below(100) < 20) a->Set("disable_notifications", r.coin());
		if (r.below(100) < 15) a->Set("ignore_soft_states", r.coin());
		if (r.below(100) < 10) a->Set("period", String(g.Ref("TimePeriod", "stp", "notp")));
	} else if (type == "Comment") {
		auto c = g.Checkable();
		full = c.first + "!" + (c.second.empty() ? "" : c.second + "!") + sn;
		if (r.below(100) < 96) a->Set("author", String(r.below(3) ? SimpleWord(r) : GenString(r)));
		if (r.below(100) < 96) a->Set("text", String(r.below(3) ? SimpleWord(r) : GenString(r)));
		if (r.below(100) < 30) a->Set("entry_type", (double)r.range(1, 4));
		if (r.below(100) < 20) a->Set("persistent", r.coin());
		if (r.below(100) < 20) a->Set("expire_time", (double)(1700000000LL + r.range(-5000, 100000)));
		if (r.below(100) < 15) a->Set("entry_time", (double)(1700000000LL - r.range(0, 5000)));
	} else if (type == "Downtime") {
		auto c = g.Checkable();
		full = c.first + "!" + (c.second.empty() ? "" : c.second + "!") + sn;
		long long start = 1700000000LL + r.range(-7200, 7200);
		if (r.below(100) < 96) a->Set("author", String(r.below(3) ? SimpleWord(r) : GenString(r)));
		if (r.below(100) < 96) a->Set("comment", String(r.below(3) ? SimpleWord(r) : GenString(r)));
		if (r.below(100) < 96) a->Set("start_time", (double)start);
		if (r.below(100) < 96) a->Set("end_time", (double)(start + r.range(-60, 7200)));
		if (r.below(100) < 70) a->Set("duration", (double)r.range(0, 3600));
		if (r.below(100) < 50) a->Set("fixed", r.coin());
		if (r.below(100) < 15) a->Set("entry_time", (double)(1700000000LL - r.range(0, 5000)));
	} else if (type == "Zone") {
		if (r.below(100) < 30) {
			std::string z = g.Ref("Zone", "sz", "nozone");
			a->Set("parent", String(z == sn ? std::string("sz") : z));
		}
		if (r.below(100) < 30) {
			std::vector<std::string> eps = g.Names("Endpoint");
			if (!eps.empty() && r.below(100) < 80)
				a->Set("endpoints", StrArray({ eps[r.below(eps.size())] }));
			else
				a->Set("endpoints", StrArray({ r.below(4) ? "se" : "noep" }));
		}
		if (r.below(100) < 20)
			a->Set("global", r.coin());
	} else if (type == "Endpoint") {
		if (r.below(100) < 50) a->Set("host", String(r.below(3) ? std::string("127.0.0.1") : GenString(r)));
		if (r.below(100) < 40) a->Set("port", String(r.below(3) ? std::string("5665") : GenString(r)));
		if (r.below(100) < 25) a->Set("log_duration", (double)r.range(0, 86400));
	} else if (type == "FileLogger") {
		/* a type whose Start() throws when the file cannot be opened; that variant only as the last operation of a case
		 * (what it leaves behind, F-C17i, would confuse every later operation on that name) */
		bool badPath = g.lastOp && r.below(100) < 50;
		a->Set("path", String(badPath ? "/nonexistent-c17/x.log" : "/dev/null"));
		if (badPath)
			g.curBad = true;
		if (r.below(100) < 40) {
			static const char *sev[] = { "critical", "warning", "information", "nosuch-severity" };
			int k = (int)r.below(4);
			a->Set("severity", String(sev[k]));
			if (k == 3)
				g.curBad = true;
		}
	} else if (type == "ApiUser") {
		if (r.below(100) < 80) a->Set("password", String(r.coin() ? SimpleWord(r) : GenString(r)));
		if (r.below(100) < 25) a->Set("client_cn", String(r.coin() ? SimpleWord(r) : GenString(r)));
		if (r.below(100) < 40) {
			Array::Ptr perms = new Array();
			int n = r.range(0, 2);
			for (int i = 0; i < n; i++) {
				static const char *p[] = { "*", "objects/query/Host", "actions/*", "status/query", "objects/*" };
				if (r.below(4) == 0)
					perms->Add(new Dictionary({ { "permission", p[r.below(5)] } }));
				else
					perms->Add(r.below(8) ? String(p[r.below(5)]) : String(GenString(r)));
			}
			a->Set("permissions", perms);
		}
	}

	bool hasVars = type != "FileLogger" && type != "Zone" && type != "Endpoint" && type != "ApiUser" && type != "Comment" && type != "Downtime" &&
		type != "TimePeriod" && type != "Dependency" && type != "UserGroup" && type != "HostGroup" && type != "ServiceGroup";
	if (type == "TimePeriod" || type == "Dependency" || type == "UserGroup" || type == "HostGroup" || type == "ServiceGroup")
		hasVars = true; /* CustomVarObject as well */

	if (hasVars) {
		int v = (int)r.below(100);
		if (v < 70) {
			a->Set("vars", GenVars(r));
		} else if (v < 80) {
			a->Set("vars", GenVars(r));
			static const char *dk[] = { "vars.a", "vars.a.b", "vars.x y", "vars.if", "vars.", "vars..x", "vars.a.b.c", "vars.q\"k", "vars.1", "vars.x\ny", "vars.a-b", "vars.object" };
			int n = r.range(1, 2);
			for (int i = 0; i < n; i++)
				a->Set(dk[r.below(sizeof dk / sizeof *dk)], GenValue(r, 2));
		} else if (v < 86) {
			static const char *dk[] = { "vars.a", "vars.a.b", "vars.x y", "vars.if", "vars.", "vars..x", "vars.in", "vars.\"", "vars.x = 1\nglobals.c17_pwned = 1\nb" };
			int n = r.range(1, 2);
			for (int i = 0; i < n; i++)
				a->Set(dk[r.below(sizeof dk / sizeof *dk)], GenValue(r, 2));
		} else if (v < 89) {
			/* vars of a non-dictionary kind */
			a->Set("vars", GenValue(r, 3));
			g.curBad = true;
		}
	} else if (r.below(100) < 10) {
		a->Set("vars", GenVars(r)); /* the type has no such field */
		g.curBad = true;
	}

	/* hosts the static apply rules match: c17_apply -> Service c17-ap-ok, with c17_cmd also Service c17-ap-cmd (invalid
	 * if the command does not exist: the whole create has to fail and leave nothing), c17_notify -> Notification c17-ap-n */
	if (type == "Host") {
		int variant = -1;
		if (g.forceApply >= 0) {
			variant = g.forceApply;
			g.forceApply = -1;
		} else if (r.below(100) < 9)
			variant = (int)r.below(6);
		if (variant >= 0) {
			std::vector<String> rm;
			{
				ObjectLock olock(a);
				for (const Dictionary::Pair& kv : a)
					if (kv.first == "vars" || kv.first.SubStr(0, 5) == "vars.")
						rm.push_back(kv.first);
			}
			for (const String& k : rm)
				a->Remove(k);
			Dictionary::Ptr vars = new Dictionary({ { "os", "Linux" } });
			if (variant != 4) vars->Set("c17_apply", true);
			if (variant == 1 || variant == 5) vars->Set("c17_cmd", "scc");
			if (variant == 2) vars->Set("c17_cmd", "nosuch-cmd");
			if (variant == 3 || variant == 4 || variant == 5) vars->Set("c17_notify", true);
			a->Set("vars", vars);
			g.curApply = variant;
			if (variant == 2)
				g.curBad = true;
		}
	}

	/* dotted access into a typed dictionary field */
	if ((type == "CheckCommand" || type == "NotificationCommand" || type == "EventCommand") && r.below(100) < 8)
		a->Set(r.coin() ? "arguments.-x" : (r.coin() ? "env.K" : "arguments.--long.value"), String(r.coin() ? SimpleWord(r) : GenString(r)));

	/* invalid top-level keys */
	int inv = (int)r.below(100);
	if (inv < 8) {
		g.curBad = true;
		switch (r.below(8)) {
			case 0: case 1: a->Set("nosuch", GenValue(r, 3)); break;
			case 2: a->Set(type == "Host" || type == "Service" ? "last_check" : "active", 1.0); break;
			case 3: a->Set(type == "Host" || type == "Service" ? "state" : "paused", 0.0); break;
			case 4: case 5: a->Set("name", String(r.coin() ? sn : "other")); break;
			case 6: a->Set("vars\nx", 1.0); break;
			case 7: a->Set("", 1.0); break;
		}
	}

	/* ignore_on_error */
	int io = (int)r.below(100);
	if (io < 5) {
		ioe = true;
		g.curBad = true;
		if (type == "Host" || type == "Service")
			a->Set("check_command", "nocmd");
		else if (type == "Notification")
			a->Set("command", "nonc");
		else if (type == "Dependency")
			a->Set("parent_host_name", "nohost");
		else if (type == "User")
			a->Set("groups", StrArray({ "nogroup" }));
		else if (type == "Comment" || type == "Downtime")
			full = "nohost!" + sn;
		else if (type == "TimePeriod")
			a->Set("includes", StrArray({ "notp" }));
		else if (type == "Zone")
			a->Set("parent", "nozone");
	} else if (io < 9) {
		ioe = true;
	}

	/* templates */
	int tp = (int)r.below(100);
	if (tp < 8) {
		templates->Add("tpl");
	} else if (tp < 10) {
		static const char *t[] = { "tpl\"\nglobals.c17_pwned2 = 1\n//", "nosuch", "", "tpl\\", "tp\nl", "plugin-check-command" };
		templates->Add(t[r.below(6)]);
		if (r.coin())
			templates->Add("tpl");
		g.curBad = true;
	}
	if (type == "Endpoint" || (tp < 8 && (type == "Zone" || type == "ApiUser" || type == "FileLogger")))
		g.curBad = true;

	/* a composite name with a surplus '!' part: it is cut off when the name is taken apart, what remains names an object
	 * that exists already (Service h!web!x -> host h, name web); the create has to fail and leave everything as it was */
	bool keepName = false;
	if (dynamic_cast<NameComposer *>(TypeOf(type).get()) && r.below(100) < 6) {
		std::vector<std::string> prev = g.Names(type.c_str());
		if (!prev.empty()) {
			if (type == "Service" && !g.svcs.empty())
				g.svcs.pop_back();
			full = prev[r.below(prev.size())] + "!" + (r.coin() ? std::string("x") : SimpleWord(r));
			keepName = true;
			g.curBad = true;
		}
	}

	/* composite names with an empty '!'-token, or whose parts do not compose to the same name again, only in the prelude */
	if (auto *nc = dynamic_cast<NameComposer *>(TypeOf(type).get())) {
		bool bad = false;
		{
			size_t b = 0;
			for (;;) {
				size_t e = full.find('!', b);
				if ((e == std::string::npos ? full.size() : e) == b)
					bad = true;
				if (e == std::string::npos)
					break;
				b = e + 1;
			}
		}
		if (!bad) {
			try {
				Dictionary::Ptr p = nc->ParseName(String(full));
				std::string again;
				for (const char *k : { "host_name", "child_host_name", "service_name", "child_service_name", "name" })
					if (p->Contains(k))
						again += (again.empty() ? "" : "!") + std::string(((String)p->Get(k)).GetData());
				if (again != full)
					bad = true;
			} catch (...) { }
		}
		if (bad && !keepName) {
			size_t cut = full.size() >= sn.size() && full.compare(full.size() - sn.size(), sn.size(), sn) == 0 ? full.size() - sn.size() : 0;
			std::string prefix = full.substr(0, cut);
			if (prefix.empty() || prefix.find("!!") != std::string::npos || prefix[0] == '!')
				prefix = "sh!";
			if (type == "Service" && !g.svcs.empty())
				g.svcs.pop_back();
			full = prefix + "a";
			if (type == "Service")
				g.svcs.emplace_back(prefix.substr(0, prefix.size() - 1), "a");
		}
	}

	g.att.emplace_back(type, full);
	return full;
}

static const char *PickType(Rng& r, bool haveHost)
{
	if (!haveHost && r.below(100) < 55)
		return "Host";
	static const struct { const char *t; int w; } tab[] = {
		{ "Host", 14 }, { "Service", 16 }, { "CheckCommand", 12 }, { "User", 5 }, { "UserGroup", 3 }, { "HostGroup", 4 },
		{ "ServiceGroup", 3 }, { "TimePeriod", 4 }, { "Notification", 8 }, { "Dependency", 7 }, { "Comment", 7 }, { "Downtime", 7 },
		{ "Zone", 3 }, { "Endpoint", 3 }, { "ApiUser", 3 }, { "NotificationCommand", 4 }, { "EventCommand", 3 }, { "FileLogger", 2 }
	};
	int total = 0;
	for (auto& e : tab) total += e.w;
	int x = (int)r.below(total);
	for (auto& e : tab) {
		if (x < e.w) return e.t;
		x -= e.w;
	}
	return "Host";
}

static bool GenNameOk(const std::string& type, const std::string& full)
{
	if (full.empty() || full.size() > 200 || full.find('\0') != std::string::npos)
		return false;
	bool composite = type == "Service" || type == "Notification" || type == "Dependency" || type == "Comment" || type == "Downtime";
	return composite || full.find('!') == std::string::npos;
}

static void GenCase(Rng& r, long long n)
{
	OpCase(n);
	GenCtx g(r);
	int np = r.range(2, 3);
	for (int i = 0; i < np; i++)
		g.pool.push_back(GenName(r));

	int nops = r.range(4, 10);
	for (int i = 0; i < nops; i++) {
		bool del = i > 0 && r.below(100) < 32;
		if (!del) {
			bool haveHost = !g.Names("Host").empty();
			std::string type = PickType(r, haveHost);
			if (!g.forceName.empty()) {
				/* re-create the host whose apply-generated service was invalid */
				if (r.below(100) < 70)
					type = "Host";
				else {
					g.forceName.clear();
					g.forceApply = -1;
				}
			}
			Dictionary::Ptr attrs;
			Array::Ptr templates;
			bool ioe;
			g.lastOp = i == nops - 1;
			std::string full = GenCreate(g, type, attrs, ioe, templates);
			bool wantHttp = r.below(100) < 13;
			bool bare = false;
			if ((type == "UserGroup" || type == "HostGroup" || type == "ServiceGroup") && r.below(100) < 10) {
				/* a request body without an "attrs" member (F-C17h, fixed by a049be8: killed the process) */
				attrs = new Dictionary();
				wantHttp = true;
				bare = true;
			}
			OpCreate(type, full, ioe, templates, attrs, wantHttp, bare);

			GKey k(type, full);
			bool depsOk = true;
			for (auto& d : g.curDeps)
				if (!g.Exists(d.first, d.second))
					depsOk = false;
			if (!g.curBad && depsOk && GenNameOk(type, full) && !g.live.count(k)) {
				g.live.insert(k);
				g.deps[k] = g.curDeps;
				if (type == "Host" && g.curApply >= 0) {
					auto child = [&](const char *t, const std::string& nm) {
						GKey c(t, full + "!" + nm);
						g.live.insert(c);
						g.deps[c] = { k };
						if (!strcmp(t, "Service"))
							g.svcs.emplace_back(full, nm);
					};
					if (g.curApply != 4) child("Service", "c17-ap-ok");
					if (g.curApply == 1 || g.curApply == 5) child("Service", "c17-ap-cmd");
					if (g.curApply >= 3) child("Notification", "c17-ap-n");
				}
			}
			if (type == "Host" && g.curApply == 2 && GenNameOk(type, full)) {
				g.forceName = full;
				g.forceApply = (int)r.below(2);
			}
			continue;
		}
		int k = (int)r.below(100);
		std::string type, name;
		/* objects believed to exist, and those among them other objects are believed to depend on */
		std::vector<GKey> live(g.live.begin(), g.live.end()), liveParents;
		for (auto& l : live)
			if (!g.Dependents(l).empty())
				liveParents.push_back(l);
		if (k < 30 && !liveParents.empty()) {
			auto& a = liveParents[r.below(liveParents.size())];
			type = a.first;
			name = a.second;
		} else if (k < 62 && !live.empty()) {
			auto& a = live[r.below(live.size())];
			type = a.first;
			name = a.second;
		} else if (k < 72 && !g.att.empty()) {
			auto& a = g.att[r.below(g.att.size())];
			type = a.first;
			name = a.second;
		} else if (k < 90) {
			auto& s = GenStatic()[r.below(GenStatic().size())];
			type = s.first;
			name = s.second;
		} else {
			type = l_TypeNames[r.below(sizeof l_TypeNames / sizeof *l_TypeNames)];
			name = r.coin() ? g.PoolName() : GenName(r);
		}
		bool cascade = r.below(100) < 45;
		bool wantHttp = r.below(100) < 13;
		if (g.live.count(GKey(type, name)) && r.below(100) < 14) {
			/* fault injection: the deactivation of the object itself (mostly) or of one of its believed dependents is
			 * answered by an exception; then, mostly, the same delete is tried again */
			GKey f(type, name);
			std::vector<GKey> d = g.Dependents(f);
			if (cascade && !d.empty() && r.below(100) < 35)
				f = d[r.below(d.size())];
			OpDelete(type, name, cascade, wantHttp, f.first, f.second);
			if (r.below(100) < 75) {
				bool c2 = r.below(100) < 30 ? !cascade : cascade;
				OpDelete(type, name, c2, r.below(100) < 13);
				g.BelieveDelete(GKey(type, name), c2);
				i++;
			}
			continue;
		}
		OpDelete(type, name, cascade, wantHttp);
		g.BelieveDelete(GKey(type, name), cascade);
	}
}

static Dictionary::Ptr J(const char *json)
{
	return JsonDecode(json);
}

static long long Prelude()
{
	long long n = 0;
	Array::Ptr none = new Array();

	OpCase(++n);
	OpCreate("CheckCommand", "pc", false, none, J(R"({"command":["/bin/true"],"vars":{"os":"Linux"}})"));
	OpCreate("Host", "ph", false, none, J(R"({"check_command":"pc","address":"127.0.0.1","vars":{"os":"Linux","n":1,"l":[true,null]}})"));
	OpCreate("Service", "ph!ps", false, none, J(R"({"check_command":"scc","notes":"n"})"));
	OpCreate("Host", "ph", false, none, J(R"({"check_command":"pc"})"));
	OpDelete("Host", "ph", false);
	OpDelete("CheckCommand", "pc", false);
	OpDelete("Host", "ph", true);
	OpDelete("CheckCommand", "pc", false);
	OpDelete("Host", "sh", true);
	OpDelete("Host", "nosuch", false);

	OpCase(++n);
	OpCreate("UserGroup", "pug", false, none, J(R"({"display_name":"PUG"})"));
	OpCreate("User", "pu", false, none, J(R"({"groups":["pug","sug"],"email":"x@y"})"));
	OpCreate("HostGroup", "phg", false, none, J(R"({"display_name":"PHG"})"));
	OpCreate("ServiceGroup", "psg", false, none, J(R"({})"));
	OpCreate("TimePeriod", "ptp", false, none, J(R"({"ranges":{"monday":"00:00-24:00"}})"));
	OpDelete("UserGroup", "pug", false);
	OpDelete("UserGroup", "pug", true);

	OpCase(++n);
	OpCreate("NotificationCommand", "pnc", false, none, J(R"({"command":["/bin/true"]})"));
	OpCreate("Notification", "sh!pn", false, none, J(R"({"command":"pnc","users":["su"]})"));
	OpCreate("Notification", "sh!ss!pn", false, none, J(R"({"command":"snc","user_groups":["sug"],"interval":0})"));
	OpCreate("Dependency", "sh!ss!pd", false, none, J(R"({"parent_host_name":"sh"})"));
	OpCreate("Comment", "sh!pcm", false, none, J(R"({"author":"me","text":"hello"})"));
	OpCreate("Downtime", "sh!pdt", false, none, J(R"({"author":"me","comment":"maint","start_time":1700000100,"end_time":1700003700,"duration":0,"fixed":true})"));
	OpCreate("Comment", "sh!ss!pcm", false, none, J(R"({"author":"me","text":"svc"})"));
	OpDelete("NotificationCommand", "pnc", false);
	OpDelete("Comment", "sh!pcm", false);
	OpDelete("Downtime", "sh!pdt", false);
	OpDelete("NotificationCommand", "pnc", true);

	OpCase(++n);
	OpCreate("Endpoint", "pe", false, none, J(R"({"host":"127.0.0.1","port":"5665"})"));
	OpCreate("Zone", "pz", false, none, J(R"({"endpoints":["pe"],"parent":"sz"})"));
	OpCreate("ApiUser", "pa", false, none, J(R"({"password":"pw","permissions":["*"]})"));
	OpCreate("EventCommand", "pec", false, none, J(R"({"command":["/bin/true"]})"));
	OpDelete("Endpoint", "pe", false);
	OpDelete("Zone", "pz", false);
	OpDelete("Endpoint", "pe", false);

	OpCase(++n);
	OpCreate("CheckCommand", "v1", false, none, J(R"({"vars":{"n":1e-7}})"));
	{
		Dictionary::Ptr a = new Dictionary();
		a->Set("vars", new Dictionary({ { "s", String(std::string("nu\0l", 4)) } }));
		OpCreate("CheckCommand", "v2", false, none, a);
	}
	OpCreate("CheckCommand", "v3", false, none, J(R"({"vars":{"x = 1\nglobals.c17_pwned = 1\nb":1}})"));
	OpCreate("CheckCommand", "v4", false, none, J(R"({"vars":{"x = 1\n}\n}\nobject CheckCommand \"evil\" {\nvars = {\nb":1}})"));
	OpCreate("CheckCommand", "v5", false, new Array({ "tpl" }), J(R"({"vars":{"if":1,"a.b":2,"":3,"1x":4,"a-b":5}})"));
	OpCreate("Host", "v6", true, none, J(R"({"check_command":"nocmd"})"));
	OpCreate("Host", "v7", false, none, J(R"({"check_command":"scc","nosuch":1})"));
	OpCreate("Host", "v8", false, none, J(R"({"check_command":"scc","vars.a":1,"vars.b.c":"x"})"));
	/* the two lexer keywords ConfigWriter's list lacked before 3c83e1d */
	OpCreate("CheckCommand", "v9", false, none, J(R"({"vars":{"in":1,"debugger":{"in":[true],"debugger":"x"}},"arguments":{"in":"a","debugger":{"value":"b"}}})"));
	OpCreate("Host", "v10", false, none, J(R"({"check_command":"scc","vars.in":true,"vars.debugger.in":2})"), true);


	/* through the REST handlers */
	OpCase(++n);
	OpCreate("Host", "wh", false, none, J(R"({"check_command":"scc","address":"127.0.0.1","groups":["shg"],"vars":{"os":"Linux","n":0.5}})"), true);
	OpCreate("Service", "wh!ws", false, none, J(R"({"check_command":"scc","vars":{"l":[true,null,"x"]}})"), true);
	OpDelete("Host", "wh", false, true);
	OpDelete("Host", "wh", true, true);
	OpDelete("Host", "wh", true, true);

	/* F-C17f: a deleted service stays in its host's service map; the comment attaches to it (and is taken away again) */
	OpCase(++n);
	OpCreate("Service", "sh!zw", false, none, J(R"({"check_command":"scc"})"));
	OpDelete("Service", "sh!zw", false);
	OpCreate("Comment", "sh!zw!c", false, none, J(R"({"author":"me","text":"on a deleted service"})"));

	/* hosts matched by the static apply rules */
	OpCase(++n);
	OpCreate("Host", "ap1", false, none, J(R"({"check_command":"scc","vars":{"c17_apply":true}})"));
	OpCreate("Host", "ap2", false, none, J(R"({"check_command":"scc","vars":{"c17_apply":true,"c17_cmd":"scc","c17_notify":true}})"));
	OpCreate("Host", "ap3", false, none, J(R"({"check_command":"scc","vars":{"c17_apply":true,"c17_cmd":"nosuch-cmd"}})"));
	OpCreate("Host", "ap3", false, none, J(R"({"check_command":"scc","vars":{"c17_apply":true}})"));
	OpCreate("Host", "ap4", false, none, J(R"({"check_command":"scc","vars":{"c17_notify":true}})"), true);
	OpDelete("Host", "ap1", false);
	OpDelete("Service", "ap2!c17-ap-ok", false);
	OpDelete("Host", "ap1", true);
	OpDelete("Host", "ap2", true, true);
	OpCreate("Host", "ap1", false, none, J(R"({"check_command":"scc","vars":{"c17_apply":true,"c17_cmd":"nosuch-cmd"}})"), true);
	OpCreate("Host", "ap1", false, none, J(R"({"check_command":"scc"})"));

	/* one create each: attributes which re-route the object, and a composite name with an empty part */
	OpCase(++n);
	OpCreate("Host", "r1", false, none, J(R"({"check_command":"scc","__name":"renamed"})"));
	OpCase(++n);
	OpCreate("Host", "r2", false, none, J(R"({"check_command":"scc","package":"_etc"})"));
	OpCase(++n);
	OpCreate("Service", "sh!!b", false, none, J(R"({"check_command":"scc"})"));

	/* names with a surplus '!' part that is cut off when the name is taken apart: what remains names an existing object */
	OpCase(++n);
	OpCreate("Service", "sh!pw", false, none, J(R"({"check_command":"scc"})"));
	OpCreate("Service", "sh!pw!x", false, none, J(R"({"check_command":"scc"})"));
	OpCreate("Service", "sh!pw", false, none, J(R"({"check_command":"scc","notes":"again"})"));
	OpDelete("Service", "sh!pw", false);
	OpCase(++n);
	OpCreate("Comment", "sh!ss!pc", false, none, J(R"({"author":"me","text":"t"})"));
	OpCreate("Comment", "sh!ss!pc!x", false, none, J(R"({"author":"me","text":"u"})"));
	OpCreate("Notification", "sh!ss!pn", false, none, J(R"({"command":"snc","users":["su"]})"));
	OpCreate("Notification", "sh!ss!pn!y!z", false, none, J(R"({"command":"snc","users":["su"]})"), true);
	OpDelete("Comment", "sh!ss!pc", false, true);
	OpDelete("Notification", "sh!ss!pn", false);

	/* a type whose Start() can throw */
	OpCase(++n);
	OpCreate("FileLogger", "pfl", false, none, J(R"({"path":"/dev/null","severity":"critical"})"));
	OpCreate("FileLogger", "pfl", false, none, J(R"({"path":"/dev/null"})"));
	OpDelete("FileLogger", "pfl", false);
	OpCase(++n);
	OpCreate("FileLogger", "pfx", false, none, J(R"({"path":"/nonexistent-c17/x.log"})"));

	/* request bodies without an "attrs" member */
	OpCase(++n);
	OpCreate("HostGroup", "pnb", false, none, J("{}"), true, true);
	OpDelete("HostGroup", "pnb", false, true);
	OpCase(++n);
	OpCreate("Host", "pnb2", false, new Array({ "tpl" }), J("{}"), true, true);

	/* a deletion aborted half-way by an exception from a deactivation handler, then tried again */
	OpCase(++n);
	OpCreate("UserGroup", "fug", false, none, J(R"({"display_name":"F"})"));
	OpCreate("User", "fu", false, none, J(R"({"groups":["fug"]})"));
	OpDelete("User", "fu", false, false, "User", "fu");
	OpDelete("User", "fu", false);
	OpDelete("UserGroup", "fug", true);
	OpCase(++n);
	OpCreate("UserGroup", "fug", false, none, J(R"({"display_name":"F"})"));
	OpCreate("User", "fu", false, none, J(R"({"groups":["fug"]})"));
	OpDelete("User", "fu", false, true, "User", "fu");
	OpDelete("UserGroup", "fug", true);
	OpDelete("User", "fu", true, true);
	OpCase(++n);
	OpCreate("Host", "fh", false, none, J(R"({"check_command":"scc"})"));
	OpCreate("Service", "fh!fs", false, none, J(R"({"check_command":"scc"})"));
	OpCreate("Comment", "fh!fs!fc", false, none, J(R"({"author":"me","text":"t"})"));
	/* the fault names an object the call never reaches / the target of a cascade (its dependents go first) */
	OpDelete("Comment", "fh!fs!fc", false, false, "Host", "fh");
	OpDelete("Host", "fh", true, false, "Host", "fh");
	OpDelete("Host", "fh", true);
	/* F-C17j (fixed by 0ce9ca7): the deletion of a dependent is aborted in the middle of a cascade; the delete must fail and keep the host */
	OpCase(++n);
	OpCreate("Host", "fj", false, none, J(R"({"check_command":"scc"})"));
	OpCreate("Service", "fj!fs", false, none, J(R"({"check_command":"scc"})"));
	OpDelete("Host", "fj", true, false, "Service", "fj!fs");
	OpDelete("Service", "fj!fs", false);

	return n;
}

/* ---------------------------------------------------------------- main */

static void PrintTypes()
{
	for (const char *tn : l_TypeNames) {
		Type::Ptr type = TypeOf(tn);
		std::vector<std::string> cfg, other;
		for (int i = 0; i < type->GetFieldCount(); i++) {
			Field f = type->GetFieldInfo(i);
			((f.Attributes & FAConfig) ? cfg : other).push_back(f.Name);
		}
		Emit(std::string("T ") + tn + " cfg=" + Join(cfg) + " other=" + Join(other) + " plural=" + PluralOf(type));
	}
}

static int WorkerMain()
{
	SetupBase();
	SetupWorker();
	{
		std::string s1 = GlobHash(), s2 = GlobHash();
		if (s1 != s2)
			Die("global hash unstable");
	}
	printf("D %s\n.\n", l_DataDir.c_str());
	fflush(stdout);

	std::string line;
	while (std::getline(std::cin, line)) {
		ExecLine(line);
		fputs(".\n", stdout);
		fflush(stdout);
	}

	Cleanup();
	Teardown();
	fflush(stdout);
	_exit(0);
}

int main(int argc, char **argv)
{
	if (argc < 2) { fprintf(stderr, "usage: h_c17 gen --seed S --tier quick|thorough [--cases N] [--batch N] | ops FILE\n"); return 2; }
	std::string mode = argv[1];
	if (mode == "worker")
		return WorkerMain();
	if (mode != "gen" && mode != "ops") { fprintf(stderr, "unknown mode\n"); return 2; }
	if (mode == "ops" && argc < 3) { fprintf(stderr, "ops needs a file\n"); return 2; }

	signal(SIGPIPE, SIG_IGN);
	SetupBase(); /* type information only: the parent executes no operation */
	l_Flush = getenv("VERIF_C17_FLUSH") != nullptr;
	l_Batch = atoi(argOr(argc, argv, "--batch", "60"));
	if (l_Batch < 1)
		l_Batch = 1;
	int rcode = 0;

	PrintTypes();

	if (mode == "gen") {
		uint64_t seed = strtoull(argOr(argc, argv, "--seed", "1"), nullptr, 10);
		std::string tier = argOr(argc, argv, "--tier", "quick");
		long long cases = tier == "thorough" ? 8000 : 800;
		const char *override = argOr(argc, argv, "--cases", nullptr);
		if (override)
			cases = atoll(override);
		long long n = Prelude();
		Rng rng(seed);
		for (long long i = 0; i < cases; i++)
			GenCase(rng, ++n);
	} else {
		std::ifstream in(argv[2], std::ios::binary);
		if (!in) {
			perror("open");
			rcode = 2;
		} else {
			std::string line;
			while (std::getline(in, line)) {
				std::string op = OpPart(line);
				if (!op.empty())
					Submit(op);
			}
		}
	}

	StopWorker();
	fflush(stdout);

	fprintf(stderr, "STATS http_ops=%ld auto_deletes=%ld apply_host_ok=%ld apply_host_failed=%ld x_lines=%ld\n", l_PHttp, l_PAuto, l_PApplyOk,
		l_PApplyFail, l_PX);
	fprintf(stderr, "STATS cases=%ld creates=%ld deletes=%ld del_ok=%ld del_refused=%ld del_missing=%ld del_other=%ld del_threw=%ld\n",
		l_PCases, l_PCreate, l_PDelete, l_PDel[0], l_PDel[1], l_PDel[2], l_PDel[3], l_PThrew);
	for (auto& kv : l_PStat)
		fprintf(stderr, "STATS type=%s created=%ld refused=%ld exception=%ld cfg_refused=%ld ok_but_absent=%ld\n", kv.first.c_str(),
			kv.second[0], kv.second[1], kv.second[2], kv.second[3], kv.second[4]);

	fflush(stdout);
	_exit(rcode);
}

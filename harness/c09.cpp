/* C09 harness: drives the real MacroProcessor::ResolveMacros / ResolveArguments on real Host, Service and
 * CheckCommand objects, PluginCheckTask::ProcessFinishedHandler (ParseCheckOutput, SplitPerfdata,
 * ExitStatusToState) and, end to end, PluginCheckTask::ScriptFunc -> PluginUtility::ExecuteCommand ->
 * Process (spawn helper, execvpe or /bin/sh -c) with a recording plugin.
 *
 * Byte strings are hex on the line ("-" = empty string).  Lists: elements joined by ",", "~" = empty list.
 *   val  := E | S:<hex> | A:<list> | B:<0|1> | N:<integer>     (Boolean, integer-valued Number; array elements are strings)
 *   cmd  := s:<hex> | a:<list>         the element / line prefix "@P" stands for the recording plugin's path
 *   arg  := <dkey>;<isdict>;<key|~>;<val>;<required>;<skip_key>;<repeat_key>;<order>;<sep|~>;<set_if val>
 *
 *   C <n> | <pluginhex>                                  fresh case: no custom variables, empty attributes
 *   V <s|h|c|i> <namehex> <val>                          custom variable on service / host / command / in the global `Vars` (icinga)
 *   U <namehex> <hex>                                    variable in the environment of the DAEMON (setenv in the executing process):
 *                                                        reachable as $env.<name>$ only, never as the short macro $<name>$
 *   T <s|h> <attr> <hex>                                 address address6 display_name notes notes_url action_url
 *   N <idx> <hex>                                        `env` entry C09E_<idx> of the command (a macro string); applies to X and Y lines
 *   M <svc> <level> <esc> <hex> | ok <val> <missing> | err <kind>
 *   G <svc> <cmd> <nargs|-> <arg>* | ok sh:<hex> | ok argv:<list> | err <kind>
 *   X <svc> <cmd> <nargs|-> <arg>* <exit> <outhex> <timeout_s> <sleep_ds>
 *        | <ran> <argv list> <none|sh:<hex>|argv:<list>> <state> <exit> <outhex> <perf list> <gone> <markerhex> <env>
 *          env := ~ | <idx>=<hex>+…   the C09E_ variables the plugin found in its environment; `!` = ScriptFunc threw
 *          (marker = the text the implementation appends for that exit status; oracle input, wording not compared;
 *           `err <kind>`: the kind is informational, the driver compares failure against failure only)
 *   H <svc> <level> <esc> <hex> | <st1> <v1> <m1> <cache> <st2> <v2> <m2>      ResolveMacros twice: fill resolvedMacros, then use it
 *   K <svc> <cmd> <nargs|-> <arg>* | <st1> <c1> <cache> <st2> <c2>              ResolveArguments twice (fill, use)
 *   Y <svc> <cmd> <nargs|-> <arg>* <exit> <outhex> | <cache> <fillRan> <direct: 9 fields as X> <cached: 9 fields as X>
 *        full PluginCheckTask::ScriptFunc three times: direct, fill (resolvedMacros, useResolvedMacros=false: must not run), cached
 *        cache := <namehex>=<val>+… | ~        st := ok | err
 *   P <exit> <outhex> | <markerhex> <state> <exit> <outhex> <perf list>          ProcessFinishedHandler on a synthetic result
 *   E <exit> | <state>                                                ExitStatusToState
 *   W <hex> | <ran> <argv list>                                       real `sh -c "<plugin> <text>"` through Process
 *
 *   Z <signal> <op line>                                              the child executing <op line> died (0 = exited abnormally,
 *                                                                     14 = hung for 200 s); the run continues with the next line
 *   <timeout_s> of an X line may be written <command timeout>/<check_timeout of the host or service>: the plugin's timeout is then the
 *   checkable's (pluginchecktask.cpp:40-43).
 *   X lines take an optional 5th field after <sleep_ds>: what the plugin does on SIGTERM — t0..t3 = trap it and exit 0..3,
 *   ti = ignore it (must be SIGKILLed), - = default action; r<n> = the plugin prints its output and dies by signal <n>;
 *   fk = the plugin forks a child that holds the output pipe and sleeps (<gone> then refers to that child).
 *
 * The parent process only generates / reads operation lines (it never calls the code under test); batches of them, cut at case
 * boundaries, are executed in forked children, so that a crash, abort or hang of the real code is attributed to the operation
 * that caused it and the run goes on (the fresh child silently re-applies the C/V/T lines of the interrupted case).
 *
 * Modes:  gen --seed S --tier quick|thorough      ops FILE        (recording plugin: --plugin PATH or $C09_PLUGIN)
 */
#include "common.hpp"
#include "icinga/checkcommand.hpp"
#include "icinga/macroprocessor.hpp"
#include "icinga/pluginutility.hpp"
#include "methods/pluginchecktask.hpp"
#include "base/process.hpp"
#include "base/exception.hpp"
#include "base/array.hpp"
#include "base/dictionary.hpp"
#include <condition_variable>
#include <mutex>
#include <fstream>
#include <sys/stat.h>
#include <signal.h>
#include <sys/mman.h>
#include <sys/wait.h>
#include <cmath>

using namespace icinga;
using namespace vh;

namespace vh {
VH_ROB_STATIC(RobEscape, Value (*type)(const Value&), MacroProcessor, EscapeMacroShellArg)
VH_ROB_STATIC(RobFinished, void (*type)(const Checkable::Ptr&, const CheckResult::Ptr&, const Value&, const ProcessResult&),
	PluginCheckTask, ProcessFinishedHandler)
}

typedef std::string B;

static Host::Ptr l_Host;
static Service::Ptr l_Svc;
static CheckCommand::Ptr l_Cmd;
static B l_Plugin;
static B l_Tmp;
static long l_Spawn = 0;

/* ---------- encoding ---------- */

static B Hex(const B& s)
{
	if (s.empty()) return "-";
	static const char *d = "0123456789abcdef";
	B r;
	for (unsigned char c : s) { r += d[c >> 4]; r += d[c & 15]; }
	return r;
}

static bool Unhex(const B& h, B& out)
{
	out.clear();
	if (h == "-" || h.empty()) return true;
	if (h.size() % 2) return false;
	auto nib = [](char c) { return (c >= '0' && c <= '9') ? c - '0' : (c >= 'a' && c <= 'f') ? c - 'a' + 10 : -1; };
	for (size_t i = 0; i < h.size(); i += 2) {
		int a = nib(h[i]), b = nib(h[i + 1]);
		if (a < 0 || b < 0) return false;
		out += (char)(a * 16 + b);
	}
	return true;
}

static std::vector<B> Split(const B& s, char sep)
{
	std::vector<B> r;
	B cur;
	for (char c : s) {
		if (c == sep) { r.push_back(cur); cur.clear(); } else cur += c;
	}
	r.push_back(cur);
	return r;
}

static B HexList(const std::vector<B>& l)
{
	if (l.empty()) return "~";
	B r;
	for (size_t i = 0; i < l.size(); i++) { if (i) r += ","; r += Hex(l[i]); }
	return r;
}

static bool UnhexList(const B& s, std::vector<B>& out)
{
	out.clear();
	if (s == "~") return true;
	for (const B& h : Split(s, ',')) {
		B b;
		if (!Unhex(h, b)) return false;
		out.push_back(b);
	}
	return true;
}

struct VVal { int kind = 0; B s; std::vector<B> a; long long n = 0; }; /* 0 Empty, 1 String, 2 Array, 3 Boolean, 4 Number */

static B ValTok(const VVal& v)
{
	if (v.kind == 0) return "E";
	if (v.kind == 1) return "S:" + Hex(v.s);
	if (v.kind == 3) return v.n ? "B:1" : "B:0";
	if (v.kind == 4) return "N:" + std::to_string(v.n);
	return "A:" + HexList(v.a);
}

static bool ParseVal(const B& t, VVal& v)
{
	if (t == "E") { v.kind = 0; return true; }
	if (t.rfind("S:", 0) == 0) { v.kind = 1; return Unhex(t.substr(2), v.s); }
	if (t.rfind("A:", 0) == 0) { v.kind = 2; return UnhexList(t.substr(2), v.a); }
	if (t == "B:0" || t == "B:1") { v.kind = 3; v.n = t[2] == '1'; return true; }
	if (t.rfind("N:", 0) == 0 && t.size() > 2) {
		char *end = nullptr;
		v.kind = 4;
		v.n = strtoll(t.c_str() + 2, &end, 10);
		return end && !*end && v.n > -1000000000000000LL && v.n < 1000000000000000LL;
	}
	return false;
}

static Value ToValue(const VVal& v)
{
	if (v.kind == 0) return Empty;
	if (v.kind == 1) return String(v.s);
	if (v.kind == 3) return v.n != 0;
	if (v.kind == 4) return (double)v.n;
	ArrayData d;
	for (const B& e : v.a) d.push_back(String(e));
	return new Array(std::move(d));
}

/* canonical form of a Value the real code returned */
static B ValueTok(const Value& v)
{
	if (v.IsObjectType<Array>()) {
		Array::Ptr arr = v;
		std::vector<B> l;
		ObjectLock olock(arr);
		for (const Value& e : arr) {
			if (e.IsObject()) return "X";
			l.push_back(static_cast<String>(e).GetData());
		}
		return "A:" + HexList(l);
	}
	if (v.IsObject()) return "X";
	if (v.GetType() == ValueEmpty) return "E";
	if (v.IsBoolean()) return v.ToBool() ? "B:1" : "B:0";
	if (v.IsNumber()) {
		double d = v;
		if (d != std::floor(d) || std::fabs(d) >= 1e15) return "X";
		return "N:" + std::to_string((long long)d);
	}
	return "S:" + Hex(static_cast<String>(v).GetData());
}

static B CmdTok(const Value& v)
{
	if (v.IsObjectType<Array>()) {
		Array::Ptr arr = v;
		std::vector<B> l;
		ObjectLock olock(arr);
		for (const Value& e : arr) l.push_back(static_cast<String>(e).GetData());
		return "argv:" + HexList(l);
	}
	if (v.GetType() == ValueEmpty) return "none";
	return "sh:" + Hex(static_cast<String>(v).GetData());
}

static B CacheTok(const Dictionary::Ptr& macros)
{
	B r;
	ObjectLock olock(macros);
	for (const Dictionary::Pair& kv : macros) {
		if (!r.empty()) r += "+";
		r += Hex(kv.first.GetData()) + "=" + ValueTok(kv.second);
	}
	return r.empty() ? B("~") : r;
}

static B ErrKind(const std::exception& ex)
{
	B m = ex.what();
	if (m.find("Infinite recursion") != B::npos) return "recursion";
	if (m.find("Closing $ not found") != B::npos) return "unclosed";
	if (m.find("Mixing both") != B::npos) return "mixing";
	if (m.find("Non-optional macro") != B::npos) return "required";
	return "other";
}

/* ---------- objects ---------- */

static void Setup()
{
	l_Host = new Host();
	l_Host->SetName("h");
	l_Host->SetActive(true);
	l_Host->SetCheckCommandRaw("cc");
	l_Host->Activate();
	l_Host->SetAuthority(true);
	l_Host->Register();
	l_Svc = new Service();
	l_Svc->SetHostName("h");
	l_Svc->SetShortName("s");
	l_Svc->SetName("h!s");
	l_Svc->SetActive(true);
	l_Svc->SetCheckCommandRaw("cc");
	l_Svc->Activate();
	l_Svc->SetAuthority(true);
	l_Svc->Register();
	l_Cmd = new CheckCommand();
	l_Cmd->SetName("cc");
	l_Cmd->SetActive(true);
	l_Cmd->Register();
	l_Host->OnAllConfigLoaded();
	l_Svc->OnAllConfigLoaded();
}

static std::set<B> l_DaemonEnv;

static void ResetCase()
{
	IcingaApplication::GetInstance()->SetVars(new Dictionary());
	for (const B& nm : l_DaemonEnv) unsetenv(nm.c_str());
	l_DaemonEnv.clear();
	l_Host->SetVars(new Dictionary());
	l_Svc->SetVars(new Dictionary());
	l_Cmd->SetVars(new Dictionary());
	for (const char *a : { "address", "address6", "display_name", "notes", "notes_url", "action_url" }) {
		l_Host->SetField(l_Host->GetReflectionType()->GetFieldId(a), String());
		if (strncmp(a, "address", 7))
			l_Svc->SetField(l_Svc->GetReflectionType()->GetFieldId(a), String());
	}
}

static bool SetAttr(char lvl, const B& attr, const B& val)
{
	static const std::set<B> ok = { "address", "address6", "display_name", "notes", "notes_url", "action_url" };
	if (!ok.count(attr)) return false;
	Object::Ptr o = (lvl == 'h') ? Object::Ptr(l_Host) : Object::Ptr(l_Svc);
	int f = o->GetReflectionType()->GetFieldId(attr);
	if (f < 0) return false;
	o->SetField(f, String(val));
	return true;
}

static MacroProcessor::ResolverList Resolvers(bool svc)
{
	/* as PluginCheckTask::ScriptFunc builds them (pluginchecktask.cpp:31-39) */
	MacroProcessor::ResolverList r;
	if (svc) r.emplace_back("service", l_Svc);
	r.emplace_back("host", l_Host);
	r.emplace_back("command", l_Cmd);
	return r;
}

static B SubstPlugin(const B& s)
{
	if (s.rfind("@P", 0) == 0) return l_Plugin + s.substr(2);
	return s;
}

static bool ParseCmd(const B& t, Value& cmd)
{
	if (t.rfind("s:", 0) == 0) {
		B b;
		if (!Unhex(t.substr(2), b)) return false;
		cmd = String(SubstPlugin(b));
		return true;
	}
	if (t.rfind("a:", 0) == 0) {
		std::vector<B> l;
		if (!UnhexList(t.substr(2), l)) return false;
		ArrayData d;
		for (const B& e : l) d.push_back(String(e == "@P" ? l_Plugin : e));
		cmd = new Array(std::move(d));
		return true;
	}
	return false;
}

static bool ParseArg(const B& t, const Dictionary::Ptr& args)
{
	std::vector<B> f = Split(t, ';');
	if (f.size() != 10) return false;
	B dkey;
	if (!Unhex(f[0], dkey)) return false;
	VVal val, setif;
	if (!ParseVal(f[3], val) || !ParseVal(f[9], setif)) return false;
	if (f[1] == "0") {
		args->Set(dkey, ToValue(val));
		return true;
	}
	Dictionary::Ptr d = new Dictionary();
	if (f[2] != "~") { B k; if (!Unhex(f[2], k)) return false; d->Set("key", String(k)); }
	if (val.kind != 0) d->Set("value", ToValue(val));
	if (f[4] == "1") d->Set("required", true);
	if (f[5] == "1") d->Set("skip_key", true);
	if (f[6] == "0") d->Set("repeat_key", false);
	if (f[7] != "0") d->Set("order", atoi(f[7].c_str()));
	if (f[8] != "~") { B s; if (!Unhex(f[8], s)) return false; d->Set("separator", String(s)); }
	if (setif.kind != 0) d->Set("set_if", ToValue(setif));
	args->Set(dkey, d);
	return true;
}

/* parses "<cmd> <nargs|-> <arg>*" starting at w[i]; advances i */
static bool ParseCmdArgs(const std::vector<B>& w, size_t& i, Value& cmd, Dictionary::Ptr& args)
{
	if (i + 1 >= w.size() || !ParseCmd(w[i], cmd)) return false;
	i++;
	args = nullptr;
	if (w[i] == "-") { i++; return true; }
	int n = atoi(w[i].c_str());
	i++;
	args = new Dictionary();
	for (int k = 0; k < n; k++) {
		if (i >= w.size() || !ParseArg(w[i], args)) return false;
		i++;
	}
	return true;
}

/* ---------- end-to-end run ---------- */

static std::mutex l_Mx;
static std::condition_variable l_Cv;
static bool l_Done;

static std::vector<B> ReadDump(const B& path, bool& ran)
{
	std::vector<B> argv;
	std::ifstream f(path, std::ios::binary);
	ran = (bool)f;
	if (!ran) return argv;
	B data((std::istreambuf_iterator<char>(f)), std::istreambuf_iterator<char>());
	size_t p = 0;
	while (p < data.size()) {
		size_t q = data.find('\0', p);
		if (q == B::npos) q = data.size();
		argv.push_back(data.substr(p, q - p));
		p = q + 1;
	}
	return argv;
}

static B GoneState(const B& pidFile)
{
	std::ifstream f(pidFile);
	long pid = 0;
	if (!(f >> pid) || pid <= 0) return "-";
	for (int i = 0; i < 60; i++) {
		char p[64];
		snprintf(p, sizeof p, "/proc/%ld/stat", pid);
		std::ifstream s(p);
		B line;
		if (!std::getline(s, line)) return "1";
		size_t rp = line.rfind(')');
		if (rp != B::npos && rp + 2 < line.size() && (line[rp + 2] == 'Z' || line[rp + 2] == 'X')) return "1";
		usleep(50000);
	}
	return "0";
}

static B l_TermMode = "-";
static int l_CheckTimeout = -1;   /* check_timeout of the host/service for the next run; -1: not set */
static std::map<B, B> l_EnvRaw;   /* idx -> macro string (N lines) */

static Dictionary::Ptr PluginEnv(const B& dump, int exitCode, const B& out, int sleepDs)
{
	Dictionary::Ptr env = new Dictionary({
		{ "C09_TERM", String(l_TermMode) },
		{ "C09_OUT", String(dump) },
		{ "C09_EXIT", Convert::ToString(exitCode) },
		{ "C09_PRINT", String(out.empty() ? B("") : Hex(out)) },
		{ "C09_SLEEP_DS", Convert::ToString(sleepDs) }
	});
	for (const auto& kv : l_EnvRaw)
		env->Set("C09E_" + kv.first, String(kv.second));
	return env;
}

/* the C09E_ variables the plugin recorded */
static B ReadEnvDump(const B& path)
{
	std::ifstream f(path, std::ios::binary);
	if (!f) return "~";
	B data((std::istreambuf_iterator<char>(f)), std::istreambuf_iterator<char>());
	std::map<B, B> seen;
	size_t p = 0;
	while (p < data.size()) {
		size_t q = data.find('\0', p);
		if (q == B::npos) q = data.size();
		B e = data.substr(p, q - p);
		size_t eq = e.find('=');
		if (eq != B::npos && eq > 5) seen[e.substr(5, eq - 5)] = e.substr(eq + 1);
		p = q + 1;
	}
	B r;
	for (const auto& kv : seen) { if (!r.empty()) r += "+"; r += kv.first + "=" + Hex(kv.second); }
	return r.empty() ? B("~") : r;
}

static B l_LastDump;

/* The marker text the implementation appends for this exit status (wording is not part of the property: it is read
 * from the implementation — the finished-handler run on an empty output — and handed to the model as an input). */
static B SuffixFor(int exitCode)
{
	static std::map<int, B> cache;
	auto it = cache.find(exitCode);
	if (it != cache.end()) return it->second;
	CheckResult::Ptr cr = new CheckResult();
	ProcessResult pr;
	pr.PID = 1;
	pr.ExecutionStart = Utility::GetTime();
	pr.ExecutionEnd = pr.ExecutionStart;
	pr.ExitStatus = exitCode;
	pr.Output = String();
	get(RobFinished())(l_Host, cr, new Array({ String("x") }), pr);
	B r = cr->GetOutput().GetData();
	cache[exitCode] = r;
	return r;
}

static B RunCheck(bool svc, const Value& cmd, const Dictionary::Ptr& args, int exitCode, const B& out, int timeoutS, int sleepDs,
	const Dictionary::Ptr& macros, bool useResolved, bool wait)
{
	B dump = l_Tmp + "/d" + std::to_string(++l_Spawn);
	l_LastDump = dump;
	unlink(dump.c_str());
	unlink((dump + ".pid").c_str());
	unlink((dump + ".env").c_str());
	l_Cmd->SetCommandLine(cmd);
	l_Cmd->SetArguments(args);
	l_Cmd->SetEnv(PluginEnv(dump, exitCode, out, sleepDs));
	l_Cmd->SetTimeout(timeoutS > 0 ? timeoutS : 60);
	Checkable::Ptr checkable = svc ? Checkable::Ptr(l_Svc) : Checkable::Ptr(l_Host);
	checkable->SetCheckTimeout(l_CheckTimeout >= 0 ? Value(l_CheckTimeout) : Value(Empty));
	CheckResult::Ptr cr = new CheckResult();
	l_Done = false;
	/* the documented hook for the completion callback (pluginchecktask.cpp:48-49): run the real handler, then wake the main thread */
	Checkable::ExecuteCommandProcessFinishedHandler = [checkable, cr](const Value& commandLine, const ProcessResult& pr) {
		get(RobFinished())(checkable, cr, commandLine, pr);
		std::unique_lock<std::mutex> lock(l_Mx);
		l_Done = true;
		l_Cv.notify_all();
	};
	try {
		PluginCheckTask::ScriptFunc(checkable, cr, macros, useResolved);
	} catch (const std::exception&) {
		/* an `env` entry that cannot be resolved: the exception leaves ExecuteCommand (the checker reports it) */
		Checkable::ExecuteCommandProcessFinishedHandler = nullptr;
		return wait ? "0 ~ none 3 3 - ~ - " + Hex(SuffixFor(exitCode)) + " !" : "";
	}
	if (!wait) {
		/* fill pass (pluginutility.cpp:74-75): nothing is started; an error is reported synchronously */
		Checkable::ExecuteCommandProcessFinishedHandler = nullptr;
		return "";
	}
	{
		std::unique_lock<std::mutex> lock(l_Mx);
		if (!l_Cv.wait_for(lock, std::chrono::seconds(120), [] { return l_Done; })) {
			fprintf(stderr, "c09: check did not complete within 120 s\n");
			_exit(3);
		}
	}
	Checkable::ExecuteCommandProcessFinishedHandler = nullptr;
	bool ran;
	std::vector<B> argv = ReadDump(dump, ran);
	B gone = (sleepDs > 0) ? GoneState(dump + ".pid") : B("-");
	std::vector<B> perf;
	Array::Ptr pd = cr->GetPerformanceData();
	if (pd) {
		ObjectLock olock(pd);
		for (const Value& p : pd) perf.push_back(static_cast<String>(p).GetData());
	}
	std::ostringstream o;
	o << (ran ? 1 : 0) << " " << HexList(argv) << " " << CmdTok(cr->GetCommand()) << " " << (int)cr->GetState() << " "
	  << (long)cr->GetExitStatus() << " " << Hex(cr->GetOutput().GetData()) << " " << HexList(perf) << " " << gone
	  << " " << Hex(SuffixFor(exitCode)) << " " << ReadEnvDump(dump + ".env");
	unlink(dump.c_str());
	unlink((dump + ".pid").c_str());
	unlink((dump + ".env").c_str());
	return o.str();
}

static B DoX(bool svc, const Value& cmd, const Dictionary::Ptr& args, int exitCode, const B& out, int timeoutS, int sleepDs)
{
	return RunCheck(svc, cmd, args, exitCode, out, timeoutS, sleepDs, nullptr, false, true);
}

/* direct run, then the two passes of a remotely executed check (checkable-check.cpp: the scheduling node fills
 * `macros`, the executing node resolves from them) */
static B DoY(bool svc, const Value& cmd, const Dictionary::Ptr& args, int exitCode, const B& out)
{
	B direct = RunCheck(svc, cmd, args, exitCode, out, 0, 0, nullptr, false, true);
	Dictionary::Ptr macros = new Dictionary();
	RunCheck(svc, cmd, args, exitCode, out, 0, 0, macros, false, false);
	B fillDump = l_LastDump;
	B cacheTok = CacheTok(macros);
	B cached = RunCheck(svc, cmd, args, exitCode, out, 0, 0, macros, true, true);
	struct stat st;
	int fillRan = stat(fillDump.c_str(), &st) == 0 ? 1 : 0;
	unlink(fillDump.c_str());
	unlink((fillDump + ".pid").c_str());
	unlink((fillDump + ".env").c_str());
	return cacheTok + " " + std::to_string(fillRan) + " " + direct + " " + cached;
}

static B DoP(int exitCode, const B& out)
{
	CheckResult::Ptr cr = new CheckResult();
	ProcessResult pr;
	pr.PID = 1;
	pr.ExecutionStart = Utility::GetTime();
	pr.ExecutionEnd = pr.ExecutionStart;
	pr.ExitStatus = exitCode;
	pr.Output = String(out);
	get(RobFinished())(l_Host, cr, new Array({ String("x") }), pr);
	std::vector<B> perf;
	Array::Ptr pd = cr->GetPerformanceData();
	if (pd) {
		ObjectLock olock(pd);
		for (const Value& p : pd) perf.push_back(static_cast<String>(p).GetData());
	}
	std::ostringstream o;
	o << Hex(SuffixFor(exitCode)) << " " << (int)cr->GetState() << " " << (long)cr->GetExitStatus() << " " << Hex(cr->GetOutput().GetData()) << " " << HexList(perf);
	return o.str();
}

static B DoW(const B& text)
{
	B dump = l_Tmp + "/w" + std::to_string(++l_Spawn);
	unlink(dump.c_str());
	Process::Ptr p = new Process(Process::PrepareCommand(String(l_Plugin + " " + text)), PluginEnv(dump, 0, "", 0));
	p->SetTimeout(60);
	p->Run();
	p->WaitForResult();
	bool ran;
	std::vector<B> argv = ReadDump(dump, ran);
	unlink(dump.c_str());
	unlink((dump + ".pid").c_str());
	unlink((dump + ".env").c_str());
	return B(ran ? "1 " : "0 ") + HexList(argv);
}

/* ---------- one line ---------- */

static bool l_Quiet = false;

static bool Exec(const B& lineIn)
{
	B line = lineIn;
	size_t bar = line.find(" | ");
	if (bar != B::npos) line = line.substr(0, bar);
	while (!line.empty() && (line.back() == '\n' || line.back() == ' ' || line.back() == '\r')) line.pop_back();
	if (line.empty()) return true;
	std::vector<B> w;
	for (const B& t : Split(line, ' ')) if (!t.empty()) w.push_back(t);
	const B& op = w[0];
	std::ostringstream o;
	o << line << " | ";
	if (op == "C") {
		ResetCase();
		l_EnvRaw.clear();
		o << Hex(l_Plugin);
	} else if (op == "V" && w.size() == 4) {
		B name; VVal v;
		if (!Unhex(w[2], name) || !ParseVal(w[3], v)) return false;
		if (w[1] == "i") {
			IcingaApplication::GetInstance()->GetVars()->Set(name, ToValue(v));
		} else {
			CustomVarObject::Ptr obj = w[1] == "s" ? CustomVarObject::Ptr(l_Svc) : w[1] == "h" ? CustomVarObject::Ptr(l_Host) : CustomVarObject::Ptr(l_Cmd);
			Dictionary::Ptr(obj->GetVars())->Set(name, ToValue(v));
		}
		o << "ok";
	} else if (op == "U" && w.size() == 3) {
		B name, v;
		if (!Unhex(w[1], name) || !Unhex(w[2], v) || name.empty() || name.find('=') != B::npos) return false;
		setenv(name.c_str(), v.c_str(), 1);
		l_DaemonEnv.insert(name);
		o << "ok";
	} else if (op == "T" && w.size() == 4) {
		B v;
		if (!Unhex(w[3], v) || !SetAttr(w[1][0], w[2], v)) return false;
		o << "ok";
	} else if (op == "N" && w.size() == 3) {
		B v;
		if (!Unhex(w[2], v) || w[1].empty() || w[1].find_first_not_of("0123456789") != B::npos) return false;
		l_EnvRaw[w[1]] = v;
		o << "ok";
	} else if (op == "M" && w.size() == 5) {
		B s;
		if (!Unhex(w[4], s)) return false;
		bool svc = w[1] == "1", esc = w[3] == "1";
		int level = atoi(w[2].c_str());
		String missing;
		try {
			Value r = MacroProcessor::ResolveMacros(String(s), Resolvers(svc), nullptr, &missing,
				esc ? MacroProcessor::EscapeCallback(get(RobEscape())) : MacroProcessor::EscapeCallback(), nullptr, false, level);
			o << "ok " << ValueTok(r) << " " << (missing.IsEmpty() ? 0 : 1);
		} catch (const std::exception& ex) {
			o << "err " << ErrKind(ex);
		}
	} else if (op == "G") {
		size_t i = 2;
		Value cmd; Dictionary::Ptr args;
		if (w.size() < 4 || !ParseCmdArgs(w, i, cmd, args) || i != w.size()) return false;
		try {
			Value r = MacroProcessor::ResolveArguments(cmd, args, Resolvers(w[1] == "1"), nullptr, nullptr, false);
			o << "ok " << CmdTok(r);
		} catch (const std::exception& ex) {
			o << "err " << ErrKind(ex);
		}
	} else if (op == "X") {
		size_t i = 2;
		Value cmd; Dictionary::Ptr args;
		if (w.size() < 8 || !ParseCmdArgs(w, i, cmd, args) || (i + 4 != w.size() && i + 5 != w.size())) return false;
		B out;
		if (!Unhex(w[i + 1], out)) return false;
		l_TermMode = (i + 5 == w.size()) ? w[i + 4] : B("-");
		size_t slash = w[i + 2].find('/');
		l_CheckTimeout = slash == B::npos ? -1 : atoi(w[i + 2].c_str() + slash + 1);
		struct TermReset { ~TermReset() { l_TermMode = "-"; l_CheckTimeout = -1; } } termReset;
		o << DoX(w[1] == "1", cmd, args, atoi(w[i].c_str()), out, atoi(w[i + 2].c_str()), atoi(w[i + 3].c_str()));
	} else if (op == "H" && w.size() == 5) {
		B str;
		if (!Unhex(w[4], str)) return false;
		bool svc = w[1] == "1", esc = w[3] == "1";
		int level = atoi(w[2].c_str());
		MacroProcessor::EscapeCallback fn = esc ? MacroProcessor::EscapeCallback(get(RobEscape())) : MacroProcessor::EscapeCallback();
		Dictionary::Ptr macros = new Dictionary();
		for (int pass = 0; pass < 2; pass++) {
			String missing;
			try {
				Value r = MacroProcessor::ResolveMacros(String(str), Resolvers(svc), nullptr, &missing, fn, macros, pass == 1, level);
				o << "ok " << ValueTok(r) << " " << (missing.IsEmpty() ? 0 : 1);
			} catch (const std::exception& ex) {
				o << "err " << ErrKind(ex) << " -";
			}
			if (pass == 0) o << " " << CacheTok(macros) << " ";
		}
	} else if (op == "K") {
		size_t i = 2;
		Value cmd; Dictionary::Ptr args;
		if (w.size() < 4 || !ParseCmdArgs(w, i, cmd, args) || i != w.size()) return false;
		Dictionary::Ptr macros = new Dictionary();
		for (int pass = 0; pass < 2; pass++) {
			try {
				Value r = MacroProcessor::ResolveArguments(cmd, args, Resolvers(w[1] == "1"), nullptr, macros, pass == 1);
				o << "ok " << CmdTok(r);
			} catch (const std::exception& ex) {
				o << "err " << ErrKind(ex);
			}
			if (pass == 0) o << " " << CacheTok(macros) << " ";
		}
	} else if (op == "Y") {
		size_t i = 2;
		Value cmd; Dictionary::Ptr args;
		if (w.size() < 6 || !ParseCmdArgs(w, i, cmd, args) || i + 2 != w.size()) return false;
		B out;
		if (!Unhex(w[i + 1], out)) return false;
		o << DoY(w[1] == "1", cmd, args, atoi(w[i].c_str()), out);
	} else if (op == "P" && w.size() == 3) {
		B out;
		if (!Unhex(w[2], out)) return false;
		o << DoP(atoi(w[1].c_str()), out);
	} else if (op == "E" && w.size() == 2) {
		o << (int)PluginUtility::ExitStatusToState(atoi(w[1].c_str()));
	} else if (op == "W" && w.size() == 2) {
		B t;
		if (!Unhex(w[1], t)) return false;
		o << DoW(t);
	} else {
		return false;
	}
	if (!l_Quiet)
		puts(o.str().c_str());
	return true;
}

/* ---------- batches executed in forked children ---------- */

static std::vector<B> l_Batch;
static size_t l_BatchMax = 8000;
static void FlushBatch();

/* generator / reader side: collect; cut batches at case boundaries only */
static void Must(const B& line)
{
	if (line.size() > 1 && line[0] == 'C' && line[1] == ' ' && l_Batch.size() >= l_BatchMax)
		FlushBatch();
	l_Batch.push_back(line);
}

static bool IsSetupLine(const B& l) { return l.size() > 1 && l[1] == ' ' && (l[0] == 'C' || l[0] == 'V' || l[0] == 'T' || l[0] == 'N' || l[0] == 'U'); }

static void FlushBatch()
{
	static volatile size_t *cur = nullptr;
	if (!cur) {
		cur = (volatile size_t *)mmap(nullptr, 4096, PROT_READ | PROT_WRITE, MAP_SHARED | MAP_ANONYMOUS, -1, 0);
		if (cur == MAP_FAILED) { perror("mmap"); _exit(2); }
	}
	size_t start = 0;
	while (start < l_Batch.size()) {
		fflush(stdout);
		*cur = start;
		pid_t pid = fork();
		if (pid < 0) { perror("fork"); _exit(2); }
		if (pid == 0) {
			/* the spawn helper must be forked before any thread exists (daemoncommand.cpp:538) */
			Process::InitializeSpawnHelper();
			InitIcinga();
			Setup();
			ResetCase();
			/* after a death in the middle of a case: re-apply its C/V/T lines without output */
			size_t cs = start;
			while (cs > 0 && !(l_Batch[cs][0] == 'C' && l_Batch[cs][1] == ' ')) cs--;
			l_Quiet = true;
			for (size_t k = cs; k < start; k++)
				if (IsSetupLine(l_Batch[k]) && !Exec(l_Batch[k])) _exit(2);
			l_Quiet = false;
			for (size_t i = start; i < l_Batch.size(); i++) {
				*cur = i;
				alarm(200);                      /* a hang of the real code ends the child with SIGALRM */
				if (!Exec(l_Batch[i])) { fprintf(stderr, "c09: bad line: %s\n", l_Batch[i].substr(0, 300).c_str()); fflush(stdout); _exit(2); }
				fflush(stdout);
			}
			alarm(0);
			fflush(stdout);
			_exit(0);
		}
		int status = 0;
		while (waitpid(pid, &status, 0) < 0 && errno == EINTR) { }
		if (WIFEXITED(status) && WEXITSTATUS(status) == 0) break;
		if (WIFEXITED(status) && (WEXITSTATUS(status) == 2 || WEXITSTATUS(status) == 3)) _exit(WEXITSTATUS(status));   /* harness usage error */
		size_t i = *cur;
		int sig = WIFSIGNALED(status) ? WTERMSIG(status) : 0;
		/* a partially written line of the dead child may precede this one: start on a fresh line */
		printf("\nZ %d %s\n", sig, l_Batch[i].c_str());
		start = i + 1;
	}
	fflush(stdout);
	l_Batch.clear();
}

/* ---------- generator ---------- */

static const char *PIECES[] = { "a", "b", "Z", "0", "7", "x1", " ", "  ", "\t", "\n", "'", "''", "\"", "\\", "\\\\", "`", "*", "?", "[", "]",
	"~", ";", "|", "&", "&&", "<", ">", "(", ")", "{", "}", "#", "!", "=", "-", "--", ",", "\xc3\xa9", "\xc3\xbc", "\xe2\x82\xac",
	"\xf0\x9d\x84\x9e", "\xe6\x97\xa5\xe6\x9c\xac", "%", "^", "@", "/", ".", ":", "+", "\r", "\x7f", "\x01" };
static const char *HOSTILE[] = { "$(printf INJ)", "`printf INJ`", "$HOME", "${PATH}", "; exit 2;", "a' 'b", "x\ny", "-o ProxyCommand=x", "*",
	"'", "\"", "\\", "'; printf INJ; '", "$(", "$", "a b", "\\'", "|| true", "> /dev/null", "$v0$", "$$", "'\\''", "\n", " " };
static const char *PLAINW[] = { "a", "-x", "--opt", "w0", "k=v", "/usr/lib/x", "1.5", "a,b", "u@h", "x:y", "--opt=", "\xc3\xa9t\xc3\xa9", "A_B", "+1" };

#define NEL(a) (sizeof(a) / sizeof(a[0]))

static B RandText(Rng& r, int maxPieces, bool allowDollar)
{
	B s;
	int n = (int)r.below(maxPieces + 1);
	for (int i = 0; i < n; i++) {
		if (allowDollar && r.below(6) == 0)
			s += HOSTILE[r.below(NEL(HOSTILE))];
		else
			s += PIECES[r.below(NEL(PIECES))];
	}
	return s;
}

static B Dbl(const B& s)
{
	B r;
	for (char c : s) { r += c; if (c == '$') r += '$'; }
	return r;
}

static const char *VARS[] = { "v0", "v1", "v2", "v3", "v4", "v5" };
static const char *TRUTH[] = { "true", "false", "1", "0", "", "2", "-1", "yes", "00", "x y", "-0", "123456789", "on" };
/* names of variables put into the daemon's environment: the "missing" names the generator uses and names of custom variables */
static const char *ENVN[] = { "nx", "ny", "v0", "v1", "v3", "v5", "address", "C09_LEAK" };
static const char *ATTRS[] = { "address", "address6", "display_name", "notes", "notes_url", "action_url" };

/* a reference to some macro, existing or not */
static B MacroRef(Rng& r)
{
	switch (r.below(17)) {
		case 14: return B("$env.") + ENVN[r.below(NEL(ENVN))] + "$";
		case 15: return B("$icinga.vars.") + VARS[r.below(NEL(VARS))] + "$";
		case 16: return r.coin() ? "$nx$" : "$ny$";
		case 0: return "$nx$";
		case 1: return "$host.vars.nx$";
		case 2: return "$nope.v0$";
		case 3: return "$address$";
		case 4: return "$host.address$";
		case 5: return "$display_name$";
		case 6: return "$service.display_name$";
		case 7: return B("$host.vars.") + VARS[r.below(NEL(VARS))] + "$";
		case 8: return B("$command.vars.") + VARS[r.below(NEL(VARS))] + "$";
		case 9: return B("$service.vars.") + VARS[r.below(NEL(VARS))] + ".zz$";
		case 10: return r.coin() ? "$notes$" : "$host.notes_url$";
		default: return B("$") + VARS[r.below(NEL(VARS))] + "$";
	}
}

/* a macro string: literal text, `$$`, macro references */
static B MacroString(Rng& r, int maxParts)
{
	B s;
	int n = 1 + (int)r.below(maxParts);
	for (int i = 0; i < n; i++) {
		switch (r.below(6)) {
			case 0: case 1: s += MacroRef(r); break;
			case 2: s += "$$"; break;
			default: s += Dbl(RandText(r, 2, false)); break;
		}
	}
	return s;
}

static VVal RandVarValue(Rng& r)
{
	VVal v;
	static const long long NUMS[] = { 0, 1, 2, -1, 3306, 443, 123456789, -40, 10, 999999999 };
	int k = (int)r.below(23);
	if (k >= 22) { v.kind = 4; v.n = NUMS[r.below(NEL(NUMS))]; return v; }
	if (k >= 20) { v.kind = 3; v.n = r.coin(); return v; }
	if (k < 2) { v.kind = 2; int n = (int)r.below(4); for (int i = 0; i < n; i++) v.a.push_back(r.below(4) ? Dbl(RandText(r, 3, true)) : (r.coin() ? B("") : MacroString(r, 2))); }
	else if (k < 4) { v.kind = 1; v.s = TRUTH[r.below(NEL(TRUTH))]; }
	else if (k < 5) { v.kind = 0; }
	else if (k < 9) { v.kind = 1; v.s = MacroString(r, 3); }
	else if (k < 10) { v.kind = 1; v.s = r.coin() ? "$" : "a$b"; }   /* malformed: closing $ missing */
	else { v.kind = 1; v.s = Dbl(RandText(r, 5, true)); }
	return v;
}

static void GenSetup(Rng& r, long n, bool withEnv = false)
{
	Must("C " + std::to_string(n));
	if (withEnv) {
		/* `env` entries of the command: macro strings, resolved without escaping, arrays joined by ';' */
		int ne = (int)r.below(3);
		for (int i = 0; i < ne; i++) {
			B v;
			switch (r.below(5)) {
				case 0: v = MacroRef(r); break;
				case 1: v = Dbl(RandText(r, 3, true)); break;
				case 2: v = B("$") + VARS[r.below(NEL(VARS))] + "$"; break;
				default: v = MacroString(r, 3); break;
			}
			Must("N " + std::to_string(i) + " " + Hex(v));
		}
	}
	for (const char *lvl : { "s", "h", "c" })
		for (const char *name : VARS)
			if (r.below(5) < 2)
				Must(B("V ") + lvl + " " + Hex(name) + " " + ValTok(RandVarValue(r)));
	/* a custom variable named like an attribute: which level / which source wins is part of "the macro's value" */
	if (r.below(6) == 0) {
		static const char *COLL[] = { "address", "notes", "display_name", "address6" };
		static const char *LV[] = { "s", "h", "c" };
		Must(B("V ") + LV[r.below(3)] + " " + Hex(COLL[r.below(NEL(COLL))]) + " " + ValTok(RandVarValue(r)));
	}
	/* default resolvers: the global `Vars` (a level like the others) and the daemon's own environment (never a level) */
	for (const char *name : VARS)
		if (r.below(12) == 0)
			Must(B("V i ") + Hex(name) + " " + ValTok(RandVarValue(r)));
	if (r.below(3) != 0) {
		int ne = 1 + (int)r.below(3);
		for (int i = 0; i < ne; i++)
			Must(B("U ") + Hex(ENVN[i == 0 && r.coin() ? 0 : r.below(NEL(ENVN))]) + " " + Hex(r.below(4) ? RandText(r, 3, true) : B("")));
	}
	if (r.below(40) == 0)
		Must(B("V h - ") + ValTok(RandVarValue(r)));   /* a variable named "" */
	if (r.below(30) == 0) {
		B nm = VARS[r.below(NEL(VARS))];               /* an array that contains a reference to itself */
		Must(B("V ") + (r.coin() ? "h " : "s ") + Hex(nm) + " A:" + Hex(RandText(r, 2, false)) + "," + Hex("$" + nm + "$"));
	}
	for (const char *a : ATTRS) {
		if (r.below(3) == 0) continue;
		bool rec = strncmp(a, "address", 7) && strcmp(a, "display_name");
		B v = rec ? (r.coin() ? MacroString(r, 2) : Dbl(RandText(r, 3, true))) : RandText(r, 4, true);
		Must(B("T h ") + a + " " + Hex(v));
		if (strncmp(a, "address", 7) && r.coin())
			Must(B("T s ") + a + " " + Hex(rec ? Dbl(RandText(r, 3, true)) : RandText(r, 3, true)));
	}
}

static B RandArg(Rng& r, int idx, bool safeKeys)
{
	static const char *KEYS[] = { "-a", "-b", "--cc", "-d", "--ee", "-f", "g" };
	B dkey = KEYS[idx % NEL(KEYS)];
	VVal val;
	switch (r.below(10)) {
		case 0: val.kind = 0; break;
		case 1: val.kind = 1; val.s = Dbl(RandText(r, 3, false)); break;
		case 2: val.kind = 1; val.s = MacroString(r, 3); break;
		case 3: val.kind = 2; { int n = (int)r.below(3); for (int i = 0; i < n; i++) val.a.push_back(r.coin() ? MacroRef(r) : MacroString(r, 2)); } break;
		case 4: val.kind = 1; val.s = ""; break;
		default: val.kind = 1; val.s = MacroRef(r); break;
	}
	if (r.below(12) == 0) { val = VVal(); val.kind = 4; val.n = r.coin() ? 3306 : (long long)r.below(3); }   /* value = 3306 */
	else if (r.below(40) == 0) { val = VVal(); val.kind = 3; val.n = r.coin(); }
	bool isdict = r.below(4) != 0;
	std::ostringstream o;
	if (!isdict) {
		if (val.kind == 2 && r.coin()) { val.kind = 1; val.s = MacroRef(r); }
		o << Hex(dkey) << ";0;~;" << ValTok(val) << ";0;0;1;0;~;E";
		return o.str();
	}
	B key = "~";
	if (r.below(4) == 0) key = Hex(safeKeys ? B("--k") + std::to_string(idx) : RandText(r, 2, false));
	VVal setif;
	switch (r.below(8)) {
		case 0: setif.kind = 1; setif.s = TRUTH[r.below(NEL(TRUTH))]; break;
		case 1: case 2: setif.kind = 1; setif.s = MacroRef(r); break;
		case 3: setif.kind = 1; setif.s = r.coin() ? "$v0$" : "$v1$"; break;
		default: setif.kind = 0; break;
	}
	if (r.below(10) == 0) { setif = VVal(); setif.kind = r.coin() ? 3 : 4; setif.n = (long long)r.below(3) % (setif.kind == 3 ? 2 : 3); }   /* set_if = true / 2 */
	B sep = "~";
	switch (r.below(8)) { case 0: sep = Hex("="); break; case 1: sep = "-"; break; case 2: sep = Hex(", "); break; default: break; }
	o << Hex(dkey) << ";1;" << key << ";" << ValTok(val) << ";" << (r.below(3) == 0) << ";" << (r.below(4) == 0) << ";" << (r.below(3) != 0)
	  << ";" << r.range(-2, 2) * (int)r.below(2) << ";" << sep << ";" << ValTok(setif);
	return o.str();
}

static B RandCmdArgs(Rng& r, bool forSpawn)
{
	std::ostringstream o;
	int form = (int)r.below(10);
	bool withArgs = r.below(3) != 0;
	if (form < 6) {
		std::vector<B> l = { "@P" };
		int n = (int)r.below(4);
		for (int i = 0; i < n; i++) {
			switch (r.below(5)) {
				case 0: l.push_back(PLAINW[r.below(NEL(PLAINW))]); break;
				case 1: l.push_back(MacroString(r, 3)); break;
				case 2: l.push_back("$$"); break;
				default: l.push_back(MacroRef(r)); break;
			}
		}
		o << "a:" << HexList(l);
	} else if (form < 8 || !withArgs) {
		/* string command line without arguments: sh -c; macros only in unquoted positions */
		withArgs = false;
		B s = "@P";
		int n = (int)r.below(5);
		for (int i = 0; i < n; i++) {
			s += r.below(6) == 0 ? "\t" : " ";
			switch (r.below(7)) {
				case 0: s += PLAINW[r.below(NEL(PLAINW))]; break;
				case 1: s += B("--opt=") + MacroRef(r); break;
				case 2: s += MacroRef(r) + MacroRef(r); break;
				case 3: s += "$$"; break;
				case 4: s += B("pre") + MacroRef(r) + "post"; break;
				default: s += MacroRef(r); break;
			}
		}
		o << "s:" << Hex(s);
	} else {
		/* string command with an arguments dictionary: used unresolved as argv[0] */
		o << "s:" << Hex(forSpawn || r.coin() ? B("@P") : B("@P $v0$ x"));
	}
	if (!withArgs) {
		o << " -";
	} else {
		int n = (int)r.below(6);
		o << " " << n;
		for (int i = 0; i < n; i++) o << " " << RandArg(r, i, forSpawn);
	}
	return o.str();
}

static B RandOutput(Rng& r)
{
	static const char *OUT[] = { "OK", " - load 1", "|", "=", " ", "\n", "\r\n", "a=1", "'b c'=2;3;4", " | ", "x::y=1", "z=2", "::", "'", "\t",
		"CRITICAL", "|t=0.1s;;;0", "\n|", "=|", "  ", "\xc3\xa9", "%", "'q'=1", "m::a::b=3", "\v", "\f" };
	B s;
	int n = (int)r.below(9);
	for (int i = 0; i < n; i++) s += OUT[r.below(NEL(OUT))];
	return s;
}

static int RandExit(Rng& r)
{
	switch (r.below(8)) {
		case 0: return 0; case 1: return 1; case 2: return 2; case 3: return 3;
		case 4: return 4; case 5: return 255; case 6: return 128;
		default: return (int)r.below(256);
	}
}

/* text of the modelled sh fragment: plain words, '…' with arbitrary bytes, \c, blanks, escaped values */
static B RandShText(Rng& r)
{
	B s;
	int n = 1 + (int)r.below(6);
	for (int i = 0; i < n; i++) {
		if (i && r.below(3)) s += r.below(5) ? " " : (r.coin() ? "\t" : "  ");
		switch (r.below(6)) {
			case 0: s += PLAINW[r.below(NEL(PLAINW))]; break;
			case 1: { B q = RandText(r, 4, true); B t; for (char c : q) if (c != '\'') t += c; s += "'" + t + "'"; break; }
			case 2: { B q = RandText(r, 1, true); if (q.empty() || q[0] == '\n') q = "'"; s += "\\"; s += q[0]; if ((unsigned char)q[0] >= 0x80) s += q.substr(1); break; }
			case 3: s += Utility::EscapeShellArg(String(RandText(r, 4, true))).GetData(); break;
			case 4: s += B("--o=") + Utility::EscapeShellArg(String(HOSTILE[r.below(NEL(HOSTILE))])).GetData(); break;
			default: s += r.below(8) == 0 ? B("\"a b\"") : B(PLAINW[r.below(NEL(PLAINW))]) + "''"; break;
		}
	}
	return s;
}

static void Gen(uint64_t seed, bool thorough)
{
	Rng r(seed);
	long n = 0;
	/* exit status mapping: exhaustive over a window around 0..255 */
	Must("C " + std::to_string(++n));
	for (int e = -3; e <= 300; e++) Must("E " + std::to_string(e));
	/* recursion limit: chains of custom variables of every depth around the limit, from every entry level */
	for (int depth = 10; depth <= 18; depth++) {
		Must("C " + std::to_string(++n));
		for (int i = 0; i < depth; i++)
			Must("V h " + Hex("c" + std::to_string(i)) + " S:" + Hex("x$c" + std::to_string(i + 1) + "$"));
		Must("V h " + Hex("c" + std::to_string(depth)) + " S:" + Hex("end"));
		Must("V h " + Hex("self") + " S:" + Hex("$self$"));
		Must("V h " + Hex("ping") + " S:" + Hex("$pong$"));
		Must("V h " + Hex("pong") + " A:" + Hex("$ping$"));
		/* cycles in which every hop is an ARRAY: the limit must end them with the recursion error as well */
		Must("V h " + Hex("loop") + " A:" + Hex("first") + "," + Hex("$loop$"));
		Must("V h " + Hex("pa") + " A:" + Hex("$pb$"));
		Must("V c " + Hex("pb") + " A:" + Hex("x") + "," + Hex("$pa$"));
		for (int level = 0; level <= 3; level++)
			Must("M 0 " + std::to_string(level) + " 0 " + Hex("$c0$"));
		Must("M 0 0 0 " + Hex("a $self$ b"));
		Must("M 0 0 0 " + Hex("$ping$"));
		Must("M 0 0 0 " + Hex("$loop$"));
		Must("M 0 " + std::to_string(depth % 4) + " 1 " + Hex("$pa$"));
		Must("H 0 0 0 " + Hex("$host.vars.loop$"));
		Must("G 0 a:" + HexList({ "@P" }) + " 1 " + Hex("-a") + ";1;~;S:" + Hex("$loop$") + ";0;0;1;0;~;E");
		Must("G 0 s:" + Hex("@P $pb$") + " -");
		Must("M 0 14 0 " + Hex("plain"));
		Must("M 0 15 0 " + Hex("plain"));
		Must("G 0 a:" + HexList({ "@P", "$c0$" }) + " 1 " + Hex("-a") + ";1;~;S:" + Hex("$c1$") + ";0;0;1;0;~;E");
		Must("G 0 s:" + Hex("@P $c2$") + " -");
	}
	/* random resolutions */
	int cases = thorough ? 40000 : 9000;
	for (int c = 0; c < cases; c++) {
		GenSetup(r, ++n);
		int ops = 4 + (int)r.below(8);
		for (int i = 0; i < ops; i++) {
			if (r.below(3) == 0)
				Must("M " + std::to_string(r.below(2)) + " " + std::to_string(r.below(8) ? 0 : r.below(16)) + " " + std::to_string(r.below(3) == 0) + " "
					+ Hex(r.below(12) == 0 ? RandText(r, 3, true) : MacroString(r, 4)));
			else
				Must("G " + std::to_string(r.below(2)) + " " + RandCmdArgs(r, false));
		}
		/* the same through the resolvedMacros cache (fill, then use) */
		int cops = 1 + (int)r.below(3);
		for (int i = 0; i < cops; i++) {
			if (r.below(3) == 0)
				Must("H " + std::to_string(r.below(2)) + " " + std::to_string(r.below(8) ? 0 : r.below(16)) + " " + std::to_string(r.below(2)) + " "
					+ Hex(MacroString(r, 4)));
			else
				Must("K " + std::to_string(r.below(2)) + " " + RandCmdArgs(r, false));
		}
	}
	/* output parsing through the finished-handler */
	Must("C " + std::to_string(++n));
	int outs = thorough ? 150000 : 30000;
	for (int i = 0; i < outs; i++) {
		if (i % 25 == 24) Must("C " + std::to_string(++n));   /* small cases keep shrinking cheap */
		Must("P " + std::to_string(RandExit(r)) + " " + Hex(RandOutput(r)));
	}
	/* /bin/sh against the word-splitting model */
	Must("C " + std::to_string(++n));
	int shs = thorough ? 4000 : 500;
	for (int i = 0; i < shs; i++) {
		if (i % 25 == 24) Must("C " + std::to_string(++n));
		Must("W " + Hex(RandShText(r)));
	}
	/* end to end */
	int spawns = thorough ? 2500 : 400;
	for (int c = 0; c < spawns; c++) {
		GenSetup(r, ++n, true);
		for (int i = 0; i < 2; i++)
			Must("X " + std::to_string(r.below(2)) + " " + RandCmdArgs(r, true) + " " + std::to_string(RandExit(r)) + " " + Hex(RandOutput(r)) + " 0 0");
		if (c % 2 == 0)
			Must("Y " + std::to_string(r.below(2)) + " " + RandCmdArgs(r, true) + " " + std::to_string(RandExit(r)) + " " + Hex(RandOutput(r)));
	}
	/* cached path with hostile values in a string command line and in an array command line */
	for (size_t h = 0; h < NEL(HOSTILE); h++) {
		if (!thorough && h % 3 != ((seed + 1) % 3)) continue;
		Must("C " + std::to_string(++n));
		Must("T h address " + Hex(HOSTILE[h]));
		Must("V h " + Hex("v0") + " S:" + Hex(Dbl(HOSTILE[h])));
		Must("Y 0 s:" + Hex("@P -m $address$ --o=$v0$ $$") + " - 0 " + Hex("OK"));
		Must("Y 0 a:" + HexList({ "@P", "$address$", "x$v0$" }) + " 1 " + Hex("-s") + ";1;~;S:" + Hex("$v0$") + ";0;0;1;0;-;E 1 " + Hex("W|a=1"));
	}
	/* Q-C09: a macro the administrator wrapped in double quotes inside a string command line */
	for (size_t h = 0; h < NEL(HOSTILE); h++) {
		if (!thorough && h % 3 != (seed % 3)) continue;
		Must("C " + std::to_string(++n));
		Must("T h address " + Hex(HOSTILE[h]));
		Must("V h " + Hex("v0") + " S:" + Hex(Dbl(HOSTILE[h])));
		Must("X 0 s:" + Hex("@P -m \"$address$\"") + " - 0 " + Hex("OK") + " 0 0");
		Must("X 0 s:" + Hex("@P -m $address$ \"pre $v0$\"") + " - 0 " + Hex("OK") + " 0 0");
	}
	/* timeout kill: default action, plugins that trap SIGTERM and exit 0/1/2/3 by themselves, a plugin that ignores SIGTERM */
	{
		Must("C " + std::to_string(++n));
		Must("X 0 a:" + HexList({ "@P", "x" }) + " - 0 " + Hex("partial") + " 1 300");
		/* a string command line: when /bin/sh forks instead of exec'ing, the plugin is a GRANDCHILD that only the kill of the
		 * process group reaches */
		Must("X 1 s:" + Hex("@P y") + " - 0 " + Hex("partial") + " 1 300");
		/* "its timeout": the check_timeout of the host/service when set, else the command's.  60/1: must be killed after 1 s;
		 * 1/60: sleeps 1.5 s and must NOT be killed (its exit code counts) */
		Must("C " + std::to_string(++n));
		Must("X " + std::to_string(seed % 2) + " a:" + HexList({ "@P", "own" }) + " - 0 " + Hex("partial") + " 60/1 300");
		Must("X " + std::to_string((seed + 1) % 2) + " a:" + HexList({ "@P", "own" }) + " - " + std::to_string((int)(seed % 3)) + " " + Hex("late | t=1") + " 1/60 15");
		/* a script plugin blocked in an external command: the child it forked must be gone as well */
		Must("C " + std::to_string(++n));
		Must("X 0 a:" + HexList({ "@P", "forks" }) + " - 0 " + Hex("waiting") + " 1 300 fk");
		if (thorough || seed % 2)
			Must("X 1 s:" + Hex("@P forks; true") + " - 1 " + Hex("waiting") + " 1 300 fk");
		static const char *TERM[] = { "t0", "t1", "t2", "t3", "ti" };
		for (size_t k = 0; k < NEL(TERM); k++) {
			if (!thorough && k == 3) continue;
			Must("C " + std::to_string(++n));
			Must("X " + std::to_string(k % 2) + " a:" + HexList({ "@P", "trap" }) + " - " + std::to_string((int)(k % 3)) + " " + Hex("slow | a=1") + " 1 300 " + TERM[k]);
			if (thorough)
				Must("X 0 s:" + Hex("@P trap") + " - 2 " + Hex("slow") + " 1 300 " + TERM[k]);
		}
	}
	/* a plugin that dies by a signal has no exit code: UNKNOWN whatever the signal's number (1 = SIGHUP, 2 = SIGINT, 3 = SIGQUIT, …) */
	{
		static const int SIGS[] = { 1, 2, 3, 6, 9, 10, 11, 13, 15 };
		for (size_t k = 0; k < NEL(SIGS); k++) {
			if (!thorough && k >= 3 && k % 3 != seed % 3) continue;
			Must("C " + std::to_string(++n));
			Must("X " + std::to_string(k % 2) + " a:" + HexList({ "@P", "dies" }) + " - " + std::to_string((int)(k % 4)) + " " + Hex("last words | a=1")
				+ " 0 0 r" + std::to_string(SIGS[k]));
			if (thorough || k < 2)
				Must("X 0 s:" + Hex("@P dies") + " - 0 " + Hex("OK") + " 0 0 r" + std::to_string(SIGS[k]));
		}
	}
}

int main(int argc, char **argv)
{
	if (argc < 2) { fprintf(stderr, "usage: h_c09 gen|ops ... --plugin PATH\n"); return 2; }
	static char outbuf[1 << 20];
	setvbuf(stdout, outbuf, _IOFBF, sizeof outbuf);
	l_Plugin = argOr(argc, argv, "--plugin", getenv("C09_PLUGIN") ? getenv("C09_PLUGIN") : "");
	if (l_Plugin.empty() || access(l_Plugin.c_str(), X_OK) != 0) { fprintf(stderr, "c09: --plugin PATH (executable) required\n"); return 2; }
	char tmpl[] = "/tmp/c09.XXXXXX";
	const char *t = getenv("C09_TMP");
	if (t) l_Tmp = t; else { if (!mkdtemp(tmpl)) { perror("mkdtemp"); return 2; } l_Tmp = tmpl; }
	std::string mode = argv[1];
	if (mode == "gen") {
		uint64_t seed = strtoull(argOr(argc, argv, "--seed", "1"), nullptr, 10);
		Gen(seed, std::string(argOr(argc, argv, "--tier", "quick")) == "thorough");
	} else if (mode == "ops") {
		if (argc < 3) return 2;
		std::ifstream f(argv[2]);
		if (!f) { perror("open"); return 2; }
		l_BatchMax = 100000000;
		B line;
		while (std::getline(f, line)) {
			/* a Z line replays the operation it names */
			if (line.size() > 2 && line[0] == 'Z' && line[1] == ' ') {
				size_t sp = line.find(' ', 2);
				if (sp == B::npos) continue;
				line = line.substr(sp + 1);
			}
			size_t bar = line.find(" | ");
			if (bar != B::npos) line = line.substr(0, bar);
			while (!line.empty() && (line.back() == ' ' || line.back() == '\r')) line.pop_back();
			if (line.empty() || line[0] == '#') continue;
			Must(line);
		}
	} else {
		return 2;
	}
	FlushBatch();
	fflush(stdout);
	if (!t) { std::string rm = "rm -rf '" + l_Tmp + "'"; if (system(rm.c_str())) { } }
	_exit(0);
}

/* C07 harness: dependency reachability (Checkable::IsReachable through DependencyGroup::GetState and
 * Dependency::IsAvailable) and dependency cycle rejection (Dependency::BeforeOnAllConfigLoadedHandler) on real
 * Host/Service/Dependency/TimePeriod objects.
 *
 * Line protocol (text after " | " is the implementation's observation):
 *   C <obj|cfg> <tag>
 *   N <id> <h|s> <host>
 *   D <id> <child> <parent> <group|-> <filter> <ignoreSoft> <period -1|0..3> <disChecks> <disNotif>
 *                                              <filter>, <ignoreSoft>, <disChecks>, <disNotif> may be "u" (cfg mode, D and A): the attribute is
 *                                              left out of the configuration, the defaults of OnConfigLoaded / dependency.ti apply
 *                                              <group> may be @<nodeId>: the redundancy group named exactly like that node
 *                                              (GetName(): host name or host!service); G prints such a group as @<nodeId> again
 *   X <depid>
 *   S <node> <checked> <stateRaw> <stateType>
 *   T <period> <inside>
 *   L | <ok|cycle|other>                      (cfg mode: compile+commit+activate what was buffered)
 *   Q <closedbits> | <a b c>:<deps>:<groups> ... reg=<k>
 *   A <id> <child> <parent> <group|-> <filter> <ignoreSoft> <period> <disChecks> <disNotif> | <ok|cycle|other> <c0> <c1> ... reg=<k>
 *                                              cfg mode, after the first successful L: ONE dependency created at runtime through
 *                                              ConfigObjectUtility::CreateObjectConfig + CreateObject (the path of PUT /v1/objects);
 *                                              ci = GetDependencies().size() of node i afterwards; the case continues after a refusal
 *   R <depid> | <ok|other>                     runtime deletion of an A-created dependency through ConfigObjectUtility::DeleteObject
 *   G | <g0>;<g1>;...;reg=<k>                  composition of GetDependencyGroups() per node: 0 or groups joined by '+', one group =
 *                                              <name|->/<parent.period.filter.ignoreSoft,...>/<own dep ids>/<GetDependenciesCount()>
 *                                              (keys = MakeCompositeKeyFor over this node's own dependencies in the group)
 *   V | <v0>;<v1>;...                         the graph's edges as the checkables report them, per node
 *                                              <GetParents() node ids>/<GetChildren() node ids>/<GetReverseDependencies() dep ids>, each sorted,
 *                                              joined by ',', '-' when empty, '?' for an object that is not of this case
 *   E <reason>                                 malformed op (bad reference, duplicate id ...): rest of the case is skipped
 *
 * A rejected L that is not the first L of its case does not end the case (nothing of the batch is live afterwards), unless the
 * batch contained N lines ("E failed batch contained nodes").
 *
 * Modes:  gen --seed S --tier quick|thorough      obj-mode generation, executed in-process
 *         gencfg --seed S --tier quick|thorough   cfg-mode cases, ops only (nothing is executed)
 *         ops FILE                                 replay (obj and cfg cases)
 */
#include "common.hpp"
#include "icinga/dependency.hpp"
#include "icinga/timeperiod.hpp"
#include "config/configcompiler.hpp"
#include "config/configitem.hpp"
#include "config/activationcontext.hpp"
#include "config/expression.hpp"
#include "base/workqueue.hpp"
#include "base/scriptframe.hpp"
#include "base/exception.hpp"
#include "base/configuration.hpp"
#include "remote/configobjectutility.hpp"
#include "remote/configpackageutility.hpp"
#include <algorithm>
#include <array>
#include <map>
#include <mutex>
#include <set>
#include <fcntl.h>
#include <signal.h>

using namespace icinga;
using namespace vh;

/* Only public API is used (no private-member access): a rename of a private member must not break this harness. */

static const double kNow = 1000000.0;
static const double kValidEnd = 2000000.0;

/* ------------------------------------------------------------------------------------------------
 * Pool periods */

static TimePeriod::Ptr l_Pool[4];
static bool l_PoolReady = false;
static bool l_CfgPreambleLoaded = false;

static void SetInside(const TimePeriod::Ptr& tp, bool inside)
{
	tp->SetValidBegin(0.0);
	tp->SetValidEnd(kValidEnd);
	Array::Ptr segs = new Array();
	if (inside) {
		Dictionary::Ptr d = new Dictionary();
		d->Set("begin", 0.0);
		d->Set("end", kValidEnd);
		segs->Add(d);
	}
	tp->SetSegments(segs);
}

/* Loads a piece of DSL the way ConfigObjectUtility::CreateObject does (minus the files). Returns true on success,
 * otherwise err holds the concatenated diagnostic texts. */
static bool LoadConfig(const std::string& text, bool runtimeCreated, std::string& err)
{
	try {
		std::unique_ptr<Expression> expr = ConfigCompiler::CompileText("<c07>", text);
		if (!expr) {
			err = "compile returned null";
			return false;
		}

		ActivationScope ascope;

		ScriptFrame frame(true);
		expr->Evaluate(frame);
		expr.reset();

		WorkQueue upq;
		upq.SetName("c07");

		std::vector<ConfigItem::Ptr> newItems;

		if (!ConfigItem::CommitItems(ascope.GetContext(), upq, newItems, true)) {
			for (const boost::exception_ptr& ex : upq.GetExceptions())
				err += std::string(DiagnosticInformation(ex, false).GetData()) + "\n";
			if (err.empty())
				err = "commit failed without exception";
			return false;
		}

		if (!ConfigItem::ActivateItems(newItems, runtimeCreated, false, false)) {
			for (const boost::exception_ptr& ex : upq.GetExceptions())
				err += std::string(DiagnosticInformation(ex, false).GetData()) + "\n";
			if (err.empty())
				err = "activate failed without exception";
			return false;
		}
	} catch (const std::exception& ex) {
		err = DiagnosticInformation(ex, false).GetData();
		if (err.empty())
			err = "exception";
		return false;
	} catch (...) {
		err = "unknown exception";
		return false;
	}
	return true;
}

/* ------------------------------------------------------------------------------------------------
 * "_api" config package storage for ConfigObjectUtility::CreateObject/DeleteObject: a fresh data directory, set up lazily
 * by the first A line. CreateObject creates the package, a stage and activates it by itself (CreateStorage()); without an
 * ApiListener instance ConfigPackageUtility keeps the active stage in the "active-stage" file only. */

static std::string l_ApiTmpDir;

static void RemoveApiStorage()
{
	if (l_ApiTmpDir.empty())
		return;
	try {
		Utility::RemoveDirRecursive(l_ApiTmpDir);
	} catch (const std::exception&) {
	}
	l_ApiTmpDir.clear();
}

static void Die(const char *msg, const std::string& detail = "")
{
	printf("FATAL %s %s\n", msg, detail.c_str());
	fflush(stdout);
	RemoveApiStorage();
	_exit(3);
}

static void EnsureApiStorage()
{
	if (!l_ApiTmpDir.empty())
		return;
	std::string base;
	const char *env = getenv("TMPDIR");
	if (env && *env)
		base = env;
	else
		base = "/verif/_work/scratch/c07h/tmp";
	try {
		Utility::MkDirP(base, 0700);
	} catch (const std::exception&) {
		base = "/tmp";
	}
	std::string tmpl = base + "/c07api.XXXXXX";
	std::vector<char> b(tmpl.begin(), tmpl.end());
	b.push_back(0);
	if (!mkdtemp(b.data())) {
		tmpl = "/tmp/c07api.XXXXXX";
		b.assign(tmpl.begin(), tmpl.end());
		b.push_back(0);
		if (!mkdtemp(b.data()))
			Die("mkdtemp");
	}
	l_ApiTmpDir = b.data();
	Configuration::DataDir = l_ApiTmpDir;
}

/* viaConfig: the periods (and the check command "dummy") are config items, so that name references from
 * config-loaded objects validate. Otherwise they are plain registered objects. */
static void EnsurePool(bool viaConfig)
{
	if (l_PoolReady)
		return;
	SetNow(kNow);
	if (viaConfig) {
		std::string text =
			"object CheckCommand \"dummy\" { execute = function(checkable, cr, resolvedMacros, useResolvedMacros) { } }\n";
		for (int i = 0; i < 4; i++)
			text += "object TimePeriod \"vp" + std::to_string(i) + "\" { update = function(tp, begin, end) { return [] } }\n";
		std::string err;
		if (!LoadConfig(text, false, err))
			Die("preamble", err);
		l_CfgPreambleLoaded = true;
		for (int i = 0; i < 4; i++) {
			l_Pool[i] = TimePeriod::GetByName("vp" + std::to_string(i));
			if (!l_Pool[i])
				Die("pool period missing");
		}
	} else {
		for (int i = 0; i < 4; i++) {
			TimePeriod::Ptr tp = new TimePeriod();
			tp->SetName("vp" + std::to_string(i));
			tp->Register();
			l_Pool[i] = tp;
		}
	}
	for (int i = 0; i < 4; i++)
		SetInside(l_Pool[i], true);
	l_PoolReady = true;
}

/* ------------------------------------------------------------------------------------------------
 * Engine: executes ops and prints canonical lines */

struct Node {
	bool svc = false;
	int host = -1;
	Checkable::Ptr obj;
};

struct Dep {
	int child = 0, parent = 0;
	std::string group; /* "" = none */
	int filter = 0, ign = 0, period = -1, dc = 0, dn = 0;
	Dependency::Ptr obj;
	bool live = false;
	std::string cfgName;
	bool viaApi = false; /* created with A */
};

static void Neutral(const Checkable::Ptr& c)
{
	c->SetStateRaw(ServiceOK);
	c->SetStateType(StateTypeHard);
	c->SetLastCheckResult(CheckResult::Ptr());
}

static unsigned QBudget()
{
	const char *e = getenv("C07_Q_BUDGET");
	int v = e ? atoi(e) : 0;
	return v > 0 ? (unsigned)v : 10u;
}

/* attribute tokens of D / A lines: "u" = the attribute is not set in the configuration (cfg mode only), value -1 here */
static int TokVal(const char *t) { return (t[0] == 'u' && !t[1]) ? -1 : atoi(t); }
static std::string Tok(int v) { return v < 0 ? std::string("u") : std::to_string(v); }

struct Engine {
	int counter = 0;
	bool active = false, cfg = false, dead = false, loadedOnce = false;
	std::string pfx;
	std::vector<Node> nodes;
	std::map<int, Dep> deps;
	long regBase = 0;
	std::string buf;
	std::vector<int> pendN, pendD;
	long nQ = 0, nCases = 0;

	void Fail(const char *why)
	{
		printf("E %s\n", why);
		dead = true;
	}

	void EndCase()
	{
		if (!active)
			return;
		if (!cfg) {
			for (auto& kv : deps) {
				Dep& d = kv.second;
				if (d.live && d.obj) {
					nodes[d.parent].obj->RemoveReverseDependency(d.obj);
					nodes[d.child].obj->RemoveDependency(d.obj, true);
					d.live = false;
				}
			}
		} else {
			for (auto& kv : deps) {
				Dep& d = kv.second;
				if (d.live && d.obj) {
					if (d.viaApi) {
						try {
							ConfigObjectUtility::DeleteObject(d.obj, false, new Array(), new Array());
						} catch (const std::exception&) {
						}
						d.live = false;
					} else {
						CfgRemove(d);
					}
				}
			}
		}
		if (!cfg) {
			/* undo Register()/AddService(): no name stays behind and the host <-> service reference cycle is broken */
			for (Node& n : nodes) {
				if (!n.obj)
					continue;
				if (n.svc)
					static_pointer_cast<Host>(nodes[n.host].obj)->RemoveService(static_pointer_cast<Service>(n.obj));
				else
					n.obj->Unregister();
			}
		}
		deps.clear();
		nodes.clear();
		buf.clear();
		pendN.clear();
		pendD.clear();
		active = false;
	}

	void C(bool isCfg, const std::string& tag)
	{
		EndCase();
		counter++;
		nCases++;
		active = true;
		cfg = isCfg;
		dead = false;
		loadedOnce = false;
		pfx = "c" + std::to_string(counter) + "_";
		fflush(stdout);
		printf("C %s %s\n", cfg ? "cfg" : "obj", tag.c_str());
		SetNow(kNow);
		for (int i = 0; i < 4; i++)
			SetInside(l_Pool[i], true);
		regBase = (long)DependencyGroup::GetRegistrySize();
	}

	std::string HostName(int id) const { return pfx + "h" + std::to_string(id); }
	std::string ShortName(int id) const { return "s" + std::to_string(id); }
	/* what GetName() of node id returns (obj and cfg mode use the same naming scheme) */
	std::string FullName(int id) const { return nodes[id].svc ? HostName(nodes[id].host) + "!" + ShortName(id) : HostName(id); }

	/* group token -> real redundancy group name; "@<id>" is the name of node <id> */
	bool ResolveGroup(const std::string& token, std::string& real) const
	{
		if (token.empty() || token[0] != '@') {
			real = token;
			return true;
		}
		char *end = nullptr;
		long id = strtol(token.c_str() + 1, &end, 10);
		if (end == token.c_str() + 1 || *end || id < 0 || id >= (long)nodes.size())
			return false;
		real = FullName((int)id);
		return true;
	}

	/* real redundancy group name -> token for the G line */
	std::string GroupToken(const String& name) const
	{
		if (name.IsEmpty())
			return "-";
		for (size_t i = 0; i < nodes.size(); i++)
			if (name == String(FullName((int)i)))
				return "@" + std::to_string(i);
		return name.GetData();
	}

	void N(int id, bool svc, int host)
	{
		if (!active || dead)
			return;
		printf("N %d %c %d\n", id, svc ? 's' : 'h', svc ? host : -1);
		if (id != (int)nodes.size())
			return Fail("node-id");
		if (svc && (host < 0 || host >= (int)nodes.size() || nodes[host].svc))
			return Fail("node-host");
		Node n;
		n.svc = svc;
		n.host = svc ? host : -1;
		if (!cfg) {
			if (!svc) {
				Host::Ptr h = new Host();
				h->SetName(HostName(id));
				/* registered (and unregistered at case end) so that Service::OnAllConfigLoaded finds it by name */
				h->Register();
				n.obj = h;
			} else {
				Service::Ptr s = new Service();
				s->SetHostName(HostName(host));
				s->SetShortName(ShortName(id));
				s->SetName(HostName(host) + "!" + ShortName(id));
				/* the production way to bind a service to its host: m_Host = Host::GetByName(host_name); host->AddService() */
				static_pointer_cast<ConfigObject>(s)->OnAllConfigLoaded();
				if (s->GetHost() != nodes[host].obj)
					Die("service host not resolved");
				n.obj = s;
			}
			n.obj->PushDependencyGroupsToRegistry();
			Neutral(n.obj);
		} else {
			if (!svc)
				buf += "object Host \"" + HostName(id) + "\" { check_command = \"dummy\" }\n";
			else
				buf += "object Service \"" + ShortName(id) + "\" { host_name = \"" + HostName(host) + "\"; check_command = \"dummy\" }\n";
			pendN.push_back(id);
		}
		nodes.push_back(n);
	}

	static std::string StatesArray(int filter)
	{
		static const char *names[] = { "OK", "Warning", "Critical", "Unknown", "Up", "Down" };
		std::string s = "[ ";
		bool first = true;
		for (int b = 0; b < 6; b++) {
			if (filter & (1 << b)) {
				if (!first)
					s += ", ";
				s += names[b];
				first = false;
			}
		}
		s += " ]";
		return s;
	}

	void D(int id, int child, int parent, const std::string& group, int filter, int ign, int period, int dc, int dn)
	{
		if (!active || dead)
			return;
		printf("D %d %d %d %s %s %s %d %s %s\n", id, child, parent, group.empty() ? "-" : group.c_str(), Tok(filter).c_str(), Tok(ign).c_str(), period,
			Tok(dc).c_str(), Tok(dn).c_str());
		if (deps.count(id))
			return Fail("dep-id");
		if (!cfg && (filter < 0 || ign < 0 || dc < 0 || dn < 0))
			return Fail("unset-attribute-in-obj-mode"); /* defaults are applied by the config path (OnConfigLoaded, dependency.ti) */
		if (child < 0 || parent < 0 || child >= (int)nodes.size() || parent >= (int)nodes.size())
			return Fail("dep-node");
		if (period < -1 || period > 3)
			return Fail("dep-period");
		std::string realGroup;
		if (!ResolveGroup(group, realGroup))
			return Fail("dep-group");
		Dep d;
		d.child = child; d.parent = parent; d.group = group; d.filter = filter; d.ign = ign; d.period = period; d.dc = dc; d.dn = dn;
		if (!cfg) {
			if (!nodes[child].obj || !nodes[parent].obj)
				return Fail("dep-node");
			Dependency::Ptr dep = new Dependency();
			dep->SetName(nodes[child].obj->GetName() + "!" + pfx + "d" + std::to_string(id));
			dep->SetParent(nodes[parent].obj);
			dep->SetChild(nodes[child].obj);
			dep->SetRedundancyGroup(realGroup);
			dep->SetStateFilter(filter);
			dep->SetIgnoreSoftStates(ign != 0);
			dep->SetPeriodRaw(period >= 0 ? String("vp" + std::to_string(period)) : String(""));
			dep->SetDisableChecks(dc != 0);
			dep->SetDisableNotifications(dn != 0);
			nodes[parent].obj->AddReverseDependency(dep);
			nodes[child].obj->AddDependency(dep);
			d.obj = dep;
			d.live = true;
		} else {
			const Node& c = nodes[child];
			const Node& p = nodes[parent];
			std::string shortName = "d" + std::to_string(id);
			std::string t = "object Dependency \"" + shortName + "\" { ";
			std::string full;
			if (c.svc) {
				t += "child_host_name = \"" + HostName(c.host) + "\"; child_service_name = \"" + ShortName(child) + "\"; ";
				full = HostName(c.host) + "!" + ShortName(child) + "!" + shortName;
			} else {
				t += "child_host_name = \"" + HostName(child) + "\"; ";
				full = HostName(child) + "!" + shortName;
			}
			if (p.svc)
				t += "parent_host_name = \"" + HostName(p.host) + "\"; parent_service_name = \"" + ShortName(parent) + "\"; ";
			else
				t += "parent_host_name = \"" + HostName(parent) + "\"; ";
			if (!realGroup.empty())
				t += "redundancy_group = \"" + realGroup + "\"; "; /* names contain no '"' or '\\': no escaping needed, '!' is fine */
			if (filter >= 0)
				t += "states = " + StatesArray(filter) + "; ";
			if (ign >= 0)
				t += std::string("ignore_soft_states = ") + (ign ? "true" : "false") + "; ";
			if (period >= 0)
				t += "period = \"vp" + std::to_string(period) + "\"; ";
			if (dc >= 0)
				t += std::string("disable_checks = ") + (dc ? "true" : "false") + "; ";
			if (dn >= 0)
				t += std::string("disable_notifications = ") + (dn ? "true" : "false") + "; ";
			t += "}\n";
			buf += t;
			d.cfgName = full;
			pendD.push_back(id);
		}
		deps[id] = d;
	}

	void CfgRemove(Dep& d)
	{
		try {
			ConfigItem::Ptr item = ConfigItem::GetByTypeAndName(Dependency::TypeInstance, d.obj->GetName());
			d.obj->Deactivate(true);
			if (item)
				item->Unregister();
			else
				d.obj->Unregister();
		} catch (const std::exception&) {
		}
		d.live = false;
	}

	void X(int id)
	{
		if (!active || dead)
			return;
		printf("X %d\n", id);
		auto it = deps.find(id);
		if (it == deps.end() || !it->second.live || !it->second.obj)
			return Fail("x-dep");
		Dep& d = it->second;
		if (!cfg) {
			nodes[d.parent].obj->RemoveReverseDependency(d.obj);
			nodes[d.child].obj->RemoveDependency(d.obj, true);
			d.live = false;
		} else {
			CfgRemove(d);
		}
		d.obj = nullptr;
	}

	void S(int node, int checked, int raw, int type)
	{
		if (!active || dead)
			return;
		printf("S %d %d %d %d\n", node, checked, raw, type);
		if (node < 0 || node >= (int)nodes.size() || !nodes[node].obj)
			return Fail("s-node");
		if (raw < 0 || raw > 3 || type < 0 || type > 1)
			return Fail("s-state");
		const Checkable::Ptr& c = nodes[node].obj;
		if (checked)
			c->SetLastCheckResult(new CheckResult());
		else
			c->SetLastCheckResult(CheckResult::Ptr());
		c->SetStateRaw((ServiceState)raw);
		c->SetStateType((StateType)type);
	}

	void T(int period, int inside)
	{
		if (!active || dead)
			return;
		printf("T %d %d\n", period, inside);
		if (period < 0 || period > 3)
			return Fail("t-period");
		SetInside(l_Pool[period], inside != 0);
	}

	void L()
	{
		if (!active || dead)
			return;
		if (!cfg) {
			printf("L\n");
			return Fail("l-obj-mode");
		}
		std::string err;
		bool ok = LoadConfig(buf, loadedOnce, err);
		buf.clear();
		if (!ok) {
			const char *kind = err.find("Dependency cycle") != std::string::npos ? "cycle" : "other";
			printf("L | %s\n", kind);
			if (getenv("C07_DEBUG"))
				printf("# %s\n", err.c_str());
			if (!loadedOnce) {
				dead = true;
				return;
			}
			/* a later batch was refused: the case goes on, the dependencies of the batch stay dead */
			pendD.clear();
			if (!pendN.empty())
				return Fail("failed batch contained nodes");
			return;
		}
		loadedOnce = true;
		/* resolve the new objects */
		bool missing = false;
		for (int id : pendN) {
			Node& n = nodes[id];
			if (!n.svc)
				n.obj = Host::GetByName(HostName(id));
			else
				n.obj = Service::GetByNamePair(HostName(n.host), ShortName(id));
			if (!n.obj)
				missing = true;
			else
				Neutral(n.obj);
		}
		for (int id : pendD) {
			Dep& d = deps[id];
			d.obj = Dependency::GetByName(d.cfgName);
			if (!d.obj)
				missing = true;
			else
				d.live = true;
		}
		pendN.clear();
		pendD.clear();
		if (missing) {
			printf("L | other\n");
			dead = true;
			return;
		}
		printf("L | ok\n");
		fflush(stdout);
	}

	void Q()
	{
		if (!active || dead)
			return;
		nQ++;
		std::string bits;
		double now = Utility::GetTime();
		for (auto& kv : deps) {
			const Dep& d = kv.second;
			if (!d.live || !d.obj)
				continue;
			TimePeriod::Ptr tp = d.obj->GetPeriod();
			bits += (tp && !tp->IsInside(now)) ? '1' : '0';
		}
		if (bits.empty())
			bits = "-";
		std::string out = "Q " + bits + " |";
		char tmp[96];
		/* "so evaluation always terminates": the evaluation of all checkables gets a generous wall-clock budget; when it is
		 * exceeded (a cyclic graph was accepted and the recursion fans out below the 256-level guard) the case ends with
		 * "E evaluation-timeout" instead of hanging the whole run. What was printed so far is flushed first. */
		fflush(stdout);
		alarm(QBudget());
		for (const Node& n : nodes) {
			if (!n.obj) {
				out += " x";
				continue;
			}
			int a = n.obj->IsReachable(DependencyState) ? 1 : 0;
			int b = n.obj->IsReachable(DependencyCheckExecution) ? 1 : 0;
			int c = n.obj->IsReachable(DependencyNotification) ? 1 : 0;
			snprintf(tmp, sizeof tmp, " %d%d%d:%zu:%zu", a, b, c, n.obj->GetDependencies().size(), n.obj->GetDependencyGroups().size());
			out += tmp;
		}
		alarm(0);
		snprintf(tmp, sizeof tmp, " reg=%ld", (long)DependencyGroup::GetRegistrySize() - regBase);
		out += tmp;
		puts(out.c_str());
	}

	static bool HasCycleText(const Array::Ptr& arr)
	{
		ObjectLock olock(arr);
		for (const Value& v : arr) {
			if (v.IsString() && static_cast<String>(v).Find("Dependency cycle") != String::NPos)
				return true;
		}
		return false;
	}

	void A(int id, int child, int parent, const std::string& group, int filter, int ign, int period, int dc, int dn)
	{
		if (!active || dead)
			return;
		char head[256];
		snprintf(head, sizeof head, "A %d %d %d %s %s %s %d %s %s", id, child, parent, group.empty() ? "-" : group.c_str(), Tok(filter).c_str(),
			Tok(ign).c_str(), period, Tok(dc).c_str(), Tok(dn).c_str());
		auto bad = [&](const char *why) {
			puts(head);
			Fail(why);
		};
		if (!cfg || !loadedOnce)
			return bad("a-before-load");
		if (deps.count(id))
			return bad("dep-id");
		if (child < 0 || parent < 0 || child >= (int)nodes.size() || parent >= (int)nodes.size() || !nodes[child].obj || !nodes[parent].obj)
			return bad("dep-node");
		if (period < -1 || period > 3)
			return bad("dep-period");
		std::string realGroup;
		if (!ResolveGroup(group, realGroup))
			return bad("dep-group");
		if (!buf.empty() || !pendN.empty() || !pendD.empty())
			return bad("a-with-pending-batch");

		EnsureApiStorage();

		Dep d;
		d.child = child; d.parent = parent; d.group = group; d.filter = filter; d.ign = ign; d.period = period; d.dc = dc; d.dn = dn;
		d.viaApi = true;

		const Node& c = nodes[child];
		const Node& p = nodes[parent];
		std::string shortName = "d" + std::to_string(id);
		Dictionary::Ptr attrs = new Dictionary();
		std::string full; /* as DependencyNameComposer::MakeName */
		if (c.svc) {
			attrs->Set("child_host_name", String(HostName(c.host)));
			attrs->Set("child_service_name", String(ShortName(child)));
			full = HostName(c.host) + "!" + ShortName(child) + "!" + shortName;
		} else {
			attrs->Set("child_host_name", String(HostName(child)));
			full = HostName(child) + "!" + shortName;
		}
		if (p.svc) {
			attrs->Set("parent_host_name", String(HostName(p.host)));
			attrs->Set("parent_service_name", String(ShortName(parent)));
		} else {
			attrs->Set("parent_host_name", String(HostName(parent)));
		}
		if (!realGroup.empty())
			attrs->Set("redundancy_group", String(realGroup));
		if (filter >= 0) {
			static const char *names[] = { "OK", "Warning", "Critical", "Unknown", "Up", "Down" };
			Array::Ptr states = new Array();
			for (int b = 0; b < 6; b++)
				if (filter & (1 << b))
					states->Add(names[b]);
			attrs->Set("states", states);
		}
		if (ign >= 0)
			attrs->Set("ignore_soft_states", ign != 0);
		if (period >= 0)
			attrs->Set("period", String("vp" + std::to_string(period)));
		if (dc >= 0)
			attrs->Set("disable_checks", dc != 0);
		if (dn >= 0)
			attrs->Set("disable_notifications", dn != 0);
		d.cfgName = full;

		/* as CreateObjectHandler::HandleRequest (single-threaded: no ConfigObjectsSharedLock/ObjectNameLock) */
		Type::Ptr type = Dependency::TypeInstance;
		Array::Ptr errors = new Array();
		Array::Ptr diagnosticInformation = new Array();
		bool ok = false;
		try {
			String config = ConfigObjectUtility::CreateObjectConfig(type, full, false, nullptr, attrs);
			ok = ConfigObjectUtility::CreateObject(type, full, config, errors, diagnosticInformation);
		} catch (const std::exception& ex) {
			errors->Add(DiagnosticInformation(ex, false));
			diagnosticInformation->Add(DiagnosticInformation(ex));
			ok = false;
		}

		const char *kind;
		if (ok) {
			d.obj = Dependency::GetByName(full);
			if (d.obj) {
				d.live = true;
				kind = "ok";
			} else {
				kind = "other";
			}
		} else {
			kind = (HasCycleText(errors) || HasCycleText(diagnosticInformation)) ? "cycle" : "other";
		}
		deps[id] = d;

		std::string out = std::string(head) + " | " + kind;
		char tmp[64];
		for (const Node& n : nodes) {
			if (!n.obj) {
				out += " x";
				continue;
			}
			snprintf(tmp, sizeof tmp, " %zu", n.obj->GetDependencies().size());
			out += tmp;
		}
		snprintf(tmp, sizeof tmp, " reg=%ld", (long)DependencyGroup::GetRegistrySize() - regBase);
		out += tmp;
		puts(out.c_str());
		if (getenv("C07_DEBUG")) {
			if (!ok) {
				ObjectLock olock(errors);
				for (const Value& v : errors)
					printf("# %s\n", static_cast<String>(v).CStr());
			}
			/* what a refused creation leaves behind by name */
			ConfigObject::Ptr left = ConfigObject::GetObject<Dependency>(full);
			ConfigItem::Ptr item = ConfigItem::GetByTypeAndName(type, full);
			printf("# after A: object=%d item=%d\n", left ? 1 : 0, item ? 1 : 0);
		}
	}

	void R(int id)
	{
		if (!active || dead)
			return;
		auto it = deps.find(id);
		if (it == deps.end() || !it->second.live || !it->second.obj || !it->second.viaApi) {
			printf("R %d\n", id);
			return Fail("r-dep");
		}
		Dep& d = it->second;
		Array::Ptr errors = new Array();
		Array::Ptr diagnosticInformation = new Array();
		std::string path = d.obj->GetDebugInfo().Path.GetData();
		bool ok = false;
		try {
			ok = ConfigObjectUtility::DeleteObject(d.obj, false, errors, diagnosticInformation);
		} catch (const std::exception& ex) {
			errors->Add(DiagnosticInformation(ex, false));
		}
		printf("R %d | %s\n", id, ok ? "ok" : "other");
		if (getenv("C07_DEBUG")) {
			ObjectLock olock(errors);
			for (const Value& v : errors)
				printf("# %s\n", static_cast<String>(v).CStr());
			printf("# after R: file %s exists=%d\n", path.c_str(), Utility::PathExists(path) ? 1 : 0);
		}
		if (ok) {
			d.live = false;
			d.obj = nullptr;
		}
	}

	void G()
	{
		if (!active || dead)
			return;
		std::map<const Checkable *, int> nodeId;
		for (size_t i = 0; i < nodes.size(); i++)
			if (nodes[i].obj)
				nodeId[nodes[i].obj.get()] = (int)i;
		std::map<const Dependency *, int> depId;
		for (auto& kv : deps)
			if (kv.second.obj)
				depId[kv.second.obj.get()] = kv.first;
		const int unknown = 1000000; /* printed as "?": not an object of this case (debris) */
		auto num = [&](int v) { return v == unknown ? std::string("?") : std::to_string(v); };

		std::string out = "G | ";
		for (const Node& n : nodes) {
			if (!n.obj) {
				out += "x;";
				continue;
			}
			std::vector<std::string> gs;
			for (const DependencyGroup::Ptr& g : n.obj->GetDependencyGroups()) {
				std::vector<std::array<int, 4>> keys;
				/* the composite keys of THIS node's dependencies in the group (public API only) */
				for (const Dependency::Ptr& dep : g->GetDependenciesForChild(n.obj.get())) {
					Checkable *parent; TimePeriod *tp; int filter; bool ign;
					std::tie(parent, tp, filter, ign) = DependencyGroup::MakeCompositeKeyFor(dep);
					auto ni = nodeId.find(parent);
					int per = tp ? unknown : -1;
					for (int i = 0; i < 4; i++)
						if (tp && l_Pool[i].get() == tp)
							per = i;
					keys.push_back({ ni == nodeId.end() ? unknown : ni->second, per, filter, ign ? 1 : 0 });
				}
				std::sort(keys.begin(), keys.end());
				keys.erase(std::unique(keys.begin(), keys.end()), keys.end());
				std::string s = GroupToken(g->GetRedundancyGroupName());
				s += "/";
				for (size_t i = 0; i < keys.size(); i++) {
					if (i)
						s += ",";
					s += num(keys[i][0]) + "." + num(keys[i][1]) + "." + std::to_string(keys[i][2]) + "." + std::to_string(keys[i][3]);
				}
				s += "/";
				std::vector<int> own;
				for (const Dependency::Ptr& dep : g->GetDependenciesForChild(n.obj.get())) {
					auto di = depId.find(dep.get());
					own.push_back(di == depId.end() ? unknown : di->second);
				}
				std::sort(own.begin(), own.end());
				for (size_t i = 0; i < own.size(); i++) {
					if (i)
						s += ",";
					s += num(own[i]);
				}
				s += "/" + std::to_string(g->GetDependenciesCount());
				gs.push_back(s);
			}
			std::sort(gs.begin(), gs.end());
			if (gs.empty())
				out += "0";
			for (size_t i = 0; i < gs.size(); i++) {
				if (i)
					out += "+";
				out += gs[i];
			}
			out += ";";
		}
		out += "reg=" + std::to_string((long)DependencyGroup::GetRegistrySize() - regBase);
		puts(out.c_str());
	}

	void V()
	{
		if (!active || dead)
			return;
		std::map<const Checkable *, int> nodeId;
		for (size_t i = 0; i < nodes.size(); i++)
			if (nodes[i].obj)
				nodeId[nodes[i].obj.get()] = (int)i;
		std::map<const Dependency *, int> depId;
		for (auto& kv : deps)
			if (kv.second.obj)
				depId[kv.second.obj.get()] = kv.first;
		const int unknown = 1000000;
		auto join = [&](std::vector<int> v) {
			std::sort(v.begin(), v.end());
			if (v.empty())
				return std::string("-");
			std::string r;
			for (size_t i = 0; i < v.size(); i++) {
				if (i)
					r += ",";
				r += v[i] == unknown ? std::string("?") : std::to_string(v[i]);
			}
			return r;
		};
		std::string out = "V | ";
		bool first = true;
		for (const Node& n : nodes) {
			if (!first)
				out += ";";
			first = false;
			if (!n.obj) {
				out += "x";
				continue;
			}
			std::vector<int> ps, cs, rs;
			for (const Checkable::Ptr& c : n.obj->GetParents()) {
				auto it = nodeId.find(c.get());
				ps.push_back(it == nodeId.end() ? unknown : it->second);
			}
			for (const Checkable::Ptr& c : n.obj->GetChildren()) {
				auto it = nodeId.find(c.get());
				cs.push_back(it == nodeId.end() ? unknown : it->second);
			}
			for (const Dependency::Ptr& d : n.obj->GetReverseDependencies()) {
				auto it = depId.find(d.get());
				rs.push_back(it == depId.end() ? unknown : it->second);
			}
			out += join(ps) + "/" + join(cs) + "/" + join(rs);
		}
		puts(out.c_str());
	}
};

static Engine E;

/* A VERIFY()/assert in the library aborts the process: what was printed so far (the operations of the dying case) must not be
 * lost in the stdio buffer, it is the failing input. */
static void OnAbort(int sig)
{
	signal(SIGABRT, SIG_DFL);
	signal(SIGSEGV, SIG_DFL);
	signal(SIGBUS, SIG_DFL);
	fflush(stdout);
	raise(sig);
}

/* ------------------------------------------------------------------------------------------------
 * gen: obj-mode generation */

/* SIGALRM while Q evaluates IsReachable (see Engine::Q): stdout was flushed before the alarm was armed. */
static void OnQTimeout(int)
{
	static const char msg[] = "E evaluation-timeout\n";
	ssize_t w = write(1, msg, sizeof msg - 1);
	(void)w;
	/* only async-signal-safe calls from here on: the interrupted thread may hold the logger's or an object's mutex, so no
	 * library code (RemoveApiStorage() could block for ever); the scratch directory is removed by a child process */
	if (!l_ApiTmpDir.empty()) {
		pid_t pid = fork();
		if (pid == 0) {
			execl("/bin/rm", "rm", "-rf", l_ApiTmpDir.c_str(), (char *)nullptr);
			_exit(0);
		}
	}
	_exit(0);
}

static void AllStatesLoop(int node)
{
	for (int checked = 0; checked < 2; checked++)
		for (int raw = 0; raw < 4; raw++)
			for (int type = 0; type < 2; type++) {
				E.S(node, checked, raw, type);
				E.Q();
			}
}

static void GenAvail()
{
	static const int hostFilters[] = { 0, 16, 32, 48 };
	static const int svcFilters[] = { 0, 1, 2, 4, 8, 3, 12, 15 };
	for (int parentSvc = 0; parentSvc < 2; parentSvc++) {
		int nf = parentSvc ? 8 : 4;
		for (int fi = 0; fi < nf; fi++)
		for (int ign = 0; ign < 2; ign++)
		for (int per = 0; per < 3; per++)   /* none, inside, outside */
		for (int dc = 0; dc < 2; dc++)
		for (int dn = 0; dn < 2; dn++) {
			int filter = parentSvc ? svcFilters[fi] : hostFilters[fi];
			E.C(false, "avail");
			int parent, child;
			if (!parentSvc) {
				E.N(0, false, -1);
				E.N(1, false, -1);
				parent = 0; child = 1;
			} else {
				E.N(0, false, -1);
				E.N(1, true, 0);
				E.N(2, false, -1);
				parent = 1; child = 2;
			}
			if (per == 2)
				E.T(0, 0);
			E.D(0, child, parent, "", filter, ign, per == 0 ? -1 : 0, dc, dn);
			AllStatesLoop(parent);
		}
	}
	/* self dependencies */
	for (int ign = 0; ign < 2; ign++) {
		E.C(false, "avail-self");
		E.N(0, false, -1);
		E.D(0, 0, 0, "", 0, ign, -1, 1, 1);
		AllStatesLoop(0);
		E.C(false, "avail-self");
		E.N(0, false, -1);
		E.N(1, true, 0);
		E.D(0, 1, 1, "", 0, ign, -1, 1, 1);
		AllStatesLoop(1);
		E.C(false, "avail-self");
		E.N(0, false, -1);
		E.D(0, 0, 0, "g", 16, ign, -1, 1, 1);
		AllStatesLoop(0);
	}
	/* a service whose own host goes through all states */
	E.C(false, "avail-svchost");
	E.N(0, false, -1);
	E.N(1, true, 0);
	AllStatesLoop(0);
	E.C(false, "avail-svchost");
	E.N(0, false, -1);
	E.N(1, true, 0);
	E.N(2, false, -1);
	E.D(0, 1, 2, "", 16, 0, -1, 1, 1);
	AllStatesLoop(0);
	E.S(2, 1, 2, 1);
	E.Q();
	AllStatesLoop(0);
	/* the service explicitly depends on its own host as well */
	E.C(false, "avail-svchost");
	E.N(0, false, -1);
	E.N(1, true, 0);
	E.D(0, 1, 0, "", 16, 0, -1, 1, 1);
	AllStatesLoop(0);
	/* a host child below a service parent whose host goes through all states */
	E.C(false, "avail-svchost");
	E.N(0, false, -1);
	E.N(1, true, 0);
	E.N(2, false, -1);
	E.D(0, 2, 1, "", 3, 0, -1, 1, 1);
	E.S(1, 1, 0, 1);
	AllStatesLoop(0);
}

/* A redundancy-group token from the alphabet of checkable names. plainParents: parents of the other plain dependencies
 * of the same child (a plain dependency on P next to a redundancy group named like P is the interesting collision). */
static std::string CollidingToken(Rng& rng, int nn, int child, int parent, const std::vector<int>& plainParents)
{
	int k = (int)rng.below(100);
	int id;
	if (k < 40 && !plainParents.empty()) id = plainParents[rng.below(plainParents.size())];
	else if (k < 60) id = parent;
	else if (k < 75) id = child;
	else id = (int)rng.below(nn);
	return "@" + std::to_string(id);
}

static const int kAlpha[4][3] = { { 0, 0, 1 }, { 1, 0, 1 }, { 1, 2, 0 }, { 1, 2, 1 } };

struct SmallDep { int child, parent, grp, ign; }; /* grp: 0 none, 1 "g", 2+q "@q" */

static std::string SmallGroup(int grp)
{
	if (grp == 0) return "";
	if (grp == 1) return "g";
	return "@" + std::to_string(grp - 2);
}

static void SmallCase(const std::vector<SmallDep>& all, const std::vector<int>& pick, Rng& rng, int samples)
{
	E.C(false, "small");
	E.N(0, false, -1);
	E.N(1, false, -1);
	E.N(2, true, 0);
	E.N(3, false, -1);
	for (size_t i = 0; i < pick.size(); i++) {
		const SmallDep& sd = all[pick[i]];
		int filter = (sd.parent == 2) ? 3 : 16;
		E.D((int)i, sd.child, sd.parent, SmallGroup(sd.grp), filter, sd.ign, -1, 1, 1);
	}
	int cur[4] = { 0, 0, 0, 0 };
	if (samples >= 256) {
		for (int code = 0; code < 256; code++) {
			int c = code;
			for (int n = 0; n < 4; n++) {
				int v = c % 4; c /= 4;
				if (v != cur[n]) {
					cur[n] = v;
					E.S(n, kAlpha[v][0], kAlpha[v][1], kAlpha[v][2]);
				}
			}
			E.Q();
		}
	} else {
		E.Q();
		for (int k = 1; k < samples; k++) {
			int n = (int)rng.below(4);
			int v = (cur[n] + 1 + (int)rng.below(3)) % 4;
			cur[n] = v;
			E.S(n, kAlpha[v][0], kAlpha[v][1], kAlpha[v][2]);
			E.Q();
		}
	}
}

static void GenSmall(Rng& rng, bool thorough)
{
	/* group alphabet per candidate pair (c, p): none, "g", and "@q" for every other candidate parent q of the same child */
	std::vector<SmallDep> all;
	for (int c = 1; c < 4; c++)
		for (int p = 0; p < c; p++) {
			std::vector<int> grps = { 0, 1 };
			for (int q = 0; q < c; q++)
				if (q != p)
					grps.push_back(2 + q);
			for (int g : grps)
				for (int ign = 0; ign < 2; ign++)
					all.push_back({ c, p, g, ign });
		}
	int n = (int)all.size(); /* 40 */
	/* a set is "colliding" if it has a plain dependency on q and a group "@q" on the same child */
	auto colliding = [&](const std::vector<int>& pick) {
		for (int x : pick)
			for (int y : pick)
				if (all[x].grp >= 2 && all[y].grp == 0 && all[y].child == all[x].child && all[y].parent == all[x].grp - 2)
					return true;
		return false;
	};
	int s1 = 256, s2 = thorough ? 96 : 20, s3 = thorough ? 24 : 10, s4 = 16;
	/* colliding sets are always taken, the others with probability 1/keep */
	int keep3 = thorough ? 1 : 4, keep4 = 10;
	std::vector<int> pick;
	for (int a = 0; a < n; a++) {
		pick = { a };
		SmallCase(all, pick, rng, s1);
	}
	for (int a = 0; a < n; a++)
		for (int b = a + 1; b < n; b++) {
			pick = { a, b };
			SmallCase(all, pick, rng, s2);
		}
	for (int a = 0; a < n; a++)
		for (int b = a + 1; b < n; b++)
			for (int c = b + 1; c < n; c++) {
				pick = { a, b, c };
				if (colliding(pick) || rng.below(keep3) == 0)
					SmallCase(all, pick, rng, s3);
			}
	if (thorough)
		for (int a = 0; a < n; a++)
			for (int b = a + 1; b < n; b++)
				for (int c = b + 1; c < n; c++)
					for (int d = c + 1; d < n; d++) {
						pick = { a, b, c, d };
						if (rng.below(keep4) == 0 || (colliding(pick) && rng.below(3) == 0))
							SmallCase(all, pick, rng, s4);
					}
}

/* exhaustive: a plain dependency on P next to a redundancy group named like P with two members */
static void GenCollide()
{
	static const int orders[6][3] = { { 0, 1, 2 }, { 0, 2, 1 }, { 1, 0, 2 }, { 1, 2, 0 }, { 2, 0, 1 }, { 2, 1, 0 } };
	for (int svcVariant = 0; svcVariant < 2; svcVariant++)
	for (int o = 0; o < 6; o++)
	for (int x = 0; x < 3; x++) {
		E.C(false, "collide");
		int P, A, B, child, pDown, pFilter;
		if (!svcVariant) {
			E.N(0, false, -1); E.N(1, false, -1); E.N(2, false, -1); E.N(3, false, -1);
			P = 0; A = 1; B = 2; child = 3; pFilter = 16;
		} else {
			/* P is the service n1 of host n0, the child is the service n5 of host n4 */
			E.N(0, false, -1); E.N(1, true, 0); E.N(2, false, -1); E.N(3, false, -1); E.N(4, false, -1); E.N(5, true, 4);
			P = 1; A = 2; B = 3; child = 5; pFilter = 3;
		}
		pDown = 2;
		std::string grp = "@" + std::to_string(P);
		for (int k = 0; k < 3; k++) {
			int d = orders[o][k];
			if (d == 0) E.D(0, child, P, "", pFilter, 0, -1, 1, 1);
			else if (d == 1) E.D(1, child, A, grp, 16, 0, -1, 1, 1);
			else E.D(2, child, B, grp, 16, 0, -1, 1, 1);
		}
		int nodesOf[3] = { P, A, B };
		for (int round = 0; round < 2; round++) {
			if (round == 1)
				E.X(x);
			for (int code = 0; code < 8; code++) {
				for (int k = 0; k < 3; k++) {
					int down = (code >> k) & 1;
					int prev = code ? ((code - 1) >> k) & 1 : -1;
					if (round == 0 && code == 0) prev = -1;
					if (round == 1 && code == 0) prev = 1; /* the first round ended with everything down */
					if (down != prev)
						E.S(nodesOf[k], 1, down ? pDown : 0, 1);
				}
				E.Q();
			}
		}
	}
}

static void GenRandCase(Rng& rng)
{
	E.C(false, "rand");
	int nn = rng.range(3, 10);
	std::vector<int> isSvc(nn, 0), hostOf(nn, -1);
	std::vector<int> hosts;
	for (int i = 0; i < nn; i++) {
		if (i > 0 && rng.below(100) < 40) {
			isSvc[i] = 1;
			hostOf[i] = hosts[rng.below(hosts.size())];
		} else {
			hosts.push_back(i);
		}
		E.N(i, isSvc[i] != 0, hostOf[i]);
	}
	/* rank: a random permutation; dependencies always point from higher to lower rank; a service ranks above its host */
	std::vector<int> rank(nn);
	for (int i = 0; i < nn; i++) rank[i] = i;
	for (int i = nn - 1; i > 0; i--) std::swap(rank[i], rank[rng.below(i + 1)]);
	for (int i = 0; i < nn; i++)
		if (isSvc[i] && rank[i] < rank[hostOf[i]])
			std::swap(rank[i], rank[hostOf[i]]);

	static const char *groups[] = { "", "g1", "g2" };
	std::vector<std::vector<int>> plainOf(nn); /* parents of the plain dependencies per child */
	std::vector<int> idPool;
	for (int i = 0; i < 40; i++) idPool.push_back(i);
	for (int i = 39; i > 0; i--) std::swap(idPool[i], idPool[rng.below(i + 1)]);
	size_t nextId = 0;
	std::vector<int> live;
	struct Pair { int c, p; };
	std::vector<Pair> used;

	auto addDep = [&]() {
		if (nextId >= idPool.size())
			return;
		int c, p;
		if (!used.empty() && rng.below(100) < 25) {
			Pair pr = used[rng.below(used.size())]; /* duplicate child/parent */
			c = pr.c; p = pr.p;
		} else {
			int a = (int)rng.below(nn), b = (int)rng.below(nn - 1);
			if (b >= a) b++;
			if (rank[a] > rank[b]) { c = a; p = b; } else { c = b; p = a; }
		}
		used.push_back({ c, p });
		int filter;
		int k = (int)rng.below(10);
		if (k < 4) filter = isSvc[p] ? 3 : 16;
		else if (k < 6) filter = isSvc[p] ? (int)rng.below(16) : 16 * (int)rng.below(4);
		else filter = (int)rng.below(64);
		int period = rng.below(100) < 35 ? (int)rng.below(4) : -1;
		int dc = rng.below(100) < 70 ? 1 : 0;
		int dn = rng.below(100) < 70 ? 1 : 0;
		int id = idPool[nextId++];
		std::string grp = groups[rng.below(3)];
		if (!grp.empty() && rng.below(3) == 0)
			grp = CollidingToken(rng, nn, c, p, plainOf[c]);
		if (grp.empty())
			plainOf[c].push_back(p);
		E.D(id, c, p, grp, filter, (int)rng.below(2), period, dc, dn);
		live.push_back(id);
	};

	int nd = rng.range(1, 12);
	for (int i = 0; i < nd; i++)
		addDep();

	auto randState = [&]() {
		int n = (int)rng.below(nn);
		int k = (int)rng.below(10);
		if (k < 2) E.S(n, 0, (int)rng.below(4), (int)rng.below(2));
		else if (k < 5) E.S(n, 1, 2 + (int)rng.below(2), 1); /* hard problem */
		else E.S(n, 1, (int)rng.below(4), (int)rng.below(2));
	};

	/* start from a random state assignment so that unavailability is common */
	int pre = (int)rng.below(nn + 1);
	for (int i = 0; i < pre; i++)
		randState();
	E.V();
	E.Q();
	int nops = rng.range(10, 30);
	bool dirty = false, edgesDirty = false;
	for (int i = 0; i < nops; i++) {
		if (dirty && rng.below(100) < 45) {
			if (edgesDirty)
				E.V();
			E.Q();
			dirty = edgesDirty = false;
			continue;
		}
		int k = (int)rng.below(100);
		dirty = true;
		if (k < 50) {
			randState();
		} else if (k < 67) {
			E.T((int)rng.below(4), (int)rng.below(2));
		} else if (k < 84) {
			if (!live.empty()) {
				size_t j = rng.below(live.size());
				E.X(live[j]);
				live.erase(live.begin() + j);
				edgesDirty = true;
			}
		} else {
			addDep();
			edgesDirty = true;
		}
	}
	if (edgesDirty)
		E.V();
	if (dirty)
		E.Q();
}

/* Two children whose dependencies have the IDENTICAL set of composite keys (same parent, period, filter, ignore_soft_states per
 * member) but are grouped differently: outside a redundancy group ("all must hold") for one child, inside a redundancy group
 * ("one suffices") for the other, or in two differently named redundancy groups. The members of a child differ in what makes
 * them available (ignore_soft_states, the disable flags, the state filter), so the two readings give different answers.
 * Exhaustive over parent kind x variation x naming x order of addition x all 16 parent states, then one removal. */
struct SharedSpec { int parentSvc, var, nameA, nameB, order; };

static const char *SharedName(int k) { return k == 0 ? "" : (k == 1 ? "g" : "h"); }

/* member m (0/1) of a child under variation var: filter, ign, dc, dn */
static void SharedMember(int parentSvc, int var, int m, int& filter, int& ign, int& dc, int& dn)
{
	filter = parentSvc ? 3 : 16; ign = 0; dc = 1; dn = 1;
	if (var == 0) ign = m;
	else if (var == 1) dn = m ? 0 : 1;
	else if (var == 2) dc = m ? 0 : 1;
	else filter = m ? (parentSvc ? 15 : 48) : filter;
}

static void SharedOps(const SharedSpec& sp, std::vector<std::string>& lines, int& P, int& A, int& B)
{
	char b[160];
	if (!sp.parentSvc) {
		lines = { "N 0 h -1", "N 1 h -1", "N 2 h -1" };
		P = 0; A = 1; B = 2;
	} else {
		lines = { "N 0 h -1", "N 1 s 0", "N 2 h -1", "N 3 h -1" };
		P = 1; A = 2; B = 3;
	}
	static const int orders[3][4] = { { 0, 1, 2, 3 }, { 2, 3, 0, 1 }, { 0, 2, 1, 3 } };
	for (int k = 0; k < 4; k++) {
		int id = orders[sp.order][k];
		int child = id < 2 ? A : B, m = id % 2;
		int filter, ign, dc, dn;
		SharedMember(sp.parentSvc, sp.var, m, filter, ign, dc, dn);
		const char *nm = SharedName(id < 2 ? sp.nameA : sp.nameB);
		snprintf(b, sizeof b, "D %d %d %d %s %d %d -1 %d %d", id, child, P, *nm ? nm : "-", filter, ign, dc, dn);
		lines.push_back(b);
	}
}

static void GenShared()
{
	for (int parentSvc = 0; parentSvc < 2; parentSvc++)
	for (int var = 0; var < 4; var++)
	for (int nameA = 0; nameA < 2; nameA++)
	for (int nameB = 0; nameB < 3; nameB++)
	for (int order = 0; order < 3; order++) {
		SharedSpec sp = { parentSvc, var, nameA, nameB, order };
		std::vector<std::string> lines;
		int P, A, B;
		SharedOps(sp, lines, P, A, B);
		E.C(false, "shared");
		for (const std::string& l : lines) {
			int id, c, pa, filter, ign, period, dc, dn, host; char grp[64], k;
			if (sscanf(l.c_str(), "N %d %c %d", &id, &k, &host) == 3)
				E.N(id, k == 's', host);
			else if (sscanf(l.c_str(), "D %d %d %d %63s %d %d %d %d %d", &id, &c, &pa, grp, &filter, &ign, &period, &dc, &dn) == 9)
				E.D(id, c, pa, strcmp(grp, "-") ? grp : "", filter, ign, period, dc, dn);
		}
		E.G();
		E.V();
		AllStatesLoop(P);
		int removed = (var + nameA + nameB + order) % 4;
		E.X(removed);
		E.G();
		E.V();
		E.S(P, 1, 2, 0); E.Q();
		E.S(P, 1, 2, 1); E.Q();
		E.S(P, 1, 1, 1); E.Q();
		/* and back again as a new object */
		{
			int child = removed < 2 ? A : B, filter, ign, dc, dn;
			SharedMember(parentSvc, var, removed % 2, filter, ign, dc, dn);
			E.D(4, child, P, SharedName(removed < 2 ? nameA : nameB), filter, ign, -1, dc, dn);
		}
		E.G();
		E.V();
		E.S(P, 1, 2, 0); E.Q();
		E.S(P, 1, 2, 1); E.Q();
	}
}

static void GenCycle()
{
	/* every node on the cycle has exactly one dependency: the recursion is linear and ends at the limit */
	for (int variant = 0; variant < 2; variant++) {
		int checked = variant;
		E.C(false, "cycle");
		E.N(0, false, -1);
		E.N(1, false, -1);
		E.D(0, 0, 1, "", 16, 0, -1, 1, 1);
		E.D(1, 1, 0, "", 16, 0, -1, 1, 1);
		if (checked) { E.S(0, 1, 0, 1); E.S(1, 1, 0, 1); }
		E.Q();
		E.X(1);
		E.Q();

		E.C(false, "cycle");
		E.N(0, false, -1);
		E.N(1, false, -1);
		E.N(2, false, -1);
		E.D(0, 0, 1, "", 16, 0, -1, 1, 1);
		E.D(1, 1, 2, "g", 16, 0, -1, 1, 1);
		E.D(2, 2, 0, "", 16, 0, -1, 1, 1);
		if (checked) { E.S(0, 1, 0, 1); E.S(1, 1, 0, 1); E.S(2, 1, 0, 1); }
		E.Q();
		E.X(2);
		E.Q();

		/* tail n0 -> n1 -> (n2 <-> n3), n4 standalone */
		E.C(false, "cycle");
		for (int i = 0; i < 5; i++) E.N(i, false, -1);
		E.D(0, 0, 1, "", 16, 0, -1, 1, 1);
		E.D(1, 1, 2, "", 16, 0, -1, 1, 1);
		E.D(2, 2, 3, "", 16, 0, -1, 1, 1);
		E.D(3, 3, 2, "", 16, 0, -1, 1, 1);
		if (checked) for (int i = 0; i < 5; i++) E.S(i, 1, 0, 1);
		E.Q();
		E.X(3);
		E.Q();
	}
	/* cycle through a service: s1 (of h0) -> h2 -> s1 */
	E.C(false, "cycle");
	E.N(0, false, -1);
	E.N(1, true, 0);
	E.N(2, false, -1);
	E.D(0, 1, 2, "", 16, 0, -1, 1, 1);
	E.D(1, 2, 1, "", 3, 0, -1, 1, 1);
	E.Q();
	E.X(0);
	E.Q();
}

static void GenChain()
{
	static const int lens[] = { 255, 256, 257, 258, 259, 300 };
	for (int len : lens) {
		E.C(false, "chain");
		for (int i = 0; i < len; i++)
			E.N(i, false, -1);
		for (int i = 0; i + 1 < len; i++)
			E.D(i, i, i + 1, "", 16, 0, -1, 1, 1);
		E.Q();
	}
}

/* ------------------------------------------------------------------------------------------------
 * gencfg: cfg-mode cases, printed only */

struct CfgGen {
	Rng& rng;
	std::vector<int> isSvc, hostOf, rank;
	int nextDep = 0;

	explicit CfgGen(Rng& r) : rng(r) { }

	int ValidFilter(int parent)
	{
		int k = (int)rng.below(10);
		if (isSvc[parent])
			return k < 5 ? 3 : (int)rng.below(16);
		return k < 5 ? 16 : 16 * (int)rng.below(4);
	}

	void PrintN(int id) { printf("N %d %c %d\n", id, isSvc[id] ? 's' : 'h', isSvc[id] ? hostOf[id] : -1); }

	std::vector<std::vector<int>> plainOf; /* parents of the plain dependencies per child (cleared per case) */

	void PrintD(int c, int p)
	{
		static const char *groups[] = { "-", "-", "g1", "g2" };
		int period = rng.below(100) < 30 ? (int)rng.below(4) : -1;
		std::string grp = groups[rng.below(4)];
		if ((int)plainOf.size() < (int)isSvc.size())
			plainOf.resize(isSvc.size());
		if (grp != "-" && rng.below(3) == 0)
			grp = CollidingToken(rng, (int)isSvc.size(), c, p, plainOf[c]);
		if (grp == "-")
			plainOf[c].push_back(p);
		printf("D %d %d %d %s %d %d %d %d %d\n", nextDep++, c, p, grp.c_str(), ValidFilter(p), (int)rng.below(2), period,
			rng.below(100) < 70 ? 1 : 0, rng.below(100) < 70 ? 1 : 0);
	}

	int AddNode()
	{
		int id = (int)isSvc.size();
		std::vector<int> hosts;
		for (int i = 0; i < id; i++) if (!isSvc[i]) hosts.push_back(i);
		if (id > 0 && rng.below(100) < 45) {
			isSvc.push_back(1);
			hostOf.push_back(hosts[rng.below(hosts.size())]);
		} else {
			isSvc.push_back(0);
			hostOf.push_back(-1);
		}
		return id;
	}

	void RandS(int nn)
	{
		int n = (int)rng.below(nn);
		if (rng.below(100) < 50) printf("S %d 1 %d 1\n", n, 2 + (int)rng.below(2));
		else printf("S %d %d %d %d\n", n, (int)rng.below(2), (int)rng.below(4), (int)rng.below(2));
	}

	void Case(int idx)
	{
		isSvc.clear(); hostOf.clear(); nextDep = 0; plainOf.clear();
		bool cyclic = rng.below(2) == 0;
		int kind = (int)rng.below(5);
		bool twoBatches = rng.below(2) == 0;
		bool closeInSecond = cyclic && twoBatches && rng.below(2) == 0;
		int nn = rng.range(2, 6);
		for (int i = 0; i < nn; i++) AddNode();
		/* make the wanted cycle kind possible */
		if (cyclic && (kind == 2 || kind == 4)) {
			bool hasSvc = false;
			for (int i = 0; i < nn; i++) hasSvc |= isSvc[i] != 0;
			if (!hasSvc) { isSvc[nn - 1] = 1; hostOf[nn - 1] = 0; }
		}
		if (cyclic && kind == 4 && nn < 3) { AddNode(); nn++; }
		if (cyclic && kind == 1 && nn < 3) { AddNode(); nn++; }
		printf("C cfg %s%d\n", cyclic ? (closeInSecond ? "cyc2-" : "cyc-") : "acyc-", idx);
		for (int i = 0; i < nn; i++) PrintN(i);

		rank.assign(nn, 0);
		for (int i = 0; i < nn; i++) rank[i] = i;
		for (int i = nn - 1; i > 0; i--) std::swap(rank[i], rank[rng.below(i + 1)]);
		for (int i = 0; i < nn; i++)
			if (isSvc[i] && rank[i] < rank[hostOf[i]])
				std::swap(rank[i], rank[hostOf[i]]);

		struct Pair { int c, p; };
		std::vector<Pair> acyc;
		auto randAcyc = [&]() {
			int a = (int)rng.below(nn), b = (int)rng.below(nn - 1);
			if (b >= a) b++;
			Pair pr;
			if (rank[a] > rank[b]) pr = { a, b }; else pr = { b, a };
			if (!acyc.empty() && rng.below(100) < 15) pr = acyc[rng.below(acyc.size())];
			acyc.push_back(pr);
			return pr;
		};

		/* cycle edges, the last one closes the cycle */
		std::vector<Pair> cyc;
		if (cyclic) {
			int svc = -1;
			std::vector<int> svcs;
			for (int i = 0; i < nn; i++) if (isSvc[i]) svcs.push_back(i);
			if (!svcs.empty()) svc = svcs[rng.below(svcs.size())];
			switch (kind) {
			case 0: { /* 2-cycle */
				int a = (int)rng.below(nn), b = (int)rng.below(nn - 1);
				if (b >= a) b++;
				cyc.push_back({ a, b });
				cyc.push_back({ b, a });
				break;
			}
			case 1: { /* longer cycle over a random subset in random order */
				std::vector<int> perm(nn);
				for (int i = 0; i < nn; i++) perm[i] = i;
				for (int i = nn - 1; i > 0; i--) std::swap(perm[i], perm[rng.below(i + 1)]);
				int len = rng.range(3, nn);
				for (int i = 0; i < len; i++)
					cyc.push_back({ perm[i], perm[(i + 1) % len] });
				break;
			}
			case 2: /* host depends on its own service */
				cyc.push_back({ hostOf[svc], svc });
				break;
			case 3: { /* self dependency */
				int a = (int)rng.below(nn);
				cyc.push_back({ a, a });
				break;
			}
			default: { /* only through the implicit service -> host edge: h -> x -> s ~> h */
				int h = hostOf[svc];
				std::vector<int> others;
				for (int i = 0; i < nn; i++) if (i != h && i != svc) others.push_back(i);
				int x = others[rng.below(others.size())];
				cyc.push_back({ h, x });
				cyc.push_back({ x, svc });
				break;
			}
			}
		}

		int total = rng.range(1, 6);
		int nAcyc = std::max(0, total - (int)cyc.size());
		if (!cyclic && nAcyc == 0) nAcyc = 1;
		int firstAcyc = twoBatches ? (int)rng.below(nAcyc + 1) : nAcyc;
		if (!cyclic && firstAcyc == 0) firstAcyc = 1;
		if (closeInSecond && cyc.size() == 1 && firstAcyc == 0 && nAcyc > 0) firstAcyc = 1;

		/* batch 1: interleave acyclic edges with the cycle edges that belong here */
		std::vector<Pair> b1, b2;
		for (int i = 0; i < firstAcyc; i++) b1.push_back(randAcyc());
		size_t cycInFirst = cyclic ? (closeInSecond ? cyc.size() - 1 : cyc.size()) : 0;
		for (size_t i = 0; i < cycInFirst; i++) b1.insert(b1.begin() + rng.below(b1.size() + 1), cyc[i]);
		if (b1.empty()) b1.push_back(randAcyc());
		for (const Pair& pr : b1) PrintD(pr.c, pr.p);
		printf("L\n");
		int ns = (int)rng.below(4);
		for (int i = 0; i < ns; i++) RandS(nn);
		if (rng.below(100) < 30) printf("T %d %d\n", (int)rng.below(4), (int)rng.below(2));
		printf("Q -\n");

		if (twoBatches) {
			int nn2 = nn;
			if (rng.below(100) < 30) {
				int id = AddNode();
				rank.push_back(nn2); /* new node ranks highest: may only be a child */
				nn2++;
				PrintN(id);
				int p = (int)rng.below(nn);
				b2.push_back({ id, p });
			}
			for (int i = firstAcyc; i < nAcyc; i++) b2.push_back(randAcyc());
			if (closeInSecond) b2.insert(b2.begin() + rng.below(b2.size() + 1), cyc.back());
			if (b2.empty()) b2.push_back(randAcyc());
			for (const Pair& pr : b2) PrintD(pr.c, pr.p);
			printf("L\n");
			if (rng.below(2)) RandS(nn2);
			printf("Q -\n");
		}
		if (rng.below(100) < 40) {
			printf("X %d\n", (int)rng.below(nextDep));
			printf("Q -\n");
			if (rng.below(100) < 30) {
				RandS(nn);
				printf("Q -\n");
			}
		}
	}
};

static void GenCfgHand()
{
	/* (a) */
	printf("C cfg hand-a\nN 0 h -1\nN 1 h -1\nD 0 1 0 - 16 0 -1 1 1\nL\nQ -\nS 0 1 2 1\nQ -\n");
	/* (b) */
	printf("C cfg hand-b\nN 0 h -1\nN 1 h -1\nD 0 1 0 - 16 0 -1 1 1\nD 1 0 1 - 16 0 -1 1 1\nL\nQ -\n");
	/* (c) host depends on its own service */
	printf("C cfg hand-c\nN 0 h -1\nN 1 s 0\nD 0 0 1 - 3 0 -1 1 1\nL\nQ -\n");
	/* (d) self dependency */
	printf("C cfg hand-d\nN 0 h -1\nD 0 0 0 - 16 0 -1 1 1\nL\nQ -\n");
	printf("C cfg hand-d2\nN 0 h -1\nN 1 s 0\nD 0 1 1 - 3 0 -1 1 1\nL\nQ -\n");
	/* (e) second load closes a cycle through registered dependencies */
	printf("C cfg hand-e\nN 0 h -1\nN 1 h -1\nN 2 h -1\nD 0 1 0 - 16 0 -1 1 1\nD 1 2 1 - 16 0 -1 1 1\nL\nQ -\nD 2 0 2 - 16 0 -1 1 1\nL\nQ -\n");
	/* (e2) second load: 2-cycle against a registered dependency, added at runtime */
	printf("C cfg hand-e2\nN 0 h -1\nN 1 h -1\nD 0 1 0 - 16 0 -1 1 1\nL\nQ -\nD 1 0 1 g1 16 0 -1 1 1\nL\nQ -\n");
	/* (f) second load through implicit edge: h0 -> h2 registered, then h2 -> s1 (service of h0) */
	printf("C cfg hand-f\nN 0 h -1\nN 1 s 0\nN 2 h -1\nD 0 0 2 - 16 0 -1 1 1\nL\nQ -\nD 1 2 1 - 3 0 -1 1 1\nL\nQ -\n");
	/* (g) acyclic two batches with removal */
	printf("C cfg hand-g\nN 0 h -1\nN 1 h -1\nN 2 s 1\nD 0 1 0 - 16 0 -1 1 1\nL\nS 0 1 2 1\nQ -\nD 1 2 0 g1 16 0 0 1 1\nD 2 2 1 g1 16 1 -1 1 0\nL\nQ -\nT 0 0\nQ -\nX 0\nQ -\nX 2\nQ -\n");
	/* (h) removing a dependency and then adding the reverse one is fine */
	printf("C cfg hand-h\nN 0 h -1\nN 1 h -1\nD 0 1 0 - 16 0 -1 1 1\nL\nX 0\nQ -\nD 1 0 1 - 16 0 -1 1 1\nL\nQ -\n");
}

/* ------------------------------------------------------------------------------------------------
 * gencfg, part "rt": runtime creation/deletion (A/R), group composition (G), refused later batches */

struct RtGen {
	Rng& rng;
	int nn = 0;
	std::vector<int> isSvc, hostOf, rank;
	struct GDep { int id, c, p; std::string grp; int filter, ign, period; bool live, api; };
	std::vector<GDep> deps;
	int nextDep = 0;

	explicit RtGen(Rng& r) : rng(r) { }

	/* does "from" reach "to" over live dependencies (child -> parent), the extra edges and service -> host? */
	bool Reaches(int from, int to, const std::vector<std::pair<int, int>>& extra) const
	{
		std::vector<int> seen(nn, 0), stack{ from };
		seen[from] = 1;
		while (!stack.empty()) {
			int x = stack.back();
			stack.pop_back();
			if (x == to)
				return true;
			auto visit = [&](int y) { if (!seen[y]) { seen[y] = 1; stack.push_back(y); } };
			if (isSvc[x])
				visit(hostOf[x]);
			for (const GDep& d : deps)
				if (d.live && d.c == x)
					visit(d.p);
			for (const auto& e : extra)
				if (e.first == x)
					visit(e.second);
		}
		return false;
	}

	bool WouldCycle(int c, int p, const std::vector<std::pair<int, int>>& extra = {}) const { return Reaches(p, c, extra); }

	int DefFilter(int parent) { return isSvc[parent] ? (rng.below(100) < 80 ? 3 : 15) : (rng.below(100) < 80 ? 16 : 48); }

	GDep Make(int c, int p)
	{
		GDep d;
		d.id = nextDep++;
		d.c = c; d.p = p;
		d.grp = rng.below(2) ? "g1" : "";
		if (!d.grp.empty() && rng.below(3) == 0) {
			std::vector<int> plain;
			for (const GDep& o : deps)
				if (o.c == c && o.grp.empty())
					plain.push_back(o.p);
			d.grp = CollidingToken(rng, nn, c, p, plain);
		}
		d.filter = DefFilter(p);
		d.ign = rng.below(100) < 25 ? 1 : 0;
		d.period = rng.below(100) < 20 ? 0 : -1;
		d.live = false; d.api = false;
		return d;
	}

	std::string Line(char op, const GDep& d)
	{
		char b[200];
		snprintf(b, sizeof b, "%c %d %d %d %s %d %d %d %d %d\n", op, d.id, d.c, d.p, d.grp.empty() ? "-" : d.grp.c_str(), d.filter, d.ign, d.period,
			rng.below(100) < 70 ? 1 : 0, rng.below(100) < 70 ? 1 : 0);
		return b;
	}

	/* an acyclic pair, parents preferably among the two lowest ranked nodes */
	bool AcyclicPair(int& c, int& p, const std::vector<std::pair<int, int>>& extra = {})
	{
		for (int attempt = 0; attempt < 30; attempt++) {
			c = (int)rng.below(nn);
			if (rng.below(100) < 70) {
				int want = (int)rng.below(2);
				p = -1;
				for (int i = 0; i < nn; i++) if (rank[i] == want) p = i;
			} else {
				p = (int)rng.below(nn);
			}
			if (p < 0 || p == c || WouldCycle(c, p, extra))
				continue;
			return true;
		}
		return false;
	}

	/* a pair whose addition closes a cycle */
	void CyclicPair(int& c, int& p, const std::vector<std::pair<int, int>>& extra = {})
	{
		std::vector<std::pair<int, int>> cand;
		for (int a = 0; a < nn; a++)
			for (int b = 0; b < nn; b++)
				if (a != b && WouldCycle(a, b, extra))
					cand.push_back({ a, b });
		if (cand.empty() || rng.below(100) < 20) {
			c = p = (int)rng.below(nn);
			return;
		}
		auto pr = cand[rng.below(cand.size())];
		c = pr.first; p = pr.second;
	}

	void GQ() { printf("G\nV\nQ -\n"); }

	void Case(int idx)
	{
		deps.clear(); nextDep = 0;
		isSvc.clear(); hostOf.clear();
		nn = rng.range(3, 6);
		std::vector<int> hosts;
		for (int i = 0; i < nn; i++) {
			if (i > 0 && rng.below(100) < 40) {
				isSvc.push_back(1);
				hostOf.push_back(hosts[rng.below(hosts.size())]);
			} else {
				isSvc.push_back(0);
				hostOf.push_back(-1);
				hosts.push_back(i);
			}
		}
		rank.assign(nn, 0);
		for (int i = 0; i < nn; i++) rank[i] = i;
		for (int i = nn - 1; i > 0; i--) std::swap(rank[i], rank[rng.below(i + 1)]);
		for (int i = 0; i < nn; i++)
			if (isSvc[i] && rank[i] < rank[hostOf[i]])
				std::swap(rank[i], rank[hostOf[i]]);

		printf("C cfg rt-%d\n", idx);
		for (int i = 0; i < nn; i++)
			printf("N %d %c %d\n", i, isSvc[i] ? 's' : 'h', isSvc[i] ? hostOf[i] : -1);

		/* first batch: acyclic */
		int nInit = rng.range(1, 5);
		int emitted = 0;
		if (nn >= 4 && rng.below(100) < 30) {
			/* two children with the identical redundancy group over the same two parents */
			int p0 = -1, p1 = -1;
			std::vector<int> kids;
			for (int i = 0; i < nn; i++) {
				if (rank[i] == 0) p0 = i;
				else if (rank[i] == 1) p1 = i;
				else kids.push_back(i);
			}
			int k0 = kids[rng.below(kids.size())], k1;
			do { k1 = kids[rng.below(kids.size())]; } while (k1 == k0);
			int f0 = isSvc[p0] ? 3 : 16, f1 = isSvc[p1] ? 3 : 16;
			for (int k : { k0, k1 })
				for (int q = 0; q < 2; q++) {
					int p = q ? p1 : p0;
					if (WouldCycle(k, p))
						continue;
					GDep d = Make(k, p);
					d.grp = "g1"; d.filter = q ? f1 : f0; d.ign = 0; d.period = -1;
					d.live = true;
					fputs(Line('D', d).c_str(), stdout);
					deps.push_back(d);
					emitted++;
				}
		}
		while (emitted < nInit || emitted == 0) {
			int c, p;
			if (!AcyclicPair(c, p))
				break;
			GDep d = Make(c, p);
			d.live = true;
			fputs(Line('D', d).c_str(), stdout);
			deps.push_back(d);
			emitted++;
		}
		printf("L\n");
		GQ();

		int steps = rng.range(4, 10);
		for (int st = 0; st < steps; st++) {
			int k = (int)rng.below(100);
			std::vector<size_t> liveApi, liveCfg, liveAll;
			for (size_t i = 0; i < deps.size(); i++) {
				if (!deps[i].live) continue;
				liveAll.push_back(i);
				(deps[i].api ? liveApi : liveCfg).push_back(i);
			}
			if (k >= 45 && k < 60 && liveApi.empty()) k = 0;
			if (k >= 60 && k < 72 && liveCfg.empty()) k = 90;

			if (k < 45) {
				int c, p;
				bool cyc = rng.below(100) < 40;
				GDep d;
				if (cyc) {
					CyclicPair(c, p);
					d = Make(c, p);
				} else {
					int m = (int)rng.below(100);
					bool done = false;
					if (m < 30 && !liveAll.empty()) {
						/* duplicate an existing child/parent pair, half of the time with the same composite key and group */
						const GDep& o = deps[liveAll[rng.below(liveAll.size())]];
						d = Make(o.c, o.p);
						if (rng.below(2)) { d.grp = o.grp; d.filter = o.filter; d.ign = o.ign; d.period = o.period; }
						done = true;
					} else if (m < 60) {
						/* join an existing redundancy group of the same child with another parent */
						std::vector<size_t> grouped;
						for (size_t i : liveAll) if (!deps[i].grp.empty()) grouped.push_back(i);
						if (!grouped.empty()) {
							const GDep o = deps[grouped[rng.below(grouped.size())]];
							for (int attempt = 0; attempt < 10 && !done; attempt++) {
								int q = (int)rng.below(nn);
								if (q == o.c || WouldCycle(o.c, q))
									continue;
								d = Make(o.c, q);
								d.grp = o.grp;
								done = true;
							}
						}
					}
					if (!done) {
						if (!AcyclicPair(c, p)) { CyclicPair(c, p); cyc = true; }
						d = Make(c, p);
					}
				}
				d.api = true;
				d.live = !cyc;
				fputs(Line('A', d).c_str(), stdout);
				deps.push_back(d);
				GQ();
			} else if (k < 60) {
				size_t i = liveApi[rng.below(liveApi.size())];
				printf("R %d\n", deps[i].id);
				deps[i].live = false;
				GQ();
			} else if (k < 72) {
				size_t i = liveCfg[rng.below(liveCfg.size())];
				printf("X %d\n", deps[i].id);
				deps[i].live = false;
				GQ();
			} else if (k < 87) {
				/* a later batch, sometimes refused as a whole */
				bool cyc = rng.below(100) < 35;
				std::vector<GDep> batch;
				std::vector<std::pair<int, int>> extra;
				int c, p;
				if (rng.below(2) && AcyclicPair(c, p)) {
					batch.push_back(Make(c, p));
					extra.push_back({ c, p });
				}
				if (cyc) {
					CyclicPair(c, p, extra);
					batch.push_back(Make(c, p));
				} else if (batch.empty() || rng.below(2)) {
					if (AcyclicPair(c, p, extra))
						batch.push_back(Make(c, p));
				}
				if (batch.empty()) {
					CyclicPair(c, p);
					batch.push_back(Make(c, p));
					cyc = true;
				}
				if (batch.size() == 2 && rng.below(2))
					std::swap(batch[0], batch[1]);
				for (GDep& d : batch) {
					d.live = !cyc;
					fputs(Line('D', d).c_str(), stdout);
					deps.push_back(d);
				}
				printf("L\n");
				GQ();
			} else {
				if (rng.below(100) < 70) {
					int n = (int)rng.below(nn);
					if (rng.below(2)) printf("S %d 1 %d 1\n", n, 2 + (int)rng.below(2));
					else printf("S %d %d %d %d\n", n, (int)rng.below(2), (int)rng.below(4), (int)rng.below(2));
				} else {
					printf("T 0 %d\n", (int)rng.below(2));
				}
				printf("Q -\n");
			}
		}
	}
};

static void GenRtHand()
{
	/* (i) A closing a 2-cycle is refused and leaves everything as it was; then a harmless A */
	printf("C cfg rt-hand-i\nN 0 h -1\nN 1 h -1\nN 2 h -1\nD 0 1 0 - 16 0 -1 1 1\nL\nG\nV\nQ -\n"
		"A 1 0 1 - 16 0 -1 1 1\nG\nV\nQ -\nA 2 2 0 - 16 0 -1 1 1\nG\nV\nQ -\nR 2\nG\nV\nQ -\n");
	/* (ii) two children share redundancy group g1 over the same two parents */
	printf("C cfg rt-hand-ii\nN 0 h -1\nN 1 h -1\nN 2 h -1\nN 3 h -1\n"
		"D 0 2 0 g1 16 0 -1 1 1\nD 1 2 1 g1 16 0 -1 1 1\nD 2 3 0 g1 16 0 -1 1 1\nD 3 3 1 g1 16 0 -1 1 1\nL\nG\nV\nQ -\n"
		"X 0\nG\nV\nQ -\nA 4 2 0 g1 16 0 -1 1 1\nG\nV\nQ -\nS 0 1 2 1\nQ -\nR 4\nG\nV\nQ -\nS 1 1 2 1\nQ -\n");
	/* (iii) duplicate plain dependencies with different disable flags, one removed */
	printf("C cfg rt-hand-iii\nN 0 h -1\nN 1 h -1\nD 0 1 0 - 16 0 -1 1 1\nD 1 1 0 - 16 0 -1 0 1\nL\nG\nV\nQ -\n"
		"S 0 1 2 1\nQ -\nX 0\nG\nV\nQ -\nA 2 1 0 - 16 0 -1 1 0\nG\nV\nQ -\nA 3 1 0 - 16 1 -1 1 1\nG\nV\nQ -\nR 2\nG\nV\nQ -\n");
	/* (iv) A making a host depend on its own service */
	printf("C cfg rt-hand-iv\nN 0 h -1\nN 1 s 0\nN 2 h -1\nD 0 2 0 - 16 0 -1 1 1\nL\nG\nV\nQ -\n"
		"A 1 0 1 - 3 0 -1 1 1\nG\nV\nQ -\nA 2 1 1 - 3 0 -1 1 1\nG\nV\nQ -\nA 3 0 2 - 16 0 -1 1 1\nG\nV\nQ -\nA 4 1 2 g1 16 0 0 1 1\nG\nV\nQ -\n");
	/* (v) a refused later batch does not end the case */
	printf("C cfg rt-hand-v\nN 0 h -1\nN 1 h -1\nN 2 h -1\nD 0 1 0 - 16 0 -1 1 1\nL\nG\nV\nQ -\n"
		"D 1 2 1 - 16 0 -1 1 1\nD 2 0 2 - 16 0 -1 1 1\nL\nG\nV\nQ -\nD 3 2 1 - 16 0 -1 1 1\nL\nG\nV\nQ -\nA 4 0 2 - 16 0 -1 1 1\nG\nV\nQ -\n");
}

/* gencfg rt part: a plain dependency on P next to a redundancy group named like P (two members), three ways of adding */
static void GenRtCollideHand()
{
	for (int svcVariant = 0; svcVariant < 2; svcVariant++)
	for (int how = 0; how < 3; how++) {
		int P, A, B, child, pFilter;
		printf("C cfg rt-collide-%s%d\n", svcVariant ? "s" : "h", how);
		if (!svcVariant) {
			printf("N 0 h -1\nN 1 h -1\nN 2 h -1\nN 3 h -1\n");
			P = 0; A = 1; B = 2; child = 3; pFilter = 16;
		} else {
			printf("N 0 h -1\nN 1 s 0\nN 2 h -1\nN 3 h -1\nN 4 h -1\nN 5 s 4\n");
			P = 1; A = 2; B = 3; child = 5; pFilter = 3;
		}
		char plain[96], m1[96], m2[96];
		snprintf(plain, sizeof plain, "%%c 0 %d %d - %d 0 -1 1 1\n", child, P, pFilter);
		snprintf(m1, sizeof m1, "%%c 1 %d %d @%d 16 0 -1 1 1\n", child, A, P);
		snprintf(m2, sizeof m2, "%%c 2 %d %d @%d 16 0 -1 1 1\n", child, B, P);
		bool apiPlain = false, apiMembers = false;
		if (how == 0) {          /* all three in the first L */
			printf(plain, 'D'); printf(m1, 'D'); printf(m2, 'D'); printf("L\nG\nV\nQ -\n");
		} else if (how == 1) {   /* plain first, the group members at runtime */
			printf(plain, 'D'); printf("L\nG\nV\nQ -\n");
			printf(m1, 'A'); printf("G\nV\nQ -\n"); printf(m2, 'A'); printf("G\nV\nQ -\n");
			apiMembers = true;
		} else {                 /* the group first, the plain dependency at runtime */
			printf(m1, 'D'); printf(m2, 'D'); printf("L\nG\nV\nQ -\n");
			printf(plain, 'A'); printf("G\nV\nQ -\n");
			apiPlain = true;
		}
		int nodesOf[3] = { P, A, B };
		int removed = (how + svcVariant) % 3; /* which of the three goes away in the second round */
		for (int round = 0; round < 2; round++) {
			if (round == 1) {
				bool api = removed == 0 ? apiPlain : apiMembers;
				printf("%c %d\nG\n", api ? 'R' : 'X', removed);
			}
			for (int code = 0; code < 8; code++) {
				for (int k = 0; k < 3; k++)
					printf("S %d 1 %d 1\n", nodesOf[k], ((code >> k) & 1) ? 2 : 0);
				printf("Q -\n");
			}
		}
	}
}

/* gencfg rt part: the GenShared configurations through the config path: everything in the first load, or one child's
 * dependencies added at runtime (either child first); the check compares every one with a fresh load of the final set. */
static void GenRtSharedHand()
{
	for (int var = 0; var < 4; var++)
	for (int nameA = 0; nameA < 2; nameA++)
	for (int nameB = 0; nameB < 3; nameB++)
	for (int how = 0; how < 3; how++) {
		SharedSpec sp = { (var + how) % 2, var, nameA, nameB, how == 2 ? 1 : 0 };
		std::vector<std::string> lines;
		int P, A, B;
		SharedOps(sp, lines, P, A, B);
		printf("C cfg rt-shared-%d%d%d%d\n", var, nameA, nameB, how);
		std::vector<std::string> later;
		for (const std::string& l : lines) {
			int id = -1;
			bool isD = sscanf(l.c_str(), "D %d", &id) == 1;
			/* how 1: B's dependencies (ids 2,3) at runtime; how 2: A's (ids 0,1) at runtime */
			if (isD && ((how == 1 && id >= 2) || (how == 2 && id < 2)))
				later.push_back("A" + l.substr(1));
			else
				puts(l.c_str());
		}
		printf("L\nG\nV\nQ -\n");
		for (const std::string& l : later)
			printf("%s\nG\nV\nQ -\n", l.c_str());
		static const int st[5][3] = { { 1, 2, 0 }, { 1, 2, 1 }, { 1, 1, 1 }, { 0, 2, 1 }, { 1, 0, 0 } };
		for (int k = 0; k < 5; k++)
			printf("S %d %d %d %d\nQ -\n", P, st[k][0], st[k][1], st[k][2]);
		int removed = (var + nameA + nameB + how) % 4;
		bool api = (how == 1 && removed >= 2) || (how == 2 && removed < 2);
		printf("%c %d\nG\nV\nQ -\n", api ? 'R' : 'X', removed);
		printf("S %d 1 2 0\nQ -\nS %d 1 2 1\nQ -\n", P, P);
	}
}

/* ------------------------------------------------------------------------------------------------
 * gencfg, part "def": attributes left unset in the configuration ("u"): Dependency::OnConfigLoaded chooses the state filter
 * (Up for a host parent, OK|Warning for a service parent), dependency.ti supplies ignore_soft_states = true,
 * disable_checks = false, disable_notifications = true. Nodes: hosts 0, 1; service 2 of host 0; service 3 of host 1; all
 * edges (also the implicit ones) lead from the higher to the lower id, so every case is acyclic. */

static void DefAllStates(int parent)
{
	for (int chk = 0; chk < 2; chk++)
		for (int raw = 0; raw < 4; raw++)
			for (int ty = 0; ty < 2; ty++)
				printf("S %d %d %d %d\nQ -\n", parent, chk, raw, ty);
}

static void GenCfgDefaults(Rng& rng, int n)
{
	static const char *nodes = "N 0 h -1\nN 1 h -1\nN 2 s 0\nN 3 s 1\n";
	/* everything unset: host parent, service parent, loaded and created at runtime */
	printf("C cfg def-host\n%sD 0 1 0 - u u -1 u u\nL\n", nodes); DefAllStates(0);
	printf("C cfg def-svc\n%sD 0 3 2 - u u -1 u u\nL\n", nodes); DefAllStates(2);
	printf("C cfg rt-def-host\n%sD 0 3 0 - 16 1 -1 1 1\nL\nA 1 1 0 - u u -1 u u\n", nodes); DefAllStates(0);
	printf("C cfg rt-def-svc\n%sD 0 3 0 - 16 1 -1 1 1\nL\nA 1 1 2 - u u -1 u u\n", nodes); DefAllStates(2);
	/* one attribute unset at a time, the others at the opposite of their default */
	for (int k = 0; k < 4; k++) {
		printf("C cfg def-one-%d\n%sD 0 1 0 - %s %s -1 %s %s\nL\n", k, nodes, k == 0 ? "u" : "32", k == 1 ? "u" : "0", k == 2 ? "u" : "1", k == 3 ? "u" : "0");
		DefAllStates(0);
		printf("C cfg def-one-svc-%d\n%sD 0 3 2 g1 %s %s -1 %s %s\nL\n", k, nodes, k == 0 ? "u" : "12", k == 1 ? "u" : "0", k == 2 ? "u" : "1", k == 3 ? "u" : "0");
		DefAllStates(2);
	}
	static const int pairs[6][2] = { { 1, 0 }, { 2, 0 }, { 2, 1 }, { 3, 0 }, { 3, 1 }, { 3, 2 } };
	for (int i = 0; i < n; i++) {
		printf("C cfg %sdef-%d\n%s", rng.below(2) ? "rt-" : "", i, nodes);
		int nd = rng.range(1, 4), nextId = 0;
		auto dep = [&](char op) {
			const int *pr = pairs[rng.below(6)];
			bool psvc = pr[1] >= 2;
			auto tok = [&](int v) { return rng.below(2) ? std::string("u") : std::to_string(v); };
			int filter = psvc ? (int)rng.below(16) : 16 * (int)rng.below(4);
			printf("%c %d %d %d %s %s %s %d %s %s\n", op, nextId++, pr[0], pr[1], rng.below(3) == 0 ? "g1" : "-", tok(filter).c_str(),
				tok((int)rng.below(2)).c_str(), rng.below(100) < 20 ? (int)rng.below(4) : -1, tok((int)rng.below(2)).c_str(), tok((int)rng.below(2)).c_str());
		};
		for (int k = 0; k < nd; k++) dep('D');
		printf("L\n");
		int na = (int)rng.below(3);
		for (int k = 0; k < na; k++) dep('A');
		for (int round = 0; round < 5; round++) {
			int ns = rng.range(1, 3);
			for (int k = 0; k < ns; k++)
				printf("S %d %d %d %d\n", (int)rng.below(3), rng.below(100) < 85 ? 1 : 0, (int)rng.below(4), rng.below(100) < 70 ? 1 : 0);
			if (rng.below(100) < 20) printf("T %d %d\n", (int)rng.below(4), (int)rng.below(2));
			printf("Q -\n");
		}
	}
}

/* ------------------------------------------------------------------------------------------------
 * ops */

static int RunOps(const char *path)
{
	FILE *f = fopen(path, "r");
	if (!f) {
		printf("FATAL cannot open %s\n", path);
		return 2;
	}
	std::vector<std::string> lines;
	char *line = nullptr;
	size_t cap = 0;
	bool anyCfg = false;
	while (getline(&line, &cap, f) >= 0) {
		std::string s(line);
		size_t bar = s.find(" | ");
		if (bar != std::string::npos)
			s.erase(bar);
		while (!s.empty() && (s.back() == '\n' || s.back() == '\r' || s.back() == ' '))
			s.pop_back();
		if (s.empty() || s[0] == '#' || s[0] == 'E' || s.compare(0, 5, "STATS") == 0)
			continue; /* observation-only lines of an earlier run */
		/* "L | ok" has the bar right after L: handled by find(" | ") above ("L" remains) */
		if (s.compare(0, 6, "C cfg ") == 0 || s == "C cfg")
			anyCfg = true;
		lines.push_back(s);
	}
	fclose(f);

	EnsurePool(anyCfg);

	for (const std::string& s : lines) {
		const char *p = s.c_str();
		switch (p[0]) {
		case 'C': {
			char mode[16] = "", tag[256] = "";
			int n = sscanf(p, "C %15s %255s", mode, tag);
			if (n < 1 || (strcmp(mode, "obj") && strcmp(mode, "cfg"))) { printf("FATAL bad C line\n"); return 2; }
			E.C(!strcmp(mode, "cfg"), n >= 2 ? tag : "-");
			break;
		}
		case 'N': {
			int id, host; char k;
			if (sscanf(p, "N %d %c %d", &id, &k, &host) != 3 || (k != 'h' && k != 's')) { printf("FATAL bad N line\n"); return 2; }
			E.N(id, k == 's', host);
			break;
		}
		case 'D': {
			int id, c, pa, period; char grp[128], tf[16], ti[16], tc[16], tn[16];
			if (sscanf(p, "D %d %d %d %127s %15s %15s %d %15s %15s", &id, &c, &pa, grp, tf, ti, &period, tc, tn) != 9) { printf("FATAL bad D line\n"); return 2; }
			E.D(id, c, pa, strcmp(grp, "-") ? grp : "", TokVal(tf), TokVal(ti), period, TokVal(tc), TokVal(tn));
			break;
		}
		case 'X': {
			int id;
			if (sscanf(p, "X %d", &id) != 1) { printf("FATAL bad X line\n"); return 2; }
			E.X(id);
			break;
		}
		case 'S': {
			int n, c, r, t;
			if (sscanf(p, "S %d %d %d %d", &n, &c, &r, &t) != 4) { printf("FATAL bad S line\n"); return 2; }
			E.S(n, c, r, t);
			break;
		}
		case 'T': {
			int pe, in;
			if (sscanf(p, "T %d %d", &pe, &in) != 2) { printf("FATAL bad T line\n"); return 2; }
			E.T(pe, in);
			break;
		}
		case 'A': {
			int id, c, pa, period; char grp[128], tf[16], ti[16], tc[16], tn[16];
			if (sscanf(p, "A %d %d %d %127s %15s %15s %d %15s %15s", &id, &c, &pa, grp, tf, ti, &period, tc, tn) != 9) { printf("FATAL bad A line\n"); return 2; }
			E.A(id, c, pa, strcmp(grp, "-") ? grp : "", TokVal(tf), TokVal(ti), period, TokVal(tc), TokVal(tn));
			break;
		}
		case 'R': {
			int id;
			if (sscanf(p, "R %d", &id) != 1) { printf("FATAL bad R line\n"); return 2; }
			E.R(id);
			break;
		}
		case 'G':
			E.G();
			break;
		case 'V':
			E.V();
			break;
		case 'L':
			E.L();
			break;
		case 'Q':
			E.Q();
			break;
		case 'E': case '#':
			break; /* observation-only lines of an earlier run */
		default:
			printf("FATAL bad line\n");
			return 2;
		}
	}
	E.EndCase();
	return 0;
}

int main(int argc, char **argv)
{
	if (argc < 2) { fprintf(stderr, "usage: h_c07 gen|gencfg|ops ...\n"); return 2; }
	std::string mode = argv[1];
	uint64_t seed = strtoull(argOr(argc, argv, "--seed", "1"), nullptr, 10);
	bool thorough = std::string(argOr(argc, argv, "--tier", "quick")) == "thorough";

	static char outbuf[1 << 20];
	setvbuf(stdout, outbuf, _IOFBF, sizeof outbuf);

	if (mode == "gencfg") {
		GenCfgHand();
		Rng rng(seed ^ 0xc07c07c07ULL);
		CfgGen g(rng);
		int n = thorough ? 5000 : 600;
		for (int i = 0; i < n; i++)
			g.Case(i);
		/* appended later: everything above stays byte-identical for a given seed */
		GenRtHand();
		GenRtCollideHand();
		GenRtSharedHand();
		Rng rng2(seed ^ 0x7c07a11ceULL);
		RtGen rt(rng2);
		int nrt = thorough ? 2500 : 300;
		for (int i = 0; i < nrt; i++)
			rt.Case(i);
		Rng rng3(seed ^ 0xdefa017c07ULL);
		GenCfgDefaults(rng3, thorough ? 800 : 120);
		fflush(stdout);
		_exit(0);
	}

	/* nothing but protocol lines on stdout; whatever the library writes to stderr is dropped */
	if (!getenv("C07_DEBUG")) {
		int devnull = open("/dev/null", O_WRONLY);
		if (devnull >= 0) {
			dup2(devnull, 2);
			close(devnull);
		}
	}

	InitIcinga();
	signal(SIGABRT, OnAbort);
	signal(SIGSEGV, OnAbort);
	signal(SIGBUS, OnAbort);
	signal(SIGALRM, OnQTimeout);
	SetNow(kNow);
	int rc = 0;

	if (mode == "gen") {
		EnsurePool(false);
		Rng rng(seed);
		GenAvail();
		GenCycle();
		GenChain();
		GenCollide();
		GenShared();
		GenSmall(rng, thorough);
		int n = thorough ? 20000 : 2000;
		for (int i = 0; i < n; i++)
			GenRandCase(rng);
		E.EndCase();
	} else if (mode == "ops") {
		if (argc < 3) return 2;
		rc = RunOps(argv[2]);
	} else {
		printf("FATAL unknown mode\n");
		rc = 2;
	}
	fflush(stdout);
	RemoveApiStorage();
	_exit(rc);
}

/* C19 harness: evaluates programs in sandboxed script frames exactly as the production call sites
 * build them and reports, per program, what came out and whether protected state changed.
 *
 * Sites:  filter   FilterUtility::GetFilterTargets(qd, {type=Host, filter=<text>}, user)       (filterutility.cpp:268-271)
 *         event    EventQueue::SetFilter/ProcessEvent (eventqueue.cpp:30-56) AND EventsSubscriber + ApiEvents::CheckResultHandler ->
 *                  EventsFilter::Push (eventqueue.cpp:250-275, the /v1/events path), then classified in a frame built the same way
 *         console  ConsoleHandler::ExecuteScriptHelper(..., sandboxed = true)                    (consolehandler.cpp:108-141)
 *         fobj     the `filter` frame with an arbitrary target object bound to `obj` (EvaluateFilter), for field reads
 *
 * Lines (text after " | " is the implementation's observation):
 *   P <site> cmp=<0|1> root=<class> abs=<s-expr, blanks as commas> src=<hex> | <outcome> chg=<g|-><o|-><f|-><a|-> leak=<0|1|2> inv=<n>
 *     (chg: globals+constants / config objects+registries / data directory / the process-wide application singleton)
 *     (inv: how many times a native WITHOUT the side-effect-free flag was actually invoked during the evaluation)
 *   N <site> name=<registered name> safe=<0|1> src=<hex>                     | <outcome> chg=... leak=..
 *   H <site> type=<T> field=<f> nuv=<0|1> src=<hex>                          | <outcome> chg=... leak=..
 *   T natives <name>=<0|1> ...                                                (the implementation's flags, one line)
 *   E events cmp=<0|1> abs=<a1>;<a2>;.. src=<hex1>,<hex2>,..                  | <combined> ocs=<o1>,.. dlv=<bits> chg=.. leak=.. inv=..
 *     (one event handed to SEVERAL /v1/events subscribers: EventsSubscriber per filter + ApiEvents::CheckResultHandler
 *      -> EventsRouter -> EventsFilter::Push; dlv: which subscribers' inboxes received it)
 *
 *   X <signal> <op line>                                                      the evaluating child died (14 = per-program alarm: hang)
 * outcome: ok | sandbox | hidden | err
 *
 * Process model (the check must never hang or die with the code under test): the parent never touches the
 * evaluator.  `gen`: a first child initialises Icinga and GENERATES the op lines (reflection, compile for root=);
 * then — as in `ops FILE` — batches of lines are EXECUTED in forked children that initialise Icinga themselves,
 * publish the index of the line they work on in shared memory and run every program under alarm(); when a child
 * dies the parent prints `X <signal> <line>` and continues after that line in a fresh child.
 *
 * Modes:  gen --seed S --tier quick|thorough        ops FILE
 */
#include "common.hpp"
#include "base/array.hpp"
#include "base/configuration.hpp"
#include "base/dictionary.hpp"
#include "base/exception.hpp"
#include "base/function.hpp"
#include "base/namespace.hpp"
#include "base/scriptframe.hpp"
#include "base/scriptglobal.hpp"
#include "base/type.hpp"
#include "config/configcompiler.hpp"
#include "config/configitem.hpp"
#include "config/expression.hpp"
#include "icinga/user.hpp"
#include "icinga/apievents.hpp"
#include "icinga/checkresult.hpp"
#include "base/application.hpp"
#include "remote/apiuser.hpp"
#include "remote/consolehandler.hpp"
#include "remote/eventqueue.hpp"
#include "remote/filterutility.hpp"
#include <boost/beast/http.hpp>
#include <algorithm>
#include <dirent.h>
#include <fstream>
#include <functional>
#include <map>
#include <set>
#include <sys/mman.h>
#include <sys/stat.h>
#include <sys/wait.h>
#include <csignal>

using namespace icinga;
using namespace vh;
namespace bhttp = boost::beast::http;

/* private members, reached without touching the source (common.hpp) */
namespace vh {
VH_ROB_MEMBER(RobArrFrozen, Array, bool, m_Frozen)
VH_ROB_MEMBER(RobDictFrozen, Dictionary, bool, m_Frozen)
VH_ROB_MEMBER(RobNsFrozen, Namespace, std::atomic<bool>, m_Frozen)
VH_ROB_MEMBER(RobFnCallback, Function, Function::Callback, m_Callback)
VH_ROB_STATIC(RobExecScript, bool (*type)(bhttp::request<bhttp::string_body>&, bhttp::response<bhttp::string_body>&,
	const Dictionary::Ptr&, const String&, const String&, bool), ConsoleHandler, ExecuteScriptHelper)
VH_ROB_MEMBER(RobInboxQueue, EventsInbox, std::queue<Dictionary::Ptr>, m_Queue)
VH_ROB_STATIC(RobAppInstance, Application::Ptr *type, Application, m_Instance)
VH_ROB_STATIC(RobAutoComplete, bool (*type)(bhttp::request<bhttp::string_body>&, bhttp::response<bhttp::string_body>&,
	const Dictionary::Ptr&, const String&, const String&, bool), ConsoleHandler, AutocompleteScriptHelper)
}

static const char *SECRET = "S3CR3T-c19-pw";
static String l_DataDir;
static ApiUser::Ptr l_User;
static ApiUser::Ptr l_UserPF;      /* a user whose permission on the queried type carries a permission FILTER */
static const double NUM_MARKER = 987654321;
static Host::Ptr l_Host;
static std::string l_Current;
static Application::Ptr l_App;     /* keeps the application object alive and lets ResetLiveState put the singleton back */

/* ---------------------------------------------------------------- canonical deep dump */

static void Dump(std::ostream& os, const Value& v, int depth, std::set<const Object *>& seen);

static void DumpObjectFields(std::ostream& os, const Object::Ptr& o, int depth, std::set<const Object *>& seen)
{
	Type::Ptr t = o->GetReflectionType();
	os << "<" << (t ? t->GetName() : String("?")) << ">{";
	if (t) {
		for (int i = 0; i < t->GetFieldCount(); i++) {
			Field f = t->GetFieldInfo(i);
			os << f.Name << "=";
			try {
				Dump(os, o->GetField(i), depth - 1, seen);
			} catch (const std::exception&) {
				os << "!";
			}
			os << ";";
		}
	}
	os << "}";
}

static void Dump(std::ostream& os, const Value& v, int depth, std::set<const Object *>& seen)
{
	if (!v.IsObject()) {
		if (v.IsEmpty() && !v.IsString()) os << "null";
		else if (v.IsNumber()) os << "n" << (double)v;
		else if (v.IsBoolean()) os << (v.ToBool() ? "T" : "F");
		else os << "s" << ((String)v).GetLength() << ":" << (String)v;
		return;
	}
	Object::Ptr o = v;
	if (depth <= 0) { os << "~"; return; }
	if (Function::Ptr f = dynamic_pointer_cast<Function>(o)) { os << "fn(" << f->GetName() << "," << f->IsSideEffectFree() << ")"; return; }
	if (ConfigObject::Ptr co = dynamic_pointer_cast<ConfigObject>(o)) { os << "obj(" << co->GetReflectionType()->GetName() << "!" << co->GetName() << ")"; return; }
	if (seen.count(o.get())) { os << "^"; return; }
	seen.insert(o.get());
	if (Namespace::Ptr ns = dynamic_pointer_cast<Namespace>(o)) {
		std::map<String, std::pair<Value, bool>> items;
		{
			ObjectLock olock(ns);
			for (const Namespace::Pair& kv : ns) items[kv.first] = { kv.second.Val, kv.second.Const };
		}
		os << "ns" << (((*ns).*get(RobNsFrozen())).load() ? "F" : "") << "{";
		for (auto& kv : items) { os << kv.first << (kv.second.second ? "!" : "") << "="; Dump(os, kv.second.first, depth - 1, seen); os << ";"; }
		os << "}";
	} else if (Dictionary::Ptr d = dynamic_pointer_cast<Dictionary>(o)) {
		std::map<String, Value> items;
		{
			ObjectLock olock(d);
			for (const Dictionary::Pair& kv : d) items[kv.first] = kv.second;
		}
		os << "d" << ((*d).*get(RobDictFrozen()) ? "F" : "") << "{";
		for (auto& kv : items) { os << kv.first << "="; Dump(os, kv.second, depth - 1, seen); os << ";"; }
		os << "}";
	} else if (Array::Ptr a = dynamic_pointer_cast<Array>(o)) {
		std::vector<Value> items;
		{
			ObjectLock olock(a);
			items.assign(a->Begin(), a->End());
		}
		os << "a" << ((*a).*get(RobArrFrozen()) ? "F" : "") << "[";
		for (auto& x : items) { Dump(os, x, depth - 1, seen); os << ","; }
		os << "]";
	} else if (Type::Ptr t = dynamic_pointer_cast<Type>(o)) {
		os << "type(" << t->GetName() << ")";
		Object::Ptr proto = t->GetPrototype();
		if (proto) { os << "proto="; Dump(os, proto, depth - 1, seen); }
	} else {
		DumpObjectFields(os, o, depth, seen);
	}
	seen.erase(o.get());
}

static std::string SnapGlobals()
{
	std::ostringstream os;
	std::set<const Object *> seen;
	Dump(os, ScriptGlobal::GetGlobals(), 7, seen);
	return os.str();
}

static std::string SnapObjects()
{
	std::ostringstream os;
	std::vector<String> names;
	for (const Type::Ptr& t : Type::GetAllTypes()) names.push_back(t->GetName());
	std::sort(names.begin(), names.end());
	for (const String& tn : names) {
		Type::Ptr t = Type::GetByName(tn);
		auto *ct = dynamic_cast<ConfigType *>(t.get());
		if (!ct) continue;
		std::map<String, ConfigObject::Ptr> objs;
		for (const ConfigObject::Ptr& o : ct->GetObjects()) objs[o->GetName()] = o;
		os << tn << "#" << objs.size() << "[";
		for (auto& kv : objs) {
			std::set<const Object *> seen;
			os << kv.first << ":";
			DumpObjectFields(os, kv.second, 6, seen);
		}
		os << "]";
		/* registries a config statement writes to */
		os << "items=" << ConfigItem::GetItems(t).size() << ";";
	}
	return os.str();
}

static void ListDir(const std::string& path, std::ostream& os)
{
	std::vector<std::string> names;
	if (DIR *d = opendir(path.c_str())) {
		while (dirent *e = readdir(d)) {
			std::string n = e->d_name;
			if (n != "." && n != "..") names.push_back(n);
		}
		closedir(d);
	}
	std::sort(names.begin(), names.end());
	for (auto& n : names) {
		std::string p = path + "/" + n;
		struct stat st;
		if (lstat(p.c_str(), &st) != 0) continue;
		if (S_ISDIR(st.st_mode)) { os << n << "/{"; ListDir(p, os); os << "}"; }
		else {
			std::ifstream f(p, std::ios::binary);
			std::string content((std::istreambuf_iterator<char>(f)), std::istreambuf_iterator<char>());
			os << n << ":" << st.st_size << ":" << std::hash<std::string>()(content) << ";";
		}
	}
}

static std::string SnapFiles()
{
	std::ostringstream os;
	ListDir(l_DataDir.CStr(), os);
	return os.str();
}

/* a: the process-wide application singleton (Application::m_Instance: set by OnConfigLoaded, cleared by ANY Application
 * destructor, application.cpp:83-84,105-108) — what IcingaApplication::GetInstance() hands to the whole daemon */
struct Snap { std::string g, o, f; bool a; };
static Snap TakeSnap() { return { SnapGlobals(), SnapObjects(), SnapFiles(), Application::GetInstance() != nullptr }; }

/* ---------------------------------------------------------------- evaluation at the production call sites */

struct Outcome { std::string kind; std::string text; };

/* Which kind of error: only for the statistics and the evidence — the driver compares value-vs-error, and the
 * specification uses the message-independent observations (chg, leak, inv), so rewording a message is harmless. */
static std::string Classify(const std::string& msg0)
{
	std::string msg = msg0;
	for (auto& c : msg) c = (char)tolower((unsigned char)c);
	if (msg.find("accessing the field") != std::string::npos && msg.find("sandbox") != std::string::npos)
		return "hidden";
	if (msg.find("sandbox") != std::string::npos || msg.find("side-effect free") != std::string::npos || msg.find("marked as safe") != std::string::npos)
		return "sandbox";
	return "err";
}

static Outcome EvalFilterSite(const String& text, const ApiUser::Ptr& user)
{
	QueryDescription qd;
	qd.Types.insert("Host");
	qd.Permission = "objects/query/Host";
	/* filter_vars: what an API client may bind next to its filter — here live, shared values */
	Dictionary::Ptr filterVars = new Dictionary({ { "fv_arr", l_Host->GetVars()->Get("list") }, { "fv_groups", l_Host->GetGroups() },
		{ "fv_dict", l_Host->GetVars() }, { "fv_user", l_User }, { "fv_global_arr", ScriptGlobal::Get("C19Arr") } });
	Dictionary::Ptr query = new Dictionary({ { "type", "Host" }, { "filter", text }, { "filter_vars", filterVars } });
	try {
		std::vector<Value> res = FilterUtility::GetFilterTargets(qd, query, user);
		return { "ok", "targets=" + std::to_string(res.size()) };
	} catch (const std::exception& ex) {
		std::string m = DiagnosticInformation(ex, false).CStr();
		return { Classify(m), m };
	}
}

/* Does a value the script computed contain one of the markers planted in hidden fields?  (Object handles are
 * not values: what a site does with a returned object is that site's business — see F-C19b for the console.) */
static bool ContainsMarker(const Value& v, int depth)
{
	if (depth <= 0) return false;
	if (v.IsString()) return std::string(((String)v).CStr()).find(SECRET) != std::string::npos || std::string(((String)v).CStr()).find("987654321") != std::string::npos;
	if (v.IsNumber()) return (double)v == NUM_MARKER;
	if (v.IsObjectType<Array>()) {
		Array::Ptr a = v;
		ObjectLock olock(a);
		for (const Value& x : a) if (ContainsMarker(x, depth - 1)) return true;
	} else if (v.IsObjectType<Dictionary>()) {
		Dictionary::Ptr d = v;
		ObjectLock olock(d);
		for (const Dictionary::Pair& kv : d) if (ContainsMarker(kv.first, 1) || ContainsMarker(kv.second, depth - 1)) return true;
	}
	return false;
}

static bool l_ValueLeak = false;
static int l_UnsafeInvoked = 0;      /* see WrapUnsafe */

static Outcome EvalWithFrame(const String& text, bool allocLocals, const Object::Ptr& target, const String& varName)
{
	try {
		std::unique_ptr<Expression> expr = ConfigCompiler::CompileText("<C19>", text);
		Namespace::Ptr frameNS = new Namespace();
		ScriptFrame frame(allocLocals, frameNS);
		frame.Sandboxed = true;
		bool r = FilterUtility::EvaluateFilter(frame, expr.get(), target, varName);
		/* EvaluateFilter only hands back a truth value; evaluate once more in the same frame to see the value */
		try {
			Value v = expr->Evaluate(frame);
			if (ContainsMarker(v, 6)) l_ValueLeak = true;
		} catch (const std::exception&) { }
		return { "ok", r ? "true" : "false" };
	} catch (const std::exception& ex) {
		std::string m = DiagnosticInformation(ex, false).CStr();
		return { Classify(m), m };
	}
}

/* Where does a marker occur in the console's JSON result?  bit 1: as the value of a key that is the name of a
 * no_user_view field, i.e. inside a serialized object (the serializer dumped the object's fields); bit 0:
 * anywhere else. */
static std::set<std::string> l_NuvFieldNames;     /* names of all no_user_view fields of all types (reflection, Setup) */

static void FindSecret(const Value& v, bool inNuv, int& mask)
{
	if (v.IsObjectType<Dictionary>()) {
		Dictionary::Ptr d = v;
		ObjectLock olock(d);
		for (const Dictionary::Pair& kv : d) {
			if (std::string(kv.first.CStr()).find(SECRET) != std::string::npos) mask |= inNuv ? 2 : 1;
			FindSecret(kv.second, inNuv || l_NuvFieldNames.count(kv.first.CStr()) > 0, mask);
		}
	} else if (v.IsObjectType<Array>()) {
		Array::Ptr a = v;
		ObjectLock olock(a);
		for (const Value& x : a) FindSecret(x, inNuv, mask);
	} else if (v.IsNumber()) {
		if ((double)v == NUM_MARKER) mask |= inNuv ? 2 : 1;
	} else if (v.IsString()) {
		String sv = v;
		if (std::string(sv.CStr()).find(SECRET) != std::string::npos)
			mask |= (inNuv && sv == SECRET) ? 2 : 1;
	}
}

static int l_LeakMask = 0;

static Outcome EvalConsoleSite(const String& text)
{
	namespace http = boost::beast::http;
	http::request<http::string_body> request;
	http::response<http::string_body> response;
	Dictionary::Ptr params = new Dictionary();
	try {
		get(RobExecScript())(request, response, params, text, "c19-session", true);
	} catch (const std::exception& ex) {
		std::string m = DiagnosticInformation(ex, false).CStr();
		return { Classify(m), m };
	}
	std::string body = response.body();
	try {
		Dictionary::Ptr res = JsonDecode(body);
		Array::Ptr results = res->Get("results");
		Dictionary::Ptr r0 = results->Get(0);
		double code = r0->Get("code");
		if (code == 200) {
			FindSecret(r0->Get("result"), false, l_LeakMask);
			return { "ok", "" };
		}
		String status = r0->Get("status");
		return { Classify(status.CStr()), body };
	} catch (const std::exception&) {
		return { "err", body };
	}
}

/* The second console endpoint: auto-complete-script evaluates everything in front of the last '.' of the word
 * (consolehandler.cpp GetAutocompletionSuggestions) in the session frame with Sandboxed = sandboxed.  It swallows
 * errors, so after the production call the same prefix is evaluated once more through the execute endpoint's frame
 * construction to classify the outcome; state change / unsafe invocation / leak are observed over both. */
static Outcome EvalCompleteSite(const String& text)
{
	namespace http = boost::beast::http;
	http::request<http::string_body> request;
	http::response<http::string_body> response;
	Dictionary::Ptr params = new Dictionary();
	try {
		get(RobAutoComplete())(request, response, params, text + ".c19", "c19-session", true);
		std::string body = response.body();
		if (body.find(SECRET) != std::string::npos || body.find("987654321") != std::string::npos)
			l_LeakMask |= 1;                  /* suggestions are names; a marker among them is a leak */
	} catch (const std::exception& ex) {
		std::string m = DiagnosticInformation(ex, false).CStr();
		return { "escaped", m };             /* the endpoint never throws for a bad word */
	}
	int mask = l_LeakMask;
	Outcome oc = EvalConsoleSite(text);
	l_LeakMask = mask | (l_LeakMask & 1);     /* the serialised-object class (F-C19b) belongs to the execute endpoint */
	return oc;
}

/* The /v1/events path (eventshandler.cpp:101): one EventsSubscriber per filter text on EventType::CheckResult, then the
 * production emitter ApiEvents::CheckResultHandler builds the event and hands it to EventsRouter/EventsFilter::Push
 * (eventqueue.cpp:250-275), which evaluates every subscribed filter.  Returns, per filter, whether the event reached
 * the subscriber's inbox.  Throws only if a filter does not compile (as the HTTP handler would answer 400). */
static std::vector<bool> PushThroughSubscribers(const std::vector<String>& filters)
{
	std::vector<std::unique_ptr<EventsSubscriber>> subs;
	for (const String& f : filters)
		subs.emplace_back(new EventsSubscriber({ EventType::CheckResult }, f, "<C19>"));
	CheckResult::Ptr cr = new CheckResult();
	cr->SetState(ServiceOK);
	cr->SetOutput("c19");
	ApiEvents::CheckResultHandler(l_Host, cr, nullptr);
	std::vector<bool> delivered;
	for (auto& sub : subs) {
		EventsInbox::Ptr inbox = sub->GetInbox();
		delivered.push_back(!((*inbox).*get(RobInboxQueue())).empty());
	}
	return delivered;
}

static Outcome EvalWithFrame(const String& text, bool allocLocals, const Object::Ptr& target, const String& varName);

/* `E` lines: several subscribers with different filters on one event. */
struct EventsObs { std::vector<Outcome> ocs; std::vector<bool> delivered; bool escaped = false; std::string text; };

static EventsObs EvalEvents(const std::vector<String>& filters)
{
	EventsObs eo;
	try {
		eo.delivered = PushThroughSubscribers(filters);
	} catch (const std::exception& ex) {
		eo.escaped = true;
		eo.text = DiagnosticInformation(ex, false).CStr();
		eo.delivered.assign(filters.size(), false);
	}
	/* what each filter does in a frame that IS sandboxed (built here as eventqueue.cpp builds it) */
	Dictionary::Ptr event = new Dictionary({ { "type", "CheckResult" }, { "host", "c19-host" }, { "timestamp", 1000 } });
	for (const String& f : filters)
		eo.ocs.push_back(EvalWithFrame(f, true, event, "event"));
	return eo;
}

static Outcome EvalAt(const std::string& site, const String& text, const Object::Ptr& target = nullptr)
{
	if (site == "complete") return EvalCompleteSite(text);
	if (site == "filter") return EvalFilterSite(text, l_User);
	if (site == "filterpf") return EvalFilterSite(text, l_UserPF);
	if (site == "console") return EvalConsoleSite(text);
	if (site == "event") {
		Dictionary::Ptr event = new Dictionary({ { "type", "CheckResult" }, { "host", "c19-host" }, { "timestamp", 1000 } });
		/* (a) the production entry point itself: EventQueue::ProcessEvent builds the sandboxed frame, evaluates
		 * the filter, swallows any error and enqueues the event when the filter held (eventqueue.cpp:30-56) */
		bool queued = false, compiled = false;
		try {
			std::unique_ptr<Expression> expr = ConfigCompiler::CompileText("<C19>", text);
			compiled = true;
			EventQueue::Ptr q = new EventQueue("c19-queue");
			q->SetTypes({ "CheckResult" });
			q->SetFilter(std::move(expr));
			int client = 0;
			q->AddClient(&client);
			q->ProcessEvent(event);
			queued = q->WaitForEvent(&client, 0) != nullptr;
			q->RemoveClient(&client);
			/* (a') the /v1/events path with this filter as the only subscriber */
			if (PushThroughSubscribers({ text })[0]) queued = true;
		} catch (const std::exception& ex) {
			if (compiled) {
				std::string m = DiagnosticInformation(ex, false).CStr();
				return { "escaped", m };         /* ProcessEvent must never throw */
			}
		}
		/* (b) ProcessEvent hides the outcome, so the same frame is built once more to classify it */
		Outcome oc = EvalWithFrame(text, true, event, "event");
		if (queued && oc.kind != "ok")
			return { "inconsistent", "event was queued although the filter raised: " + oc.text };
		return oc;
	}
	/* fobj */
	return EvalWithFrame(text, false, target ? target : Object::Ptr(l_Host), "");
}

static std::string Hex(const std::string& s)
{
	static const char *d = "0123456789abcdef";
	std::string r;
	for (unsigned char c : s) { r += d[c >> 4]; r += d[c & 15]; }
	return r;
}

static std::string UnHex(const std::string& s)
{
	std::string r;
	for (size_t i = 0; i + 1 < s.size(); i += 2)
		r += (char)strtol(s.substr(i, 2).c_str(), nullptr, 16);
	return r;
}

static Snap l_Before;
static bool l_HaveBefore = false;
static void ResetLiveState(bool hostPart);

/* Evaluate, snapshot, print the observation. */
static bool l_GenOnly = false;               /* generator child: collect the op lines, evaluate nothing */
static std::vector<std::string> l_Lines;

static void Observe(const std::string& opPrefix, const std::string& site, const std::string& src, const Object::Ptr& target = nullptr)
{
	if (l_GenOnly) { l_Lines.push_back(opPrefix + " src=" + Hex(src)); return; }
	if (!l_HaveBefore) { l_Before = TakeSnap(); l_HaveBefore = true; }
	l_Current = opPrefix + " src=" + Hex(src);
	l_LeakMask = 0;
	l_ValueLeak = false;
	l_UnsafeInvoked = 0;
	Outcome oc = EvalAt(site, src, target);
	int invoked = l_UnsafeInvoked;
	Application::GetTP().Restart();      /* join anything the evaluation queued */
	Snap after = TakeSnap();
	char chg[5] = { after.g != l_Before.g ? 'g' : '-', after.o != l_Before.o ? 'o' : '-', after.f != l_Before.f ? 'f' : '-', after.a != l_Before.a ? 'a' : '-', 0 };
	/* leak: 0 none; 1 the secret is in a computed value or an error text; 2 only as the `password` field of
	 * a config object that the console serialized with all its fields */
	int leak = (oc.text.find(SECRET) != std::string::npos || oc.text.find("987654321") != std::string::npos || (l_LeakMask & 1) || l_ValueLeak) ? 1 : ((l_LeakMask & 2) ? 2 : 0);
	printf("%s | %s chg=%s leak=%d inv=%d\n", l_Current.c_str(), oc.kind.c_str(), chg, leak, invoked);
	fflush(stdout);
	if (chg[0] != '-' || chg[1] != '-' || chg[3] != '-') {
		ResetLiveState(true);
		ResetLiveState(false);
		after = TakeSnap();
	}
	l_Before = after;
	l_Current.clear();
}

/* `E events cmp=<0|1> abs=<a1>;<a2>;.. src=<hex1>,<hex2>,.. | <combined outcome> ocs=<o1>,<o2>,.. dlv=<bits> chg=.. leak=.. inv=..`
 * combined: ok iff every filter evaluates to a value in a sandboxed frame, else the first refusal/error class;
 * dlv: per filter, did the event reach that subscriber's inbox. */
static void ObserveEvents(const std::string& opPrefix, const std::vector<std::string>& srcs)
{
	std::string hex;
	for (size_t i = 0; i < srcs.size(); i++) hex += (i ? "," : "") + Hex(srcs[i]);
	if (l_GenOnly) { l_Lines.push_back(opPrefix + " src=" + hex); return; }
	if (!l_HaveBefore) { l_Before = TakeSnap(); l_HaveBefore = true; }
	l_Current = opPrefix + " src=" + hex;
	l_LeakMask = 0;
	l_ValueLeak = false;
	l_UnsafeInvoked = 0;
	std::vector<String> filters;
	for (auto& x : srcs) filters.emplace_back(x);
	EventsObs eo = EvalEvents(filters);
	int invoked = l_UnsafeInvoked;
	Application::GetTP().Restart();
	Snap after = TakeSnap();
	char chg[5] = { after.g != l_Before.g ? 'g' : '-', after.o != l_Before.o ? 'o' : '-', after.f != l_Before.f ? 'f' : '-', after.a != l_Before.a ? 'a' : '-', 0 };
	std::string combined = eo.escaped ? "err" : "ok", ocs, dlv;
	bool leak = l_ValueLeak;
	for (size_t i = 0; i < eo.ocs.size(); i++) {
		if (combined == "ok" && eo.ocs[i].kind != "ok") combined = eo.ocs[i].kind;
		ocs += (i ? "," : "") + eo.ocs[i].kind;
		dlv += eo.delivered[i] ? '1' : '0';
		if (eo.ocs[i].text.find(SECRET) != std::string::npos || eo.ocs[i].text.find("987654321") != std::string::npos) leak = true;
	}
	printf("%s | %s ocs=%s dlv=%s chg=%s leak=%d inv=%d\n", l_Current.c_str(), combined.c_str(), ocs.c_str(), dlv.c_str(), chg, leak ? 1 : 0, invoked);
	fflush(stdout);
	if (chg[0] != '-' || chg[1] != '-' || chg[3] != '-') {
		ResetLiveState(true);
		ResetLiveState(false);
		after = TakeSnap();
	}
	l_Before = after;
	l_Current.clear();
}

static std::string RootKind(const std::string& src)
{
	try {
		std::unique_ptr<Expression> expr = ConfigCompiler::CompileText("<C19>", src);
		Expression *e = expr.get();
		if (auto *d = dynamic_cast<DictExpression *>(e)) {
			auto& sub = d->GetExpressions();
			if (sub.size() == 1) e = sub[0].get();
		}
		String n = Utility::GetTypeName(typeid(*e));
		std::string s = n.CStr();
		size_t p = s.rfind("::");
		return p == std::string::npos ? s : s.substr(p + 2);
	} catch (const std::exception&) {
		return "ParseError";
	}
}

/* ---------------------------------------------------------------- canned programs: one per statement form */

struct Canned { const char *src; const char *abs; int cmp; };

/* %S is replaced by the site name (fresh names per site), %D by the data directory. */
static const Canned l_Canned[] = {
	/* assignments: every operator, every kind of left-hand side */
	{ "c19_x_%S = 1", "(setVar c19_x_%S literal (num 1))", 1 },
	{ "C19Global = 2", "(setVar C19Global literal (num 2))", 1 },
	{ "C19Global += 1", "(setVar C19Global add (num 1))", 1 },
	{ "C19Global -= 1", "(setVar C19Global subtract (num 1))", 1 },
	{ "C19Global *= 2", "(setVar C19Global multiply (num 2))", 1 },
	{ "C19Global /= 2", "(setVar C19Global divide (num 2))", 1 },
	{ "C19Global %= 2", "(setVar C19Global modulo (num 2))", 1 },
	{ "C19Global ^= 1", "(setVar C19Global xor (num 1))", 1 },
	{ "C19Global &= 1", "(setVar C19Global binaryAnd (num 1))", 1 },
	{ "C19Global |= 8", "(setVar C19Global binaryOr (num 8))", 1 },
	{ "globals.C19New_%S = 1", "(setScoped globals C19New_%S literal (num 1))", 1 },
	{ "globals.C19Global = 3", "(setScoped globals C19Global literal (num 3))", 1 },
	{ "globals[\"C19Global\"] = 3", "(setScoped globals C19Global literal (num 3))", 1 },
	{ "this.c19_t = 1", "(setScoped this c19_t literal (num 1))", 1 },
	{ "locals.c19_l = 1", "(setScoped locals c19_l literal (num 1))", 1 },
	{ "var c19_v = 1", "(setScoped locals c19_v literal (num 1))", 1 },
	{ "var c19_v += 1", "(setScoped locals c19_v add (num 1))", 1 },
	{ "C19Dict.k = 1", "(setField (var C19Dict) k literal (num 1))", 1 },
	{ "C19Dict[\"k\"] = 1", "(setField (var C19Dict) k literal (num 1))", 1 },
	{ "C19Dict.sub.k = 1", "(setField (index (var C19Dict) (str sub)) k literal (num 1))", 1 },
	{ "C19Arr[0] = 9", "(setField (var C19Arr) 0 literal (num 9))", 1 },
	{ "get_object(Host, \"c19-host\").display_name = \"changed\"", "(setField (obj c19-host) display_name literal (str changed))", 1 },
	{ "get_object(Host, \"c19-host\").vars.os = \"changed\"", "(setField (index (obj c19-host) (str vars)) os literal (str changed))", 1 },
	{ "get_object(Host, \"c19-host\").vars = null", "(setField (obj c19-host) vars literal (empty))", 1 },
	{ "System.Configuration.DataDir = \"/tmp\"", "(setField (index (var System) (str Configuration)) DataDir literal (str /tmp))", 1 },
	{ "TicketSalt = \"x\"", "(setVar TicketSalt literal (str x))", 1 },
	{ "{ a = 1 }", "(dict 0 (setScoped this a literal (num 1)))", 1 },
	/* const, namespace, function */
	{ "const C19Const_%S = 42", "(setConst C19Const_%S (num 42))", 1 },
	{ "const C19Global = \"%S\"", "(setConst C19Global (str %S))", 1 },
	{ "namespace C19Ns_%S { x = 1 }", "(setScoped globals C19Ns_%S literal (namespace (dict 0 (setVar x literal (num 1)))))", 1 },
	{ "function c19_f_%S() { return 1 }", "(setScoped this c19_f_%S literal (function c19_f_%S (return (num 1))))", 1 },
	{ "(x) => x", "(function lambda (var x))", 1 },
	{ "((x) => x)(1)", "(call (function lambda (var x)) (num 1))", 1 },
	{ "function (x) { globals.C19Global = x }", "(function anon (setScoped globals C19Global literal (var x)))", 1 },
	/* apply, object, template, import, include*, library */
	{ "apply Service \"c19-svc-%S\" to Host { check_command = \"dummy\"; assign where true }", "(apply Service Host (str c19-svc-%S))", 1 },
	{ "object Host \"c19-new-%S\" { check_command = \"dummy\" }", "(object (str Host) (str c19-new-%S))", 1 },
	{ "template Host \"c19-tpl-%S\" { }", "(object (str Host) (str c19-tpl-%S))", 1 },
	{ "import \"c19-template\"", "(import (str c19-template))", 1 },
	{ "include \"%D/inc.conf\"", "(include regular (str inc.conf))", 1 },
	{ "include_recursive \"%D/incdir\"", "(include recursive (str incdir))", 1 },
	{ "include_zones \"etc\", \"%D/zones\"", "(include zones (str zones))", 1 },
	{ "library \"c19lib\"", "(library (str c19lib))", 1 },
	/* loops and control flow */
	{ "for (x in [ 1, 2 ]) { log(x) }", "(for x _ (array (num 1) (num 2)) (dict 1))", 1 },
	{ "for (k => v in C19Dict) { log(k) }", "(for k v (var C19Dict) (dict 1))", 1 },
	{ "while (false) { log(1) }", "(while (bool 0) (dict 1))", 1 },
	{ "while (true) { C19Global += 1 }", "(while (bool 1) (setVar C19Global add (num 1)))", 1 },
	{ "if (true) { 1 } else { 2 }", "(cond (bool 1) (dict 1 (num 1)) (dict 1 (num 2)))", 1 },
	{ "if (false) { 1 }", "(cond (bool 0) (dict 1 (num 1)))", 1 },
	{ "try { throw \"x\" } except { 1 }", "(tryExcept (dict 1 (throw (str x))) (dict 1 (num 1)))", 1 },
	{ "try { C19Global = 7 } except { C19Global = 8 }", "(tryExcept (dict 1 (setVar C19Global literal (num 7))) (dict 1 (setVar C19Global literal (num 8))))", 1 },
	{ "try { const C19TryConst_%S = 1; throw \"x\" } except { 1 }", "(tryExcept (dict 1 (setConst C19TryConst_%S (num 1)) (throw (str x))) (dict 1 (num 1)))", 1 },
	{ "throw \"boom\"", "(throw (str boom))", 1 },
	{ "using System", "(empty)", 1 },
	{ "debugger", "(breakpoint)", 1 },
	/* pure expression forms */
	{ "1 + 2", "(binop add (num 1) (num 2))", 1 },
	{ "7 - 2 * 3 / 1 % 4", "(binop subtract (num 7) (binop modulo (binop divide (binop multiply (num 2) (num 3)) (num 1)) (num 4)))", 1 },
	{ "1 / 0", "(binop divide (num 1) (num 0))", 1 },
	{ "(5 ^ 1) & 7 | 8", "(binop binaryOr (binop binaryAnd (binop xor (num 5) (num 1)) (num 7)) (num 8))", 1 },
	{ "1 << 3 >> 1", "(binop shiftRight (binop shiftLeft (num 1) (num 3)) (num 1))", 1 },
	{ "1 == 1 && 2 != 3 && 1 < 2 && 2 > 1 && 1 <= 1 && 1 >= 1", "(land (land (land (land (land (binop equal (num 1) (num 1)) (binop notEqual (num 2) (num 3))) (binop lessThan (num 1) (num 2))) (binop greaterThan (num 2) (num 1))) (binop lessThanOrEqual (num 1) (num 1))) (binop greaterThanOrEqual (num 1) (num 1)))", 1 },
	{ "\"a\" in [ \"a\", \"b\" ] || \"c\" !in [ \"a\" ]", "(lor (binop in_ (str a) (array (str a) (str b))) (binop notIn (str c) (array (str a))))", 1 },
	{ "!true", "(unop logicalNegate (bool 1))", 1 },
	{ "~5", "(unop negate (num 5))", 1 },
	{ "[ 1, \"two\", [ 3 ] ]", "(array (num 1) (str two) (array (num 3)))", 1 },
	{ "{ }", "(dict 0)", 1 },
	{ "C19Global", "(var C19Global)", 1 },
	{ "c19_undefined_variable", "(var c19_undefined_variable)", 1 },
	{ "globals", "(getScope globals)", 1 },
	{ "locals", "(getScope locals)", 1 },
	{ "this", "(getScope this)", 1 },
	{ "globals.C19Global", "(index (getScope globals) (str C19Global))", 1 },
	{ "C19Dict.a", "(index (var C19Dict) (str a))", 1 },
	{ "&C19Global", "(ref (var C19Global))", 1 },
	{ "*&C19Global", "(deref (ref (var C19Global)))", 1 },
	{ "String(1)", "(call (type String) (num 1))", 1 },
	{ "Array()", "(call (type Array))", 1 },
	{ "Dictionary()", "(call (type Dictionary))", 1 },
	{ "Host()", "(call (type Host))", 0 },
	{ "ApiUser()", "(call (type ApiUser))", 0 },
	{ "IcingaApplication()", "(call (type IcingaApplication))", 0 },       /* F-C19c (repaired by ac7cac3): must change nothing */
	{ "len(\"abc\")", "(call (fn System#len) (str abc))", 1 },
	{ "\"abc\".len()", "(mcall (str abc) len)", 1 },
	{ "log(\"x\")", "(call (fn System#log) (str x))", 1 },
	{ "C19Arr.add(1)", "(mcall (var C19Arr) add (num 1))", 1 },
	{ "C19Arr.len()", "(mcall (var C19Arr) len)", 1 },
	{ "C19Arr.map((x) => x)", "(mcall (var C19Arr) map (function lambda (var x)))", 0 },
	{ "C19Arr.map(log)", "(mcall (var C19Arr) map (fn System#log))", 0 },
	{ "C19Arr.sort((a, b) => { globals.C19Global = 9; a < b })", "(mcall (var C19Arr) sort (function lambda (var a)))", 0 },
	{ "log.call(null, \"x\")", "(mcall (fn System#log) call (empty) (str x))", 1 },
	{ "len.call(null, \"x\")", "(mcall (fn System#len) call (empty) (str x))", 1 },
	{ "get_object(Host, \"c19-host\").modify_attribute(\"display_name\", \"x\")", "(mcall (obj c19-host) modify_attribute (str display_name) (str x))", 1 },
	{ "get_object(Host, \"c19-host\").name", "(index (obj c19-host) (str name))", 1 },
	/* references: a read through a reference obeys the no_user_view rule, a write through one is refused */
	{ "*(&get_object(ApiUser, \"c19-user\").password)", "(deref (ref (index (obj c19-user) (str password))))", 1 },
	{ "(&get_object(ApiUser, \"c19-user\").password).get()", "(mcall (ref (index (obj c19-user) (str password))) get)", 1 },
	{ "*(&get_object(ApiUser, \"c19-user\")[\"password\"])", "(deref (ref (index (obj c19-user) (str password))))", 1 },
	{ "*(&get_object(Host, \"c19-host\").display_name)", "(deref (ref (index (obj c19-host) (str display_name))))", 1 },
	{ "(&get_object(Host, \"c19-host\").display_name).get()", "(mcall (ref (index (obj c19-host) (str display_name))) get)", 1 },
	{ "(&get_object(Host, \"c19-host\").display_name).set(\"x\")", "(mcall (ref (index (obj c19-host) (str display_name))) set (str x))", 1 },
	{ "*(&get_object(Host, \"c19-host\").display_name) = \"x\"", "(setDeref (ref (index (obj c19-host) (str display_name))) literal (str x))", 1 },
	{ "(&globals.C19Global).set(1)", "(mcall (ref (index (getScope globals) (str C19Global))) set (num 1))", 1 },
	{ "(&globals.C19RefNew_%S).set(1)", "(mcall (ref (index (getScope globals) (str C19RefNew_%S))) set (num 1))", 1 },
	{ "*(&globals.C19Global)", "(deref (ref (index (getScope globals) (str C19Global))))", 1 },
	{ "(&C19Global).get()", "(mcall (ref (var C19Global)) get)", 1 },
	{ "*(&C19Global) += 1", "(setDeref (ref (var C19Global)) add (num 1))", 1 },
	/* assignments nested two and more levels through MISSING keys: the failed assignment must not leave the
	 * intermediate dictionaries behind (init_dict, expression.cpp:758-776) */
	{ "get_object(Host, \"c19-host\").vars.c19_%S.injected = 1", "(setField (index (index (obj c19-host) (str vars)) (str c19_%S)) injected literal (num 1))", 1 },
	{ "get_object(Host, \"c19-host\").vars.c19a_%S.b.c.injected = 1", "(setField (index (index (index (index (obj c19-host) (str vars)) (str c19a_%S)) (str b)) (str c)) injected literal (num 1))", 1 },
	{ "host.vars.c19h_%S.injected = 1", "(setField (index (index (var host) (str vars)) (str c19h_%S)) injected literal (num 1))", 1 },
	{ "globals.C19Demo2_%S.injected = 1", "(setField (index (getScope globals) (str C19Demo2_%S)) injected literal (num 1))", 1 },
	{ "globals.C19Demo2b_%S.a.b.injected += 1", "(setField (index (index (index (getScope globals) (str C19Demo2b_%S)) (str a)) (str b)) injected add (num 1))", 1 },
	{ "C19Dict.missing_%S.deeper.injected = 1", "(setField (index (index (var C19Dict) (str missing_%S)) (str deeper)) injected literal (num 1))", 1 },
	{ "C19Dict.sub.missing_%S.injected = 1", "(setField (index (index (var C19Dict) (str sub)) (str missing_%S)) injected literal (num 1))", 1 },
	{ "C19NsLive.missing_%S.injected = 1", "(setField (index (var C19NsLive) (str missing_%S)) injected literal (num 1))", 1 },
	{ "C19UnknownRoot_%S.a.b = 1", "(setField (index (var C19UnknownRoot_%S) (str a)) b literal (num 1))", 1 },
	{ "var c19_lv.a.b = 1", "(setField (index (index (getScope locals) (str c19_lv)) (str a)) b literal (num 1))", 1 },
	{ "try { get_object(Host, \"c19-host\").vars.c19t_%S.injected = 1 } except { 1 }", "(tryExcept (dict 1 (setField (index (index (obj c19-host) (str vars)) (str c19t_%S)) injected literal (num 1))) (dict 1 (num 1)))", 1 },
	/* assignments written as MEMBERS OF A DICTIONARY LITERAL (BindToScope binds a bare name to the new dictionary, nothing
	 * else): explicitly rooted l-values, aliases of live containers stored by an earlier member, dereferences, nested
	 * literals, literals as arguments/receivers/array elements/lambda bodies */
	{ "{ globals.C19Lit_%S = 1 }", "(dict 0 (setScoped globals C19Lit_%S literal (num 1)))", 1 },
	{ "{ globals.C19Global = 6 }", "(dict 0 (setScoped globals C19Global literal (num 6)))", 1 },
	{ "{ globals.C19Global += 1 }", "(dict 0 (setScoped globals C19Global add (num 1)))", 1 },
	{ "{ globals[\"C19LitI_%S\"] = 1 }", "(dict 0 (setScoped globals C19LitI_%S literal (num 1)))", 1 },
	{ "len({ globals.C19LitL_%S = 1 }) >= 0", "(binop greaterThanOrEqual (call (fn System#len) (dict 0 (setScoped globals C19LitL_%S literal (num 1)))) (num 0))", 1 },
	{ "{ globals.C19LitX_%S = 1 }.x == 1", "(binop equal (index (dict 0 (setScoped globals C19LitX_%S literal (num 1))) (str x)) (num 1))", 1 },
	{ "[ { globals.C19LitA_%S = 1 } ]", "(array (dict 0 (setScoped globals C19LitA_%S literal (num 1))))", 1 },
	{ "{ a = { globals.C19LitN_%S = 1 } }", "(dict 0 (setScoped this a literal (dict 0 (setScoped globals C19LitN_%S literal (num 1)))))", 1 },
	{ "{ v = get_object(Host, \"c19-host\").vars; v.os = \"lit\" }", "(dict 0 (setScoped this v literal (index (obj c19-host) (str vars))) (setField (index (getScope this) (str v)) os literal (str lit)))", 1 },
	{ "{ v = get_object(Host, \"c19-host\"); v.display_name = \"lit\" }", "(dict 0 (setScoped this v literal (obj c19-host)) (setField (index (getScope this) (str v)) display_name literal (str lit)))", 0 },
	{ "{ v = get_object(Host, \"c19-host\").vars.list; v[0] = \"lit\" }", "(dict 0 (setScoped this v literal (index (index (obj c19-host) (str vars)) (str list))) (setField (index (getScope this) (str v)) 0 literal (str lit)))", 1 },
	{ "{ v = C19Dict; v.k = 1 }", "(dict 0 (setScoped this v literal (var C19Dict)) (setField (index (getScope this) (str v)) k literal (num 1)))", 1 },
	{ "{ v = C19Arr; v[0] = 9 }", "(dict 0 (setScoped this v literal (var C19Arr)) (setField (index (getScope this) (str v)) 0 literal (num 9)))", 1 },
	{ "{ v = globals; v.C19LitG_%S = 1 }", "(dict 0 (setScoped this v literal (getScope globals)) (setField (index (getScope this) (str v)) C19LitG_%S literal (num 1)))", 1 },
	{ "{ v = fv_dict; v.os = \"lit\" }", "(dict 0 (setScoped this v literal (var fv_dict)) (setField (index (getScope this) (str v)) os literal (str lit)))", 0 },
	{ "{ *(&globals.C19Global) = 9 }", "(dict 0 (setDeref (ref (index (getScope globals) (str C19Global))) literal (num 9)))", 1 },
	{ "{ get_object(Host, \"c19-host\").display_name = \"lit\" }", "(dict 0 (setField (obj c19-host) display_name literal (str lit)))", 1 },
	{ "{ get_object(Host, \"c19-host\").vars.os = \"lit\" }", "(dict 0 (setField (index (obj c19-host) (str vars)) os literal (str lit)))", 1 },
	{ "{ locals.c19_ll = 1 }", "(dict 0 (setScoped locals c19_ll literal (num 1)))", 1 },
	{ "{ this.a = 1 }", "(dict 0 (setScoped this a literal (num 1)))", 1 },
	{ "{ a = 1; b = a + 1 }", "(dict 0 (setScoped this a literal (num 1)) (setScoped this b literal (num 2)))", 1 },
	{ "{ a += 1 }", "(dict 0 (setScoped this a add (num 1)))", 1 },
	{ "{ var c19_dv = 1 }", "(dict 0 (setScoped locals c19_dv literal (num 1)))", 1 },
	{ "{ const C19LitC_%S = 1 }", "(dict 0 (setConst C19LitC_%S (num 1)))", 1 },
	{ "{ function c19_lf_%S() { globals.C19Global = 1 } }", "(dict 0 (setScoped this c19_lf_%S literal (function c19_lf_%S (setScoped globals C19Global literal (num 1)))))", 1 },
	{ "{ a = (() => { globals.C19LitF_%S = 1 })() }", "(dict 0 (setScoped this a literal (call (function lambda (setScoped globals C19LitF_%S literal (num 1))))))", 1 },
	{ "C19Arr.map((x) => { { globals.C19LitM_%S = x } })", "(mcall (var C19Arr) map (function lambda (num 1)))", 0 },
	{ "if (true) { { globals.C19LitIf_%S = 1 } }", "(cond (bool 1) (dict 1 (dict 0 (setScoped globals C19LitIf_%S literal (num 1)))))", 1 },
	{ "try { { globals.C19LitT_%S = 1 } } except { { globals.C19LitE_%S = 1 } }", "(tryExcept (dict 1 (dict 0 (setScoped globals C19LitT_%S literal (num 1)))) (dict 1 (dict 0 (setScoped globals C19LitE_%S literal (num 1)))))", 1 },
	/* method calls whose RECEIVER is a hidden attribute (the receiver is resolved by IndexerExpression::GetReference, not by
	 * IndexerExpression::DoEvaluate: expression.cpp:748-799) and type-constructor calls (they run before the whitelist test) */
	{ "get_object(ApiUser, \"c19-user\").password.len()", "(mcall (index (obj c19-user) (str password)) len)", 1 },
	{ "get_object(ApiUser, \"c19-user\").password.contains(\"S\")", "(mcall (index (obj c19-user) (str password)) contains (str S))", 1 },
	{ "get_object(ApiUser, \"c19-user\").password.split(\"\")", "(mcall (index (obj c19-user) (str password)) split (str))", 1 },
	{ "get_object(ApiUser, \"c19-user\").password.upper()", "(mcall (index (obj c19-user) (str password)) upper)", 1 },
	{ "get_object(ApiUser, \"c19-user\")[\"password\"].lower()", "(mcall (index (obj c19-user) (str password)) lower)", 1 },
	{ "get_object(ApiUser, \"c19-user\").password.to_string()", "(mcall (index (obj c19-user) (str password)) to_string)", 1 },
	{ "get_object(ApiUser, \"c19-user\").password_hash.len()", "(mcall (index (obj c19-user) (str password_hash)) len)", 1 },
	{ "get_object(ApiUser, \"c19-user\").password.len.call(get_object(ApiUser, \"c19-user\").password)", "(mcall (index (index (obj c19-user) (str password)) (str len)) call (index (obj c19-user) (str password)))", 1 },
	{ "String(get_object(ApiUser, \"c19-user\").password)", "(call (type String) (index (obj c19-user) (str password)))", 1 },
	{ "Array(get_object(ApiUser, \"c19-user\").password)", "(call (type Array) (index (obj c19-user) (str password)))", 1 },
	{ "String(log(\"x\"))", "(call (type String) (call (fn System#log) (str x)))", 1 },
	/* unsafe natives as callbacks of every higher-order safe native */
	{ "[ \"C19Global\" ].map(globals.remove)", "(mcall (array (str C19Global)) map (index (getScope globals) (str remove)))", 1 },
	{ "[ \"C19Global\" ].filter(globals.remove)", "(mcall (array (str C19Global)) filter (index (getScope globals) (str remove)))", 1 },
	{ "[ \"C19Global\" ].any(globals.remove)", "(mcall (array (str C19Global)) any (index (getScope globals) (str remove)))", 1 },
	{ "[ \"C19Global\" ].all(globals.remove)", "(mcall (array (str C19Global)) all (index (getScope globals) (str remove)))", 1 },
	{ "[ \"C19HofR_%S\", 42 ].reduce(globals.set)", "(mcall (array (str C19HofR_%S) (num 42)) reduce (index (getScope globals) (str set)))", 1 },
	{ "[ \"C19HofS_%S\", 42 ].sort(globals.set)", "(mcall (array (str C19HofS_%S) (num 42)) sort (index (getScope globals) (str set)))", 1 },
	{ "[ 1 ].map(log)", "(mcall (array (num 1)) map (fn System#log))", 1 },
	{ "[ 1 ].filter(log)", "(mcall (array (num 1)) filter (fn System#log))", 1 },
	{ "[ 1 ].any(log)", "(mcall (array (num 1)) any (fn System#log))", 1 },
	{ "[ 1 ].all(log)", "(mcall (array (num 1)) all (fn System#log))", 1 },
	{ "[ 1, 2 ].reduce(log)", "(mcall (array (num 1) (num 2)) reduce (fn System#log))", 1 },
	{ "[ 2, 1 ].sort(log)", "(mcall (array (num 2) (num 1)) sort (fn System#log))", 1 },
	{ "[ 9 ].map(C19Arr.add)", "(mcall (array (num 9)) map (index (var C19Arr) (str add)))", 1 },
	{ "[ get_object(Host, \"c19-host\") ].map((h) => { h.display_name = \"x\" })", "(mcall (array (num 1)) map (function lambda (num 1)))", 1 },
	{ "[ [ \"C19Nested_%S\", 1 ] ].map((p) => p.reduce(globals.set))", "(mcall (array (num 1)) map (function lambda (num 1)))", 1 },
	{ "[ \"C19Global\" ].map(globals.remove.call)", "(mcall (array (str C19Global)) map (index (index (getScope globals) (str remove)) (str call)))", 1 },
	/* method calls on a COMPUTED receiver (the callee is still an indexer: GetReference path, expression.cpp:454-455) */
	{ "(false || globals).set(\"C19CR_%S\", 1)", "(mcall (lor (bool 0) (getScope globals)) set (str C19CR_%S) (num 1))", 1 },
	{ "(true && C19Arr).add(1)", "(mcall (land (bool 1) (var C19Arr)) add (num 1))", 1 },
	{ "(null || C19Dict).remove(\"a\")", "(mcall (lor (empty) (var C19Dict)) remove (str a))", 1 },
	{ "[ globals ][0].set(\"C19CRi_%S\", 1)", "(mcall (getScope globals) set (str C19CRi_%S) (num 1))", 1 },
	{ "(false || get_object(Host, \"c19-host\")).modify_attribute(\"display_name\", \"cr\")", "(mcall (lor (bool 0) (obj c19-host)) modify_attribute (str display_name) (str cr))", 1 },
	{ "(C19Arr + null).add(1)", "(mcall (binop add (var C19Arr) (empty)) add (num 1))", 0 },
	{ "(get_object(Host, \"c19-host\").groups + null).sort()", "(mcall (var C19Arr) sort)", 0 },
	{ "(get_object(Host, \"c19-host\").vars.list - null).reverse()", "(mcall (var C19Arr) reverse)", 0 },
	{ "(get_object(Host, \"c19-host\").vars + null).keys()", "(mcall (var C19Dict) keys)", 0 },
	/* `using` imports: objects, dictionaries, namespaces */
	{ "using C19Dict\na", "(dict 1 (empty) (varIn (var C19Dict) a))", 1 },
	{ "using globals\nC19Global", "(dict 1 (empty) (varIn (getScope globals) C19Global))", 1 },
	{ "using get_object(Host, \"c19-host\")\ndisplay_name", "(dict 1 (empty) (varIn (obj c19-host) display_name))", 1 },
	{ "using get_object(ApiUser, \"c19-user\")\npassword", "(dict 1 (empty) (varIn (obj c19-user) password))", 1 },
	{ "using get_object(Host, \"c19-host\")\ndisplay_name = \"x\"", "(dict 1 (empty) (setVar display_name literal (str x)))", 1 },
	/* whitelisted functions on live shared containers (several arguments, unsorted): nothing may be edited in place */
	{ "len(intersection(get_object(Host, \"c19-host\").groups, [ \"x\" ])) > 0", "(binop greaterThan (call (fn System#len) (call (fn System#intersection) (index (obj c19-host) (str groups)) (array (str x)))) (num 0))", 0 },
	{ "intersection(C19Arr, [ 1, 2, 3 ])", "(call (fn System#intersection) (var C19Arr) (array (num 1) (num 2) (num 3)))", 1 },
	{ "intersection(get_object(Host, \"c19-host\").vars.list, [ \"a\" ], [ \"a\", \"b\" ])", "(call (fn System#intersection) (index (index (obj c19-host) (str vars)) (str list)) (array (str a)) (array (str a) (str b)))", 0 },
	{ "union(C19Arr, get_object(Host, \"c19-host\").vars.list)", "(call (fn System#union) (var C19Arr) (index (index (obj c19-host) (str vars)) (str list)))", 0 },
	{ "C19Arr.sort()", "(mcall (var C19Arr) sort)", 1 },
	{ "get_object(Host, \"c19-host\").vars.list.sort().reverse().unique().join(\",\")", "(mcall (mcall (mcall (mcall (index (index (obj c19-host) (str vars)) (str list)) sort) reverse) unique) join (str ,))", 0 },
	{ "C19Frozen.sort()", "(mcall (var C19Frozen) sort)", 0 },
	{ "intersection(fv_arr, [ \"a\" ])", "(call (fn System#intersection) (var fv_arr) (array (str a)))", 0 },
	{ "intersection(fv_groups, fv_global_arr, fv_arr)", "(call (fn System#intersection) (var fv_groups) (var fv_global_arr) (var fv_arr))", 0 },
	{ "fv_dict.keys().sort()", "(mcall (mcall (var fv_dict) keys) sort)", 0 },
	/* hidden values must not come back through any safe function */
	{ "get_object(ApiUser, \"c19-user\").password", "(index (obj c19-user) (str password))", 1 },
	{ "get_object(ApiUser, \"c19-user\")[\"password\"]", "(index (obj c19-user) (str password))", 1 },
	{ "get_object(ApiUser, \"c19-user\").clone().password", "(index (obj c19-user) (str password))", 0 },
	{ "Json.encode(get_object(ApiUser, \"c19-user\"))", "(call (fn Json#encode) (obj c19-user))", 0 },
	{ "Json.encode(get_objects(ApiUser))", "(call (fn Json#encode) (obj c19-user))", 0 },
	{ "string(get_object(ApiUser, \"c19-user\"))", "(call (fn System#string) (obj c19-user))", 0 },
	{ "get_object(ApiUser, \"c19-user\").to_string()", "(mcall (obj c19-user) to_string)", 0 },
	{ "get_object(ApiUser, \"c19-user\")", "(call (fn System#get_object) (type ApiUser) (str c19-user))", 0 },
	{ "[ get_object(ApiUser, \"c19-user\") ]", "(array (call (fn System#get_object) (type ApiUser) (str c19-user)))", 0 },
	{ "get_object(ApiUser, \"c19-user\").clone()", "(mcall (obj c19-user) clone)", 0 },
	{ "keys(get_object(ApiUser, \"c19-user\"))", "(call (fn System#keys) (obj c19-user))", 0 },
	{ "get_template(ApiUser, \"c19-user\")", "(call (fn System#get_template) (type ApiUser) (str c19-user))", 0 },
	{ "TicketSalt", "(var TicketSalt)", 0 },
};

static std::string Subst(std::string s, const std::string& site)
{
	for (;;) {
		size_t p = s.find("%S");
		if (p == std::string::npos) break;
		s.replace(p, 2, site);
	}
	for (;;) {
		size_t p = s.find("%D");
		if (p == std::string::npos) break;
		s.replace(p, 2, l_DataDir.CStr());
	}
	return s;
}

/* ---------------------------------------------------------------- nested programs (seeded) */

/* ho: contains a higher-order native call (outcome not compared); se: the parser counts it as having a side effect
 * (a value that is computed and not used is a compile-time error: config_parser.yy:274,727,747,769) */
struct Prog { std::string src, abs; bool ho; bool se = true; };

static Prog GenStmtRaw(Rng& rng, int depth, int& id);

/* needSE: the position demands a statement with a side effect (non-last statement of a block, any statement of a for body) */
static Prog GenStmt(Rng& rng, int depth, int& id, bool needSE = false)
{
	for (int i = 0; i < 6; i++) {
		Prog p = GenStmtRaw(rng, depth, id);
		if (p.se || !needSE) return p;
	}
	return { "log(\"x\")", "(call (fn System#log) (str x))", false, true };
}

static Prog Leaf(Rng& rng)
{
	switch (rng.below(4)) {
		case 0: return { "1", "(num 1)", false, false };
		case 1: return { "0", "(num 0)", false, false };
		case 2: return { "\"\"", "(str)", false, false };
		default: return { "C19Global", "(var C19Global)", false, false };
	}
}

static Prog GenExpr(Rng& rng, int depth, int& id)
{
	int k = (int)rng.below(depth > 0 ? 12 : 6);
	switch (k) {
		case 0: case 1: return Leaf(rng);
		case 2: return { "log(\"x\")", "(call (fn System#log) (str x))", false };
		case 3: return { "C19Arr.add(1)", "(mcall (var C19Arr) add (num 1))", false };
		case 4: return { "C19Dict.remove(\"a\")", "(mcall (var C19Dict) remove (str a))", false };
		case 5: return { "get_object(Host, \"c19-host\").modify_attribute(\"display_name\", \"n\")",
			"(mcall (obj c19-host) modify_attribute (str display_name) (str n))", false };
		case 6: { Prog l = Leaf(rng), r = GenExpr(rng, depth - 1, id);
			return { "(" + l.src + " && " + r.src + ")", "(land " + l.abs + " " + r.abs + ")", r.ho, false }; }
		case 7: { Prog l = Leaf(rng), r = GenExpr(rng, depth - 1, id);
			return { "(" + l.src + " || " + r.src + ")", "(lor " + l.abs + " " + r.abs + ")", r.ho, false }; }
		case 8: { Prog e = GenExpr(rng, depth - 1, id);
			return { "[ " + e.src + " ]", "(array " + e.abs + ")", e.ho, false }; }
		case 9: { Prog b = GenStmt(rng, depth - 1, id);
			return { "((x) => { " + b.src + " })(1)", "(call (function lambda (dict 1 " + b.abs + ")) (num 1))", b.ho }; }
		default: {
			static const char *hof[] = { "map", "filter", "any", "all", "sort", "reduce" };
			const char *m = hof[rng.below(6)];
			if (rng.below(3) == 0) {     /* an unsafe native as the callback */
				static const std::pair<const char *, const char *> cbs[] = {
					{ "log", "(fn System#log)" }, { "globals.set", "(index (getScope globals) (str set))" },
					{ "globals.remove", "(index (getScope globals) (str remove))" }, { "C19Arr.add", "(index (var C19Arr) (str add))" },
					{ "C19Dict.remove", "(index (var C19Dict) (str remove))" },
				};
				auto& cb = cbs[rng.below(5)];
				return { std::string("[ \"C19Global\", 1 ].") + m + "(" + cb.first + ")",
					std::string("(mcall (array (str C19Global) (num 1)) ") + m + " " + cb.second + ")", false };   /* the model interprets the higher-order natives */
			}
			Prog b = GenStmt(rng, depth - 1, id);
			return { std::string("C19Arr.") + m + "((x) => { " + b.src + " })",
				std::string("(mcall (var C19Arr) ") + m + " (function lambda (dict 1 " + b.abs + ")))", false };
		}
	}
}

static Prog GenStmtRaw(Rng& rng, int depth, int& id)
{
	int k = (int)rng.below(depth > 0 ? 14 : 8);
	std::string n = std::to_string(++id);
	if (rng.below(8) == 0) {          /* assignment as a member of a dictionary literal whose l-value leaves the literal */
		switch (rng.below(5)) {
			case 0: return { "{ globals.C19GenLit_" + n + " = 1 }", "(dict 0 (setScoped globals C19GenLit_" + n + " literal (num 1)))", false, false };
			case 1: return { "len({ k = 1; globals.C19Global = " + n + " })", "(call (fn System#len) (dict 0 (setScoped this k literal (num 1)) (setScoped globals C19Global literal (num " + n + "))))", false };
			case 2: return { "{ v = C19Dict; v.m" + n + " = 1 }", "(dict 0 (setScoped this v literal (var C19Dict)) (setField (index (getScope this) (str v)) m" + n + " literal (num 1)))", false, false };
			case 3: return { "{ v = get_object(Host, \"c19-host\").vars; v.g" + n + " = 1 }", "(dict 0 (setScoped this v literal (index (obj c19-host) (str vars))) (setField (index (getScope this) (str v)) g" + n + " literal (num 1)))", false, false };
			default: return { "{ a = { *(&globals.C19Global) = " + n + " } }", "(dict 0 (setScoped this a literal (dict 0 (setDeref (ref (index (getScope globals) (str C19Global))) literal (num " + n + ")))))", false, false };
		}
	}
	if (rng.below(8) == 0) {          /* assignment through missing keys, 2-3 levels */
		switch (rng.below(4)) {
			case 0: return { "get_object(Host, \"c19-host\").vars.g" + n + ".x = 1", "(setField (index (index (obj c19-host) (str vars)) (str g" + n + ")) x literal (num 1))", false };
			case 1: return { "globals.C19Gen_" + n + ".a.b = 1", "(setField (index (index (getScope globals) (str C19Gen_" + n + ")) (str a)) b literal (num 1))", false };
			case 2: return { "C19Dict.m" + n + ".x += 1", "(setField (index (var C19Dict) (str m" + n + ")) x add (num 1))", false };
			default: return { "(&globals.C19GenRef_" + n + ").set(1)", "(mcall (ref (index (getScope globals) (str C19GenRef_" + n + "))) set (num 1))", false };
		}
	}
	switch (k) {
		case 0: case 1: return GenExpr(rng, depth, id);
		case 2: return { "C19Global = 1", "(setVar C19Global literal (num 1))", false };
		case 3: return { "const C19N_" + n + " = 1", "(setConst C19N_" + n + " (num 1))", false };
		case 4: return { "globals.C19New_" + n + " = 1", "(setScoped globals C19New_" + n + " literal (num 1))", false };
		case 5: return { "get_object(Host, \"c19-host\").display_name = \"n\"", "(setField (obj c19-host) display_name literal (str n))", false };
		case 6: return { "throw \"x\"", "(throw (str x))", false };
		case 7: return { "var v_" + n + " = 1", "(setScoped locals v_" + n + " literal (num 1))", false };
		case 8: case 9: { Prog a = GenStmt(rng, depth - 1, id), b = GenStmt(rng, depth - 1, id);
			return { "try { " + a.src + " } except { " + b.src + " }", "(tryExcept (dict 1 " + a.abs + ") (dict 1 " + b.abs + "))", a.ho || b.ho }; }
		case 10: { Prog c = Leaf(rng), a = GenStmt(rng, depth - 1, id), b = GenStmt(rng, depth - 1, id);
			return { "if (" + c.src + ") { " + a.src + " } else { " + b.src + " }", "(cond " + c.abs + " (dict 1 " + a.abs + ") (dict 1 " + b.abs + "))", a.ho || b.ho }; }
		case 11: { Prog a = GenStmt(rng, depth - 1, id, true), b = GenStmt(rng, depth - 1, id), c = GenStmt(rng, depth - 1, id);
			return { "try { " + a.src + "; " + b.src + " } except { " + c.src + " }",
				"(tryExcept (dict 1 " + a.abs + " " + b.abs + ") (dict 1 " + c.abs + "))", a.ho || b.ho || c.ho }; }
		case 12: { Prog a = GenStmt(rng, depth - 1, id);
			return { "while (false) { " + a.src + " }", "(while (bool 0) (dict 1 " + a.abs + "))", a.ho }; }
		default: { Prog a = GenStmt(rng, depth - 1, id, true);
			/* the parser demands a side effect in a for body: lead with a call */
			return { "for (x in [ 1 ]) { log(x); " + a.src + " }",
				"(for x _ (array (num 1)) (dict 1 (call (fn System#log) (var x)) " + a.abs + "))", a.ho }; }
	}
}

/* ---------------------------------------------------------------- natives by reflection */

struct NativeRef { std::string name; std::string callee; bool safe; int arity; Function::Ptr fn; };

/* Message-independent observation of "a function that is not side-effect free was actually invoked": every
 * reflected native without the flag gets a counting wrapper around its callback (Setup). */
static void WrapUnsafe(const Function::Ptr& f)
{
	Function::Callback& cb = (*f).*get(RobFnCallback());
	Function::Callback orig = cb;
	cb = [orig](const std::vector<Value>& args) -> Value { l_UnsafeInvoked++; return orig(args); };
}

static std::string ReceiverFor(const std::string& prefix)
{
	static const std::map<std::string, std::string> m = {
		{ "String", "\"a,b\"" }, { "Number", "7" }, { "Boolean", "true" }, { "Array", "globals.C19Arr" },
		{ "Dictionary", "globals.C19Dict" }, { "Namespace", "globals.C19NsLive" }, { "Function", "System.log" },
		{ "Object", "get_object(Host, \"c19-host\")" }, { "ConfigObject", "get_object(Host, \"c19-host\")" },
		{ "Checkable", "get_object(Host, \"c19-host\")" }, { "DateTime", "DateTime(1000)" },
		{ "Reference", "(&C19Global)" }, { "Type", "Host" },
	};
	auto it = m.find(prefix);
	return it == m.end() ? "" : it->second;
}

static void CollectNs(const Namespace::Ptr& ns, const std::string& path, int depth, std::map<std::string, NativeRef>& out, std::set<const Object *>& seen)
{
	if (depth <= 0 || seen.count(ns.get())) return;
	seen.insert(ns.get());
	std::vector<std::pair<String, Value>> items;
	{
		ObjectLock olock(ns);
		for (const Namespace::Pair& kv : ns) items.emplace_back(kv.first, kv.second.Val);
	}
	for (auto& kv : items) {
		if (!kv.second.IsObject()) continue;
		Object::Ptr o = kv.second;
		std::string p = path.empty() ? std::string(kv.first.CStr()) : path + "." + kv.first.CStr();
		if (Function::Ptr f = dynamic_pointer_cast<Function>(o)) {
			std::string name = f->GetName().CStr();
			Array::Ptr args = f->GetArguments();
			if (!out.count(name))
				out[name] = { name, p, f->IsSideEffectFree(), args ? (int)args->GetLength() : 0, f };
		} else if (Namespace::Ptr sub = dynamic_pointer_cast<Namespace>(o)) {
			CollectNs(sub, p, depth - 1, out, seen);
		}
	}
}

static std::map<std::string, NativeRef> CollectNatives(int& skipped)
{
	std::map<std::string, NativeRef> out;
	std::set<const Object *> seen;
	CollectNs(ScriptGlobal::GetGlobals(), "", 5, out, seen);
	skipped = 0;
	for (const Type::Ptr& t : Type::GetAllTypes()) {
		Dictionary::Ptr proto = dynamic_pointer_cast<Dictionary>(t->GetPrototype());
		if (!proto) continue;
		std::vector<std::pair<String, Value>> items;
		{
			ObjectLock olock(proto);
			for (const Dictionary::Pair& kv : proto) items.emplace_back(kv.first, kv.second);
		}
		for (auto& kv : items) {
			Function::Ptr f = dynamic_pointer_cast<Function>(kv.second.IsObject() ? Object::Ptr(kv.second) : Object::Ptr());
			if (!f) continue;
			std::string name = f->GetName().CStr();
			if (out.count(name)) continue;
			size_t h = name.find('#');
			std::string recv = ReceiverFor(h == std::string::npos ? "" : name.substr(0, h));
			if (recv.empty()) { skipped++; continue; }
			Array::Ptr args = f->GetArguments();
			out[name] = { name, recv + "." + kv.first.CStr(), f->IsSideEffectFree(), args ? (int)args->GetLength() : 0, f };
		}
	}
	return out;
}

static const char *l_ArgPool[] = {
	"1", "\"c19-host\"", "globals.C19Arr", "globals.C19Dict", "get_object(Host, \"c19-host\")", "globals", "Host",
	"System.log", "(x) => x", "null", "true", "get_object(ApiUser, \"c19-user\")", "\"%D/victim.txt\"", "[ 3, 1, 2 ]",
	"globals.C19NsLive", "\"*\"", "0", "len", "ApiUser", "\"display_name\"",
};
static const int l_ArgPoolN = sizeof(l_ArgPool) / sizeof(l_ArgPool[0]);

static bool Dangerous(const std::string& name)
{
	static const char *bad[] = { "exit", "sleep", "shutdown", "restart", "daemon", "debug" };
	std::string l = name;
	for (auto& c : l) c = (char)tolower(c);
	for (auto b : bad) if (l.find(b) != std::string::npos) return true;
	return false;
}

/* ---------------------------------------------------------------- setup */

static void WriteFile(const std::string& p, const std::string& content)
{
	std::ofstream f(p);
	f << content;
}

static void PlantMarkers(const Object::Ptr& inst);

/* The live, shared containers a sandboxed script can reach: attributes of a config object, lists and dictionaries
 * nested in its vars, globals, a frozen array — all UNSORTED and with >= 2 elements, so that a "pure" function that
 * sorts/edits its argument in place shows up in the (order-sensitive) snapshot.  Called again after a detected change
 * so that one defect does not mask the next. */
static void ResetLiveState(bool hostPart)
{
	if (!Application::GetInstance() && l_App) *get(RobAppInstance()) = l_App;
	if (hostPart) {
		l_Host->SetGroups(new Array({ "zz-group", "aa-group", "mm-group" }));
		l_Host->SetVars(new Dictionary({ { "os", "Linux" }, { "list", new Array({ "c", "a", "b" }) },
			{ "nested", new Dictionary({ { "arr", new Array({ 3, 1, 2 }) }, { "d", new Dictionary({ { "k", "v" } }) } }) } }));
		return;
	}
	try {
		ScriptGlobal::Set("C19Global", 5);
		ScriptGlobal::Set("C19Arr", new Array({ 3, 1, 2 }));
		ScriptGlobal::Set("C19Dict", new Dictionary({ { "a", "x" }, { "sub", new Dictionary({ { "z", new Array({ 2, 1 }) } }) } }));
		Array::Ptr frozen = new Array({ 9, 7, 8 });
		frozen->Freeze();
		ScriptGlobal::Set("C19Frozen", frozen);
	} catch (const std::exception&) { }
}

static void Setup()
{
	for (const Type::Ptr& t : Type::GetAllTypes())
		for (int i = 0; i < t->GetFieldCount(); i++)
			if (t->GetFieldInfo(i).Attributes & FANoUserView) l_NuvFieldNames.insert(t->GetFieldInfo(i).Name);

	const char *d = getenv("VERIF_C19_DATADIR");      /* created by the parent, shared by all children */
	if (!d) { fprintf(stderr, "VERIF_C19_DATADIR not set\n"); _exit(2); }
	l_DataDir = d;
	Configuration::DataDir = l_DataDir;
	std::string dd = d;
	WriteFile(dd + "/victim.txt", "do not touch\n");
	WriteFile(dd + "/inc.conf", "globals.C19Included = 1\n");
	mkdir((dd + "/incdir").c_str(), 0755);
	WriteFile(dd + "/incdir/a.conf", "globals.C19IncludedRec = 1\n");
	mkdir((dd + "/zones").c_str(), 0755);
	mkdir((dd + "/zones/z1").c_str(), 0755);
	WriteFile(dd + "/zones/z1/a.conf", "globals.C19IncludedZone = 1\n");

	SetNow(1700000000.0);
	l_App = Application::GetInstance();

	l_Host = new Host();
	l_Host->SetName("c19-host");
	l_Host->SetDisplayName("c19 host");
	ResetLiveState(true);
	l_Host->Register();
	l_Host->SetActive(true);

	l_User = new ApiUser();
	l_User->SetName("c19-user");
	l_User->SetPassword(SECRET);
	l_User->SetPermissions(new Array({ "*" }));
	l_User->Register();

	/* a user whose permission for the queried type has a permission filter (a script function, as `{{ … }}` in
	 * an ApiUser's `permissions` yields): FilterUtility evaluates it next to the user's sandboxed filter */
	{
		std::unique_ptr<Expression> fe = ConfigCompiler::CompileText("<c19-permission-filter>", "{{ host.name != \"\" }}");
		ScriptFrame pframe(true);
		Value pfilter = fe->Evaluate(pframe);
		l_UserPF = new ApiUser();
		l_UserPF->SetName("c19-user-pf");
		l_UserPF->SetPassword(SECRET);
		l_UserPF->SetPermissions(new Array({ new Dictionary({ { "permission", "objects/query/Host" }, { "filter", pfilter } }), "console" }));
		l_UserPF->Register();
	}
	{
		int skipped = 0;
		for (auto& kv : CollectNatives(skipped))
			/* Function#call/#callv are trampolines (they only invoke their receiver, which carries its own wrapper) and
			 * FilterUtility itself uses `filter.call(this)` for permission filters outside the sandbox */
			if (!kv.second.safe && kv.first != "Function#call" && kv.first != "Function#callv") WrapUnsafe(kv.second.fn);
	}
	PlantMarkers(l_User);          /* same state whether or not an ApiUser line ran before */
	PlantMarkers(l_UserPF);

	ResetLiveState(false);
	ScriptGlobal::Set("C19NsLive", new Namespace());
	ScriptGlobal::Set("TicketSalt", "c19-salt");   /* a plain global: readable by design (not an attribute) */
}

/* ---------------------------------------------------------------- main */

/* Plant a recognisable value in every no_user_view field of an instance (type-directed). */
static void PlantMarkers(const Object::Ptr& inst)
{
	Type::Ptr t = inst->GetReflectionType();
	for (int i = 0; i < t->GetFieldCount(); i++) {
		Field f = t->GetFieldInfo(i);
		if (!(f.Attributes & FANoUserView)) continue;
		std::string tn = f.TypeName ? f.TypeName : "";
		try {
			if (tn == "String") inst->SetField(i, SECRET);
			else if (tn == "Number" || tn == "Timestamp") inst->SetField(i, NUM_MARKER);
			else if (tn == "Array") inst->SetField(i, new Array({ SECRET }));
			else if (tn == "Dictionary") inst->SetField(i, new Dictionary({ { "k", SECRET } }));
		} catch (const std::exception&) { }
	}
}

static Object::Ptr TargetForH(const std::string& type)
{
	Object::Ptr inst;
	if (type == "ApiUser") inst = l_User;
	else {
		Type::Ptr t = Type::GetByName(type);
		if (!t) return nullptr;
		try { inst = t->Instantiate({}); } catch (const std::exception&) { return nullptr; }
	}
	if (inst) PlantMarkers(inst);
	return inst;
}

/* Every no_user_view field of every instantiable type, through every read path; whole-object serialisers once
 * per type.  Two visible fields per type as a control. */
/* "passwords and the ticket salt" (properties.jsonl C19): pinned in lean/IcingaModel/C19/Spec.lean `secretAttrs`; field "" = any field of the type */
static bool IsBaselineSecret(const std::string& type, const std::string& field)
{
	static const std::pair<const char *, const char *> base[] = {
		{ "ApiUser", "password" }, { "ApiUser", "password_hash" }, { "ApiListener", "ticket_salt" },
		{ "IdoMysqlConnection", "password" }, { "IdoPgsqlConnection", "password" }, { "IcingaDB", "password" },
	};
	for (auto& b : base)
		if (type == b.first && (field.empty() || field == b.second)) return true;
	return false;
}

static void GenHidden()
{
	std::vector<String> names;
	for (const Type::Ptr& t : Type::GetAllTypes()) names.push_back(t->GetName());
	std::sort(names.begin(), names.end());
	for (const String& tn : names) {
		Type::Ptr t = Type::GetByName(tn);
		if (t->IsAbstract()) continue;
		if (tn == "IcingaApplication" || tn == "Application") continue;   /* singletons with process-wide constructors */
		bool any = false;
		for (int i = 0; i < t->GetFieldCount(); i++)
			if (t->GetFieldInfo(i).Attributes & FANoUserView) any = true;
		if (!any && !IsBaselineSecret(tn.CStr(), "")) continue;
		if (!TargetForH(tn.CStr())) continue;
		int shown = 0;
		for (int i = 0; i < t->GetFieldCount(); i++) {
			Field f = t->GetFieldInfo(i);
			bool nuv = (f.Attributes & FANoUserView) != 0;
			std::string fn = f.Name;
			/* the attributes the property names outright are read whatever the implementation's flag says (Spec.lean `secretAttrs`) */
			bool base = IsBaselineSecret(tn.CStr(), fn);
			if (!nuv && !base && shown >= 2) continue;
			if (!nuv && !base) shown++;
			const std::pair<const char *, std::string> paths[] = {
				{ "dot", "obj." + fn },
				{ "idx", "obj[\"" + fn + "\"]" },
				{ "deref", "*(&obj." + fn + ")" },
				{ "refget", "(&obj." + fn + ").get()" },
				{ "derefidx", "*(&obj[\"" + fn + "\"])" },
				{ "using", "using obj\n" + fn },                                   /* bare identifier through an import */
				{ "usingexpr", "using obj\n[ " + fn + " ]" },
				{ "usingcall", "using obj\nstring(" + fn + ")" },
				{ "forin", "for (k => v in obj) { if (k == \"" + fn + "\") { log(v) } }" },
				{ "getfield", "obj.get(\"" + fn + "\")" },
				/* the field as RECEIVER of a method call (resolved through IndexerExpression::GetReference) and as constructor argument */
				{ "mlen", "obj." + fn + ".len()" },
				{ "mcontains", "obj." + fn + ".contains(\"S\")" },
				{ "mtostr", "obj." + fn + ".to_string()" },
				{ "midxlen", "obj[\"" + fn + "\"].len()" },
				{ "mcall", "obj." + fn + ".len.call(obj." + fn + ")" },
				{ "ctor", "String(obj." + fn + ")" },
			};
			for (auto& pth : paths) {
				std::ostringstream op;
				op << "H fobj type=" << tn << " field=" << fn << " nuv=" << (nuv ? 1 : 0) << " how=" << pth.first;
				Observe(op.str(), "fobj", pth.second);
			}
		}
		/* serialisation natives on the whole object: nothing hidden may come back in the value */
		static const std::pair<const char *, const char *> ser[] = {
			{ "Json.encode(obj)", "(call (fn Json#encode) (var obj))" },
			{ "string(obj)", "(call (fn System#string) (var obj))" },
			{ "obj.to_string()", "(mcall (var obj) to_string)" },
			{ "keys(obj)", "(call (fn System#keys) (var obj))" },
			{ "Json.encode(obj.clone())", "(call (fn Json#encode) (mcall (var obj) clone))" },
			{ "Json.encode([ obj ])", "(call (fn Json#encode) (array (var obj)))" },
			{ "[ obj ].map(Json.encode)", "(mcall (array (var obj)) map (index (var Json) (str encode)))" },
			{ "[ obj ].join(\",\")", "(mcall (array (var obj)) join (str ,))" },
			{ "\"\" + obj", "(binop add (str) (var obj))" },
		};
		for (auto& sp : ser) {
			std::string abs = sp.second;
			for (auto& ch : abs) if (ch == ' ') ch = ',';
			if (std::string(sp.first) == "[ obj ].join(\",\")") abs = "(mcall,(array,(var,obj)),join,(str))";
			std::ostringstream op;
			op << "P fobj cmp=0 root=" << RootKind(sp.first) << " abs=" << abs << " type=" << tn;
			Observe(op.str(), "fobj", sp.first);
		}
	}
	/* registered objects through get_object at the value-returning site */
	static const char *gets[] = {
		"get_object(ApiUser, \"c19-user\").password", "get_object(ApiUser, \"c19-user\")[\"password\"]",
		"*(&get_object(ApiUser, \"c19-user\").password)", "(&get_object(ApiUser, \"c19-user\").password).get()",
		"get_objects(ApiUser)[0].password", "get_objects(ApiUser).map((u) => u.password)",
		"using get_object(ApiUser, \"c19-user\")\npassword", "using get_object(ApiUser, \"c19-user\")\nmatch(\"S3*\", password)",
		"using get_objects(ApiUser)[0]\n[ password, password_hash ]", "using fv_user\npassword",
		"fv_user.password", "*(&fv_user.password)",
	};
	for (const char *g : gets)
		for (const char *site : { "console", "complete", "filter", "filterpf", "event" }) {
			std::ostringstream op;
			op << "H " << site << " type=ApiUser field=password nuv=1 how=getobj";
			Observe(op.str(), site, g);
		}
}

static std::string Tok(const std::string& line, const std::string& key)
{
	size_t p = line.find(" " + key + "=");
	if (p == std::string::npos) return "";
	p += key.size() + 2;
	size_t e = line.find(' ', p);
	return line.substr(p, e == std::string::npos ? std::string::npos : e - p);
}

static const char *l_Sites[] = { "filter", "filterpf", "event", "console", "complete" };
static const int l_SitesN = 5;

/* Everything `gen` evaluates, as op lines (run in the generator child: nothing is evaluated here). */
static void GenLines(uint64_t seed, bool thorough)
{
	Rng rng(seed);
	int skipped = 0;
	std::map<std::string, NativeRef> natives = CollectNatives(skipped);
	{
		std::string t = "T natives";
		for (auto& kv : natives) t += " " + kv.first + "=" + (kv.second.safe ? "1" : "0");
		l_Lines.push_back(t);
		l_Lines.push_back("T skipped_prototype_methods " + std::to_string(skipped));
	}

	/* 1. canned programs, at every site */
	for (const Canned& c : l_Canned)
		for (const char *site : l_Sites) {
			std::string src = Subst(c.src, site), abs = Subst(c.abs, site);
			for (auto& ch : abs) if (ch == ' ') ch = ',';
			std::ostringstream op;
			op << "P " << site << " cmp=" << c.cmp << " root=" << RootKind(src) << " abs=" << abs;
			Observe(op.str(), site, src);
		}

	/* 1b. nested programs combining statement forms (guarded statements inside try/except inside lambdas
	 * passed to safe higher-order natives, conditionals, short-circuit operators, loops, assignments through
	 * missing keys, unsafe natives as callbacks) */
	{
		int nested = thorough ? 3000 : 500, id = 0;
		for (int i = 0; i < nested; i++) {
			Prog p;
			for (int t = 0; t < 20; t++) {     /* really nested: at least one block */
				p = GenStmt(rng, 2 + (int)rng.below(thorough ? 3 : 2), id);
				if (p.src.find('{') != std::string::npos) break;
			}
			const char *site = l_Sites[rng.below(l_SitesN)];
			std::string abs = p.abs;
			for (auto& ch : abs) if (ch == ' ') ch = ',';
			std::ostringstream op;
			op << "P " << site << " cmp=" << (p.ho ? 0 : 1) << " root=" << RootKind(p.src) << " abs=" << abs;
			Observe(op.str(), site, p.src);
		}
	}

	/* 1c. constructor calls of EVERY registered type (VMOps::ConstructorCall runs before the whitelist test,
	 * expression.cpp:463-474): no arguments and one argument, sites in rotation */
	{
		std::vector<String> tnames;
		for (const Type::Ptr& t : Type::GetAllTypes()) tnames.push_back(t->GetName());
		std::sort(tnames.begin(), tnames.end());
		int k = 0;
		for (const String& tn : tnames)
			for (const char *arg : { "", "1" }) {
				const char *site = l_Sites[k++ % l_SitesN];
				std::string src = std::string(tn.CStr()) + "(" + arg + ")";
				std::ostringstream op;
				op << "P " << site << " cmp=0 root=" << RootKind(src) << " abs=(call,(type," << tn << ")" << (*arg ? ",(num,1)" : "") << ")";
				Observe(op.str(), site, src);
			}
	}

	/* 1e. COMPUTED callees: FunctionCallExpression::DoEvaluate obtains the function either through GetReference (plain name,
	 * a.b, a[b], *r) or, for every other callee expression, through Evaluate (expression.cpp:454-461); the whitelist test
	 * (:481-482) must hold for BOTH.  Every callee-producing expression form x every kind of function without the flag
	 * (namespace/array/dictionary/object prototype methods, global functions, script closures) + flagged ones as controls. */
	{
		struct Fn { const char *src, *abs, *args, *absArgs; bool cmp; };
		static const Fn fns[] = {
			{ "globals.set", "(index (getScope globals) (str set))", "\"C19CC_%S\", 1", " (str C19CC_%S) (num 1)", true },
			{ "globals.remove", "(index (getScope globals) (str remove))", "\"C19Global\"", " (str C19Global)", true },
			{ "log", "(fn System#log)", "\"cc\"", " (str cc)", true },
			{ "C19Arr.add", "(index (var C19Arr) (str add))", "9", " (num 9)", true },
			{ "C19Arr.clear", "(index (var C19Arr) (str clear))", "", "", true },
			{ "C19Dict.remove", "(index (var C19Dict) (str remove))", "\"a\"", " (str a)", true },
			{ "C19Dict.set", "(index (var C19Dict) (str set))", "\"cc\", 1", " (str cc) (num 1)", true },
			{ "get_object(Host, \"c19-host\").vars.list.add", "(index (var C19Arr) (str add))", "\"cc\"", " (str cc)", true },
			{ "get_object(Host, \"c19-host\").modify_attribute", "(index (obj c19-host) (str modify_attribute))", "\"display_name\", \"cc\"", " (str display_name) (str cc)", true },
			{ "Internal.run_with_activation_context", "(fn System#log)", "() => { globals.C19CCa_%S = 1 }", " (str x)", false },
			{ "((x) => { globals.C19CCl_%S = x })", "(function lambda (setScoped globals C19CCl_%S literal (var x)))", "1", " (num 1)", true },
			{ "len", "(fn System#len)", "\"abc\"", " (str abc)", false },
			{ "C19Arr.len", "(index (var C19Arr) (str len))", "", "", false },
		};
		struct Wrap { const char *pre, *post, *absPre, *absPost; };
		static const Wrap wraps[] = {
			{ "(false || ", ")", "(lor (bool 0) ", ")" },
			{ "(true && ", ")", "(land (bool 1) ", ")" },
			{ "(null || ", ")", "(lor (empty) ", ")" },
			{ "(1 && \"x\" && ", ")", "(land (land (num 1) (str x)) ", ")" },
			{ "((false || false) || ", ")", "(lor (lor (bool 0) (bool 0)) ", ")" },
			{ "(false || (true && ", "))", "(lor (bool 0) (land (bool 1) ", "))" },
			{ "(&", ").get()", "(mcall (ref ", ") get)" },                 /* a call that RETURNS the function */
			{ "[ ", " ].reduce((a, b) => a)", "(mcall (array ", ") reduce (function lambda (var a)))" },
			{ "{{ ", " }}()", "(call (function lambda ", "))" },
		};
		int k = 0;
		for (const Fn& f : fns)
			for (const Wrap& w : wraps) {
				/* `&(lambda)` is not a reference; a lambda inside `{{ }}` etc. is fine */
				if (std::string(w.pre) == "(&" && f.src[0] == '(') continue;
				bool hoWrap = std::string(w.post).find("reduce") != std::string::npos || std::string(w.pre) == "{{ ";
				for (int s = 0; s < (thorough ? l_SitesN : 2); s++) {
					const char *site = l_Sites[(k++) % l_SitesN];
					std::string src = Subst(std::string(w.pre) + f.src + w.post + "(" + f.args + ")", site);
					std::string abs = Subst(std::string("(call ") + w.absPre + f.abs + w.absPost + f.absArgs + ")", site);
					for (auto& ch : abs) if (ch == ' ') ch = ',';
					std::ostringstream op;
					op << "P " << site << " cmp=" << ((f.cmp && !hoWrap) ? 1 : 0) << " root=" << RootKind(src) << " abs=" << abs;
					Observe(op.str(), site, src);
				}
			}
	}

	/* 1f. purely COMPUTATIONAL expressions over live shared containers: operators are free functions on values
	 * (lib/base/value-operators.cpp) and the operator nodes (expression.cpp:193-447) only combine their operands' values, so
	 * no expression built from operators alone - no assignment, no call - may change an attribute of a config object, a
	 * global or a shared container, whatever the operand types.  Every binary operator x operand pairs, chains
	 * `A op B op C` / `A op (B op C)` (the left operand of the outer node is then the inner node's result: a temporary for
	 * some operand types, one of the operands themselves for others), unary operators, and the result fed to `in`. */
	{
		struct Od { const char *src, *abs; bool live; };
		static const Od pool[] = {
			{ "get_object(Host, \"c19-host\").groups", "(var C19Arr)", true },
			{ "get_object(Host, \"c19-host\").vars.list", "(var C19Arr)", true },
			{ "globals.C19Arr", "(var C19Arr)", true },
			{ "globals.C19Frozen", "(var C19Arr)", true },
			{ "get_object(Host, \"c19-host\").vars", "(var C19Dict)", true },
			{ "globals.C19Dict", "(var C19Dict)", true },
			{ "null", "(empty)", false },
			{ "get_object(Host, \"c19-host\").vars.c19_unset", "(empty)", false },
			{ "[ \"x\" ]", "(array (str x))", false },
			{ "{ }", "(dict 0)", false },                       /* (a literal WITH members is an assignment: refused in a sandbox) */
			{ "1", "(num 1)", false },
			{ "\"s\"", "(str s)", false },
		};
		const int poolN = sizeof(pool) / sizeof(pool[0]);
		struct Op { const char *src, *abs; };
		static const Op ops[] = {
			{ "+", "binop add" }, { "-", "binop subtract" }, { "*", "binop multiply" }, { "/", "binop divide" }, { "%", "binop modulo" },
			{ "^", "binop xor" }, { "&", "binop binaryAnd" }, { "|", "binop binaryOr" }, { "<<", "binop shiftLeft" }, { ">>", "binop shiftRight" },
			{ "==", "binop equal" }, { "!=", "binop notEqual" }, { "<", "binop lessThan" }, { ">", "binop greaterThan" },
			{ "<=", "binop lessThanOrEqual" }, { ">=", "binop greaterThanOrEqual" }, { "in", "binop in_" }, { "!in", "binop notIn" },
			{ "&&", "land" }, { "||", "lor" },
		};
		const int opsN = sizeof(ops) / sizeof(ops[0]);
		int k = 0;
		/* cmp: + and - are decided by the operand TYPES alone (value-operators.cpp:208-298), which the model carries */
		auto emit = [&](const std::string& src, std::string abs, bool cmp = false) {
			const char *site = l_Sites[(k++) % l_SitesN];
			for (auto& ch : abs) if (ch == ' ') ch = ',';
			std::ostringstream op;
			op << "P " << site << " cmp=" << (cmp ? 1 : 0) << " root=" << RootKind(src) << " abs=" << abs;
			Observe(op.str(), site, src);
		};
		auto bin = [&](const Op& o, const std::string& a, const std::string& b) { return "(" + a + " " + o.src + " " + b + ")"; };
		auto binAbs = [&](const Op& o, const std::string& a, const std::string& b) { return std::string("(") + o.abs + " " + a + " " + b + ")"; };
		/* pairs: every operator x every ordered pair with a live operand */
		for (int o = 0; o < opsN; o++)
			for (int a = 0; a < poolN; a++)
				for (int b = 0; b < poolN; b++) {
					if (!pool[a].live && !pool[b].live) continue;
					/* quick tier: the comparison/bit operators on a seeded third of the pairs */
					if (!thorough && o >= 2 && o < 16 && rng.below(3) != 0) continue;
					emit(std::string(pool[a].src) + " " + ops[o].src + " " + pool[b].src, binAbs(ops[o], pool[a].abs, pool[b].abs), o < 2);
				}
		/* chains of three: exhaustive over the operand pool for the operators whose result can be a container (+, -, &&, ||)
		 * in all four combinations of two of them and both associations; seeded for the others */
		static const int cont[] = { 0, 1, 18, 19 };
		for (int oi = 0; oi < 4; oi++)
			for (int oj = 0; oj < 4; oj++) {
				if (!thorough && oi >= 2 && oj >= 2) continue;      /* && / || only: result is always one of the operands */
				for (int a = 0; a < poolN; a++)
					for (int b = 0; b < poolN; b++)
						for (int c = 0; c < poolN; c++) {
							if (!pool[a].live && !pool[b].live && !pool[c].live) continue;
							/* operands 1/3 (two live arrays) and 7 (unset) duplicate 0/2 and 6 in type: rotate them in the quick tier */
							if (!thorough && (oi != oj || oi >= 2) && rng.below(4) != 0) continue;
							if (!thorough && (a == 3 || b == 3 || c == 3 || a == 11 || b == 11 || c == 11) && rng.below(4) != 0) continue;
							const Op& o1 = ops[cont[oi]]; const Op& o2 = ops[cont[oj]];
							bool arith = oi < 2 && oj < 2;
							if ((a + b + c) % 5 == 4)                /* every fifth also as A op (B op C) */
								emit(std::string(pool[a].src) + " " + o1.src + " " + bin(o2, pool[b].src, pool[c].src),
									binAbs(o1, pool[a].abs, binAbs(o2, pool[b].abs, pool[c].abs)), arith);
							if ((oi < 2) == (oj < 2) && (oi < 2 || oi == oj))     /* same precedence class: left-associative as written */
								emit(std::string(pool[a].src) + " " + o1.src + " " + pool[b].src + " " + o2.src + " " + pool[c].src,
									binAbs(o2, binAbs(o1, pool[a].abs, pool[b].abs), pool[c].abs), arith);
							else
								emit(bin(o1, pool[a].src, pool[b].src) + " " + o2.src + " " + pool[c].src,
									binAbs(o2, binAbs(o1, pool[a].abs, pool[b].abs), pool[c].abs));
						}
			}
		int mixed = thorough ? 6000 : 700;
		for (int t = 0; t < mixed; t++) {
			int a = (int)rng.below(poolN), b = (int)rng.below(poolN), c = (int)rng.below(poolN), d = (int)rng.below(poolN);
			if (!pool[a].live && !pool[b].live && !pool[c].live) a = (int)rng.below(6);
			const Op& o1 = ops[rng.below(opsN)]; const Op& o2 = ops[rng.below(opsN)]; const Op& o3 = ops[rng.below(opsN)];
			switch (rng.below(4)) {
				case 0:     /* parenthesised left chain (precedence-independent) */
					emit(bin(o2, bin(o1, pool[a].src, pool[b].src), pool[c].src), binAbs(o2, binAbs(o1, pool[a].abs, pool[b].abs), pool[c].abs));
					break;
				case 1:     /* four operands, left-deep */
					emit(bin(o3, bin(o2, bin(o1, pool[a].src, pool[b].src), pool[c].src), pool[d].src),
						binAbs(o3, binAbs(o2, binAbs(o1, pool[a].abs, pool[b].abs), pool[c].abs), pool[d].abs));
					break;
				case 2:     /* as in a filter: membership in a concatenation */
					emit(std::string("\"x\" in ") + bin(o2, bin(o1, pool[a].src, pool[b].src), pool[c].src),
						"(binop in_ (str x) " + binAbs(o2, binAbs(o1, pool[a].abs, pool[b].abs), pool[c].abs) + ")");
					break;
				default:    /* unary operator / array literal / conditional around an operator node */
					switch (rng.below(3)) {
						case 0: emit("!" + bin(o1, pool[a].src, pool[b].src), "(unop logicalNegate " + binAbs(o1, pool[a].abs, pool[b].abs) + ")"); break;
						case 1: emit("[ " + bin(o1, pool[a].src, pool[b].src) + ", " + pool[c].src + " ]", "(array " + binAbs(o1, pool[a].abs, pool[b].abs) + " " + pool[c].abs + ")"); break;
						default: emit("if (" + bin(o1, pool[a].src, pool[b].src) + ") { " + bin(o2, pool[a].src, pool[c].src) + " } else { " + bin(o3, pool[b].src, pool[c].src) + " }",
							"(cond " + binAbs(o1, pool[a].abs, pool[b].abs) + " (dict 1 " + binAbs(o2, pool[a].abs, pool[c].abs) + ") (dict 1 " + binAbs(o3, pool[b].abs, pool[c].abs) + "))"); break;
					}
			}
		}
	}

	/* 1d. the /v1/events path with SEVERAL subscribers on one event: every unordered pair of a pool of filters (values,
	 * errors, refused statements, unsafe calls, hidden reads) and seeded larger subsets.  Every evaluation must be
	 * sandboxed whatever the other subscribers' filters did. */
	{
		struct EvF { std::string src, abs; bool cmp = true; };
		std::vector<EvF> pool = {
			{ "true", "(bool 1)" },
			{ "event.host == \"c19-host\"", "(binop equal (str c19-host) (str c19-host))" },
			{ "false", "(bool 0)" },
			{ "event.host.no_such_method()", "(mcall (str c19-host) no_such_method)" },
			{ "throw \"ev\"", "(throw (str ev))" },
			{ "1 / 0 > 0", "(binop greaterThan (binop divide (num 1) (num 0)) (num 0))" },
			{ "globals.C19Ev_a = 1", "(setScoped globals C19Ev_a literal (num 1))" },
			{ "C19Global = 77", "(setVar C19Global literal (num 77))" },
			{ "const C19EvC = 1", "(setConst C19EvC (num 1))" },
			{ "get_object(Host, \"c19-host\").display_name = \"ev\"", "(setField (obj c19-host) display_name literal (str ev))" },
			{ "get_object(Host, \"c19-host\").vars.os = \"ev\"", "(setField (index (obj c19-host) (str vars)) os literal (str ev))" },
			{ "log(\"ev\")", "(call (fn System#log) (str ev))" },
			{ "[ \"C19Global\" ].map(globals.remove)", "(mcall (array (str C19Global)) map (index (getScope globals) (str remove)))", false },
			{ "get_object(Host, \"c19-host\").modify_attribute(\"display_name\", \"ev\")", "(mcall (obj c19-host) modify_attribute (str display_name) (str ev))" },
			{ "match(\"S3CR*\", get_object(ApiUser, \"c19-user\").password)", "(call (fn System#match) (str S3CR*) (index (obj c19-user) (str password)))" },
			{ "get_object(ApiUser, \"c19-user\").password != \"\"", "(binop notEqual (index (obj c19-user) (str password)) (str))" },
			{ "while (true) { break }", "(while (bool 1) (break))" },
			{ "{ globals.C19Ev_lit = 1 }", "(dict 0 (setScoped globals C19Ev_lit literal (num 1)))" },
		};
		auto emit = [&](const std::vector<int>& idx) {
			std::string abs;
			std::vector<std::string> srcs;
			bool cmp = true;
			for (size_t i = 0; i < idx.size(); i++) {
				cmp = cmp && pool[idx[i]].cmp;
				std::string a = pool[idx[i]].abs;
				for (auto& ch : a) if (ch == ' ') ch = ',';
				abs += (i ? ";" : "") + a;
				srcs.push_back(pool[idx[i]].src);
			}
			ObserveEvents(std::string("E events cmp=") + (cmp ? "1" : "0") + " abs=" + abs, srcs);
		};
		int n = (int)pool.size();
		for (int i = 0; i < n; i++) emit({ i });
		for (int i = 0; i < n; i++)
			for (int j = i + 1; j < n; j++) emit({ i, j });
		int more = thorough ? 600 : 120;
		for (int t = 0; t < more; t++) {
			int k = 3 + (int)rng.below(4);
			std::vector<int> idx;
			while ((int)idx.size() < k) {
				int c = (int)rng.below(n);
				if (std::find(idx.begin(), idx.end(), c) == idx.end()) idx.push_back(c);
			}
			emit(idx);
		}
	}

	/* 2. hidden fields of every type, every read path */
	GenHidden();

	/* 3. every native reachable from the global namespace, type-directed + seeded arguments */
	std::vector<NativeRef> order;
	for (auto& kv : natives) if (!Dangerous(kv.first)) order.push_back(kv.second);
	for (auto& kv : natives) if (Dangerous(kv.first)) order.push_back(kv.second);
	int tuples = thorough ? 24 : 6;
	for (const NativeRef& nr : order) {
		for (int k = 0; k < tuples; k++) {
			std::string src = nr.callee + "(";
			int n = k == 0 ? nr.arity : (k == 1 ? 0 : (int)rng.below(nr.arity + 2));
			for (int i = 0; i < n; i++) {
				if (i) src += ", ";
				src += Subst(l_ArgPool[k == 0 ? (i * 7 + 1) % l_ArgPoolN : rng.below(l_ArgPoolN)], "x");
			}
			src += ")";
			const char *site = l_Sites[(k + (int)rng.below(l_SitesN)) % l_SitesN];
			std::ostringstream op;
			op << "N " << site << " name=" << nr.name << " safe=" << (nr.safe ? 1 : 0);
			Observe(op.str(), site, src);
		}
	}

	/* 3b. every WHITELISTED function / prototype method with a live shared container in every argument position
	 * (and as receiver), 1..3 arguments whatever arity it declares (variadic natives declare none) */
	static const char *live[] = {
		"get_object(Host, \"c19-host\").groups",           /* attribute of a config object */
		"get_object(Host, \"c19-host\").vars.list",        /* list nested in vars */
		"get_object(Host, \"c19-host\").vars.nested.arr",  /* two levels down */
		"globals.C19Arr",                                   /* global */
		"globals.C19Frozen",                                /* frozen array */
		"get_object(Host, \"c19-host\").vars",             /* dictionary attribute */
		"globals.C19Dict.sub",                              /* nested dictionary of a global */
	};
	static const char *filler[] = { "[ \"b\", \"a\" ]", "\"a\"", "1" };
	int liveN = sizeof(live) / sizeof(live[0]);
	for (const NativeRef& nr : order) {
		if (!nr.safe) continue;
		size_t hash = nr.name.find('#');
		bool method = nr.callee.find("\"a,b\"") == 0 || nr.callee.find("7.") == 0 || nr.callee.find("true.") == 0 ||
			nr.callee.find("globals.C19") == 0 || nr.callee.find("get_object(") == 0 || nr.callee.find("DateTime(") == 0 ||
			nr.callee.find("(&") == 0 || nr.callee.find("Host.") == 0 || nr.callee.find("System.log.") == 0;
		std::string prefix = hash == std::string::npos ? "" : nr.name.substr(0, hash);
		std::string mname = nr.callee.substr(nr.callee.rfind('.') + 1);
		int done = 0;
		for (int n = 1; n <= 3; n++)
			for (int pos = 0; pos < n; pos++)
				for (int c = 0; c < liveN; c++) {
					/* quick tier: a seeded third of the combinations beyond the first argument position */
					if (!thorough && n > 1 && pos > 0 && rng.below(3) != 0) continue;
					std::string src = nr.callee + "(";
					for (int i = 0; i < n; i++) {
						if (i) src += ", ";
						src += i == pos ? live[c] : filler[(i + c) % 3];
					}
					src += ")";
					const char *site = l_Sites[(done++ + c) % l_SitesN];
					std::ostringstream op;
					op << "N " << site << " name=" << nr.name << " safe=1";
					Observe(op.str(), site, src);
				}
		/* prototype methods of containers: the live containers as receiver */
		if (method && (prefix == "Array" || prefix == "Dictionary" || prefix == "Object"))
			for (int c = 0; c < liveN; c++) {
				bool isArr = c < 5;
				if ((prefix == "Array") != isArr && prefix != "Object") continue;
				for (int n = 0; n <= 2; n++) {
					std::string src = std::string(live[c]) + "." + mname + "(";
					for (int i = 0; i < n; i++) { if (i) src += ", "; src += filler[(i + c) % 3]; }
					src += ")";
					const char *site = l_Sites[(done++ + c) % l_SitesN];
					std::ostringstream op;
					op << "N " << site << " name=" << nr.name << " safe=1";
					Observe(op.str(), site, src);
				}
			}
	}
}

/* Evaluate one op line (executor child). */
static bool ExecLine(const std::string& line)
{
	if (line.size() > 3 && line[0] == 'E') {
		size_t sp2 = line.rfind(" src=");
		if (sp2 == std::string::npos) return false;
		std::vector<std::string> srcs;
		std::string hex = Tok(line, "src"), cur;
		for (char c : hex + ",") {
			if (c == ',') { srcs.push_back(UnHex(cur)); cur.clear(); } else cur += c;
		}
		if (srcs.empty()) return false;
		ObserveEvents(line.substr(0, sp2), srcs);
		return true;
	}
	if (line.size() < 3 || (line[0] != 'P' && line[0] != 'N' && line[0] != 'H')) return false;
	size_t sp = line.find(' ', 2);
	size_t sp2 = line.rfind(" src=");
	if (sp == std::string::npos || sp2 == std::string::npos) return false;
	std::string site = line.substr(2, sp - 2);
	std::string prefix = line.substr(0, sp2);
	Object::Ptr target;
	std::string type = Tok(line, "type");
	if (site == "fobj") {
		target = TargetForH(type.empty() ? "Host" : type);
		if (!target) return false;
		l_HaveBefore = false;            /* instantiation and marker planting are not under test */
	}
	Observe(prefix, site, UnHex(Tok(line, "src")), target);
	return true;
}

static int PerProgramAlarm()
{
	const char *e = getenv("VERIF_C19_ALARM");
	int v = e ? atoi(e) : 0;
	return v > 0 ? v : 20;
}

/* Run the op lines in forked children (see the header comment). */
static void RunBatch(const std::vector<std::string>& lines)
{
	volatile size_t *cur = (volatile size_t *)mmap(nullptr, 4096, PROT_READ | PROT_WRITE, MAP_SHARED | MAP_ANONYMOUS, -1, 0);
	if (cur == MAP_FAILED) { perror("mmap"); _exit(2); }
	size_t start = 0;
	int hangs = 0, deaths = 0;
	while (start < lines.size()) {
		fflush(stdout);
		cur[0] = start;
		cur[1] = 0;                          /* 1 = child finished the whole batch */
		pid_t pid = fork();
		if (pid < 0) { perror("fork"); _exit(2); }
		if (pid == 0) {
			signal(SIGALRM, SIG_DFL);
			alarm(120);                      /* start-up itself */
			InitIcinga();
			Setup();
			int secs = PerProgramAlarm();
			for (size_t i = start; i < lines.size(); i++) {
				cur[0] = i;
				alarm(secs);                 /* a hang of the real code ends the child with SIGALRM */
				if (!ExecLine(lines[i])) { alarm(0); fprintf(stderr, "bad line: %s\n", lines[i].substr(0, 200).c_str()); fflush(stdout); _exit(2); }
				fflush(stdout);
			}
			alarm(0);
			cur[1] = 1;
			fflush(stdout);
			_exit(0);
		}
		int status = 0;
		while (waitpid(pid, &status, 0) < 0 && errno == EINTR) { }
		if (cur[1] == 1) break;
		if (WIFEXITED(status) && WEXITSTATUS(status) == 2) _exit(2);   /* unreadable op line: usage error */
		size_t i = cur[0];
		int sig = WIFSIGNALED(status) ? WTERMSIG(status) : 0;          /* 0: the program made the process exit */
		/* a partially written line of the dead child may precede this one: start on a fresh line */
		printf("\nX %d %s\n", sig, lines[i].c_str());
		start = i + 1;
		deaths++;
		if (sig == SIGALRM) hangs++;
		if (hangs >= 4 || deaths >= 12) {
			/* the verdict is settled; do not spend the tier's budget on more of the same */
			printf("T aborted after %d hangs / %d deaths, %zu lines not run\n", hangs, deaths, lines.size() - start);
			break;
		}
	}
	fflush(stdout);
}

int main(int argc, char **argv)
{
	if (argc < 2) { fprintf(stderr, "usage: h_c19 gen|ops ...\n"); return 2; }
	static char outbuf[1 << 16];
	setvbuf(stdout, outbuf, _IOFBF, sizeof outbuf);

	/* the data directory all children share */
	char tmpl[256];
	snprintf(tmpl, sizeof tmpl, "%s/c19-data-XXXXXX", getenv("VERIF_C19_TMP") ? getenv("VERIF_C19_TMP") : "/tmp");
	char *dd = mkdtemp(tmpl);
	if (!dd) { perror("mkdtemp"); return 2; }
	setenv("VERIF_C19_DATADIR", dd, 1);
	std::string rm = "rm -rf '" + std::string(dd) + "'";

	std::vector<std::string> lines;
	std::string mode = argv[1];
	if (mode == "gen") {
		uint64_t seed = strtoull(argOr(argc, argv, "--seed", "1"), nullptr, 10);
		bool thorough = std::string(argOr(argc, argv, "--tier", "quick")) == "thorough";
		/* generator child: reflection + compilation need an initialised process, the parent stays clean */
		int fds[2];
		if (pipe(fds) != 0) { perror("pipe"); return 2; }
		pid_t pid = fork();
		if (pid < 0) { perror("fork"); return 2; }
		if (pid == 0) {
			close(fds[0]);
			alarm(300);
			InitIcinga();
			Setup();
			l_GenOnly = true;
			GenLines(seed, thorough);
			FILE *out = fdopen(fds[1], "w");
			for (auto& l : l_Lines) { fputs(l.c_str(), out); fputc('\n', out); }
			fflush(out);
			_exit(0);
		}
		close(fds[1]);
		FILE *in = fdopen(fds[0], "r");
		std::string cur;
		int ch;
		while ((ch = fgetc(in)) != EOF) {
			if (ch == '\n') { lines.push_back(cur); cur.clear(); } else cur += (char)ch;
		}
		fclose(in);
		int status = 0;
		while (waitpid(pid, &status, 0) < 0 && errno == EINTR) { }
		if (!WIFEXITED(status) || WEXITSTATUS(status) != 0 || lines.size() < 100) {
			fprintf(stderr, "generator child failed (status %d, %zu lines)\n", status, lines.size());
			if (system(rm.c_str())) { }
			return 3;
		}
	} else if (mode == "ops") {
		if (argc < 3) return 2;
		std::ifstream f(argv[2]);
		std::string line;
		while (std::getline(f, line)) {
			size_t bar = line.find(" | ");
			if (bar != std::string::npos) line = line.substr(0, bar);
			while (!line.empty() && (line.back() == ' ' || line.back() == '\r')) line.pop_back();
			if (line.empty() || line[0] == 'T') continue;
			if (line[0] == 'X') {                      /* `X <sig> <op line>`: replay the op line */
				size_t p1 = line.find(' ', 2);
				if (p1 == std::string::npos) continue;
				line = line.substr(p1 + 1);
			}
			lines.push_back(line);
		}
	} else {
		return 2;
	}

	std::vector<std::string> ops;
	for (auto& l : lines) {
		if (!l.empty() && l[0] == 'T') printf("%s\n", l.c_str());
		else ops.push_back(l);
	}
	RunBatch(ops);
	fflush(stdout);
	if (system(rm.c_str())) { }
	return 0;
}

/* C19 harness: evaluates programs in sandboxed script frames exactly as the production call sites
 * build them and reports, per program, what came out and whether protected state changed.
 *
 * Sites:  filter   FilterUtility::GetFilterTargets(qd, {type=Host, filter=<text>}, user)       (filterutility.cpp:268-271)
 *         event    ScriptFrame(true, new Namespace) + Sandboxed + FilterUtility::EvaluateFilter   (eventqueue.cpp:30-37)
 *         console  ConsoleHandler::ExecuteScriptHelper(..., sandboxed = true)                    (consolehandler.cpp:108-141)
 *         fobj     the `filter` frame with an arbitrary target object bound to `obj` (EvaluateFilter), for field reads
 *
 * Lines (text after " | " is the implementation's observation):
 *   P <site> cmp=<0|1> root=<class> abs=<s-expr, blanks as commas> src=<hex> | <outcome> chg=<g|-><o|-><f|-> leak=<0|1|2>
 *   N <site> name=<registered name> safe=<0|1> src=<hex>                     | <outcome> chg=... leak=..
 *   H <site> type=<T> field=<f> nuv=<0|1> src=<hex>                          | <outcome> chg=... leak=..
 *   T natives <name>=<0|1> ...                                                (the implementation's flags, one line)
 * outcome: ok | sandbox | hidden | err
 *
 * Modes:  gen --seed S --tier quick|thorough        ops FILE
 */
#include "common.hpp"
#include "base/array.hpp"
#include "base/configuration.hpp"
#include "base/dictionary.hpp"
#include "base/exception.hpp"
#include "base/function.hpp"
#include "base/namespace.hpp"
#include "base/scriptframe.hpp"
#include "base/scriptglobal.hpp"
#include "base/type.hpp"
#include "config/configcompiler.hpp"
#include "config/configitem.hpp"
#include "config/expression.hpp"
#include "icinga/user.hpp"
#include "remote/apiuser.hpp"
#include "remote/consolehandler.hpp"
#include "remote/eventqueue.hpp"
#include "remote/filterutility.hpp"
#include <boost/beast/http.hpp>
#include <dirent.h>
#include <fstream>
#include <functional>
#include <map>
#include <set>
#include <sys/stat.h>

using namespace icinga;
using namespace vh;
namespace bhttp = boost::beast::http;

/* private members, reached without touching the source (common.hpp) */
namespace vh {
VH_ROB_MEMBER(RobArrFrozen, Array, bool, m_Frozen)
VH_ROB_MEMBER(RobDictFrozen, Dictionary, bool, m_Frozen)
VH_ROB_MEMBER(RobNsFrozen, Namespace, std::atomic<bool>, m_Frozen)
VH_ROB_STATIC(RobExecScript, bool (*type)(bhttp::request<bhttp::string_body>&, bhttp::response<bhttp::string_body>&,
	const Dictionary::Ptr&, const String&, const String&, bool), ConsoleHandler, ExecuteScriptHelper)
}

static const char *SECRET = "S3CR3T-c19-pw";
static String l_DataDir;
static ApiUser::Ptr l_User;
static Host::Ptr l_Host;
static std::string l_Current;      /* the line being evaluated (for the exit hook) */
static bool l_Finished = false;

/* ---------------------------------------------------------------- canonical deep dump */

static void Dump(std::ostream& os, const Value& v, int depth, std::set<const Object *>& seen);

static void DumpObjectFields(std::ostream& os, const Object::Ptr& o, int depth, std::set<const Object *>& seen)
{
	Type::Ptr t = o->GetReflectionType();
	os << "<" << (t ? t->GetName() : String("?")) << ">{";
	if (t) {
		for (int i = 0; i < t->GetFieldCount(); i++) {
			Field f = t->GetFieldInfo(i);
			os << f.Name << "=";
			try {
				Dump(os, o->GetField(i), depth - 1, seen);
			} catch (const std::exception&) {
				os << "!";
			}
			os << ";";
		}
	}
	os << "}";
}

static void Dump(std::ostream& os, const Value& v, int depth, std::set<const Object *>& seen)
{
	if (!v.IsObject()) {
		if (v.IsEmpty() && !v.IsString()) os << "null";
		else if (v.IsNumber()) os << "n" << (double)v;
		else if (v.IsBoolean()) os << (v.ToBool() ? "T" : "F");
		else os << "s" << ((String)v).GetLength() << ":" << (String)v;
		return;
	}
	Object::Ptr o = v;
	if (depth <= 0) { os << "~"; return; }
	if (Function::Ptr f = dynamic_pointer_cast<Function>(o)) { os << "fn(" << f->GetName() << "," << f->IsSideEffectFree() << ")"; return; }
	if (ConfigObject::Ptr co = dynamic_pointer_cast<ConfigObject>(o)) { os << "obj(" << co->GetReflectionType()->GetName() << "!" << co->GetName() << ")"; return; }
	if (seen.count(o.get())) { os << "^"; return; }
	seen.insert(o.get());
	if (Namespace::Ptr ns = dynamic_pointer_cast<Namespace>(o)) {
		std::map<String, std::pair<Value, bool>> items;
		{
			ObjectLock olock(ns);
			for (const Namespace::Pair& kv : ns) items[kv.first] = { kv.second.Val, kv.second.Const };
		}
		os << "ns" << (((*ns).*get(RobNsFrozen())).load() ? "F" : "") << "{";
		for (auto& kv : items) { os << kv.first << (kv.second.second ? "!" : "") << "="; Dump(os, kv.second.first, depth - 1, seen); os << ";"; }
		os << "}";
	} else if (Dictionary::Ptr d = dynamic_pointer_cast<Dictionary>(o)) {
		std::map<String, Value> items;
		{
			ObjectLock olock(d);
			for (const Dictionary::Pair& kv : d) items[kv.first] = kv.second;
		}
		os << "d" << ((*d).*get(RobDictFrozen()) ? "F" : "") << "{";
		for (auto& kv : items) { os << kv.first << "="; Dump(os, kv.second, depth - 1, seen); os << ";"; }
		os << "}";
	} else if (Array::Ptr a = dynamic_pointer_cast<Array>(o)) {
		std::vector<Value> items;
		{
			ObjectLock olock(a);
			items.assign(a->Begin(), a->End());
		}
		os << "a" << ((*a).*get(RobArrFrozen()) ? "F" : "") << "[";
		for (auto& x : items) { Dump(os, x, depth - 1, seen); os << ","; }
		os << "]";
	} else if (Type::Ptr t = dynamic_pointer_cast<Type>(o)) {
		os << "type(" << t->GetName() << ")";
		Object::Ptr proto = t->GetPrototype();
		if (proto) { os << "proto="; Dump(os, proto, depth - 1, seen); }
	} else {
		DumpObjectFields(os, o, depth, seen);
	}
	seen.erase(o.get());
}

static std::string SnapGlobals()
{
	std::ostringstream os;
	std::set<const Object *> seen;
	Dump(os, ScriptGlobal::GetGlobals(), 7, seen);
	return os.str();
}

static std::string SnapObjects()
{
	std::ostringstream os;
	std::vector<String> names;
	for (const Type::Ptr& t : Type::GetAllTypes()) names.push_back(t->GetName());
	std::sort(names.begin(), names.end());
	for (const String& tn : names) {
		Type::Ptr t = Type::GetByName(tn);
		auto *ct = dynamic_cast<ConfigType *>(t.get());
		if (!ct) continue;
		std::map<String, ConfigObject::Ptr> objs;
		for (const ConfigObject::Ptr& o : ct->GetObjects()) objs[o->GetName()] = o;
		os << tn << "#" << objs.size() << "[";
		for (auto& kv : objs) {
			std::set<const Object *> seen;
			os << kv.first << ":";
			DumpObjectFields(os, kv.second, 6, seen);
		}
		os << "]";
		/* registries a config statement writes to */
		os << "items=" << ConfigItem::GetItems(t).size() << ";";
	}
	return os.str();
}

static void ListDir(const std::string& path, std::ostream& os)
{
	std::vector<std::string> names;
	if (DIR *d = opendir(path.c_str())) {
		while (dirent *e = readdir(d)) {
			std::string n = e->d_name;
			if (n != "." && n != "..") names.push_back(n);
		}
		closedir(d);
	}
	std::sort(names.begin(), names.end());
	for (auto& n : names) {
		std::string p = path + "/" + n;
		struct stat st;
		if (lstat(p.c_str(), &st) != 0) continue;
		if (S_ISDIR(st.st_mode)) { os << n << "/{"; ListDir(p, os); os << "}"; }
		else {
			std::ifstream f(p, std::ios::binary);
			std::string content((std::istreambuf_iterator<char>(f)), std::istreambuf_iterator<char>());
			os << n << ":" << st.st_size << ":" << std::hash<std::string>()(content) << ";";
		}
	}
}

static std::string SnapFiles()
{
	std::ostringstream os;
	ListDir(l_DataDir.CStr(), os);
	return os.str();
}

struct Snap { std::string g, o, f; };
static Snap TakeSnap() { return { SnapGlobals(), SnapObjects(), SnapFiles() }; }

/* ---------------------------------------------------------------- evaluation at the production call sites */

struct Outcome { std::string kind; std::string text; };

static std::string Classify(const std::string& msg)
{
	if (msg.find("Accessing the field") != std::string::npos && msg.find("is not allowed in sandbox mode") != std::string::npos)
		return "hidden";
	if (msg.find("sandbox mode") != std::string::npos || msg.find("must be side-effect free") != std::string::npos)
		return "sandbox";
	return "err";
}

static Outcome EvalFilterSite(const String& text)
{
	QueryDescription qd;
	qd.Types.insert("Host");
	qd.Permission = "objects/query/Host";
	Dictionary::Ptr query = new Dictionary({ { "type", "Host" }, { "filter", text } });
	try {
		std::vector<Value> res = FilterUtility::GetFilterTargets(qd, query, l_User);
		return { "ok", "targets=" + std::to_string(res.size()) };
	} catch (const std::exception& ex) {
		std::string m = DiagnosticInformation(ex, false).CStr();
		return { Classify(m), m };
	}
}

static Outcome EvalWithFrame(const String& text, bool allocLocals, const Object::Ptr& target, const String& varName)
{
	try {
		std::unique_ptr<Expression> expr = ConfigCompiler::CompileText("<C19>", text);
		Namespace::Ptr frameNS = new Namespace();
		ScriptFrame frame(allocLocals, frameNS);
		frame.Sandboxed = true;
		bool r = FilterUtility::EvaluateFilter(frame, expr.get(), target, varName);
		return { "ok", r ? "true" : "false" };
	} catch (const std::exception& ex) {
		std::string m = DiagnosticInformation(ex, false).CStr();
		return { Classify(m), m };
	}
}

/* Where does the secret occur in the console's JSON result?  bit 1: as the value of a key `password`
 * of a serialized object (the serializer dumped the object's fields); bit 0: anywhere else. */
static void FindSecret(const Value& v, const String& key, int& mask)
{
	if (v.IsObjectType<Dictionary>()) {
		Dictionary::Ptr d = v;
		ObjectLock olock(d);
		for (const Dictionary::Pair& kv : d) {
			if (std::string(kv.first.CStr()).find(SECRET) != std::string::npos) mask |= 1;
			FindSecret(kv.second, kv.first, mask);
		}
	} else if (v.IsObjectType<Array>()) {
		Array::Ptr a = v;
		ObjectLock olock(a);
		for (const Value& x : a) FindSecret(x, "", mask);
	} else if (v.IsString()) {
		String sv = v;
		if (std::string(sv.CStr()).find(SECRET) != std::string::npos)
			mask |= (key == "password" && sv == SECRET) ? 2 : 1;
	}
}

static int l_LeakMask = 0;

static Outcome EvalConsoleSite(const String& text)
{
	namespace http = boost::beast::http;
	http::request<http::string_body> request;
	http::response<http::string_body> response;
	Dictionary::Ptr params = new Dictionary();
	try {
		get(RobExecScript())(request, response, params, text, "c19-session", true);
	} catch (const std::exception& ex) {
		std::string m = DiagnosticInformation(ex, false).CStr();
		return { Classify(m), m };
	}
	std::string body = response.body();
	try {
		Dictionary::Ptr res = JsonDecode(body);
		Array::Ptr results = res->Get("results");
		Dictionary::Ptr r0 = results->Get(0);
		double code = r0->Get("code");
		if (code == 200) {
			FindSecret(r0->Get("result"), "", l_LeakMask);
			return { "ok", "" };
		}
		String status = r0->Get("status");
		return { Classify(status.CStr()), body };
	} catch (const std::exception&) {
		return { "err", body };
	}
}

static Outcome EvalAt(const std::string& site, const String& text, const Object::Ptr& target = nullptr)
{
	if (site == "filter") return EvalFilterSite(text);
	if (site == "console") return EvalConsoleSite(text);
	if (site == "event") {
		Dictionary::Ptr event = new Dictionary({ { "type", "CheckResult" }, { "host", "c19-host" }, { "timestamp", 1000 } });
		/* (a) the production entry point itself: EventQueue::ProcessEvent builds the sandboxed frame, evaluates
		 * the filter, swallows any error and enqueues the event when the filter held (eventqueue.cpp:30-56) */
		bool queued = false, compiled = false;
		try {
			std::unique_ptr<Expression> expr = ConfigCompiler::CompileText("<C19>", text);
			compiled = true;
			EventQueue::Ptr q = new EventQueue("c19-queue");
			q->SetTypes({ "CheckResult" });
			q->SetFilter(std::move(expr));
			int client = 0;
			q->AddClient(&client);
			q->ProcessEvent(event);
			queued = q->WaitForEvent(&client, 0) != nullptr;
			q->RemoveClient(&client);
		} catch (const std::exception& ex) {
			if (compiled) {
				std::string m = DiagnosticInformation(ex, false).CStr();
				return { "escaped", m };         /* ProcessEvent must never throw */
			}
		}
		/* (b) ProcessEvent hides the outcome, so the same frame is built once more to classify it */
		Outcome oc = EvalWithFrame(text, true, event, "event");
		if (queued && oc.kind != "ok")
			return { "inconsistent", "event was queued although the filter raised: " + oc.text };
		return oc;
	}
	/* fobj */
	return EvalWithFrame(text, false, target ? target : Object::Ptr(l_Host), "");
}

static std::string Hex(const std::string& s)
{
	static const char *d = "0123456789abcdef";
	std::string r;
	for (unsigned char c : s) { r += d[c >> 4]; r += d[c & 15]; }
	return r;
}

static std::string UnHex(const std::string& s)
{
	std::string r;
	for (size_t i = 0; i + 1 < s.size(); i += 2)
		r += (char)strtol(s.substr(i, 2).c_str(), nullptr, 16);
	return r;
}

static Snap l_Before;
static bool l_HaveBefore = false;

/* Evaluate, snapshot, print the observation. */
static void Observe(const std::string& opPrefix, const std::string& site, const std::string& src, const Object::Ptr& target = nullptr)
{
	if (!l_HaveBefore) { l_Before = TakeSnap(); l_HaveBefore = true; }
	l_Current = opPrefix + " src=" + Hex(src);
	l_LeakMask = 0;
	Outcome oc = EvalAt(site, src, target);
	Application::GetTP().Restart();      /* join anything the evaluation queued */
	Snap after = TakeSnap();
	char chg[4] = { after.g != l_Before.g ? 'g' : '-', after.o != l_Before.o ? 'o' : '-', after.f != l_Before.f ? 'f' : '-', 0 };
	/* leak: 0 none; 1 the secret is in a computed value or an error text; 2 only as the `password` field of
	 * a config object that the console serialized with all its fields */
	int leak = (oc.text.find(SECRET) != std::string::npos || (l_LeakMask & 1)) ? 1 : ((l_LeakMask & 2) ? 2 : 0);
	printf("%s | %s chg=%s leak=%d\n", l_Current.c_str(), oc.kind.c_str(), chg, leak);
	fflush(stdout);
	l_Before = after;
	l_Current.clear();
}

static std::string RootKind(const std::string& src)
{
	try {
		std::unique_ptr<Expression> expr = ConfigCompiler::CompileText("<C19>", src);
		Expression *e = expr.get();
		if (auto *d = dynamic_cast<DictExpression *>(e)) {
			auto& sub = d->GetExpressions();
			if (sub.size() == 1) e = sub[0].get();
		}
		String n = Utility::GetTypeName(typeid(*e));
		std::string s = n.CStr();
		size_t p = s.rfind("::");
		return p == std::string::npos ? s : s.substr(p + 2);
	} catch (const std::exception&) {
		return "ParseError";
	}
}

/* ---------------------------------------------------------------- canned programs: one per statement form */

struct Canned { const char *src; const char *abs; int cmp; };

/* %S is replaced by the site name (fresh names per site), %D by the data directory. */
static const Canned l_Canned[] = {
	/* assignments: every operator, every kind of left-hand side */
	{ "c19_x_%S = 1", "(setVar c19_x_%S literal (num 1))", 1 },
	{ "C19Global = 2", "(setVar C19Global literal (num 2))", 1 },
	{ "C19Global += 1", "(setVar C19Global add (num 1))", 1 },
	{ "C19Global -= 1", "(setVar C19Global subtract (num 1))", 1 },
	{ "C19Global *= 2", "(setVar C19Global multiply (num 2))", 1 },
	{ "C19Global /= 2", "(setVar C19Global divide (num 2))", 1 },
	{ "C19Global %= 2", "(setVar C19Global modulo (num 2))", 1 },
	{ "C19Global ^= 1", "(setVar C19Global xor (num 1))", 1 },
	{ "C19Global &= 1", "(setVar C19Global binaryAnd (num 1))", 1 },
	{ "C19Global |= 8", "(setVar C19Global binaryOr (num 8))", 1 },
	{ "globals.C19New_%S = 1", "(setScoped globals C19New_%S literal (num 1))", 1 },
	{ "globals.C19Global = 3", "(setScoped globals C19Global literal (num 3))", 1 },
	{ "globals[\"C19Global\"] = 3", "(setScoped globals C19Global literal (num 3))", 1 },
	{ "this.c19_t = 1", "(setScoped this c19_t literal (num 1))", 1 },
	{ "locals.c19_l = 1", "(setScoped locals c19_l literal (num 1))", 1 },
	{ "var c19_v = 1", "(setScoped locals c19_v literal (num 1))", 1 },
	{ "var c19_v += 1", "(setScoped locals c19_v add (num 1))", 1 },
	{ "C19Dict.k = 1", "(setField (var C19Dict) k literal (num 1))", 1 },
	{ "C19Dict[\"k\"] = 1", "(setField (var C19Dict) k literal (num 1))", 1 },
	{ "C19Dict.sub.k = 1", "(setField (index (var C19Dict) (str sub)) k literal (num 1))", 1 },
	{ "C19Arr[0] = 9", "(setField (var C19Arr) 0 literal (num 9))", 1 },
	{ "get_object(Host, \"c19-host\").display_name = \"changed\"", "(setField (obj c19-host) display_name literal (str changed))", 1 },
	{ "get_object(Host, \"c19-host\").vars.os = \"changed\"", "(setField (index (obj c19-host) (str vars)) os literal (str changed))", 1 },
	{ "get_object(Host, \"c19-host\").vars = null", "(setField (obj c19-host) vars literal (empty))", 1 },
	{ "System.Configuration.DataDir = \"/tmp\"", "(setField (index (var System) (str Configuration)) DataDir literal (str /tmp))", 1 },
	{ "TicketSalt = \"x\"", "(setVar TicketSalt literal (str x))", 1 },
	{ "{ a = 1 }", "(dict 0 (setScoped this a literal (num 1)))", 1 },
	/* const, namespace, function */
	{ "const C19Const_%S = 42", "(setConst C19Const_%S (num 42))", 1 },
	{ "const C19Global = \"%S\"", "(setConst C19Global (str %S))", 1 },
	{ "namespace C19Ns_%S { x = 1 }", "(setScoped globals C19Ns_%S literal (namespace (dict 0 (setVar x literal (num 1)))))", 1 },
	{ "function c19_f_%S() { return 1 }", "(setScoped this c19_f_%S literal (function c19_f_%S (return (num 1))))", 1 },
	{ "(x) => x", "(function lambda (var x))", 1 },
	{ "((x) => x)(1)", "(call (function lambda (var x)) (num 1))", 1 },
	{ "function (x) { globals.C19Global = x }", "(function anon (setScoped globals C19Global literal (var x)))", 1 },
	/* apply, object, template, import, include*, library */
	{ "apply Service \"c19-svc-%S\" to Host { check_command = \"dummy\"; assign where true }", "(apply Service Host (str c19-svc-%S))", 1 },
	{ "object Host \"c19-new-%S\" { check_command = \"dummy\" }", "(object (str Host) (str c19-new-%S))", 1 },
	{ "template Host \"c19-tpl-%S\" { }", "(object (str Host) (str c19-tpl-%S))", 1 },
	{ "import \"c19-template\"", "(import (str c19-template))", 1 },
	{ "include \"%D/inc.conf\"", "(include regular (str inc.conf))", 1 },
	{ "include_recursive \"%D/incdir\"", "(include recursive (str incdir))", 1 },
	{ "include_zones \"etc\", \"%D/zones\"", "(include zones (str zones))", 1 },
	{ "library \"c19lib\"", "(library (str c19lib))", 1 },
	/* loops and control flow */
	{ "for (x in [ 1, 2 ]) { log(x) }", "(for x _ (array (num 1) (num 2)) (dict 1))", 1 },
	{ "for (k => v in C19Dict) { log(k) }", "(for k v (var C19Dict) (dict 1))", 1 },
	{ "while (false) { log(1) }", "(while (bool 0) (dict 1))", 1 },
	{ "while (true) { C19Global += 1 }", "(while (bool 1) (setVar C19Global add (num 1)))", 1 },
	{ "if (true) { 1 } else { 2 }", "(cond (bool 1) (dict 1 (num 1)) (dict 1 (num 2)))", 1 },
	{ "if (false) { 1 }", "(cond (bool 0) (dict 1 (num 1)))", 1 },
	{ "try { throw \"x\" } except { 1 }", "(tryExcept (dict 1 (throw (str x))) (dict 1 (num 1)))", 1 },
	{ "try { C19Global = 7 } except { C19Global = 8 }", "(tryExcept (dict 1 (setVar C19Global literal (num 7))) (dict 1 (setVar C19Global literal (num 8))))", 1 },
	{ "try { const C19TryConst_%S = 1; throw \"x\" } except { 1 }", "(tryExcept (dict 1 (setConst C19TryConst_%S (num 1)) (throw (str x))) (dict 1 (num 1)))", 1 },
	{ "throw \"boom\"", "(throw (str boom))", 1 },
	{ "using System", "(empty)", 1 },
	{ "debugger", "(breakpoint)", 1 },
	/* pure expression forms */
	{ "1 + 2", "(binop add (num 1) (num 2))", 1 },
	{ "7 - 2 * 3 / 1 % 4", "(binop subtract (num 7) (binop modulo (binop divide (binop multiply (num 2) (num 3)) (num 1)) (num 4)))", 1 },
	{ "1 / 0", "(binop divide (num 1) (num 0))", 1 },
	{ "(5 ^ 1) & 7 | 8", "(binop binaryOr (binop binaryAnd (binop xor (num 5) (num 1)) (num 7)) (num 8))", 1 },
	{ "1 << 3 >> 1", "(binop shiftRight (binop shiftLeft (num 1) (num 3)) (num 1))", 1 },
	{ "1 == 1 && 2 != 3 && 1 < 2 && 2 > 1 && 1 <= 1 && 1 >= 1", "(land (land (land (land (land (binop equal (num 1) (num 1)) (binop notEqual (num 2) (num 3))) (binop lessThan (num 1) (num 2))) (binop greaterThan (num 2) (num 1))) (binop lessThanOrEqual (num 1) (num 1))) (binop greaterThanOrEqual (num 1) (num 1)))", 1 },
	{ "\"a\" in [ \"a\", \"b\" ] || \"c\" !in [ \"a\" ]", "(lor (binop in_ (str a) (array (str a) (str b))) (binop notIn (str c) (array (str a))))", 1 },
	{ "!true", "(unop logicalNegate (bool 1))", 1 },
	{ "~5", "(unop negate (num 5))", 1 },
	{ "[ 1, \"two\", [ 3 ] ]", "(array (num 1) (str two) (array (num 3)))", 1 },
	{ "{ }", "(dict 0)", 1 },
	{ "C19Global", "(var C19Global)", 1 },
	{ "c19_undefined_variable", "(var c19_undefined_variable)", 1 },
	{ "globals", "(getScope globals)", 1 },
	{ "locals", "(getScope locals)", 1 },
	{ "this", "(getScope this)", 1 },
	{ "globals.C19Global", "(index (getScope globals) (str C19Global))", 1 },
	{ "C19Dict.a", "(index (var C19Dict) (str a))", 1 },
	{ "&C19Global", "(ref C19Global)", 1 },
	{ "*&C19Global", "(deref (ref C19Global))", 1 },
	{ "String(1)", "(call (type String) (num 1))", 1 },
	{ "Array()", "(call (type Array))", 1 },
	{ "Dictionary()", "(call (type Dictionary))", 1 },
	{ "Host()", "(call (type Host))", 0 },
	{ "ApiUser()", "(call (type ApiUser))", 0 },
	{ "len(\"abc\")", "(call (fn System#len) (str abc))", 1 },
	{ "\"abc\".len()", "(mcall (str abc) len)", 1 },
	{ "log(\"x\")", "(call (fn System#log) (str x))", 1 },
	{ "C19Arr.add(1)", "(mcall (var C19Arr) add (num 1))", 1 },
	{ "C19Arr.len()", "(mcall (var C19Arr) len)", 1 },
	{ "C19Arr.map((x) => x)", "(mcall (var C19Arr) map (function lambda (var x)))", 0 },
	{ "C19Arr.map(log)", "(mcall (var C19Arr) map (fn System#log))", 0 },
	{ "C19Arr.sort((a, b) => { globals.C19Global = 9; a < b })", "(mcall (var C19Arr) sort (function lambda (var a)))", 0 },
	{ "log.call(null, \"x\")", "(mcall (fn System#log) call (empty) (str x))", 1 },
	{ "len.call(null, \"x\")", "(mcall (fn System#len) call (empty) (str x))", 1 },
	{ "get_object(Host, \"c19-host\").modify_attribute(\"display_name\", \"x\")", "(mcall (obj c19-host) modify_attribute (str display_name) (str x))", 1 },
	{ "get_object(Host, \"c19-host\").name", "(index (obj c19-host) (str name))", 1 },
	/* hidden values must not come back through any safe function */
	{ "get_object(ApiUser, \"c19-user\").password", "(index (obj c19-user) (str password))", 1 },
	{ "get_object(ApiUser, \"c19-user\")[\"password\"]", "(index (obj c19-user) (str password))", 1 },
	{ "get_object(ApiUser, \"c19-user\").clone().password", "(index (obj c19-user) (str password))", 0 },
	{ "Json.encode(get_object(ApiUser, \"c19-user\"))", "(call (fn Json#encode) (obj c19-user))", 0 },
	{ "Json.encode(get_objects(ApiUser))", "(call (fn Json#encode) (obj c19-user))", 0 },
	{ "string(get_object(ApiUser, \"c19-user\"))", "(call (fn System#string) (obj c19-user))", 0 },
	{ "get_object(ApiUser, \"c19-user\").to_string()", "(mcall (obj c19-user) to_string)", 0 },
	{ "get_object(ApiUser, \"c19-user\")", "(call (fn System#get_object) (type ApiUser) (str c19-user))", 0 },
	{ "[ get_object(ApiUser, \"c19-user\") ]", "(array (call (fn System#get_object) (type ApiUser) (str c19-user)))", 0 },
	{ "get_object(ApiUser, \"c19-user\").clone()", "(mcall (obj c19-user) clone)", 0 },
	{ "keys(get_object(ApiUser, \"c19-user\"))", "(call (fn System#keys) (obj c19-user))", 0 },
	{ "get_template(ApiUser, \"c19-user\")", "(call (fn System#get_template) (type ApiUser) (str c19-user))", 0 },
	{ "TicketSalt", "(var TicketSalt)", 0 },
};

static std::string Subst(std::string s, const std::string& site)
{
	for (;;) {
		size_t p = s.find("%S");
		if (p == std::string::npos) break;
		s.replace(p, 2, site);
	}
	for (;;) {
		size_t p = s.find("%D");
		if (p == std::string::npos) break;
		s.replace(p, 2, l_DataDir.CStr());
	}
	return s;
}

/* ---------------------------------------------------------------- nested programs (seeded) */

/* ho: contains a higher-order native call (outcome not compared); se: the parser counts it as having a side effect
 * (a value that is computed and not used is a compile-time error: config_parser.yy:274,727,747,769) */
struct Prog { std::string src, abs; bool ho; bool se = true; };

static Prog GenStmtRaw(Rng& rng, int depth, int& id);

/* needSE: the position demands a statement with a side effect (non-last statement of a block, any statement of a for body) */
static Prog GenStmt(Rng& rng, int depth, int& id, bool needSE = false)
{
	for (int i = 0; i < 6; i++) {
		Prog p = GenStmtRaw(rng, depth, id);
		if (p.se || !needSE) return p;
	}
	return { "log(\"x\")", "(call (fn System#log) (str x))", false, true };
}

static Prog Leaf(Rng& rng)
{
	switch (rng.below(4)) {
		case 0: return { "1", "(num 1)", false, false };
		case 1: return { "0", "(num 0)", false, false };
		case 2: return { "\"\"", "(str)", false, false };
		default: return { "C19Global", "(var C19Global)", false, false };
	}
}

static Prog GenExpr(Rng& rng, int depth, int& id)
{
	int k = (int)rng.below(depth > 0 ? 12 : 6);
	switch (k) {
		case 0: case 1: return Leaf(rng);
		case 2: return { "log(\"x\")", "(call (fn System#log) (str x))", false };
		case 3: return { "C19Arr.add(1)", "(mcall (var C19Arr) add (num 1))", false };
		case 4: return { "C19Dict.remove(\"a\")", "(mcall (var C19Dict) remove (str a))", false };
		case 5: return { "get_object(Host, \"c19-host\").modify_attribute(\"display_name\", \"n\")",
			"(mcall (obj c19-host) modify_attribute (str display_name) (str n))", false };
		case 6: { Prog l = Leaf(rng), r = GenExpr(rng, depth - 1, id);
			return { "(" + l.src + " && " + r.src + ")", "(land " + l.abs + " " + r.abs + ")", r.ho, false }; }
		case 7: { Prog l = Leaf(rng), r = GenExpr(rng, depth - 1, id);
			return { "(" + l.src + " || " + r.src + ")", "(lor " + l.abs + " " + r.abs + ")", r.ho, false }; }
		case 8: { Prog e = GenExpr(rng, depth - 1, id);
			return { "[ " + e.src + " ]", "(array " + e.abs + ")", e.ho, false }; }
		case 9: { Prog b = GenStmt(rng, depth - 1, id);
			return { "((x) => { " + b.src + " })(1)", "(call (function lambda (dict 1 " + b.abs + ")) (num 1))", b.ho }; }
		default: {
			static const char *hof[] = { "map", "filter", "any", "all", "sort", "reduce" };
			const char *m = hof[rng.below(6)];
			Prog b = GenStmt(rng, depth - 1, id);
			return { std::string("C19Arr.") + m + "((x) => { " + b.src + " })",
				std::string("(mcall (var C19Arr) ") + m + " (function lambda (dict 1 " + b.abs + ")))", true };
		}
	}
}

static Prog GenStmtRaw(Rng& rng, int depth, int& id)
{
	int k = (int)rng.below(depth > 0 ? 14 : 8);
	std::string n = std::to_string(++id);
	switch (k) {
		case 0: case 1: return GenExpr(rng, depth, id);
		case 2: return { "C19Global = 1", "(setVar C19Global literal (num 1))", false };
		case 3: return { "const C19N_" + n + " = 1", "(setConst C19N_" + n + " (num 1))", false };
		case 4: return { "globals.C19New_" + n + " = 1", "(setScoped globals C19New_" + n + " literal (num 1))", false };
		case 5: return { "get_object(Host, \"c19-host\").display_name = \"n\"", "(setField (obj c19-host) display_name literal (str n))", false };
		case 6: return { "throw \"x\"", "(throw (str x))", false };
		case 7: return { "var v_" + n + " = 1", "(setScoped locals v_" + n + " literal (num 1))", false };
		case 8: case 9: { Prog a = GenStmt(rng, depth - 1, id), b = GenStmt(rng, depth - 1, id);
			return { "try { " + a.src + " } except { " + b.src + " }", "(tryExcept (dict 1 " + a.abs + ") (dict 1 " + b.abs + "))", a.ho || b.ho }; }
		case 10: { Prog c = Leaf(rng), a = GenStmt(rng, depth - 1, id), b = GenStmt(rng, depth - 1, id);
			return { "if (" + c.src + ") { " + a.src + " } else { " + b.src + " }", "(cond " + c.abs + " (dict 1 " + a.abs + ") (dict 1 " + b.abs + "))", a.ho || b.ho }; }
		case 11: { Prog a = GenStmt(rng, depth - 1, id, true), b = GenStmt(rng, depth - 1, id), c = GenStmt(rng, depth - 1, id);
			return { "try { " + a.src + "; " + b.src + " } except { " + c.src + " }",
				"(tryExcept (dict 1 " + a.abs + " " + b.abs + ") (dict 1 " + c.abs + "))", a.ho || b.ho || c.ho }; }
		case 12: { Prog a = GenStmt(rng, depth - 1, id);
			return { "while (false) { " + a.src + " }", "(while (bool 0) (dict 1 " + a.abs + "))", a.ho }; }
		default: { Prog a = GenStmt(rng, depth - 1, id, true);
			/* the parser demands a side effect in a for body: lead with a call */
			return { "for (x in [ 1 ]) { log(x); " + a.src + " }",
				"(for x _ (array (num 1)) (dict 1 (call (fn System#log) (var x)) " + a.abs + "))", a.ho }; }
	}
}

/* ---------------------------------------------------------------- natives by reflection */

struct NativeRef { std::string name; std::string callee; bool safe; int arity; };

static std::string ReceiverFor(const std::string& prefix)
{
	static const std::map<std::string, std::string> m = {
		{ "String", "\"a,b\"" }, { "Number", "7" }, { "Boolean", "true" }, { "Array", "globals.C19Arr" },
		{ "Dictionary", "globals.C19Dict" }, { "Namespace", "globals.C19NsLive" }, { "Function", "System.log" },
		{ "Object", "get_object(Host, \"c19-host\")" }, { "ConfigObject", "get_object(Host, \"c19-host\")" },
		{ "Checkable", "get_object(Host, \"c19-host\")" }, { "DateTime", "DateTime(1000)" },
		{ "Reference", "(&C19Global)" }, { "Type", "Host" },
	};
	auto it = m.find(prefix);
	return it == m.end() ? "" : it->second;
}

static void CollectNs(const Namespace::Ptr& ns, const std::string& path, int depth, std::map<std::string, NativeRef>& out, std::set<const Object *>& seen)
{
	if (depth <= 0 || seen.count(ns.get())) return;
	seen.insert(ns.get());
	std::vector<std::pair<String, Value>> items;
	{
		ObjectLock olock(ns);
		for (const Namespace::Pair& kv : ns) items.emplace_back(kv.first, kv.second.Val);
	}
	for (auto& kv : items) {
		if (!kv.second.IsObject()) continue;
		Object::Ptr o = kv.second;
		std::string p = path.empty() ? std::string(kv.first.CStr()) : path + "." + kv.first.CStr();
		if (Function::Ptr f = dynamic_pointer_cast<Function>(o)) {
			std::string name = f->GetName().CStr();
			Array::Ptr args = f->GetArguments();
			if (!out.count(name))
				out[name] = { name, p, f->IsSideEffectFree(), args ? (int)args->GetLength() : 0 };
		} else if (Namespace::Ptr sub = dynamic_pointer_cast<Namespace>(o)) {
			CollectNs(sub, p, depth - 1, out, seen);
		}
	}
}

static std::map<std::string, NativeRef> CollectNatives(int& skipped)
{
	std::map<std::string, NativeRef> out;
	std::set<const Object *> seen;
	CollectNs(ScriptGlobal::GetGlobals(), "", 5, out, seen);
	skipped = 0;
	for (const Type::Ptr& t : Type::GetAllTypes()) {
		Dictionary::Ptr proto = dynamic_pointer_cast<Dictionary>(t->GetPrototype());
		if (!proto) continue;
		std::vector<std::pair<String, Value>> items;
		{
			ObjectLock olock(proto);
			for (const Dictionary::Pair& kv : proto) items.emplace_back(kv.first, kv.second);
		}
		for (auto& kv : items) {
			Function::Ptr f = dynamic_pointer_cast<Function>(kv.second.IsObject() ? Object::Ptr(kv.second) : Object::Ptr());
			if (!f) continue;
			std::string name = f->GetName().CStr();
			if (out.count(name)) continue;
			size_t h = name.find('#');
			std::string recv = ReceiverFor(h == std::string::npos ? "" : name.substr(0, h));
			if (recv.empty()) { skipped++; continue; }
			Array::Ptr args = f->GetArguments();
			out[name] = { name, recv + "." + kv.first.CStr(), f->IsSideEffectFree(), args ? (int)args->GetLength() : 0 };
		}
	}
	return out;
}

static const char *l_ArgPool[] = {
	"1", "\"c19-host\"", "globals.C19Arr", "globals.C19Dict", "get_object(Host, \"c19-host\")", "globals", "Host",
	"System.log", "(x) => x", "null", "true", "get_object(ApiUser, \"c19-user\")", "\"%D/victim.txt\"", "[ 3, 1, 2 ]",
	"globals.C19NsLive", "\"*\"", "0", "len", "ApiUser", "\"display_name\"",
};
static const int l_ArgPoolN = sizeof(l_ArgPool) / sizeof(l_ArgPool[0]);

static bool Dangerous(const std::string& name)
{
	static const char *bad[] = { "exit", "sleep", "shutdown", "restart", "daemon", "debug" };
	std::string l = name;
	for (auto& c : l) c = (char)tolower(c);
	for (auto b : bad) if (l.find(b) != std::string::npos) return true;
	return false;
}

/* ---------------------------------------------------------------- setup */

static void WriteFile(const std::string& p, const std::string& content)
{
	std::ofstream f(p);
	f << content;
}

static void Setup()
{
	char tmpl[256];
	snprintf(tmpl, sizeof tmpl, "%s/c19-data-XXXXXX", getenv("VERIF_C19_TMP") ? getenv("VERIF_C19_TMP") : "/tmp");
	char *d = mkdtemp(tmpl);
	if (!d) { perror("mkdtemp"); _exit(2); }
	l_DataDir = d;
	Configuration::DataDir = l_DataDir;
	std::string dd = d;
	WriteFile(dd + "/victim.txt", "do not touch\n");
	WriteFile(dd + "/inc.conf", "globals.C19Included = 1\n");
	mkdir((dd + "/incdir").c_str(), 0755);
	WriteFile(dd + "/incdir/a.conf", "globals.C19IncludedRec = 1\n");
	mkdir((dd + "/zones").c_str(), 0755);
	mkdir((dd + "/zones/z1").c_str(), 0755);
	WriteFile(dd + "/zones/z1/a.conf", "globals.C19IncludedZone = 1\n");

	SetNow(1700000000.0);

	l_Host = new Host();
	l_Host->SetName("c19-host");
	l_Host->SetDisplayName("c19 host");
	l_Host->SetVars(new Dictionary({ { "os", "Linux" } }));
	l_Host->Register();
	l_Host->SetActive(true);

	l_User = new ApiUser();
	l_User->SetName("c19-user");
	l_User->SetPassword(SECRET);
	l_User->SetPermissions(new Array({ "*" }));
	l_User->Register();

	ScriptGlobal::Set("C19Global", 5);
	ScriptGlobal::Set("C19Arr", new Array({ 3, 1, 2 }));
	ScriptGlobal::Set("C19Dict", new Dictionary({ { "a", "x" }, { "sub", new Dictionary() } }));
	ScriptGlobal::Set("C19NsLive", new Namespace());
	ScriptGlobal::Set("TicketSalt", "c19-salt");   /* a plain global: readable by design (not an attribute) */
}

static void ExitHook()
{
	if (!l_Finished) {
		/* something terminated the process from inside an evaluation */
		printf("%s | exited chg=g-- leak=0\n", l_Current.empty() ? "X" : l_Current.c_str());
		fflush(stdout);
	}
}

/* ---------------------------------------------------------------- main */

static void GenHidden()
{
	std::vector<String> names;
	for (const Type::Ptr& t : Type::GetAllTypes()) names.push_back(t->GetName());
	std::sort(names.begin(), names.end());
	for (const String& tn : names) {
		Type::Ptr t = Type::GetByName(tn);
		if (t->IsAbstract()) continue;
		if (tn == "IcingaApplication" || tn == "Application") continue;   /* singletons with process-wide constructors */
		bool any = false;
		for (int i = 0; i < t->GetFieldCount(); i++)
			if (t->GetFieldInfo(i).Attributes & FANoUserView) any = true;
		if (!any) continue;
		Object::Ptr inst;
		if (tn == "Host") inst = l_Host;
		else if (tn == "ApiUser") inst = l_User;
		else {
			try { inst = t->Instantiate({}); } catch (const std::exception&) { continue; }
		}
		if (!inst) continue;
		l_HaveBefore = false;     /* instantiation itself is not under test */
		int shown = 0;
		for (int i = 0; i < t->GetFieldCount(); i++) {
			Field f = t->GetFieldInfo(i);
			bool nuv = (f.Attributes & FANoUserView) != 0;
			if (!nuv && shown >= 2) continue;      /* two visible fields per type as a control */
			if (!nuv) shown++;
			for (int how = 0; how < 2; how++) {
				std::string src = how == 0 ? std::string("obj.") + f.Name : std::string("obj[\"") + f.Name + "\"]";
				std::ostringstream op;
				op << "H fobj type=" << tn << " field=" << f.Name << " nuv=" << (nuv ? 1 : 0);
				Observe(op.str(), "fobj", src, inst);
			}
		}
	}
}

static Object::Ptr TargetForH(const std::string& type)
{
	if (type == "Host") return l_Host;
	if (type == "ApiUser") return l_User;
	Type::Ptr t = Type::GetByName(type);
	if (!t) return nullptr;
	try { return t->Instantiate({}); } catch (const std::exception&) { return nullptr; }
}

static std::string Tok(const std::string& line, const std::string& key)
{
	size_t p = line.find(" " + key + "=");
	if (p == std::string::npos) return "";
	p += key.size() + 2;
	size_t e = line.find(' ', p);
	return line.substr(p, e == std::string::npos ? std::string::npos : e - p);
}

int main(int argc, char **argv)
{
	if (argc < 2) { fprintf(stderr, "usage: h_c19 gen|ops ...\n"); return 2; }
	InitIcinga();
	Setup();
	atexit(ExitHook);

	static const char *sites[] = { "filter", "event", "console" };
	std::string mode = argv[1];
	if (mode == "gen") {
		uint64_t seed = strtoull(argOr(argc, argv, "--seed", "1"), nullptr, 10);
		bool thorough = std::string(argOr(argc, argv, "--tier", "quick")) == "thorough";
		Rng rng(seed);

		int skipped = 0;
		std::map<std::string, NativeRef> natives = CollectNatives(skipped);
		printf("T natives");
		for (auto& kv : natives) printf(" %s=%d", kv.first.c_str(), kv.second.safe ? 1 : 0);
		printf("\nT skipped_prototype_methods %d\n", skipped);

		/* 1. canned programs, at every site */
		for (const Canned& c : l_Canned)
			for (const char *site : sites) {
				std::string src = Subst(c.src, site), abs = Subst(c.abs, site);
				for (auto& ch : abs) if (ch == ' ') ch = ',';
				std::ostringstream op;
				op << "P " << site << " cmp=" << c.cmp << " root=" << RootKind(src) << " abs=" << abs;
				Observe(op.str(), site, src);
			}

		/* 1b. nested programs combining statement forms (guarded statements inside try/except inside lambdas
		 * passed to safe higher-order natives, conditionals, short-circuit operators, loops) */
		{
			int nested = thorough ? 3000 : 400, id = 0;
			for (int i = 0; i < nested; i++) {
				Prog p;
				for (int t = 0; t < 20; t++) {     /* really nested: at least one block */
					p = GenStmt(rng, 2 + (int)rng.below(thorough ? 3 : 2), id);
					if (p.src.find('{') != std::string::npos) break;
				}
				const char *site = sites[rng.below(3)];
				std::string abs = p.abs;
				for (auto& ch : abs) if (ch == ' ') ch = ',';
				std::ostringstream op;
				op << "P " << site << " cmp=" << (p.ho ? 0 : 1) << " root=" << RootKind(p.src) << " abs=" << abs;
				Observe(op.str(), site, p.src);
			}
		}

		/* 2. hidden fields of every type */
		GenHidden();

		/* 3. every native reachable from the global namespace, type-directed + seeded arguments */
		std::vector<NativeRef> order;
		for (auto& kv : natives) if (!Dangerous(kv.first)) order.push_back(kv.second);
		for (auto& kv : natives) if (Dangerous(kv.first)) order.push_back(kv.second);
		int tuples = thorough ? 24 : 6;
		for (const NativeRef& nr : order) {
			for (int k = 0; k < tuples; k++) {
				std::string src = nr.callee + "(";
				int n = k == 0 ? nr.arity : (k == 1 ? 0 : (int)rng.below(nr.arity + 2));
				for (int i = 0; i < n; i++) {
					if (i) src += ", ";
					src += Subst(l_ArgPool[k == 0 ? (i * 7 + 1) % l_ArgPoolN : rng.below(l_ArgPoolN)], "x");
				}
				src += ")";
				const char *site = sites[(k + (int)rng.below(3)) % 3];
				std::ostringstream op;
				op << "N " << site << " name=" << nr.name << " safe=" << (nr.safe ? 1 : 0);
				Observe(op.str(), site, src);
			}
		}
	} else if (mode == "ops") {
		if (argc < 3) return 2;
		std::ifstream f(argv[2]);
		std::string line;
		while (std::getline(f, line)) {
			size_t bar = line.find(" | ");
			if (bar != std::string::npos) line = line.substr(0, bar);
			while (!line.empty() && (line.back() == ' ' || line.back() == '\r')) line.pop_back();
			if (line.empty()) continue;
			if (line[0] == 'T' || line[0] == 'X') continue;
			if (line[0] != 'P' && line[0] != 'N' && line[0] != 'H') { fprintf(stderr, "bad line: %s\n", line.c_str()); return 2; }
			size_t sp = line.find(' ', 2);
			std::string site = line.substr(2, sp - 2);
			std::string hex = Tok(line, "src");
			size_t sp2 = line.rfind(" src=");
			std::string prefix = line.substr(0, sp2);
			Object::Ptr target;
			if (line[0] == 'H') { target = TargetForH(Tok(line, "type")); l_HaveBefore = false; }
			Observe(prefix, site, UnHex(hex), target);
		}
	} else {
		return 2;
	}
	fflush(stdout);
	l_Finished = true;
	std::string rm = "rm -rf '" + std::string(l_DataDir.CStr()) + "'";
	if (system(rm.c_str())) { }
	_exit(0);
}

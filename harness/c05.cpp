/* C05 harness: drives real Host/Service objects and real Downtime objects (created either directly, as
 * test/icinga-checkresult.cpp does, or through the production path Downtime::AddDowntime ->
 * ConfigObjectUtility::CreateObject in a scratch data directory) under the virtual clock, fires the
 * registered start/cleanup timers with the timer pump, and prints one operation per line followed by
 * what the implementation did.
 *
 *   C <kind h|s> <prod 0|1|2> [<mca>]                                  new case: never-checked checkable with max_check_attempts
 *                                                                      <mca> (default 1; > 1: non-OK results first give SOFT states -
 *                                                                      the property does not depend on the state type); prod=1: the
 *                                                                      checkable and every downtime are created through
 *                                                                      ConfigObjectUtility::CreateObject / Downtime::AddDowntime;
 *                                                                      prod=2: additionally downtimes are scheduled through the
 *                                                                      API action `schedule-downtime` (ApiActions::ScheduleDowntime;
 *                                                                      those owned by a schedule still via AddDowntime) and removed
 *                                                                      by users through `remove-downtime` (ApiActions::RemoveDowntime);
 *                                                                      prod=3: like 1, but downtimes not owned by a schedule are
 *                                                                      scheduled through the external commands SCHEDULE_HOST_DOWNTIME /
 *                                                                      SCHEDULE_SVC_DOWNTIME (trigger given by its legacy id) and removed
 *                                                                      by users through DEL_HOST_DOWNTIME / DEL_SVC_DOWNTIME
 *                                                                      (ExternalCommandProcessor::Execute)
 *   A <id> <fixed> <start> <end> <dur> <trigBy> <owner> <now>          add downtime d<id> (entry_time = now)
 *   R <state> <te> <now>                                               ProcessCheckResult (exec start = end = te)
 *   T <now> <fired>                                                    clock := now, Timer::VerifFireDue(now); <fired> (0|1: the
 *                                                                      periodic start timer was among the due timers) is the
 *                                                                      implementation's own value, an oracle input (ignored on replay)
 *   X <id> <reason 1=user 2=config owner> <now>                        Downtime::RemoveDowntime
 *   P <paused 0|1> <now>                                               the checkable loses / regains authority
 *                                                                      (ConfigObject::SetAuthority): while it is paused no
 *                                                                      DowntimeStart/DowntimeEnd notification is requested
 *   observation:  | <rc> <depth> <inDowntime> <n> (<id> <trigger>)*n <m> (<ev> <id> <count>)*m
 *       rc: A 1 created / 0 not; R 1 accepted / 0 dropped; T 0; X 0 no such downtime / 1 removed / 2 refused
 *       ev: 1 DowntimeStart requested, 2 DowntimeEnd requested, 3 OnDowntimeTriggered, 4 OnDowntimeRemoved
 *
 * All times on the lines are relative to a per-case base (the process-wide virtual clock never runs
 * backwards, because the start timer of lib/icinga/downtime.cpp lives as long as the process): every
 * case begins at relative time 1000 with the "application start time" (default of last_state_change) at 990.
 *
 * Modes:  gen --seed S --tier quick|thorough      seeded generator (+ a small systematic part)
 *         ops FILE                                 replay the lines of FILE (text after '|' ignored)
 */
#include "common.hpp"
#include "base/configuration.hpp"
#include "icinga/checkcommand.hpp"
#include "icinga/downtime.hpp"
#include "icinga/externalcommandprocessor.hpp"
#include "icinga/notification.hpp"
#include "remote/apiaction.hpp"
#include "remote/configobjectutility.hpp"
#include <algorithm>
#include <map>
#include <set>

using namespace icinga;
using namespace vh;

static double g_Max = 0;        /* largest absolute virtual time used so far */
static double g_Base = 0;       /* absolute time of relative 0 of the current case */
static int g_CaseNo = 0;
static int g_Prod = 0;
static std::map<int, String> g_Names;   /* id -> downtime name (API-scheduled downtimes get generated names) */
static std::map<String, int> g_IdOf;
static std::map<String, std::vector<int>> g_Pending; /* signals of a downtime whose generated name is not known yet */
static Checkable::Ptr g_Obj;
static String g_HostName, g_SvcShort;
static std::map<std::pair<int, int>, int> g_Events; /* (ev, id) -> count, during the current op */
static std::set<int> g_Ids;     /* ids ever added in this case */

static void Clock(double abs)
{
	if (abs > g_Max)
		g_Max = abs;
	SetNow(abs);
}

static void ClockRel(long long rel) { Clock(g_Base + (double)rel); }

static String DtName(int id)
{
	auto it = g_Names.find(id);
	if (it != g_Names.end())
		return it->second;
	return g_Obj->GetName() + "!d" + Convert::ToString(id);
}

static int IdOfName(const String& name)
{
	auto it = g_IdOf.find(name);
	if (it != g_IdOf.end())
		return it->second;
	/* "<checkable>!d<id>" */
	String prefix = g_Obj ? g_Obj->GetName() + "!d" : String();
	if (!g_Obj || name.GetLength() <= prefix.GetLength() || name.SubStr(0, prefix.GetLength()) != prefix)
		return -1;
	String rest = name.SubStr(prefix.GetLength());
	for (char c : rest)
		if (c < '0' || c > '9')
			return -1; /* a generated (API) name whose UUID happens to begin with "d" */
	return atoi(rest.CStr());
}

static void Note(int ev, int id) { g_Events[{ev, id}]++; }

static bool CreateViaApi(const Type::Ptr& type, const String& fullName, const Dictionary::Ptr& attrs)
{
	String config = ConfigObjectUtility::CreateObjectConfig(type, fullName, false, nullptr, attrs);
	Array::Ptr errors = new Array();
	if (!ConfigObjectUtility::CreateObject(type, fullName, config, errors, nullptr)) {
		fprintf(stderr, "CreateObject %s failed: %s\n", fullName.CStr(), JsonEncode(errors).CStr());
		return false;
	}
	return true;
}

static void MakeChecker(bool host, int prod, int mca)
{
	g_CaseNo++;
	g_Prod = prod;
	g_HostName = "h" + Convert::ToString(g_CaseNo);
	g_SvcShort = "s";
	if (prod) {
		if (!CreateViaApi(Host::TypeInstance, g_HostName, new Dictionary({{"check_command", "c05cmd"}, {"max_check_attempts", mca}})))
			_exit(3);
		g_Obj = Host::GetByName(g_HostName);
		if (!host) {
			if (!CreateViaApi(Service::TypeInstance, g_HostName + "!" + g_SvcShort, new Dictionary({{"check_command", "c05cmd"}, {"max_check_attempts", mca}})))
				_exit(3);
			g_Obj = Service::GetByNamePair(g_HostName, g_SvcShort);
		}
		if (!g_Obj) { fprintf(stderr, "checkable missing after CreateObject\n"); _exit(3); }
		return;
	}
	Host::Ptr h = new Host();
	h->SetName(g_HostName);
	h->SetMaxCheckAttempts(mca);
	h->Register();
	h->PreActivate();
	h->Activate();
	h->SetAuthority(true);
	h->OnAllConfigLoaded();
	if (host) {
		g_Obj = h;
	} else {
		Service::Ptr s = new Service();
		s->SetHostName(g_HostName);
		s->SetShortName(g_SvcShort);
		s->SetName(g_HostName + "!" + g_SvcShort);
		s->SetMaxCheckAttempts(mca);
		s->Register();
		s->OnAllConfigLoaded();
		s->PreActivate();
		s->Activate();
		s->SetAuthority(true);
		g_Obj = s;
	}
}

static void EndCase()
{
	if (!g_Obj)
		return;
	for (int id : g_Ids) {
		try {
			Downtime::RemoveDowntime(DtName(id), false, DowntimeRemovedByConfigOwner);
		} catch (...) { }
	}
	g_Ids.clear();
	g_Names.clear();
	g_IdOf.clear();
	Host::Ptr host;
	Service::Ptr service;
	tie(host, service) = GetHostService(g_Obj);
	if (g_Prod) {
		Array::Ptr errors = new Array();
		if (!ConfigObjectUtility::DeleteObject(host, true, errors, nullptr))
			fprintf(stderr, "DeleteObject failed: %s\n", JsonEncode(errors).CStr());
	} else {
		if (service) {
			service->Deactivate();
			service->Unregister();
		}
		host->Deactivate();
		host->Unregister();
	}
	g_Obj = nullptr;
}

static int TakeStartTimerFired();

static void BeginCase(bool host, int prod, int mca = 1)
{
	EndCase();
	fflush(stdout); /* whole cases reach the output; this process is the only writer of its stdout and never forks */
	/* The process-wide clock never runs backwards (the start timer lives as long as the process). */
	Clock(g_Max + 5);
	Timer::VerifFireDue(g_Max);
	TakeStartTimerFired();
	g_Base = g_Max + 5 - 1000;
	Application::SetStartTime(g_Base + 990);
	ClockRel(990);
	MakeChecker(host, prod, mca);
	ClockRel(1000);
	g_Events.clear();
	printf("C %c %d %d\n", host ? 'h' : 's', prod, mca);
}

static void Observe(int rc)
{
	std::vector<std::pair<int, long long>> dts;
	for (const Downtime::Ptr& d : g_Obj->GetDowntimes()) {
		int id = IdOfName(d->GetName());
		double t = d->GetTriggerTime();
		dts.emplace_back(id, t == 0 ? 0LL : (long long)(t - g_Base));
	}
	std::sort(dts.begin(), dts.end());
	printf(" | %d %d %d %zu", rc, g_Obj->GetDowntimeDepth(), g_Obj->IsInDowntime() ? 1 : 0, dts.size());
	for (auto& p : dts)
		printf(" %d %lld", p.first, p.second);
	printf(" %zu", g_Events.size());
	for (auto& kv : g_Events)
		printf(" %d %d %d", kv.first.first, kv.first.second, kv.second);
	printf("\n");
	g_Events.clear();
	g_Pending.clear();
}

static void DoAdd(int id, int fixed, long long start, long long end, long long dur, int trigBy, int owner, long long now)
{
	printf("A %d %d %lld %lld %lld %d %d %lld", id, fixed, start, end, dur, trigBy, owner, now);
	ClockRel(now);
	int rc = 0;
	String name = DtName(id);
	Downtime::Ptr parent = trigBy ? Downtime::GetByName(DtName(trigBy)) : Downtime::Ptr();
	if (!g_Ids.count(id) && !Downtime::GetByName(name)) { /* an id is used once per case */
		try {
			if (g_Prod == 2 && !owner) {
				Dictionary::Ptr params = new Dictionary({
					{ "author", "a" }, { "comment", Convert::ToString(id) }, { "start_time", g_Base + start },
					{ "end_time", g_Base + end }, { "fixed", fixed != 0 }, { "duration", (double)dur }
				});
				if (parent) /* an unknown trigger name is answered with 404; a client passes none then */
					params->Set("trigger_name", parent->GetName());
				Dictionary::Ptr res = ApiAction::GetByName("schedule-downtime")->Invoke(g_Obj, params);
				if ((int)res->Get("code") == 200) {
					name = res->Get("name");
					g_Names[id] = name;
					g_IdOf[name] = id;
					for (int ev : g_Pending[name])
						g_Events[{ev, id}]++;
					g_Pending.clear();
				} else {
					fprintf(stderr, "schedule-downtime: %s\n", JsonEncode(res).CStr());
				}
			} else if (g_Prod == 3 && !owner) {
				Host::Ptr host;
				Service::Ptr service;
				tie(host, service) = GetHostService(g_Obj);
				std::vector<String> args;
				args.push_back(host->GetName());
				if (service)
					args.push_back(service->GetShortName());
				args.push_back(String(std::to_string((long long)(g_Base + start))));
				args.push_back(String(std::to_string((long long)(g_Base + end))));
				args.push_back(fixed ? "1" : "0");
				args.push_back(String(std::to_string(parent ? parent->GetLegacyId() : 0)));
				args.push_back(String(std::to_string(dur)));
				args.push_back("a");
				args.push_back(Convert::ToString(id));
				ExternalCommandProcessor::Execute(Utility::GetTime(), service ? "SCHEDULE_SVC_DOWNTIME" : "SCHEDULE_HOST_DOWNTIME", args);
				for (const Downtime::Ptr& d : g_Obj->GetDowntimes()) {
					if (d->GetComment() == Convert::ToString(id) && !g_IdOf.count(d->GetName())) {
						name = d->GetName();
						g_Names[id] = name;
						g_IdOf[name] = id;
						for (int ev : g_Pending[name])
							g_Events[{ev, id}]++;
						g_Pending.clear();
						break;
					}
				}
			} else if (g_Prod) {
				Downtime::AddDowntime(g_Obj, "a", Convert::ToString(id), g_Base + start, g_Base + end, fixed != 0, parent,
					(double)dur, owner ? "sd1" : "", "", "", name);
			} else {
				Host::Ptr host;
				Service::Ptr service;
				tie(host, service) = GetHostService(g_Obj);
				Downtime::Ptr d = new Downtime();
				d->SetHostName(host->GetName());
				if (service)
					d->SetServiceName(service->GetShortName());
				d->SetName(name);
				d->SetPackage("_api");
				d->SetAuthor("a");
				d->SetComment(Convert::ToString(id));
				d->SetStartTime(g_Base + start);
				d->SetEndTime(g_Base + end);
				d->SetFixed(fixed != 0);
				d->SetDuration((double)dur);
				d->SetEntryTime(Utility::GetTime());
				if (parent)
					d->SetTriggeredBy(parent->GetName());
				if (owner)
					d->SetConfigOwner("sd1");
				d->Register();
				d->OnAllConfigLoaded();
				d->PreActivate();
				d->Activate(true);
				if (parent) {
					Array::Ptr triggers = parent->GetTriggers();
					ObjectLock olock(triggers);
					if (!triggers->Contains(name))
						triggers->Add(name);
				}
			}
			Downtime::Ptr created = Downtime::GetByName(name);
			rc = created ? 1 : 0;
			if (rc) {
				g_Ids.insert(id);
				/* Downtime is HARunOnce: in production ApiListener::UpdateObjectAuthority (authority timer /
				 * daemon start) grants authority, which is what calls Downtime::Resume -> SetupCleanupTimer. */
				created->SetAuthority(true);
			}
		} catch (const std::exception& ex) {
			fprintf(stderr, "add failed: %s\n", DiagnosticInformation(ex, false).CStr());
			rc = 0;
		}
	}
	Observe(rc);
}

static void DoResult(int state, long long te, long long now)
{
	printf("R %d %lld %lld", state, te, now);
	ClockRel(now);
	CheckResult::Ptr cr = MakeCr((ServiceState)state, g_Base + te, g_Base + te, true);
	auto res = g_Obj->ProcessCheckResult(cr);
	Observe(res == Checkable::ProcessingResult::Ok ? 1 : 0);
}

/* Oracle for "the start timer was among the timers that fired": a fixed downtime on a checkable of its own whose
 * window contains every instant and whose trigger_time is reset after every pump.  The start timer's handler
 * triggers it, nothing else does.  When that periodic timer is due is not part of the property. */
static Downtime::Ptr g_Sentinel;

static int TakeStartTimerFired()
{
	int fired = g_Sentinel->GetTriggerTime() != 0 ? 1 : 0;
	g_Sentinel->SetTriggerTime(0);
	return fired;
}

static void DoPump(long long now)
{
	ClockRel(now);
	Timer::VerifFireDue(g_Base + (double)now);
	printf("T %lld %d", now, TakeStartTimerFired());
	Observe(0);
}

static void DoRemove(int id, int reason, long long now)
{
	printf("X %d %d %lld", id, reason, now);
	ClockRel(now);
	int rc;
	String name = DtName(id);
	if (!Downtime::GetByName(name)) {
		rc = 0;
		Downtime::RemoveDowntime(name, false, reason == 2 ? DowntimeRemovedByConfigOwner : DowntimeRemovedByUser, "u");
	} else if (g_Prod == 2 && reason != 2) {
		Dictionary::Ptr res = ApiAction::GetByName("remove-downtime")->Invoke(Downtime::GetByName(name),
			new Dictionary({ { "author", "u" } }));
		int code = res->Get("code");
		rc = code == 200 ? (Downtime::GetByName(name) ? 3 : 1) : (code == 400 ? 2 : 4);
	} else if (g_Prod == 3 && reason != 2) {
		Host::Ptr host;
		Service::Ptr service;
		tie(host, service) = GetHostService(g_Obj);
		ExternalCommandProcessor::Execute(Utility::GetTime(), service ? "DEL_SVC_DOWNTIME" : "DEL_HOST_DOWNTIME",
			{ String(std::to_string(Downtime::GetByName(name)->GetLegacyId())) });
		rc = Downtime::GetByName(name) ? 2 : 1; /* the refusal is logged, not reported */
	} else {
		try {
			Downtime::RemoveDowntime(name, false, reason == 2 ? DowntimeRemovedByConfigOwner : DowntimeRemovedByUser, "u");
			rc = Downtime::GetByName(name) ? 3 : 1;
		} catch (const invalid_downtime_removal_error&) {
			rc = 2;
		}
	}
	Observe(rc);
}

static void DoPause(int paused, long long now)
{
	printf("P %d %lld", paused, now);
	ClockRel(now);
	g_Obj->SetAuthority(!paused);
	Observe(0);
}

/* ------------------------------------------------------------------------------------------------ */

struct GenDt { int id, fixed; long long start, end, dur; int trigBy, owner; bool added = false, gone = false; };

static void GenCase(Rng& rng, bool thorough, int prod)
{
	bool host = rng.coin();
	/* half of the cases with max_check_attempts > 1: problems that are (still) SOFT */
	int mca = rng.coin() ? 1 : 2 + (int)rng.below(3);
	BeginCase(host, prod, mca);
	int n = 1 + (int)rng.below(5);
	std::vector<GenDt> dts;
	std::vector<long long> marks; /* boundary instants */
	for (int i = 1; i <= n; i++) {
		GenDt d;
		d.id = i;
		d.fixed = rng.below(5) < 3 ? (int)rng.below(2) : (rng.coin() ? 1 : 0);
		int shape = (int)rng.below(6);
		if (shape == 0 && !dts.empty()) { /* same window as an earlier one */
			d.start = dts[rng.below(dts.size())].start; d.end = dts[rng.below(dts.size())].end;
			if (d.end < d.start) std::swap(d.start, d.end);
		} else if (shape == 1 && !dts.empty()) { /* nested */
			const GenDt& o = dts[rng.below(dts.size())];
			long long len = o.end - o.start;
			d.start = o.start + (long long)rng.below((uint64_t)(len / 2 + 1));
			d.end = o.end - (long long)rng.below((uint64_t)(len / 2 + 1));
		} else if (shape == 2 && !dts.empty()) { /* adjacent: begins where another one ends */
			d.start = dts[rng.below(dts.size())].end; d.end = d.start + 1 + (long long)rng.below(30);
		} else {
			d.start = 995 + (long long)rng.below(40);
			d.end = d.start + (long long)rng.below(40);
		}
		if (d.end < d.start) d.end = d.start;
		d.dur = rng.below(6) == 0 ? 0 : (long long)rng.below(25);
		d.trigBy = (i > 1 && rng.below(2) == 0) ? 1 + (int)rng.below((uint64_t)(i - 1)) : 0;
		if (d.trigBy && rng.coin()) { /* chained downtimes mostly share the window of their trigger */
			d.start = dts[d.trigBy - 1].start;
			d.end = dts[d.trigBy - 1].end;
		}
		if (rng.below(40) == 0) d.trigBy = i + 1 + (int)rng.below(3); /* unknown trigger name */
		d.owner = rng.below(6) == 0;
		dts.push_back(d);
		for (long long b : {d.start, d.end, d.end + d.dur, d.start + d.dur})
			for (long long k = -1; k <= 1; k++) marks.push_back(b + k);
	}
	long long now = 1000, lastTe = 0;
	int steps = 4 + (int)rng.below(thorough ? 40 : 22);
	size_t nextAdd = 0;
	bool checkedFirst = rng.below(4) != 0; /* 3/4 of the cases start with a result */
	bool addFirst = rng.below(5) < 2;
	bool pausing = rng.below(3) == 0; /* a third of the cases pause / resume the checkable */
	bool skewed = rng.below(12) == 0; /* in one case in twelve some results carry an execution end in the future */
	bool paused = false;
	for (int s = 0; s < steps; s++) {
		/* time: stay, a boundary instant, or a small step */
		int tk = (int)rng.below(10);
		bool forceAdd = addFirst && nextAdd < dts.size() && !(s == 0 && checkedFirst);
		if (forceAdd) tk = 9; /* the clock never runs backwards; stay at the current instant */
		if (tk < 5) {
			std::vector<long long> later;
			for (long long m : marks) if (m >= now && m <= now + 40) later.push_back(m);
			if (!later.empty()) now = later[rng.below(later.size())];
		} else if (tk < 8) {
			now += (long long)rng.below(8);
		}
		int k = (int)rng.below(100);
		if (s == 0 && checkedFirst) k = 50;
		else if (forceAdd) k = 0; /* everything scheduled ahead of time */
		if (k < 30 && nextAdd < dts.size()) {
			GenDt& d = dts[nextAdd++];
			DoAdd(d.id, d.fixed, d.start, d.end, d.dur, d.trigBy, d.owner, now);
			d.added = true;
		} else if (k < 62) {
			int st = rng.below(5) < 2 ? 0 : (int)rng.below(4);
			long long te = rng.below(4) == 0 ? now - (long long)rng.below(6) : now;
			if (te < lastTe) te = lastTe;
			if (te > now) te = now;
			if (skewed && rng.below(5) == 0) te = now + 1 + (long long)rng.below(6); /* the checker's clock is ahead */
			if (te < lastTe) te = lastTe;
			lastTe = te;
			DoResult(st, te, now);
			marks.push_back(te + 1);
			for (auto& d : dts) if (!d.fixed) { marks.push_back(te + d.dur); marks.push_back(te + d.dur + 1); marks.push_back(te + d.dur - 1); }
		} else if (k < 88) {
			DoPump(now);
		} else if (k < 92 && pausing) {
			paused = !paused;
			DoPause(paused ? 1 : 0, now);
		} else if (k < 92) {
			DoPump(now);
		} else {
			int id = 1 + (int)rng.below((uint64_t)n);
			DoRemove(id, rng.below(4) == 0 ? 2 : 1, now);
		}
	}
	/* finally let everything expire */
	if (rng.coin()) {
		DoPump(now + 200);
	}
}

/* Small systematic part: one downtime, every placement of [add, result, pump, pump] instants on a grid
 * around the window. */
static void Systematic(bool thorough)
{
	const long long S = 1010, E = 1016;
	std::vector<long long> grid = {1004, 1009, 1010, 1011, 1015, 1016, 1017, 1021, 1022, 1027};
	for (int host = 0; host < 2; host++)
	for (int fixed = 0; fixed < 2; fixed++)
	for (int state = 0; state < 4; state += (thorough ? 1 : 2))
	for (size_t a = 0; a < grid.size(); a++)
	for (size_t r = a; r < grid.size(); r++)
	for (int order = 0; order < 2; order++) {
		BeginCase(host != 0, 0, (a + r) % 2 ? 3 : 1);
		int first = order ? state : 0;
		DoResult(first, 1000, 1000);
		DoAdd(1, fixed, S, E, 5, 0, 0, grid[a]);
		DoPump(grid[a]);
		DoResult(order ? 0 : state, grid[r], grid[r]);
		DoPump(grid[r]);
		for (size_t p = r; p < grid.size(); p++)
			DoPump(grid[p]);
	}
}

/* Systematic part for trigger chains: a trigger downtime P (fixed, scheduled ahead and started by the start timer or
 * created inside its window; or flexible, triggered by a non-OK result) with 2-3 downtimes chained to it (and
 * optionally one chained to the second of them), every subset of the chained ones removed (by a user, or - with a
 * window that is over before P starts - expired) before P takes effect.  What is left in P's `triggers` array then
 * are names of downtimes that no longer exist next to names of existing ones, in every arrangement. */
static void SystematicChains(bool thorough)
{
	int caseNo = 0;
	for (int pfixed = 1; pfixed >= 0; pfixed--)
	for (int nch = 2; nch <= 3; nch++)
	for (int mask = 0; mask < (1 << nch); mask++)        /* which chained downtimes disappear before P takes effect */
	for (int how = 0; how < 2; how++)                     /* 0: removed by a user, 1: expired */
	for (int grand = 0; grand < 2; grand++)
	for (int chfixed = 0; chfixed < (thorough ? 3 : 2); chfixed++) { /* chained ones: 0 flexible, 1 alternating, 2 fixed */
		if (mask == 0 && how == 1)
			continue;
		caseNo++;
		int prod = caseNo % 5 == 0 ? 1 : (caseNo % 7 == 0 ? 2 : (caseNo % 11 == 0 ? 3 : 0));
		if (prod == 2 && how == 1)
			prod = 1; /* (an expired window cannot be scheduled through the API action: end_time in the past is fine, keep it simple) */
		BeginCase(caseNo % 2 == 0, prod, caseNo % 3 == 0 ? 3 : 1);
		DoResult(0, 1000, 1000);
		DoAdd(1, pfixed, 1010, 1030, 6, 0, 0, 1000);
		for (int c = 0; c < nch; c++) {
			bool goes = (mask >> c) & 1;
			int fx = chfixed == 2 ? 1 : (chfixed == 1 ? c % 2 : 0);
			if (goes && how == 1)
				DoAdd(2 + c, fx, 1001, 1004, 2, 1, 0, 1000 + c);      /* over before P starts */
			else
				DoAdd(2 + c, fx, 1010, 1030, 7, 1, 0, 1000 + c);
		}
		if (grand)
			DoAdd(2 + nch, 0, 1010, 1030, 5, 3, 0, 1003);             /* chained to the second chained one */
		if (how == 0) {
			for (int c = 0; c < nch; c++)
				if ((mask >> c) & 1)
					DoRemove(2 + c, 1, 1004);
		} else {
			DoPump(1005);
			DoPump(1006);
		}
		if (pfixed) {
			for (long long t = 1010; t <= 1015; t++) /* the start timer is due at one of these instants */
				DoPump(t);
		} else {
			DoPump(1010);
			DoResult(2, 1011, 1011);
			DoPump(1012);
		}
		DoResult(0, 1016, 1016);
		DoPump(1017);
		DoPump(1019);
		DoRemove(1, 1, 1020);
		DoPump(1040);
	}
}

int main(int argc, char **argv)
{
	if (argc < 2) { fprintf(stderr, "usage: h_c05 gen|ops ...\n"); return 2; }
	Clock(500);
	InitIcinga();

	char tmpl[] = "/tmp/verif-c05-XXXXXX";
	const char *dir = mkdtemp(tmpl);
	if (!dir) { perror("mkdtemp"); return 2; }
	Configuration::DataDir = dir;
	if (getenv("VERIF_C05_LOG")) {
		Logger::EnableConsoleLog();
		Logger::SetConsoleLogSeverity(LogDebug);
	}

	Checkable::OnNotificationsRequested.connect([](const Checkable::Ptr& checkable, NotificationType type, const CheckResult::Ptr&,
		const String&, const String& comment, const MessageOrigin::Ptr&) {
		if (checkable != g_Obj)
			return;
		int id = atoi(comment.CStr());
		if (type == NotificationDowntimeStart) Note(1, id);
		else if (type == NotificationDowntimeEnd) Note(2, id);
	});
	Downtime::OnDowntimeTriggered.connect([](const Downtime::Ptr& d) {
		int id = IdOfName(d->GetName());
		if (id >= 0) Note(3, id);
		else if (g_Obj && d->GetCheckable() == g_Obj) g_Pending[d->GetName()].push_back(3);
	});
	Downtime::OnDowntimeRemoved.connect([](const Downtime::Ptr& d) {
		int id = IdOfName(d->GetName());
		if (id >= 0) Note(4, id);
		else if (g_Obj && d->GetCheckable() == g_Obj) g_Pending[d->GetName()].push_back(4);
	});

	if (!CreateViaApi(CheckCommand::TypeInstance, "c05cmd", new Dictionary({{"command", new Array({"/bin/true"})}})))
		return 3;

	/* the sentinel (its Downtime::Start is the first of the process and creates the start/orphan timers) */
	{
		Host::Ptr sh = new Host();
		sh->SetName("c05-sentinel");
		sh->Register();
		sh->PreActivate();
		sh->Activate();
		sh->SetAuthority(true);
		sh->OnAllConfigLoaded();
		Downtime::Ptr d = new Downtime();
		d->SetHostName("c05-sentinel");
		d->SetName("c05-sentinel!s");
		d->SetPackage("_api");
		d->SetAuthor("a");
		d->SetComment("sentinel");
		d->SetStartTime(1);
		d->SetEndTime(1e15);
		d->SetFixed(true);
		d->Register();
		d->OnAllConfigLoaded();
		d->PreActivate();
		d->Activate(true);
		d->SetAuthority(true);
		g_Sentinel = d;
		TakeStartTimerFired();
		g_Events.clear();
	}

	std::string mode = argv[1];
	int rcode = 0;
	if (mode == "gen") {
		uint64_t seed = strtoull(argOr(argc, argv, "--seed", "1"), nullptr, 10);
		std::string tier = argOr(argc, argv, "--tier", "quick");
		bool thorough = tier == "thorough";
		Systematic(thorough);
		SystematicChains(thorough);
		Rng rng(seed);
		int n = thorough ? 60000 : 6000;
		for (int i = 0; i < n; i++)
			GenCase(rng, thorough, i % 16 == 11 ? 3 : (i % 8 == 7 ? 1 : (i % 8 == 3 ? 2 : 0))); /* one case in eight through AddDowntime, one in sixteen through the API actions, one in sixteen through the external commands */
	} else if (mode == "ops") {
		if (argc < 3) return 2;
		FILE *f = fopen(argv[2], "r");
		if (!f) { perror("open"); return 2; }
		char line[512];
		while (fgets(line, sizeof line, f)) {
			if (line[0] == 'C') {
				char k; int prod = 0, mca = 1;
				if (sscanf(line, "C %c %d %d", &k, &prod, &mca) < 1 || mca < 1) { fprintf(stderr, "bad C line\n"); rcode = 2; break; }
				BeginCase(k == 'h', prod, mca);
			} else if (!g_Obj && (line[0] == 'A' || line[0] == 'R' || line[0] == 'T' || line[0] == 'X' || line[0] == 'P')) {
				fprintf(stderr, "operation before C line\n"); rcode = 2; break;
			} else if (line[0] == 'A') {
				int id, fixed, trigBy, owner; long long start, end, dur, now;
				if (sscanf(line, "A %d %d %lld %lld %lld %d %d %lld", &id, &fixed, &start, &end, &dur, &trigBy, &owner, &now) != 8) { fprintf(stderr, "bad A line\n"); rcode = 2; break; }
				DoAdd(id, fixed, start, end, dur, trigBy, owner, now);
			} else if (line[0] == 'R') {
				int st; long long te, now;
				if (sscanf(line, "R %d %lld %lld", &st, &te, &now) != 3) { fprintf(stderr, "bad R line\n"); rcode = 2; break; }
				DoResult(st, te, now);
			} else if (line[0] == 'T') {
				long long now;
				if (sscanf(line, "T %lld", &now) != 1) { fprintf(stderr, "bad T line\n"); rcode = 2; break; }
				DoPump(now);
			} else if (line[0] == 'P') {
				int paused; long long now;
				if (sscanf(line, "P %d %lld", &paused, &now) != 2) { fprintf(stderr, "bad P line\n"); rcode = 2; break; }
				DoPause(paused, now);
			} else if (line[0] == 'X') {
				int id, reason; long long now;
				if (sscanf(line, "X %d %d %lld", &id, &reason, &now) != 3) { fprintf(stderr, "bad X line\n"); rcode = 2; break; }
				DoRemove(id, reason, now);
			}
		}
		fclose(f);
	} else {
		rcode = 2;
	}
	EndCase();
	fflush(stdout);
	Utility::RemoveDirRecursive(dir);
	_exit(rcode);
}

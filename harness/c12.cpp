/* C12 harness: the replay log of a cluster node.
 *
 * One process is ONE run of the sender node (the ApiListener is a singleton; a sender restart is a NEW
 * process on the same data directory).  Topology (fixed):
 *
 *     zone top = { pt1, pt2 }      peers E, F (the parent zone, two endpoints)
 *      └─ zone master = { aaa, zzz }   the local node is one of the two, the other one is peer A
 *        └── zone sat = { pb, pb2 }   peers B, D (immediate child zone, two endpoints)
 *              ├── zone agent = { pc }   peer C (not directly related: the clean-up ignores it)
 *              └── zone zx = { }         can be unregistered (`drop`): "the object no longer exists"
 *     zone g (global)
 *
 * Security objects of events are the zones themselves (apilistener.cpp:1344-1349 accepts a Zone as secobj) and five ApiUser objects
 * that carry the SAME names as the zones but live in other zones (sec M S A X G: "master" in zone agent, "sat"/"agent" in zone master,
 * "zx"/"g" in zone sat): what a peer's zone may see depends on (type, name), not on the name.
 * The real ApiListener is started (ApiListener::Start opens api/log/current and registers the timers), events
 * go through ApiListener::RelayMessage (relay queue joined), peers are attached/detached with real
 * JsonRpcConnection objects (never started; the outgoing queue is read after a barrier on the strand),
 * every replay is ApiListener::SyncClient on a connection of the peer (SetSyncing, certificate request + config sync — dropped from the
 * observed queue —, ReplayLog, syncing cleared, exceptions swallowed as in production), ApiTimerHandler runs through the timer pump,
 * incoming messages go through JsonRpcConnection::MessageHandler.
 *
 * Lines (times in µs, file names in s; text after ` | ` is the observation):
 *   C <n> <now> <paFirst> <durA> .. <durF> | <satRev> <topRev>   fresh case: empty api/log, positions 0, log opened at <now>;
 *                                                   satRev/topRev: the zone's second endpoint (D / F) is visited first (std::set of pointers);
 *                                                   paFirst=1: peer A's name sorts before ours (A is master when connected)
 *   relay <now> <id> <sec> [<reclen>] | <frame hex|-> <livemask> <newfile|-> <P>   sec: - m s a x g M S A X G ; livemask bit p = peer p;
 *                                                   reclen: pad the event so that the persisted record has (about) that many bytes; long runs of
 *                                                   the padding byte are printed as ~<count>~ inside the hex;
 *                                                   newfile: name of the file a rotation inside PersistMessage created
 *   conn <p> | <P>      disc <p> | <P>                          p: A B C D E F   (conn = AddClient + `syncing` set: SyncClient is under way)
 *   attach <p> | <P>                                             AddClient only: the synchronous part of NewClientHandlerInternal, SyncClient still queued
 *   replay <now> <p>         | <vis> <out> <syncing> <P>        SyncClient; vis: 10 bits (Zone, ApiUser) x (master sat agent zx g) as seen by p's zone;
 *                                                   out: M<id>@<ts>,L<v>,...; syncing: the endpoint's flag afterwards
 *   probe <file> <k> <hex|-> <now> <p> | <vis> <out> <syncing> <garb> <P>   bytes of <file> from offset k on replaced by <hex>, SyncClient, file restored
 *                                                   (<k> may be `?r`: r mod (size+1), or `@j`: the j-th frame boundary; printed resolved);
 *                                                   garb: what the damaged frames decode to (DescribeDamage; oracle for the known-finding classifiers only)
 *   cutall <now> <p>                                 expands to `probe f k - now p` for every file f and every offset k
 *   flipall <now> <p> <stride> <phase>               expands to probes with single bytes replaced in place (the changed suffix as hex)
 *   rotate <now> | <newfile|-> <P>   (CloseLogFile, RotateLogFile, OpenLogFile as PersistMessage does at 50 000)
 *   setcount <n> | <P>        (m_LogMessageCount := n, to reach the rotation inside PersistMessage)
 *   drop | <P>                (unregister zone zx)
 *   timer <now> | <deleted names|-> <outA> <outB> <outC> <P>           Timer::VerifFireDue(now) with the listener's 5 s timer due
 *   ack <p> <v> | <P>         (log::SetLogPosition {log_position: v} from p through MessageHandler)
 *   recv <p> <ts> | <accepted> <P>                  (a message with "ts" from p through MessageHandler)
 *   setbytes <file> <k> <hex|-> | <P>               (permanent damage; file: cur or a name)
 *   ls | <names|-> <cur|->                           (which files exist; their CONTENT is compared as decoded records, see dump)
 *   dump <now> | <vis> <out> <syncing> <P>                    (every record on disk the production reader yields: ReplayLog to A from position 0)
 *   stop <now> | <newfile|-> <P>          (ApiListener::Stop via Deactivate; the process ends)
 *   crash <k> | <P>           (the process ends without Stop; only the first k bytes of current survive, -1: all)
 *   start <now> | <satRev> <topRev> <P>   (new process on the same directory; state attributes restored by ConfigObject::RestoreObjects from the
 *                                                   state file the previous process wrote with ConfigObject::DumpObjects)
 *   <P> = lposA,rposA,lposB,rposB, ... ,lposF,rposF
 *
 * Modes: gen --seed S --tier quick|thorough | ops FILE | part FILE --dir D | node FILE --dir D (internal)
 */
#include "common.hpp"
#include "base/configuration.hpp"
#include "base/scriptglobal.hpp"
#include "base/tlsutility.hpp"
#include "base/io-engine.hpp"
#include "base/tlsstream.hpp"
#include "base/stdiostream.hpp"
#include "base/workqueue.hpp"
#include "remote/apilistener.hpp"
#include "remote/apifunction.hpp"
#include "remote/endpoint.hpp"
#include "remote/zone.hpp"
#include "remote/jsonrpcconnection.hpp"
#include "remote/pkiutility.hpp"
#include "remote/apiuser.hpp"
#include <filesystem>
#include <fstream>
#include <future>
#include <map>
#include <set>
#include <sys/stat.h>
#include <sys/wait.h>

using namespace icinga;
using namespace vh;
namespace fs = std::filesystem;

namespace vh {
typedef void MhFn(const Dictionary::Ptr&);
typedef void RlFn(const JsonRpcConnection::Ptr&);
typedef void VoidFn();
typedef void ScFn(const JsonRpcConnection::Ptr&, const Endpoint::Ptr&, bool);
VH_ROB_MEMBER(MhTag, JsonRpcConnection, MhFn, MessageHandler)
VH_ROB_MEMBER(StrandTag, JsonRpcConnection, boost::asio::io_context::strand, m_IoStrand)
VH_ROB_MEMBER(OutQTag, JsonRpcConnection, std::vector<String>, m_OutgoingMessagesQueue)
VH_ROB_MEMBER(RelayQTag, ApiListener, WorkQueue, m_RelayQueue)
VH_ROB_MEMBER(SyncQTag, ApiListener, WorkQueue, m_SyncQueue)
VH_ROB_MEMBER(ReplayTag, ApiListener, RlFn, ReplayLog)
VH_ROB_MEMBER(SyncClientTag, ApiListener, ScFn, SyncClient)
VH_ROB_MEMBER(OpenTag, ApiListener, VoidFn, OpenLogFile)
VH_ROB_MEMBER(CloseTag, ApiListener, VoidFn, CloseLogFile)
VH_ROB_MEMBER(RotateTag, ApiListener, VoidFn, RotateLogFile)
VH_ROB_MEMBER(LogFileTag, ApiListener, Stream::Ptr, m_LogFile)
VH_ROB_MEMBER(LogCountTag, ApiListener, size_t, m_LogMessageCount)
VH_ROB_MEMBER(LogLockTag, ApiListener, std::mutex, m_LogLock)
VH_ROB_MEMBER(TimerTag, ApiListener, Timer::Ptr, m_Timer)
VH_ROB_MEMBER(InnerTag, StdioStream, std::iostream *, m_InnerStream)
}

static void Die(const std::string& msg)
{
	fprintf(stderr, "h_c12: %s\n", msg.c_str());
	fflush(stdout);
	_exit(2);
}

static std::vector<std::string> Words(const std::string& line)
{
	std::vector<std::string> w;
	std::istringstream is(line);
	std::string t;
	while (is >> t) {
		if (t == "|") break;
		w.push_back(t);
	}
	return w;
}

static std::string Hex(const std::string& s)
{
	static const char *d = "0123456789abcdef";
	std::string r;
	for (unsigned char c : s) { r += d[c >> 4]; r += d[c & 15]; }
	return r.empty() ? "-" : r;
}

/* long runs of the padding byte 'x' are written as ~<count>~ between hex parts */
static std::string HexRle(const std::string& s)
{
	if (s.size() < 4096) return Hex(s);
	size_t best = 0, bestLen = 0;
	for (size_t i = 0; i < s.size();) {
		if (s[i] != 'x') { i++; continue; }
		size_t j = i;
		while (j < s.size() && s[j] == 'x') j++;
		if (j - i > bestLen) { best = i; bestLen = j - i; }
		i = j;
	}
	if (bestLen < 1024) return Hex(s);
	std::string a = s.substr(0, best), b = s.substr(best + bestLen);
	return (a.empty() ? "" : Hex(a)) + "~" + std::to_string(bestLen) + "~" + (b.empty() ? "" : Hex(b));
}

static std::string UnHex(const std::string& h)
{
	std::string r;
	if (h == "-") return r;
	auto v = [](char c) { return c >= '0' && c <= '9' ? c - '0' : c >= 'a' && c <= 'f' ? c - 'a' + 10 : 0; };
	for (size_t i = 0; i + 1 < h.size(); i += 2) r += (char)(v(h[i]) * 16 + v(h[i + 1]));
	return r;
}

static void MkDirs(const std::string& p) { std::error_code ec; fs::create_directories(p, ec); }

static std::string ReadFile(const std::string& p)
{
	std::ifstream f(p, std::ios::binary);
	std::stringstream ss;
	ss << f.rdbuf();
	return ss.str();
}

static void WriteFile(const std::string& p, const std::string& data)
{
	std::ofstream f(p, std::ios::binary | std::ios::trunc);
	f.write(data.data(), (std::streamsize)data.size());
}

static uint64_t Fnv(const std::string& s)
{
	uint64_t h = 1469598103934665603ULL;
	for (unsigned char c : s) { h ^= c; h *= 1099511628211ULL; }
	return h;
}

/* ------------------------------------------------------------------------------------------- */
/* generator (pure text) */

static const long long T0 = 1000000LL * 1000000LL;   /* 1 000 000 s */

struct Gen {
	Rng& rng;
	std::vector<std::string>& out;
	long long now = T0;
	int nextId = 1;
	int caseNo = 0;
	void Tick() {
		static const long long steps[] = { 1, 1, 7, 1000, 400000, 1300000, 1300000, 7000000, 30000000, 100000000 };
		now += steps[rng.below(10)];
	}
	void Emit(const std::string& s) { out.push_back(s); if (s == "ls" && dumpOk) out.push_back("dump " + std::to_string(now)); }
	bool dumpOk = true;
	std::string Now() { return std::to_string(now); }
	void Header(int paFirst, int dA, int dB, int dC, int dD = 86400, int dE = 86400, int dF = 86400) {
		now = T0 + (long long)rng.below(3) * 500000;
		nextId = 1;
		caseNo++;
		std::string l = "C " + std::to_string(caseNo) + " " + Now() + " " + std::to_string(paFirst);
		for (int d : { dA, dB, dC, dD, dE, dF }) l += " " + std::to_string(d);
		Emit(l);
	}
	void Relay(const char *sec, long long reclen = 0) {
		Emit("relay " + Now() + " " + std::to_string(nextId++) + " " + sec + (reclen > 0 ? " " + std::to_string(reclen) : ""));
	}
};

static const int kDurs[] = { -1, 0, 5, 60, 3600, 86400, 86400 };
static const char *kSecs[] = { "-", "m", "s", "a", "x", "g", "M", "S", "A", "X", "G" };
static const int kNSecs = 11;
static const char *kPeers[] = { "A", "B", "C", "D", "E", "F" };
static const int kGP = 6;

/* well-framed records whose content is damaged: what a corrupted file can hold behind its intact part */
static std::string Ns(const std::string& s) { return std::to_string(s.size()) + ":" + s + ","; }
static const int kJunkKinds = 22;
/* kinds 0-5, 12, 16-21: no timestamp beyond the later records; 6, 7, 14: timestamp of a wrong type; 8-11, 13, 15: timestamp ahead (`now`) */
static std::string JunkRecord(int kind, long long now)
{
	char t[64], huge[64];
	if (kind >= 16) { now = T0 + 1; kind = (const int[]){ 9, 10, 11, 13, 15, 8 }[kind - 16]; if (kind == 8) kind = 99; }
	snprintf(t, sizeof t, "%lld.%06lld", now / 1000000, now % 1000000);
	snprintf(huge, sizeof huge, "%lld.5", now / 1000000 + 1000000000LL);
	std::string msg = "\"message\":\"{\\\"jsonrpc\\\":\\\"2.0\\\",\\\"method\\\":\\\"verif::Event\\\",\\\"params\\\":{\\\"id\\\":9999},\\\"ts\\\":1}\"";
	switch (kind) {
		case 0: return Ns("{\"timestamp\":12#");
		case 1: return Ns("17");
		case 2: return Ns("[1,2]");
		case 3: return Ns("\"str\"");
		case 4: return Ns("true");
		case 5: return Ns("{}");
		case 6: return Ns("{\"timestamp\":\"abc\"," + msg + "}");
		case 7: return Ns("{\"timestamp\":[1]," + msg + "}");
		case 8: return Ns(std::string("{\"timestamp\":") + huge + "," + msg + "}");
		case 9: return Ns(std::string("{\"timestamp\":") + t + "," + msg + ",\"secobj\":5}");
		case 10: return Ns(std::string("{\"timestamp\":") + t + "," + msg + ",\"secobj\":{\"type\":5,\"name\":[1]}}");
		case 11: return Ns(std::string("{\"timestamp\":") + t + ",\"message\":17}");
		case 12: return Ns("{\"timestamp\":1," + msg + "}");
		case 13: return Ns(std::string("{\"timestamp\":") + t + "," + msg + ",\"secobj\":{\"type\":\"Zone\"}}");
		case 14: return Ns("{\"timestamp\":true," + msg + "}");
		case 99: return Ns(std::string("{\"timestamp\":") + t + "," + msg + ",\"secobj\":{\"type\":\"Zone\",\"name\":{}}}");
		default: return Ns(std::string("{\"timestamp\":") + t + "," + msg + ",\"secobj\":{\"type\":\"Zone\",\"name\":\"sat\"}}") + Ns("null");
	}
}

static void GenRandomCase(Gen& g, int len)
{
	Rng& r = g.rng;
	g.Header((int)r.below(2), kDurs[r.below(7)], kDurs[r.below(7)], kDurs[r.below(7)], kDurs[r.below(7)], kDurs[r.below(7)], kDurs[r.below(7)]);
	bool conn[kGP] = { false, false, false, false, false, false };
	bool running = true, dropped = false;
	long long rp[kGP] = { 0, 0, 0, 0, 0, 0 };      /* the remote position each peer's accepted messages imply (pure bookkeeping of what was sent) */
	auto sec = [&]() { const char *x = kSecs[r.below(kNSecs)]; return (dropped && x[0] == 'x') ? "s" : x; };
	auto peer = [&]() { return (int)r.below(kGP); };
	for (int i = 0; i < len; i++) {
		g.Tick();
		if (!running) { g.Emit("start " + g.Now()); g.Emit("ls"); running = true; for (bool& c : conn) c = false; continue; }
		int k = (int)r.below(100);
		if (k < 40) g.Relay(sec());
		else if (k < 50) { int p = peer(); if (!conn[p]) { g.Emit(std::string("conn ") + kPeers[p]); conn[p] = true; }
			g.Emit("replay " + g.Now() + " " + kPeers[p]); }
		else if (k < 55) { int p = peer(); if (!conn[p]) { g.Emit(std::string("conn ") + kPeers[p]); conn[p] = true; } }
		else if (k < 56) { int p = peer(); if (!conn[p]) { g.Emit(std::string("attach ") + kPeers[p]); conn[p] = true; } }
		else if (k < 64) { int p = peer(); if (conn[p]) { g.Emit(std::string("disc ") + kPeers[p]); conn[p] = false; } }
		else if (k < 71) { g.Emit("rotate " + g.Now()); g.Emit("ls"); }
		else if (k < 78) { g.Emit("timer " + g.Now()); g.Emit("ls"); }
		else if (k < 84) {
			/* acknowledgement: somewhere around the present */
			long long v = g.now - (long long)r.below(20000000) + (long long)r.below(3000000);
			if (r.below(4) == 0) v = (v / 1000000) * 1000000;
			g.Emit(std::string("ack ") + kPeers[peer()] + " " + std::to_string(v));
		}
		else if (k < 89) {
			int p = peer();
			long long v = g.now - (long long)r.below(5000000) + (long long)r.below(2000000);
			/* mostly AT the recorded position and 1 µs around it: equal is not older */
			if (rp[p] > 0 && r.below(3) != 0) v = rp[p] + (long long)r.below(3) - 1;
			g.Emit(std::string("recv ") + kPeers[p] + " " + std::to_string(v));
			if (v >= rp[p]) rp[p] = v;
		}
		else if (k < 91) { g.Emit("stop " + g.Now()); running = false; }
		else if (k < 94) { g.Emit(r.below(2) ? "crash -1" : "crash " + std::to_string(r.below(600))); running = false; }
		else if (k < 95) { g.Emit("drop"); dropped = true; }
		else if (k < 97) { g.Emit("setcount " + std::to_string(49998 + r.below(3))); }
		else if (k < 98) {
			std::string junk;
			int n = (int)r.below(12);
			for (int j = 0; j < n; j++) junk += (char)r.below(256);
			g.Emit("setbytes cur ?" + std::to_string(r.below(100000)) + " " + Hex(junk));
		}
		else if (r.below(2)) {
			g.Emit("probe " + std::string(r.below(2) ? "cur" : "#" + std::to_string(r.below(3))) + " @" + std::to_string(r.below(8)) + " " +
				Hex(JunkRecord((int)r.below(kJunkKinds), g.now)) + " " + g.Now() + " " + kPeers[peer()]);
		}
		else {
			std::string junk;
			int n = (int)r.below(24);
			for (int j = 0; j < n; j++) junk += (char)(r.below(3) ? r.below(256) : "0123456789:,{}\""[r.below(15)]);
			g.Emit("probe " + std::string(r.below(2) ? "cur" : "#" + std::to_string(r.below(3))) + " ?" + std::to_string(r.below(100000)) + " " +
				Hex(junk) + " " + g.Now() + " " + kPeers[peer()]);
		}
	}
	if (!running) { g.Tick(); g.Emit("start " + g.Now()); }
	g.Tick();
	g.Emit("ls");
	/* final reconnect of everybody */
	for (int p = 0; p < kGP; p++) {
		g.Tick();
		if (!conn[p] || !running) g.Emit(std::string("conn ") + kPeers[p]);
		g.Emit("replay " + g.Now() + " " + kPeers[p]);
	}
}

/* a three-file log, then every file cut at every byte offset */
static void GenCutCase(Gen& g, int perFile, const char *peer)
{
	Rng& r = g.rng;
	g.Header((int)r.below(2), 86400, 3600, -1);
	for (int f = 0; f < 3; f++) {
		for (int i = 0; i < perFile; i++) { g.Tick(); g.Relay(kSecs[r.below(6)]); }
		if (f < 2) { g.now += 1500000; g.Emit("rotate " + g.Now()); }
	}
	g.Emit("ls");
	g.Tick();
	g.Emit("cutall " + g.Now() + " " + peer);
}

/* Q-C12a: two events under a clock that did not advance */
static void GenEqualStampCase(Gen& g)
{
	g.Header(0, 86400, 86400, 86400);
	g.Tick();
	g.Relay("-");
	g.Relay("-");
	g.Tick();
	g.Relay("-");
	g.Emit("conn A");
	g.Tick();
	g.Emit("replay " + g.Now() + " A");
}

/* regression for F-C12b (fixed): a record whose JSON text is `null` in the first of two files; the other file is still replayed */
static void GenNullRecordCase(Gen& g)
{
	g.Header(0, 86400, 86400, 86400);
	g.Tick();
	g.Relay("-");
	g.now += 2000000;
	g.Emit("rotate " + g.Now());
	g.Tick();
	g.Relay("-");
	g.Tick();
	g.Emit("probe #0 0 343a6e756c6c2c " + g.Now() + " A");
	g.Tick();
	g.Emit("replay " + g.Now() + " A");
}

/* the receiver's filter exactly at its recorded position, also across a restart */
static void GenReceiverEdgeCase(Gen& g, const char *peer)
{
	g.Header(0, 86400, 86400, 86400);
	long long t = g.now + 5000000;
	std::string p = peer;
	for (long long v : { t, t, t - 1, t + 1, t + 1, t, t + 2 }) g.Emit("recv " + p + " " + std::to_string(v));
	g.now += 9000000;
	g.Emit("crash -1");
	g.Emit("start " + g.Now());
	for (long long v : { t + 2, t + 1, t + 2, t + 3 }) g.Emit("recv " + p + " " + std::to_string(v));
	g.Tick();
	g.Emit("stop " + g.Now());
	g.Tick();
	g.Emit("start " + g.Now());
	for (long long v : { t + 3, t + 2, t + 4 }) g.Emit("recv " + p + " " + std::to_string(v));
}

/* a foreign zone with two endpoints (child zone sat = B, D; parent zone top = E, F): both away, events are persisted; one of them
 * comes back and further events reach the zone through it; then the other one comes back: what was persisted while nobody of its zone
 * was there must still be replayed to it (its position must not have been pushed meanwhile) */
static void GenSiblingCase(Gen& g, int first, int second, const char *sec, int variant)
{
	Rng& r = g.rng;
	g.Header((int)r.below(2), 86400, 86400, 86400, 86400, 86400, 86400);
	if (variant & 1) g.Emit("conn A");                       /* with / without the zone-master question in the local zone */
	g.Tick(); g.Relay(sec);                                 /* E0: nobody of the zone is there */
	g.Tick(); g.Relay(sec);
	g.Tick(); g.Emit(std::string("conn ") + kPeers[first]);
	g.Tick(); g.Emit("replay " + g.Now() + " " + kPeers[first]);
	g.Tick(); g.Relay(sec);                                 /* E1: through the connected sibling */
	if (variant & 2) { g.Tick(); g.Emit("rotate " + g.Now()); }
	g.Tick(); g.Relay(sec);
	if (variant & 4) { g.Tick(); g.Emit(std::string("disc ") + kPeers[first]); g.Tick(); g.Relay(sec); }
	g.Tick(); g.Emit(std::string("conn ") + kPeers[second]);
	g.Tick(); g.Emit("replay " + g.Now() + " " + kPeers[second]);
	g.Tick(); g.Relay(sec);                                 /* both there: the second one is skipped, legitimately advanced */
	g.Tick(); g.Emit(std::string("disc ") + kPeers[second]);
	g.Tick(); g.Relay(sec);
	g.Tick(); g.Emit(std::string("conn ") + kPeers[second]);
	g.Tick(); g.Emit("replay " + g.Now() + " " + kPeers[second]);
	g.Emit("ls");
}

/* records around and beyond 1 MiB, each followed by later events in the same file and in the next one */
static void GenLargeCase(Gen& g, long long reclen)
{
	g.Header(0, 86400, 86400, 86400, 86400, 86400, 86400);
	g.Tick(); g.Relay("-");
	g.Tick(); g.Relay("s", reclen);
	g.Tick(); g.Relay("-");
	g.Tick(); g.Relay("g");
	g.now += 1500000;
	g.Emit("rotate " + g.Now());
	g.Tick(); g.Relay("-", reclen + 1);
	g.Tick(); g.Relay("a");
	g.Emit("conn A");
	g.Tick(); g.Emit("replay " + g.Now() + " A");
	g.Emit("conn D");
	g.Tick(); g.Emit("replay " + g.Now() + " D");
	g.Tick(); g.Emit("crash -1");
	g.Tick(); g.Emit("start " + g.Now());
	g.Emit("conn E");
	g.Tick(); g.Emit("replay " + g.Now() + " E");
}

/* objects of different TYPES that share a name but not the zone (Zone "agent" and ApiUser "agent" …): whether the peer's zone may
 * see the object of a record is decided per (type, name) — both orders, every peer */
static void GenTypeNameCase(Gen& g, int variant)
{
	static const char *pairs[][2] = { { "a", "A" }, { "m", "M" }, { "s", "S" }, { "x", "X" }, { "g", "G" } };
	g.Header(variant & 1, 86400, 86400, 86400, 86400, 86400, 86400);
	for (int round = 0; round < 2; round++) {
		for (auto& pr : pairs) {
			bool flip = ((variant >> 1) + round) & 1;
			g.Tick(); g.Relay(pr[flip ? 1 : 0]);
			g.Tick(); g.Relay(pr[flip ? 0 : 1]);
			g.Tick(); g.Relay(pr[flip ? 1 : 0]);
		}
		if (round == 0) { g.now += 1500000; g.Emit("rotate " + g.Now()); }
	}
	for (int p = 0; p < kGP; p++) {
		g.Tick(); g.Emit(std::string("conn ") + kPeers[p]);
		g.Tick(); g.Emit("replay " + g.Now() + " " + kPeers[p]);
	}
}

/* the window of NewClientHandlerInternal: Endpoint::AddClient first, SyncClient later on the thread pool; an event in between */
static void GenWindowCase(Gen& g, int p, const char *sec)
{
	g.Header(0, 86400, 86400, 86400, 86400, 86400, 86400);
	g.Tick(); g.Relay(sec);
	g.Tick(); g.Relay(sec);
	g.Tick(); g.Emit(std::string("attach ") + kPeers[p]);
	g.Tick(); g.Relay(sec);
	g.Tick(); g.Emit("replay " + g.Now() + " " + kPeers[p]);
	g.Tick(); g.Relay(sec);
}

/* three files; behind every frame boundary of each of them every kind of well-framed damaged record */
static void GenJunkCase(Gen& g, const char *peer, int perFile)
{
	Rng& r = g.rng;
	g.Header((int)r.below(2), 86400, 86400, 86400, 86400, 86400, 86400);
	for (int f = 0; f < 3; f++) {
		for (int i = 0; i < perFile; i++) { g.Tick(); g.Relay(kSecs[r.below(6)]); }
		if (f < 2) { g.now += 1500000; g.Emit("rotate " + g.Now()); }
	}
	g.Emit("ls");
	g.Emit(std::string("conn ") + peer);
	g.Tick();
	for (const char *f : { "#0", "#1", "cur" })
		for (int j = 0; j <= perFile; j++)
			for (int kind = 0; kind < kJunkKinds; kind++)
				g.Emit(std::string("probe ") + f + " @" + std::to_string(j) + " " + Hex(JunkRecord(kind, g.now)) + " " + g.Now() + " " + peer);
	g.Tick();
	g.Emit("replay " + g.Now() + " " + peer);
}

/* three files, single bytes replaced in place */
static void GenFlipCase(Gen& g, const char *peer, int stride, int phase)
{
	Rng& r = g.rng;
	g.Header((int)r.below(2), 86400, 86400, 86400, 86400, 86400, 86400);
	for (int f = 0; f < 3; f++) {
		for (int i = 0; i < 2; i++) { g.Tick(); g.Relay(kSecs[r.below(6)]); }
		if (f < 2) { g.now += 1500000; g.Emit("rotate " + g.Now()); }
	}
	g.Emit("ls");
	g.Emit(std::string("conn ") + peer);
	g.Tick();
	g.Emit("flipall " + g.Now() + " " + peer + " " + std::to_string(stride) + " " + std::to_string(phase));
}

static void GenAll(uint64_t seed, bool thorough, std::vector<std::string>& out)
{
	Rng rng(seed * 0x9e3779b97f4a7c15ULL + 12);
	Gen g{ rng, out };
	GenEqualStampCase(g);
	GenNullRecordCase(g);
	GenReceiverEdgeCase(g, "A");
	GenReceiverEdgeCase(g, "B");
	GenReceiverEdgeCase(g, "C");
	{
		int v = 0;
		for (const char *sec : { "s", "a", "g" }) { GenSiblingCase(g, 1, 3, sec, v++); GenSiblingCase(g, 3, 1, sec, v++); }
		for (const char *sec : { "-", "m", "s" }) { GenSiblingCase(g, 4, 5, sec, v++); GenSiblingCase(g, 5, 4, sec, v++); }
	}
	for (int v = 0; v < 4; v++) GenTypeNameCase(g, v);
	GenWindowCase(g, 0, "-"); GenWindowCase(g, 1, "s"); GenWindowCase(g, 4, "m");
	GenJunkCase(g, "A", 2);
	GenJunkCase(g, "B", 1);
	GenFlipCase(g, "A", thorough ? 1 : 3, (int)(seed % 3));
	for (long long len : { 1048575LL, 1048576LL, 1048577LL, 2097152LL }) GenLargeCase(g, len);
	if (thorough) { GenLargeCase(g, 5242880LL); GenLargeCase(g, 1048574LL); GenLargeCase(g, 3000000LL); }
	GenCutCase(g, 3, "A");
	GenCutCase(g, 2, "B");
	if (thorough) { GenCutCase(g, 4, "A"); GenCutCase(g, 3, "B"); GenCutCase(g, 1, "C"); }
	int n = thorough ? 6000 : 1200;
	for (int i = 0; i < n; i++) GenRandomCase(g, 8 + (int)rng.below(thorough ? 50 : 30));
}

/* ------------------------------------------------------------------------------------------- */
/* the node */

static ApiListener::Ptr l_Listener;
static Shared<boost::asio::ssl::context>::Ptr l_Ssl;
static std::string l_Dir;
static const int kNP = 6;                     /* peers A B C D E F */
static Endpoint::Ptr l_Ep[kNP];
static JsonRpcConnection::Ptr l_Conn[kNP];      /* attached client (null = disconnected) */
static JsonRpcConnection::Ptr l_In[kNP];        /* connection object incoming messages are handed to */
static Zone::Ptr l_ZTop, l_ZMaster, l_ZSat, l_ZAgent, l_ZX, l_ZG;
/* security objects of ANOTHER type that carry the names of the zones but live elsewhere (the usual agent set-up: Zone, Endpoint and
 * Host all named like the agent): ApiUser "master" in zone agent, "sat" and "agent" in zone master, "zx" and "g" in zone sat */
static ConfigObject::Ptr l_User[5];
static const char *kUserNames[] = { "master", "sat", "agent", "zx", "g" };
static const char *kUserZones[] = { "agent", "master", "master", "sat", "sat" };
static bool l_ZxDropped = false;
static int l_PaFirst = 0, l_Dur[kNP] = { 86400, 86400, 86400, 86400, 86400, 86400 };
static std::atomic<int> l_Noop{0};
static long long l_PrevCur = 0;

static double Sec(long long us) { return (double)us / 1e6; }
static long long Us(double s) { return llround(s * 1e6); }

static void Sync()
{
	ApiListener *l = l_Listener.get();
	(l->*get(RelayQTag())).Join();
	(l->*get(SyncQTag())).Join();
}

static void SetupPki(const std::string& work)
{
	std::string pki = work + "/pki";
	if (!fs::exists(pki + "/done")) {
		std::string tmp = pki + ".tmp." + std::to_string(getpid());
		MkDirs(tmp + "/certs");
		Configuration::DataDir = tmp;
		if (PkiUtility::NewCa() > 0) Die("NewCa failed");
		String certs = ApiListener::GetCertsDir();
		if (PkiUtility::NewCert("vnode", certs + "/vnode.key", certs + "/vnode.csr", "") > 0) Die("NewCert failed");
		if (PkiUtility::SignCsr(certs + "/vnode.csr", certs + "/vnode.crt") > 0) Die("SignCsr failed");
		Utility::CopyFile(ApiListener::GetCaDir() + "/ca.crt", certs + "/ca.crt");
		std::ofstream(tmp + "/done") << "1";
		std::error_code ec;
		fs::rename(tmp, pki, ec);
		if (ec) fs::remove_all(tmp, ec);
	}
}

static std::string LogDir() { return l_Dir + "/api/log"; }
static const char *MyName() { return l_PaFirst ? "zzz" : "aaa"; }
static const char *PaName() { return l_PaFirst ? "aaa" : "zzz"; }

static std::string StateLine(long long lastTs)
{
	std::ostringstream o;
	o << l_PaFirst;
	for (int p = 0; p < kNP; p++) o << " " << l_Dur[p];
	o << " " << (l_ZxDropped ? 1 : 0) << " " << lastTs;
	for (int p = 0; p < kNP; p++) o << " " << Us(l_Ep[p]->GetLocalLogPosition()) << " " << Us(l_Ep[p]->GetRemoteLogPosition());
	return o.str();
}

static std::string StatePath() { return l_Dir + "/verif-icinga2.state"; }

static void SaveState(bool processEnds)
{
	WriteFile(l_Dir + "/verif-state.txt", StateLine(Us(l_Listener->GetLogMessageTimestamp())) + "\n");
	if (!processEnds) return;
	/* what the NEXT process knows of the endpoints' positions and of log_message_timestamp travels the way production
	 * does it: the real state file (ConfigObject::DumpObjects / RestoreObjects over the [state] attributes of endpoint.ti:23-24
	 * and apilistener.ti:59), written when the process ends (`stop`, and `crash`: the state as of the crash) */
	ConfigObject::DumpObjects(StatePath());
}

static JsonRpcConnection::Ptr MkConn(int p)
{
	return new JsonRpcConnection(l_Ep[p]->GetName(), true, Shared<AsioTlsStream>::Make(IoEngine::Get().GetIoContext(), *l_Ssl), RoleServer);
}

/* endpoint objects of the master zone are "aaa" and "zzz": l_Ep[0] is whichever of them is not the local node */
static Endpoint::Ptr l_Aaa, l_Zzz;

static void ApplyIdentity()
{
	l_Listener->SetIdentity(MyName());
	static_pointer_cast<ConfigObject>(l_Listener)->OnAllConfigLoaded();
	l_Ep[0] = l_PaFirst ? l_Aaa : l_Zzz;
	for (int p = 0; p < kNP; p++) l_Ep[p]->SetLogDuration(l_Dur[p]);
	for (int p = 0; p < kNP; p++) l_In[p] = MkConn(p);
}

static void RegisterZx()
{
	Zone::Ptr z = new Zone();
	z->SetName("zx");
	z->SetParentRaw("sat");
	z->Register();
	static_pointer_cast<ConfigObject>(z)->OnAllConfigLoaded();
	z->PreActivate();
	z->Activate();
	l_ZX = z;
	l_ZxDropped = false;
}

static void BootNode(const std::string& work, const std::string& dir, bool resume, long long now)
{
	l_Dir = dir;
	MkDirs(l_Dir);
	std::error_code ec;
	if (!fs::exists(l_Dir + "/certs")) {
		fs::copy(work + "/pki/certs", l_Dir + "/certs", fs::copy_options::recursive, ec);
		fs::copy(work + "/pki/ca", l_Dir + "/ca", fs::copy_options::recursive, ec);
	}
	Configuration::DataDir = l_Dir;
	Configuration::CacheDir = l_Dir + "/cache";
	Configuration::LogDir = l_Dir + "/log";
	Configuration::ZonesDir = l_Dir + "/zones.d";
	Configuration::ConfigDir = l_Dir + "/etc";
	Configuration::InitRunDir = l_Dir + "/run";
	MkDirs(l_Dir + "/cache"); MkDirs(l_Dir + "/log"); MkDirs(l_Dir + "/zones.d"); MkDirs(l_Dir + "/etc"); MkDirs(l_Dir + "/run");
	MkDirs(l_Dir + "/certificate-requests");
	ScriptGlobal::Set("NodeName", "vnode");
	Application::SetStartTime(1000);
	SetNow(Sec(now));

	long long lastTs = 0;
	long long pos[2 * kNP] = { 0 };
	int zxDropped = 0;
	if (resume) {
		std::istringstream is(ReadFile(l_Dir + "/verif-state.txt"));
		is >> l_PaFirst;
		for (int p = 0; p < kNP; p++) is >> l_Dur[p];
		is >> zxDropped >> lastTs;
		for (int i = 0; i < 2 * kNP; i++) is >> pos[i];
		if (!is) Die("cannot read verif-state.txt for a start line");
	}

	ApiListener::Ptr l = new ApiListener();
	l->SetName("api");
	l->SetBindHost("127.0.0.1");
	l->SetBindPort("0");
	l->Register();
	static_pointer_cast<ConfigObject>(l)->OnConfigLoaded();
	l_Ssl = SetupSslContext(ApiListener::GetDefaultCertPath(), ApiListener::GetDefaultKeyPath(), ApiListener::GetDefaultCaPath(),
		"", l->GetCipherList(), l->GetTlsProtocolmin(), DebugInfo());
	l_Listener = l;

	std::vector<Endpoint::Ptr> eps;
	for (const char *n : { "aaa", "zzz", "pb", "pc", "pb2", "pt1", "pt2" }) {
		Endpoint::Ptr e = new Endpoint();
		e->SetName(n);
		e->Register();
		eps.push_back(e);
	}
	l_Aaa = eps[0]; l_Zzz = eps[1]; l_Ep[1] = eps[2]; l_Ep[2] = eps[3]; l_Ep[3] = eps[4]; l_Ep[4] = eps[5]; l_Ep[5] = eps[6];
	auto mkZone = [](const char *name, const char *parent, Array::Ptr endpoints, bool global) {
		Zone::Ptr z = new Zone();
		z->SetName(name);
		if (global) z->SetGlobal(true);
		if (endpoints) z->SetEndpointsRaw(endpoints);
		if (parent) z->SetParentRaw(parent);
		z->Register();
		return z;
	};
	l_ZTop = mkZone("top", nullptr, new Array({ "pt1", "pt2" }), false);
	l_ZMaster = mkZone("master", "top", new Array({ "aaa", "zzz" }), false);
	l_ZSat = mkZone("sat", "master", new Array({ "pb", "pb2" }), false);
	l_ZAgent = mkZone("agent", "sat", new Array({ "pc" }), false);
	l_ZG = mkZone("g", nullptr, nullptr, true);
	std::vector<Zone::Ptr> zones = { l_ZTop, l_ZMaster, l_ZSat, l_ZAgent, l_ZG };
	for (auto& z : zones) static_pointer_cast<ConfigObject>(z)->OnAllConfigLoaded();
	for (auto& e : eps) static_pointer_cast<ConfigObject>(e)->OnAllConfigLoaded();
	for (int i = 0; i < 5; i++) {
		ApiUser::Ptr u = new ApiUser();
		u->SetName(kUserNames[i]);
		u->SetZoneName(kUserZones[i]);
		u->Register();
		static_pointer_cast<ConfigObject>(u)->OnAllConfigLoaded();
		l_User[i] = u;
	}
	ApplyIdentity();
	if (resume) {
		/* production order (daemoncommand.cpp): objects registered and OnAllConfigLoaded, RestoreObjects, then activation.
		 * Nothing is installed by hand: an attribute that is not (or no longer) a state attribute comes up as 0. */
		(void)lastTs; (void)pos;
		if (!Utility::PathExists(StatePath())) Die("no state file for a start line");
		ConfigObject::RestoreObjects(StatePath());
	}
	l_Listener->PreActivate();
	l_Listener->Activate();         /* ApiListener::Start(): OpenLogFile, timers */
	for (auto& e : eps) { e->PreActivate(); e->Activate(); }
	for (auto& z : zones) { z->PreActivate(); z->Activate(); }
	if (!zxDropped) RegisterZx(); else l_ZxDropped = true;
	if (Zone::GetLocalZone() != l_ZMaster) Die("local zone not resolved");
	ApiFunction::Register("verif::Noop", new ApiFunction([](const MessageOrigin::Ptr&, const Dictionary::Ptr&) -> Value {
		l_Noop++;
		return Empty;
	}));
	Sync();
	l_PrevCur = (long long)ReadFile(LogDir() + "/current").size();
}

static std::vector<String> Drain(const JsonRpcConnection::Ptr& c)
{
	std::promise<std::vector<String>> done;
	auto fut = done.get_future();
	JsonRpcConnection *raw = c.get();
	boost::asio::post(raw->*get(StrandTag()), [raw, &done]() {
		auto& q = raw->*get(OutQTag());
		std::vector<String> k(q.begin(), q.end());
		q.clear();
		done.set_value(k);
	});
	return fut.get();
}

static std::string DescribeOut(const std::vector<String>& q)
{
	std::string r;
	for (const String& s : q) {
		std::string item;
		try {
			Value mv = JsonDecode(s);
			if (!mv.IsObjectType<Dictionary>()) throw std::invalid_argument("no message");
			Dictionary::Ptr m = mv;
			String method = m->Get("method");
			Value pv = m->Get("params");
			Dictionary::Ptr p = pv.IsObjectType<Dictionary>() ? Dictionary::Ptr(pv) : Dictionary::Ptr();
			if (method == "log::SetLogPosition" && p) {
				item = "L" + std::to_string(Us(p->Get("log_position")));
			} else if (method == "verif::Event" && p) {
				item = "M" + std::to_string((long long)(double)p->Get("id")) + "@" + std::to_string(Us(m->Get("ts")));
			} else if (method == "config::Update" || method == "config::UpdateObject" || method == "config::DeleteObject" ||
				method == "pki::RequestCertificate") {
				continue;   /* SyncClient's certificate request and config sync in front of the replay: not the replay log's business */
			} else {
				item = "O";
			}
		} catch (const std::exception&) {
			item = "X";     /* something that is not a JSON-RPC message was sent */
		}
		r += (r.empty() ? "" : ",") + item;
	}
	return r.empty() ? "-" : r;
}

/* oracle: in which order the std::set of a two-endpoint zone is visited (pointer order; differs from process to process) */
static std::string OrderStr()
{
	auto secondFirst = [](const Zone::Ptr& z, const Endpoint::Ptr& second) {
		auto eps = z->GetEndpoints();
		return !eps.empty() && *eps.begin() == second ? 1 : 0;
	};
	return std::to_string(secondFirst(l_ZSat, l_Ep[3])) + " " + std::to_string(secondFirst(l_ZTop, l_Ep[5]));
}

static std::string PosStr()
{
	std::ostringstream o;
	for (int p = 0; p < kNP; p++)
		o << (p ? "," : "") << Us(l_Ep[p]->GetLocalLogPosition()) << "," << Us(l_Ep[p]->GetRemoteLogPosition());
	return o.str();
}

static void FlushLog()
{
	ApiListener *l = l_Listener.get();
	Stream::Ptr s = l->*get(LogFileTag());
	if (!s) return;
	StdioStream::Ptr ss = dynamic_pointer_cast<StdioStream>(s);
	if (!ss) return;
	std::iostream *in = ss.get()->*get(InnerTag());
	if (in) in->flush();
}

static std::vector<long long> RotatedNames()
{
	std::vector<long long> names;
	std::error_code ec;
	for (auto& de : fs::directory_iterator(LogDir(), ec)) {
		std::string n = de.path().filename().string();
		if (n == "current") continue;
		names.push_back(atoll(n.c_str()));
	}
	std::sort(names.begin(), names.end());
	return names;
}

static std::string Diff(const std::vector<long long>& a, const std::vector<long long>& b)
{
	/* names in a that are not in b */
	std::string r;
	for (long long n : a) if (!std::binary_search(b.begin(), b.end(), n)) r += (r.empty() ? "" : ",") + std::to_string(n);
	return r.empty() ? "-" : r;
}

static std::string FilePath(const std::string& tok)
{
	if (tok == "cur") return LogDir() + "/current";
	if (tok[0] == '#') {       /* k-th rotated file (mod count); falls back to current */
		auto names = RotatedNames();
		if (names.empty()) return LogDir() + "/current";
		return LogDir() + "/" + std::to_string(names[(size_t)atoi(tok.c_str() + 1) % names.size()]);
	}
	return LogDir() + "/" + tok;
}

static std::string FileTok(const std::string& path)
{
	std::string n = fs::path(path).filename().string();
	return n == "current" ? "cur" : n;
}

static ConfigObject::Ptr SecObj(const std::string& sec)
{
	if (sec == "m") return l_ZMaster;
	if (sec == "s") return l_ZSat;
	if (sec == "a") return l_ZAgent;
	if (sec == "x") return l_ZX;
	if (sec == "g") return l_ZG;
	if (sec == "M") return l_User[0];
	if (sec == "S") return l_User[1];
	if (sec == "A") return l_User[2];
	if (sec == "X") return l_User[3];
	if (sec == "G") return l_User[4];
	if (sec != "-") Die("bad security object " + sec);
	return nullptr;
}

static int PeerIdx(const std::string& p)
{
	if (p == "A") return 0;
	if (p == "B") return 1;
	if (p == "C") return 2;
	if (p == "D") return 3;
	if (p == "E") return 4;
	if (p == "F") return 5;
	Die("bad peer " + p);
	return 0;
}

static void ResetCase(long long now)
{
	ApiListener *l = l_Listener.get();
	Sync();
	{
		std::unique_lock<std::mutex> lock(l->*get(LogLockTag()));
		(l->*get(CloseTag()))();
	}
	for (int p = 0; p < kNP; p++) {
		if (l_Conn[p]) { l_Ep[p]->RemoveClient(l_Conn[p]); l_Conn[p] = nullptr; }
	}
	std::error_code ec;
	fs::remove_all(LogDir(), ec);
	ApplyIdentity();
	for (int p = 0; p < kNP; p++) {
		l_Ep[p]->SetLocalLogPosition(0);
		l_Ep[p]->SetRemoteLogPosition(0);
		ObjectLock olock(l_Ep[p]);
		l_Ep[p]->SetSyncing(false);
	}
	/* the endpoint object that is now the local one carries no peer state either */
	(l_PaFirst ? l_Zzz : l_Aaa)->SetLocalLogPosition(0);
	(l_PaFirst ? l_Zzz : l_Aaa)->SetRemoteLogPosition(0);
	if (l_ZxDropped) RegisterZx();
	l->*get(LogCountTag()) = 0;
	l->SetLogMessageTimestamp(0);
	SetNow(Sec(now));
	{
		std::unique_lock<std::mutex> lock(l->*get(LogLockTag()));
		(l->*get(OpenTag()))();
	}
	l_PrevCur = 0;
}

static std::string VisBits(int p)
{
	Zone::Ptr tz = l_Ep[p]->GetZone();
	std::string r;
	for (const char *type : { "Zone", "ApiUser" }) {
		for (const char *n : { "master", "sat", "agent", "zx", "g" }) {
			ConfigObject::Ptr o = ConfigObject::GetObject(type, n);
			r += (o && tz && tz->CanAccessObject(o)) ? "1" : "0";
		}
	}
	return r;
}

/* where the netstring frames of a file end (own, minimal parser: only to CHOOSE offsets and to describe damage) */
static std::vector<size_t> FrameEnds(const std::string& data)
{
	std::vector<size_t> ends;
	size_t i = 0;
	while (i < data.size()) {
		size_t j = i, len = 0;
		while (j < data.size() && data[j] >= '0' && data[j] <= '9' && j - i < 10) { len = len * 10 + (size_t)(data[j] - '0'); j++; }
		if (j == i || j >= data.size() || data[j] != ':') break;
		size_t e = j + 1 + len;
		if (e >= data.size() || data[e] != ',') break;
		ends.push_back(e + 1);
		i = e + 1;
	}
	return ends;
}

/* offset token: a number, `?r` = r mod (size+1), `@j` = the j-th frame boundary (0 = start of file; j mod number of boundaries) */
static size_t ResolveOffset(const std::string& tok, const std::string& data)
{
	size_t k;
	if (tok[0] == '?') k = (size_t)(atoll(tok.c_str() + 1) % (long long)(data.size() + 1));
	else if (tok[0] == '@') {
		std::vector<size_t> b = { 0 };
		for (size_t e : FrameEnds(data)) b.push_back(e);
		k = b[(size_t)atoll(tok.c_str() + 1) % b.size()];
	} else k = (size_t)atoll(tok.c_str());
	return std::min(k, data.size());
}

/* Oracle for the known-finding classifiers only: what the frames of a damaged file from the first frame that reaches beyond
 * offset k on decode to, by the production JsonDecode.  Per frame (at most 6): i = not JSON, n = JSON but no dictionary,
 * d<µs> = dictionary with a numeric timestamp, e = dictionary without timestamp, t = dictionary whose timestamp is no number;
 * suffix s: "secobj" is no dictionary / its type or name is no string, m: "message" is no string.  f = framing ends here. */
static std::string DescribeDamage(const std::string& data, size_t k)
{
	std::string r;
	size_t start = 0;
	int n = 0;
	for (size_t e : FrameEnds(data)) {
		size_t a = start;
		start = e;
		if (e <= k) continue;
		if (n++ >= 6) return r;
		size_t colon = data.find(':', a);
		std::string payload = data.substr(colon + 1, e - 1 - (colon + 1));
		std::string item;
		try {
			Value v = JsonDecode(payload);
			if (!v.IsObjectType<Dictionary>()) item = "n";
			else {
				Dictionary::Ptr d = v;
				Value ts = d->Get("timestamp");
				if (ts.IsEmpty()) item = "e";
				else if (ts.IsNumber()) {
					double x = ts;
					item = "d" + std::to_string(std::fabs(x) < 9e12 ? Us(x) : (x > 0 ? 9000000000000000000LL : -9000000000000000000LL));
				} else item = "t";
				Value so = d->Get("secobj");
				if (!so.IsEmpty()) {
					if (!so.IsObjectType<Dictionary>()) item += "s";
					else {
						Dictionary::Ptr sd = so;
						if (!sd->Get("type").IsString() || !sd->Get("name").IsString()) item += "s";
					}
				}
				if (!d->Get("message").IsString()) item += "m";
			}
		} catch (const std::exception&) {
			item = "i";
		}
		r += (r.empty() ? "" : ",") + item;
	}
	if (start < data.size() && n < 6) r += (r.empty() ? "" : ",") + std::string("f");
	return r.empty() ? "-" : r;
}

static std::string DoReplay(int p, long long now)
{
	ApiListener *l = l_Listener.get();
	SetNow(Sec(now));
	Sync();
	JsonRpcConnection::Ptr c = l_Conn[p] ? l_Conn[p] : MkConn(p);
	Drain(c);
	/* the production entry point: what NewClientHandlerInternal queues after Endpoint::AddClient — SetSyncing(true), certificate
	 * request and config sync, ReplayLog, syncing cleared (also when ReplayLog throws) */
	(l->*get(SyncClientTag()))(c, l_Ep[p], true);
	std::string out = DescribeOut(Drain(c));
	out += l_Ep[p]->GetSyncing() ? " 1" : " 0";
	l_PrevCur = (long long)ReadFile(LogDir() + "/current").size();
	return out;
}

static void RunOp(const std::vector<std::string>& w, const std::string& line)
{
	ApiListener *l = l_Listener.get();
	const std::string& op = w[0];
	auto need = [&](size_t n) { if (w.size() != n) Die("bad line: " + line); };
	if (op == "C") {
		need(4 + kNP);
		l_PaFirst = atoi(w[3].c_str());
		for (int i = 0; i < kNP; i++) l_Dur[i] = atoi(w[4 + i].c_str());
		ResetCase(atoll(w[2].c_str()));
		printf("%s | %s\n", line.c_str(), OrderStr().c_str());
	} else if (op == "relay") {
		if (w.size() != 4 && w.size() != 5) Die("bad line: " + line);
		SetNow(Sec(atoll(w[1].c_str())));
		for (int p = 0; p < kNP; p++) if (l_Conn[p]) Drain(l_Conn[p]);
		auto before = RotatedNames();
		ConfigObject::Ptr sec = SecObj(w[3]);
		if (w[3] == "x" && l_ZxDropped) Die("relay for a dropped object");
		Dictionary::Ptr params = new Dictionary({ { "id", atoi(w[2].c_str()) } });
		Dictionary::Ptr msg = new Dictionary({ { "jsonrpc", "2.0" }, { "method", "verif::Event" }, { "params", params } });
		if (w.size() == 5 && w[4] != "-") {
			/* a record of (about) the wanted length: estimate the length without padding the way PersistMessage builds the
			 * record — only to CHOOSE the input; what was really written is read back from the file below */
			Dictionary::Ptr probe = new Dictionary({ { "jsonrpc", "2.0" }, { "method", "verif::Event" },
				{ "params", new Dictionary({ { "id", atoi(w[2].c_str()) }, { "pad", "" } }) }, { "ts", Sec(atoll(w[1].c_str())) } });
			Dictionary::Ptr rec = new Dictionary({ { "timestamp", Sec(atoll(w[1].c_str())) }, { "message", JsonEncode(probe) } });
			if (sec) rec->Set("secobj", new Dictionary({ { "type", sec->GetReflectionType()->GetName() }, { "name", sec->GetName() } }));
			long long base = (long long)JsonEncode(rec).GetLength(), want = atoll(w[4].c_str());
			params->Set("pad", String(std::string((size_t)std::max<long long>(0, want - base), 'x')));
		}
		l->RelayMessage(nullptr, sec, msg, true);
		Sync();
		FlushLog();
		/* what was appended to the log */
		std::string frame, newFile = "-";
		std::string cur = ReadFile(LogDir() + "/current");
		auto after = RotatedNames();
		if (after.size() > before.size()) {
			/* rotated inside PersistMessage: the record is at the end of the new file */
			long long nn = 0;
			for (long long n : after) if (!std::binary_search(before.begin(), before.end(), n)) nn = n;
			newFile = std::to_string(nn);
			std::string f = ReadFile(LogDir() + "/" + std::to_string(nn));
			frame = f.substr((size_t)std::min<long long>(l_PrevCur, (long long)f.size()));
		} else if ((long long)cur.size() > l_PrevCur) {
			frame = cur.substr((size_t)l_PrevCur);
		}
		l_PrevCur = (long long)cur.size();
		int live = 0;
		for (int p = 0; p < kNP; p++) if (l_Conn[p] && !Drain(l_Conn[p]).empty()) live |= 1 << p;
		printf("%s | %s %d %s %s\n", line.c_str(), HexRle(frame).c_str(), live, newFile.c_str(), PosStr().c_str());
	} else if (op == "conn") {
		need(2);
		int p = PeerIdx(w[1]);
		if (!l_Conn[p]) {
			l_Conn[p] = MkConn(p);
			l_Ep[p]->AddClient(l_Conn[p]);
			ObjectLock olock(l_Ep[p]);
			l_Ep[p]->SetSyncing(true);
		}
		Sync();
		printf("%s | %s\n", line.c_str(), PosStr().c_str());
	} else if (op == "attach") {
		/* exactly the synchronous part of NewClientHandlerInternal: the endpoint counts as connected, SyncClient has not started yet */
		need(2);
		int p = PeerIdx(w[1]);
		if (!l_Conn[p]) {
			l_Conn[p] = MkConn(p);
			l_Ep[p]->AddClient(l_Conn[p]);
		}
		Sync();
		printf("%s | %s\n", line.c_str(), PosStr().c_str());
	} else if (op == "disc") {
		need(2);
		int p = PeerIdx(w[1]);
		if (l_Conn[p]) { l_Ep[p]->RemoveClient(l_Conn[p]); l_Conn[p] = nullptr; }
		Sync();
		printf("%s | %s\n", line.c_str(), PosStr().c_str());
	} else if (op == "replay") {
		need(3);
		int p = PeerIdx(w[2]);
		std::string vis = VisBits(p);
		std::string out = DoReplay(p, atoll(w[1].c_str()));
		printf("%s | %s %s %s\n", line.c_str(), vis.c_str(), out.c_str(), PosStr().c_str());
	} else if (op == "probe") {
		need(6);
		int p = PeerIdx(w[5]);
		FlushLog();
		std::string path = FilePath(w[1]);
		std::string orig = ReadFile(path);
		size_t k = ResolveOffset(w[2], orig);
		std::string vis = VisBits(p);
		{
			std::unique_lock<std::mutex> lock(l->*get(LogLockTag()));
			(l->*get(CloseTag()))();
		}
		std::string damaged = orig.substr(0, k) + UnHex(w[3]);
		WriteFile(path, damaged);
		std::string garb = w[3] == "-" ? "-" : DescribeDamage(damaged, k);
		std::string out = DoReplay(p, atoll(w[4].c_str()));
		{
			std::unique_lock<std::mutex> lock(l->*get(LogLockTag()));
			(l->*get(CloseTag()))();
			WriteFile(path, orig);
			(l->*get(OpenTag()))();
		}
		l_PrevCur = (long long)ReadFile(LogDir() + "/current").size();
		printf("probe %s %zu %s %s %s | %s %s %s %s\n", FileTok(path).c_str(), k, w[3].c_str(), w[4].c_str(), w[5].c_str(),
			vis.c_str(), out.c_str(), garb.c_str(), PosStr().c_str());
	} else if (op == "cutall") {
		need(3);
		FlushLog();
		std::vector<std::string> toks;
		for (long long n : RotatedNames()) toks.push_back(std::to_string(n));
		toks.push_back("cur");
		for (auto& t : toks) {
			size_t sz = ReadFile(FilePath(t)).size();
			for (size_t k = 0; k <= sz; k++) {
				std::string sub = "probe " + t + " " + std::to_string(k) + " - " + w[1] + " " + w[2];
				RunOp(Words(sub), sub);
			}
		}
	} else if (op == "flipall") {
		/* flipall <now> <p> <stride> <phase>: every stride-th byte of every file replaced IN PLACE by each of a few other bytes (the
		 * rest of the file stays): expands to probe lines that carry the whole changed suffix */
		need(5);
		FlushLog();
		size_t stride = (size_t)std::max(1, atoi(w[3].c_str())), phase = (size_t)atoi(w[4].c_str());
		std::vector<std::string> toks;
		for (long long n : RotatedNames()) toks.push_back(std::to_string(n));
		toks.push_back("cur");
		for (auto& t : toks) {
			std::string data = ReadFile(FilePath(t));
			for (size_t k = phase % stride; k < data.size(); k += stride) {
				for (char b : { '9', '0', '"' }) {
					if (data[k] == b) continue;
					std::string sfx = data.substr(k);
					sfx[0] = b;
					std::string sub = "probe " + t + " " + std::to_string(k) + " " + Hex(sfx) + " " + w[1] + " " + w[2];
					RunOp(Words(sub), sub);
				}
			}
		}
	} else if (op == "rotate") {
		need(2);
		SetNow(Sec(atoll(w[1].c_str())));
		Sync();
		auto before = RotatedNames();
		{
			std::unique_lock<std::mutex> lock(l->*get(LogLockTag()));
			(l->*get(CloseTag()))();
			(l->*get(RotateTag()))();
			(l->*get(OpenTag()))();
		}
		l_PrevCur = (long long)ReadFile(LogDir() + "/current").size();
		printf("%s | %s %s\n", line.c_str(), Diff(RotatedNames(), before).c_str(), PosStr().c_str());
	} else if (op == "setcount") {
		need(2);
		l->*get(LogCountTag()) = (size_t)atoll(w[1].c_str());
		printf("%s | %s\n", line.c_str(), PosStr().c_str());
	} else if (op == "drop") {
		need(1);
		Sync();
		if (!l_ZxDropped) { l_ZX->Deactivate(); l_ZX->Unregister(); l_ZxDropped = true; }
		printf("%s | %s\n", line.c_str(), PosStr().c_str());
	} else if (op == "timer") {
		need(2);
		double now = Sec(atoll(w[1].c_str()));
		SetNow(now);
		Sync();
		for (int p = 0; p < kNP; p++) if (l_Conn[p]) Drain(l_Conn[p]);
		auto before = RotatedNames();
		(l->*get(TimerTag()))->Reschedule(0);
		Timer::VerifFireDue(now);
		Sync();
		std::string deleted = Diff(before, RotatedNames());
		std::string outs;
		for (int p = 0; p < kNP; p++) outs += (p ? " " : "") + (l_Conn[p] ? DescribeOut(Drain(l_Conn[p])) : std::string("-"));
		printf("%s | %s %s %s\n", line.c_str(), deleted.c_str(), outs.c_str(), PosStr().c_str());
	} else if (op == "ack") {
		need(3);
		int p = PeerIdx(w[1]);
		Dictionary::Ptr msg = new Dictionary({ { "jsonrpc", "2.0" }, { "method", "log::SetLogPosition" },
			{ "params", new Dictionary({ { "log_position", Sec(atoll(w[2].c_str())) } }) } });
		(l_In[p].get()->*get(MhTag()))(msg);
		Sync();
		printf("%s | %s\n", line.c_str(), PosStr().c_str());
	} else if (op == "recv") {
		need(3);
		int p = PeerIdx(w[1]);
		Dictionary::Ptr msg = new Dictionary({ { "jsonrpc", "2.0" }, { "method", "verif::Noop" },
			{ "params", new Dictionary() }, { "ts", Sec(atoll(w[2].c_str())) } });
		l_Noop = 0;
		(l_In[p].get()->*get(MhTag()))(msg);
		Sync();
		printf("%s | %d %s\n", line.c_str(), l_Noop.load() > 0 ? 1 : 0, PosStr().c_str());
	} else if (op == "setbytes") {
		need(4);
		FlushLog();
		std::string path = FilePath(w[1]);
		std::string orig = ReadFile(path);
		size_t k = ResolveOffset(w[2], orig);
		bool isCur = FileTok(path) == "cur";
		{
			std::unique_lock<std::mutex> lock(l->*get(LogLockTag()));
			bool wasOpen = !!(l->*get(LogFileTag()));
			double keep = l->GetLogMessageTimestamp();
			if (isCur && wasOpen) (l->*get(CloseTag()))();
			WriteFile(path, orig.substr(0, k) + UnHex(w[3]));
			if (isCur && wasOpen) { (l->*get(OpenTag()))(); l->SetLogMessageTimestamp(keep); }
		}
		l_PrevCur = (long long)ReadFile(LogDir() + "/current").size();
		printf("setbytes %s %zu %s | %s\n", FileTok(path).c_str(), k, w[3].c_str(), PosStr().c_str());
	} else if (op == "ls") {
		need(1);
		FlushLog();
		std::string files;
		for (long long n : RotatedNames()) files += (files.empty() ? "" : ",") + std::to_string(n);
		printf("ls | %s %s\n", files.empty() ? "-" : files.c_str(), fs::exists(LogDir() + "/current") ? "cur" : "-");
	} else if (op == "dump") {
		/* the decoded record sequence of the whole directory, read by the production reader: ReplayLog towards peer A with
		 * its position (and a zero log_duration) set aside for the call */
		need(2);
		double keepPos = l_Ep[0]->GetLocalLogPosition(), keepDur = l_Ep[0]->GetLogDuration();
		l_Ep[0]->SetLocalLogPosition(0);
		if (keepDur == 0) l_Ep[0]->SetLogDuration(86400);
		bool keepSync = l_Ep[0]->GetSyncing();
		std::string vis = VisBits(0);
		std::string out = DoReplay(0, atoll(w[1].c_str()));
		l_Ep[0]->SetLocalLogPosition(keepPos);
		l_Ep[0]->SetLogDuration(keepDur);
		{ ObjectLock olock(l_Ep[0]); l_Ep[0]->SetSyncing(keepSync); }
		printf("%s | %s %s %s\n", line.c_str(), vis.c_str(), out.c_str(), PosStr().c_str());
	} else if (op == "stop") {
		need(2);
		SetNow(Sec(atoll(w[1].c_str())));
		Sync();
		for (int p = 0; p < kNP; p++) if (l_Conn[p]) { l_Ep[p]->RemoveClient(l_Conn[p]); l_Conn[p] = nullptr; }
		auto before = RotatedNames();
		l_Listener->Deactivate();
		printf("%s | %s %s\n", line.c_str(), Diff(RotatedNames(), before).c_str(), PosStr().c_str());
	} else if (op == "crash") {
		need(2);
		Sync();
		FlushLog();
		long long k = atoll(w[1].c_str());
		if (k >= 0) {
			std::string path = LogDir() + "/current";
			std::string c = ReadFile(path);
			if ((size_t)k < c.size()) { if (truncate(path.c_str(), (off_t)k) != 0) Die("truncate failed"); }
		}
		printf("%s | %s\n", line.c_str(), PosStr().c_str());
	} else {
		Die("unknown op: " + line);
	}
}

/* one process: lines [from, to) of FILE; the first line is `C` (fresh) or `start` (resume) */
static int NodeMain(const std::string& file, const std::string& work, const std::string& dir)
{
	std::ifstream in(file);
	if (!in) Die("cannot open " + file);
	std::vector<std::string> lines;
	std::string line;
	while (std::getline(in, line)) {
		auto w = Words(line);
		if (w.empty()) continue;
		std::string clean;
		for (auto& t : w) clean += (clean.empty() ? "" : " ") + t;
		lines.push_back(clean);
	}
	if (lines.empty()) _exit(0);
	auto w0 = Words(lines[0]);
	bool resume = w0[0] == "start";
	if (!resume && w0[0] != "C") Die("a segment starts with C or start: " + lines[0]);
	if (resume && w0.size() != 2) Die("bad line: " + lines[0]);
	if (!resume && w0.size() != (size_t)(4 + kNP)) Die("bad line: " + lines[0]);
	setvbuf(stdout, nullptr, _IOLBF, 0);      /* what was observed before a crash of the real code must not be lost */
	InitIcinga();
	BootNode(work, dir, resume, atoll(w0[resume ? 1 : 2].c_str()));
	bool ended = false;
	for (size_t i = 0; i < lines.size(); i++) {
		auto w = Words(lines[i]);
		if (ended) Die("line after stop/crash without start: " + lines[i]);
		if (i == 0 && resume) {
			printf("%s | %s %s\n", lines[0].c_str(), OrderStr().c_str(), PosStr().c_str());
		} else {
			WriteFile(dir + ".op", lines[i] + "\n");
			RunOp(w, lines[i]);
		}
		if (w[0] == "stop" || w[0] == "crash") ended = true;
		SaveState(ended);
	}
	fflush(stdout);
	_exit(0);
}

/* ------------------------------------------------------------------------------------------- */
/* part runner: the segments of a block of cases, one node process after the other on one directory */

static int PartMain(const char *self, const std::string& file, const std::string& work, const std::string& dir)
{
	std::ifstream in(file);
	if (!in) Die("cannot open " + file);
	std::vector<std::vector<std::string>> segs;
	std::string line;
	bool ended = false;
	while (std::getline(in, line)) {
		auto w = Words(line);
		if (w.empty()) continue;
		if (segs.empty() || w[0] == "start" || w[0] == "C") segs.push_back({});
		if (w[0] == "start" || w[0] == "C") ended = false;
		if (ended) continue;                      /* operations on a node that is not running (shrunk input): dropped */
		if (segs.back().empty() && w[0] != "start" && w[0] != "C") { segs.pop_back(); continue; }
		segs.back().push_back(line);
		if (w[0] == "stop" || w[0] == "crash") ended = true;
	}
	int rc = 0;
	bool skipCase = false;
	for (size_t i = 0; i < segs.size(); i++) {
		if (segs[i].empty()) continue;
		if (segs[i][0].rfind("C ", 0) == 0) skipCase = false;
		if (skipCase) continue;                   /* the node of this case died: its remaining segments cannot run */
		std::string sf = dir + ".seg";
		{
			std::ofstream o(sf);
			for (auto& l : segs[i]) o << l << "\n";
		}
		fflush(stdout);
		pid_t pid = fork();
		if (pid < 0) Die("fork failed");
		if (pid == 0) {
			execl(self, self, "node", sf.c_str(), "--work", work.c_str(), "--dir", dir.c_str(), (char *)nullptr);
			_exit(3);
		}
		int st = 0;
		if (waitpid(pid, &st, 0) < 0) Die("waitpid failed");
		if (WIFSIGNALED(st)) {
			/* the real code crashed: an observation, not a harness failure */
			std::string opLine = ReadFile(dir + ".op");
			while (!opLine.empty() && opLine.back() == '\n') opLine.pop_back();
			printf("%s | DIED %d\n", opLine.c_str(), WTERMSIG(st));
			skipCase = true;
			continue;
		}
		if (!WIFEXITED(st) || WEXITSTATUS(st) != 0) {
			fprintf(stderr, "h_c12: node process failed (status %d) in segment starting with: %s\n", st, segs[i][0].c_str());
			rc = 2;
			break;
		}
	}
	fflush(stdout);
	_exit(rc);
}

static int RunParts(const char *self, const std::vector<std::vector<std::string>>& parts, const std::string& work)
{
	MkDirs(work);
	if (!fs::exists(work + "/pki/done")) {      /* once per work directory; every later invocation skips the set-up */
		InitIcinga();
		SetupPki(work);
	}
	std::string run = work + "/run-" + std::to_string(getpid());
	MkDirs(run);
	size_t maxPar = 8;
	if (const char *e = getenv("VERIF_C12_JOBS")) maxPar = (size_t)std::max(1, atoi(e));
	std::vector<pid_t> pids(parts.size(), -1);
	std::vector<int> status(parts.size(), -1);
	size_t started = 0, finished = 0;
	auto partFile = [&](size_t i, const char *ext) { return run + "/part-" + std::to_string(i) + ext; };
	while (finished < parts.size()) {
		while (started < parts.size() && started - finished < maxPar) {
			size_t i = started++;
			{
				std::ofstream o(partFile(i, ".ops"));
				for (auto& l : parts[i]) o << l << "\n";
			}
			pid_t pid = fork();
			if (pid < 0) Die("fork failed");
			if (pid == 0) {
				if (!freopen(partFile(i, ".out").c_str(), "w", stdout)) _exit(3);
				std::string dir = run + "/node-" + std::to_string(i);
				execl(self, self, "part", partFile(i, ".ops").c_str(), "--work", work.c_str(), "--dir", dir.c_str(), (char *)nullptr);
				_exit(3);
			}
			pids[i] = pid;
		}
		int st = 0;
		pid_t p = wait(&st);
		if (p < 0) Die("wait failed");
		for (size_t i = 0; i < parts.size(); i++) if (pids[i] == p) { status[i] = st; finished++; }
	}
	int rc = 0;
	for (size_t i = 0; i < parts.size(); i++) {
		std::string out = ReadFile(partFile(i, ".out"));
		fwrite(out.data(), 1, out.size(), stdout);
		if (!WIFEXITED(status[i]) || WEXITSTATUS(status[i]) != 0) {
			fprintf(stderr, "h_c12: part %zu failed (status %d)\n", i, status[i]);
			rc = 2;
		}
	}
	fflush(stdout);
	std::error_code ec;
	if (!getenv("VERIF_C12_KEEP")) fs::remove_all(run, ec);
	_exit(rc);
}

int main(int argc, char **argv)
{
	if (argc < 2) { fprintf(stderr, "usage: h_c12 gen|ops|part|node ...\n"); return 2; }
	std::string mode = argv[1];
	char self[4096];
	ssize_t sl = readlink("/proc/self/exe", self, sizeof self - 1);
	if (sl <= 0) return 2;
	self[sl] = 0;
	std::string dfltWork = fs::path(self).parent_path().parent_path().string() + "/c12/nodes";
	std::string work = argOr(argc, argv, "--work", dfltWork.c_str());

	if (mode == "node") return NodeMain(argv[2], work, argOr(argc, argv, "--dir", "/nonexistent"));
	if (mode == "part") return PartMain(self, argv[2], work, argOr(argc, argv, "--dir", "/nonexistent"));

	std::vector<std::string> lines;
	if (mode == "gen") {
		uint64_t seed = strtoull(argOr(argc, argv, "--seed", "1"), nullptr, 10);
		bool thorough = std::string(argOr(argc, argv, "--tier", "quick")) == "thorough";
		GenAll(seed, thorough, lines);
	} else if (mode == "ops") {
		if (argc < 3) return 2;
		std::ifstream in(argv[2]);
		if (!in) { perror("open"); return 2; }
		std::string line;
		while (std::getline(in, line)) {
			auto w = Words(line);
			if (w.empty()) continue;
			std::string clean;
			for (auto& t : w) clean += (clean.empty() ? "" : " ") + t;
			lines.push_back(clean);
		}
	} else {
		return 2;
	}
	/* blocks of whole cases */
	std::vector<std::vector<std::string>> cases;
	for (auto& l : lines) {
		if (l.rfind("C ", 0) == 0) cases.push_back({});
		if (cases.empty()) { fprintf(stderr, "h_c12: operation before any C line\n"); return 2; }
		cases.back().push_back(l);
	}
	size_t nParts = std::min<size_t>(16, std::max<size_t>(1, cases.size() / 4));
	std::vector<std::vector<std::string>> parts(nParts);
	/* contiguous blocks, balanced by work: a cutall / flipall line expands to more than a thousand replays */
	auto weight = [](const std::string& l) -> size_t { return l.rfind("cutall", 0) == 0 || l.rfind("flipall", 0) == 0 ? 1200 : 1; };
	size_t total = 0, acc = 0, pi = 0;
	for (auto& l : lines) total += weight(l);
	for (auto& c : cases) {
		if (acc >= (pi + 1) * total / nParts && pi + 1 < nParts) pi++;
		for (auto& l : c) { parts[pi].push_back(l); acc += weight(l); }
	}
	std::vector<std::vector<std::string>> nonEmpty;
	for (auto& p : parts) if (!p.empty()) nonEmpty.push_back(p);
	return RunParts(self, nonEmpty, work);
}

/* C13 harness: which cluster messages does a node apply?
 *
 * One process is ONE receiver node (the ApiListener is a singleton): a zone forest with two endpoints per
 * zone is registered, the receiver is endpoint `e<local>a`, every other endpoint has a (never started)
 * JsonRpcConnection attached.  Real Host/Service/Notification/Comment objects exist in every zone (and with
 * no zone).  For every case a raw JSON-RPC message is handed to the REAL JsonRpcConnection::MessageHandler of
 * the sender's connection (so `origin->FromZone` is computed by the production code, `originZone` path
 * included), which looks the method up in the ApiFunction registry and invokes the registered handler.
 * Before and after, the harness serialises every ConfigObject (FAConfig|FAState), lists the data directory,
 * drains every connection's outgoing queue and reads its own counters (command executed, notification
 * signals).
 *
 * Lines:
 *   F <local> <n> <p0> ... <p(n-1)>     forest: p = `-` root, `g` global zone (no endpoints), else parent index
 *   M <method> <sender> <origin> <objzone> <execzone> <cmdep> <acfg> <acmd> <exists> <var>
 *        | <objects> <files> <relayed> <executed> <replied> <fromzone> <hasendpoint> <foreign>
 *     sender : a<z> authenticated connection whose identity is a configured endpoint of zone z (for the local
 *              zone the receiver's peer) · n<z> the same identity, certificate NOT verified · u authenticated
 *              identity without Endpoint object · x anonymous
 *     origin : message field originZone: `-` absent, `?` a name that is no zone, else zone index
 *     objzone: zone attribute of the target object: `-` unset, else zone index
 *     execzone: event::ExecutedCommand: zone of the endpoint stored in executions[uuid] (`-`: no such execution);
 *              event::ExecuteCommand: the `endpoint` parameter names endpoint `b` of that zone, i.e. another node
 *              (`-`: no such parameter resp. var=1: it names the receiver) => forwarding branch
 *     cmdep  : the checkable's command_endpoint: 0 none · 1 the endpoint the sender's identity names · 2 the OTHER endpoint of
 *              the sender's zone (its HA partner; for the receiver's own-zone peer that is the receiver) · 3 the receiver
 *     exists : 0 = the parameters name objects that do not exist (malformed stream)
 *     var    : 0 host / 1 service `s` of that host / 2 service `s<objzone>` of the zone-less host hU (the service's own
 *              zone differs from its host's); event::SetRemovalInfo: bit 0 host/service, bit 1 comment/downtime;
 *              event::ExecuteCommand: local branch 1 = `endpoint` parameter names the receiver, 2 = with `source`/`deadline`
 *              (an execution started through the API); forwarding branch 2 = the child endpoints cannot execute arbitrary
 *              commands (error notice :972-994), 3 = the host is one the child zone cannot access (error notice :1027-1051
 *              when the target sits deeper than the direct child); pki::UpdateCertificate: 1 = own-certificate branch;
 *              config::UpdateObject: 0 object does not exist, config text given (create) · 1 runtime object exists, newer
 *              version, a modified attribute · 2 exists, version NOT newer · 3 does not exist, empty config text · 4 exists,
 *              newer version, no modified attributes (version only) · 5 like 1 for an object not created through the API;
 *              config::DeleteObject: 0 runtime object (`exists` says whether it is there) · 1 an object not created through
 *              the API; config::Update: 0 empty file set · 1 a real .conf file, timestamps only (pre-2.11 sender), staged
 *              config validates · 2 the same with checksums · 3 like 2, staged config does NOT validate
 *   observation: bits objects files relayed executed; replied = messages queued back to the sender;
 *     fromzone / hasendpoint: what a probe ApiFunction sees as origin->FromZone / FromClient->GetEndpoint()
 *     for a message with the same connection and originZone field (`-` = null);
 *     foreign = an object other than the sender's own Endpoint object changed.
 *
 * Modes: gen --seed S --tier quick|thorough --work DIR    enumeration (fixed forest, every receiver position)
 *                                                          + seeded random forests
 *        ops FILE --work DIR                               replay F/M lines (text after `|` ignored)
 *        node FILE --work DIR --id K                       (internal) one receiver process
 */
#include "common.hpp"
#include "base/configuration.hpp"
#include "base/scriptglobal.hpp"
#include "base/tlsutility.hpp"
#include "base/io-engine.hpp"
#include "base/tlsstream.hpp"
#include "base/function.hpp"
#include "base/workqueue.hpp"
#include "base/process.hpp"
#include "remote/apilistener.hpp"
#include "remote/apifunction.hpp"
#include "remote/endpoint.hpp"
#include "remote/zone.hpp"
#include "remote/jsonrpcconnection.hpp"
#include "remote/messageorigin.hpp"
#include "remote/pkiutility.hpp"
#include "remote/configobjectutility.hpp"
#include "icinga/notification.hpp"
#include "icinga/comment.hpp"
#include "icinga/downtime.hpp"
#include "icinga/user.hpp"
#include "icinga/checkcommand.hpp"
#include "icinga/clusterevents.hpp"
#include <filesystem>
#include <fstream>
#include <future>
#include <map>
#include <set>
#include <sys/stat.h>
#include <sys/wait.h>

using namespace icinga;
using namespace vh;
namespace fs = std::filesystem;

namespace vh {
typedef void MhFn(const Dictionary::Ptr&);
VH_ROB_MEMBER(MhTag, JsonRpcConnection, MhFn, MessageHandler)
VH_ROB_MEMBER(StrandTag, JsonRpcConnection, boost::asio::io_context::strand, m_IoStrand)
VH_ROB_MEMBER(OutQTag, JsonRpcConnection, std::vector<String>, m_OutgoingMessagesQueue)
VH_ROB_MEMBER(RelayQTag, ApiListener, WorkQueue, m_RelayQueue)
VH_ROB_MEMBER(SyncQTag, ApiListener, WorkQueue, m_SyncQueue)
VH_ROB_STATIC(StageLockTag, std::mutex *type, ApiListener, m_ConfigSyncStageLock)
VH_ROB_STATIC(SchedTag, bool *type, ClusterEvents, m_CheckSchedulerRunning)
}

static void Die(const std::string& msg)
{
	fprintf(stderr, "h_c13: %s\n", msg.c_str());
	fflush(stdout);
	_exit(2);
}

static std::vector<std::string> Words(const std::string& line)
{
	std::vector<std::string> w;
	std::istringstream is(line);
	std::string t;
	while (is >> t) {
		if (t == "|") break;
		w.push_back(t);
	}
	return w;
}

/* ------------------------------------------------------------------------------------------- */
/* forest */

struct Forest {
	int local = 0;
	std::vector<int> parent;   /* -1 root, -2 global */
	std::string Line() const {
		std::string s = "F " + std::to_string(local) + " " + std::to_string(parent.size());
		for (int p : parent) s += p == -1 ? " -" : p == -2 ? " g" : " " + std::to_string(p);
		return s;
	}
	bool Global(int z) const { return parent[z] == -2; }
};

static bool ParseForest(const std::vector<std::string>& w, Forest& f)
{
	if (w.size() < 3 || w[0] != "F") return false;
	f.local = atoi(w[1].c_str());
	size_t n = (size_t)atoi(w[2].c_str());
	if (w.size() != 3 + n || n == 0 || n > 16) return false;
	f.parent.clear();
	for (size_t i = 0; i < n; i++) {
		const std::string& p = w[3 + i];
		if (p == "-") f.parent.push_back(-1);
		else if (p == "g") f.parent.push_back(-2);
		else {
			int v = atoi(p.c_str());
			if (v < 0 || (size_t)v >= n || (size_t)v == i) return false;
			f.parent.push_back(v);
		}
	}
	if (f.local < 0 || (size_t)f.local >= n || f.Global(f.local)) return false;
	for (size_t i = 0; i < n; i++) {           /* parents are real zones, no cycles */
		int z = (int)i, steps = 0;
		while (f.parent[z] >= 0) { z = f.parent[z]; if (f.Global(z) || ++steps > 16) return false; }
	}
	return true;
}

/* ------------------------------------------------------------------------------------------- */
/* case generation (pure text; never looks at the implementation) */

static const char *kAccess[] = { "event::SetNextCheck", "event::SetLastCheckStarted", "event::SetNextNotification",
	"event::SetForceNextCheck", "event::SetForceNextNotification", "event::SetAcknowledgement",
	"event::ClearAcknowledgement", "event::UpdateExecutions", "event::SetRemovalInfo" };
static const char *kLocal[] = { "event::SetStateBeforeSuppression", "event::SetSuppressedNotifications",
	"event::SetSuppressedNotificationTypes", "event::UpdateLastNotifiedStatePerUser",
	"event::ClearLastNotifiedStatePerUser", "event::SendNotifications", "event::NotificationSentUser",
	"event::NotificationSentToAllUsers" };

struct GenCtx {
	const Forest& f;
	Rng& rng;
	std::vector<std::string>& out;
	int keep;   /* keep one case in `keep` of the sampled groups (1 = everything) */
	bool skipGlobalCheckable = false;
	std::vector<std::string> senders, zonesAll, zonesReal;
};

static std::string ZoneTok(int z) { return z < 0 ? "-" : std::to_string(z); }

/* Hosts and services cannot live in a global zone (host.cpp:29, service.cpp:51); notifications and comments can. */
static bool TargetsCheckable(const std::string& m)
{
	if (m.rfind("event::", 0) != 0) return false;
	for (const char *x : { "event::SetNextNotification", "event::SetSuppressedNotificationTypes", "event::UpdateLastNotifiedStatePerUser",
		"event::ClearLastNotifiedStatePerUser", "event::SetRemovalInfo", "event::ExecuteCommand", "event::Heartbeat" })
		if (m == x) return false;
	return true;
}

static void EmitM(GenCtx& g, const std::string& method, const std::string& sender, const std::string& origin,
	const std::string& objzone0, const std::string& execzone, int cmdep, int acfg, int acmd, int exists, int var)
{
	std::string objzone = objzone0;
	if (objzone != "-" && g.f.Global(atoi(objzone.c_str())) && TargetsCheckable(method)) {
		if (g.skipGlobalCheckable) return;
		objzone = "-";
	}
	char buf[64];
	snprintf(buf, sizeof buf, " %d %d %d %d %d", cmdep, acfg, acmd, exists, var);
	g.out.push_back("M " + method + " " + sender + " " + origin + " " + objzone + " " + execzone + buf);
}

/* (sender, origin) pairs: for a sender of the receiver's own zone every origin value matters; for all others
 * MessageHandler must ignore the field, which two values show. */
static std::vector<std::pair<std::string, std::string>> SenderOrigins(GenCtx& g)
{
	std::vector<std::pair<std::string, std::string>> r;
	std::string own = "a" + std::to_string(g.f.local);
	for (auto& s : g.senders) {
		if (s == own) {
			r.push_back({ s, "-" });
			r.push_back({ s, "?" });
			for (auto& z : g.zonesAll) r.push_back({ s, z });
		} else {
			r.push_back({ s, "-" });
			/* a claimed origin that would make the message look harmless: the local zone, or the object's */
			r.push_back({ s, std::to_string(g.f.local) });
		}
	}
	return r;
}

static void GenCases(const Forest& f, Rng& rng, std::vector<std::string>& out, int keep)
{
	GenCtx g{ f, rng, out, keep, false, {}, {}, {} };
	int n = (int)f.parent.size();
	for (int z = 0; z < n; z++) {
		g.zonesAll.push_back(std::to_string(z));
		if (!f.Global(z)) { g.zonesReal.push_back(std::to_string(z)); g.senders.push_back("a" + std::to_string(z)); }
	}
	g.senders.push_back("n" + std::to_string(f.local));
	for (int z = 0; z < n; z++) if (!f.Global(z) && z != f.local) { g.senders.push_back("n" + std::to_string(z)); break; }
	g.senders.push_back("u");
	g.senders.push_back("x");
	auto so = SenderOrigins(g);
	std::vector<std::string> objz = g.zonesAll;
	objz.push_back("-");
	auto pick = [&]() { return keep <= 1 || rng.below((uint64_t)keep) == 0; };
	int flip = 0;

	/* state / event updates guarded by CanAccessObject */
	g.skipGlobalCheckable = true;
	auto varFor = [&](const std::string& m, const std::string& oz, int k) {
		if (m == "event::SetRemovalInfo") return k % 4;
		if (m == "event::SetNextNotification") return k % 2;
		int v = k % 3;
		if (v == 2 && (oz == "-" || f.Global(atoi(oz.c_str())))) v = 1;
		return v;
	};
	for (const char *m : kAccess)
		for (auto& p : so)
			for (auto& oz : objz) {
				if (!pick()) continue;
				EmitM(g, m, p.first, p.second, oz, "-", TargetsCheckable(m) ? (flip >> 1) % 4 : 0, flip & 1, (flip >> 1) & 1, 1, varFor(m, oz, flip >> 2));
				flip++;
			}
	for (auto& p : so)
		for (auto& oz : objz)
			for (int cmdep = 0; cmdep < 4; cmdep++) {
				if (!pick()) continue;
				EmitM(g, "event::CheckResult", p.first, p.second, oz, "-", cmdep, flip & 1, (flip >> 1) & 1, 1, varFor("event::CheckResult", oz, flip >> 2));
				flip++;
			}
	g.skipGlobalCheckable = false;
	/* execution results: the zone of the execution's endpoint matters, the object's zone must not */
	{
		std::vector<std::string> ez = g.zonesReal;
		ez.push_back("-");
		for (auto& p : so)
			for (auto& e : ez)
				for (int k = 0; k < 2; k++) {
					if (!pick()) continue;
					EmitM(g, "event::ExecutedCommand", p.first, p.second, objz[(flip + k) % objz.size()], e, 0, flip & 1, (flip >> 1) & 1, 1, k);
					flip++;
				}
	}
	/* zone-internal bookkeeping */
	for (const char *m : kLocal)
		for (auto& p : so)
			for (int k = 0; k < 2; k++) {
				if (!pick()) continue;
				EmitM(g, m, p.first, p.second, objz[(flip + k) % objz.size()], "-", 0, flip & 1, (flip >> 1) & 1, 1, k);
				flip++;
			}
	/* command execution: accept_commands on/off, without / with the local endpoint as target */
	for (auto& p : so)
		for (int acmd = 0; acmd < 2; acmd++)
			for (int var = 0; var < 3; var++) {
				if (!pick()) continue;
				EmitM(g, "event::ExecuteCommand", p.first, p.second, "-", "-", 0, flip & 1, acmd, 1, var);
				flip++;
			}
	/* command forwarding: the `endpoint` parameter names a node of every zone, from every sender relation */
	for (auto& p : so)
		for (auto& tz : g.zonesReal)
			for (int acmd = 0; acmd < 2; acmd++) {
				if (!pick()) continue;
				EmitM(g, "event::ExecuteCommand", p.first, p.second, "-", tz, 0, flip & 1, acmd, 1, (flip % 3 == 0) ? 0 : 1 + flip % 3);
				flip++;
			}
	/* configuration: accept_config on/off */
	/* every branch of every handler: config::UpdateObject var 0-5, config::DeleteObject runtime object there / gone /
	 * not an API object, config::Update empty / real files (without, with checksums; validation ok / failing) */
	for (auto& p : so)
		for (int acfg = 0; acfg < 2; acfg++) {
			for (int var = 0; var < 6; var++) {
				if (!pick()) continue;
				EmitM(g, "config::UpdateObject", p.first, p.second, objz[flip % objz.size()], "-", 0, acfg, flip & 1, 1, var);
				flip++;
			}
			for (int k = 0; k < 3; k++) {
				if (!pick()) continue;
				EmitM(g, "config::DeleteObject", p.first, p.second, objz[flip % objz.size()], "-", 0, acfg, flip & 1, k == 2 ? 0 : 1, k == 1 ? 1 : 0);
				flip++;
			}
			for (int var = 0; var < 4; var++) {
				if (!pick()) continue;
				EmitM(g, "config::Update", p.first, p.second, objz[flip % objz.size()], "-", 0, acfg, flip & 1, 1, var);
				flip++;
			}
		}
	/* certificates, session */
	for (const char *m : { "pki::UpdateCertificate", "pki::RequestCertificate", "icinga::Hello", "log::SetLogPosition", "event::Heartbeat" })
		for (auto& p : so) {
			if (!pick()) continue;
			EmitM(g, m, p.first, p.second, "-", "-", 0, flip & 1, (flip >> 1) & 1, 1, 0);
			flip++;
		}
	/* malformed stream: the named objects do not exist */
	for (const char *m : kAccess)
		for (auto& s : g.senders) {
			if (rng.below(3)) continue;
			EmitM(g, m, s, "-", "-", "-", 0, 1, 1, 0, (int)rng.below(2));
		}
	for (const char *m : { "event::CheckResult", "event::ExecutedCommand", "event::SetSuppressedNotifications",
		"event::NotificationSentUser", "config::DeleteObject" })
		for (auto& s : g.senders) {
			if (rng.below(3)) continue;
			EmitM(g, m, s, "-", "-", "-", 0, 1, 1, 0, 0);
		}
}

/* The fixed forest of the quick tier contains every relation the property names, from three receiver
 * positions:     0 master ── 1 sat ── 2 agent          5 other (unrelated root)      6 global
 *                   │           └──── 4 agent2 (sibling of 2)
 *                   └──── 3 sat2 (sibling of 1)                                                         */
static Forest FixedForest(int local)
{
	Forest f;
	f.local = local;
	f.parent = { -1, 0, 1, 0, 1, -1, -2 };
	return f;
}

static Forest RandomForest(Rng& rng)
{
	Forest f;
	int n = 3 + (int)rng.below(6);
	std::vector<int> depth(n, 0);
	for (int z = 0; z < n; z++) {
		int k = (int)rng.below(10);
		if (z == 0 || k == 0) { f.parent.push_back(-1); depth[z] = 1; continue; }
		if (k == 1 && z > 1) { f.parent.push_back(-2); depth[z] = 0; continue; }
		std::vector<int> cands;
		for (int p = 0; p < z; p++) if (depth[p] >= 1 && depth[p] <= 2) cands.push_back(p);   /* depth <= 3 */
		if (cands.empty()) { f.parent.push_back(-1); depth[z] = 1; continue; }
		int p = cands[rng.below(cands.size())];
		f.parent.push_back(p);
		depth[z] = depth[p] + 1;
	}
	std::vector<int> real;
	for (int z = 0; z < n; z++) if (f.parent[z] != -2) real.push_back(z);
	f.local = real[rng.below(real.size())];
	return f;
}

/* ------------------------------------------------------------------------------------------- */
/* the receiver node */

static Forest l_F;
static ApiListener::Ptr l_Listener;
static Shared<boost::asio::ssl::context>::Ptr l_Ssl;
static std::string l_Dir;
static std::vector<Zone::Ptr> l_Zones;
static std::map<std::string, Endpoint::Ptr> l_Endpoints;
static std::map<std::string, JsonRpcConnection::Ptr> l_Conns;   /* by sender token */
static std::atomic<int> l_Executed{0};
static std::string l_ProbeZone, l_ProbeEndpoint;
static long l_Tick = 0;
static double l_Now = 200000;
static String l_CaText, l_OwnCertText, l_SelfSignedText;

static std::string ZoneName(int z) { return "z" + std::to_string(z); }
static std::string EpName(int z, char which) { return "e" + std::to_string(z) + which; }
static std::string HostName(const std::string& oz) { return oz == "-" ? "hU" : "h" + oz; }

static void MkDirs(const std::string& p) { std::error_code ec; fs::create_directories(p, ec); }

static void VExec(const Checkable::Ptr&, const CheckResult::Ptr&, const Dictionary::Ptr&, bool)
{
	l_Executed++;
}

static void Sync()
{
	ApiListener *l = l_Listener.get();
	(l->*get(RelayQTag())).Join();
	(l->*get(SyncQTag())).Join();
}

static void SetF(const ConfigObject::Ptr& o, const char *field, const Value& v)
{
	int id = o->GetReflectionType()->GetFieldId(field);
	if (id < 0) Die(std::string("no field ") + field);
	o->SetField(id, v);
}

static void Bring(const ConfigObject::Ptr& p)
{
	p->Register();
	p->OnAllConfigLoaded();
	p->PreActivate();
	p->Activate();
	p->SetAuthority(true);
}

static std::string ReadFile(const std::string& p)
{
	std::ifstream f(p, std::ios::binary);
	std::stringstream ss;
	ss << f.rdbuf();
	return ss.str();
}

static void SetupPki(const std::string& work)
{
	/* RSA key generation is slow: one CA + node certificate + a self-signed stranger, shared by all nodes */
	std::string pki = work + "/pki";
	if (!fs::exists(pki + "/done")) {
		std::string tmp = pki + ".tmp." + std::to_string(getpid());
		MkDirs(tmp + "/certs");
		Configuration::DataDir = tmp;
		if (PkiUtility::NewCa() > 0) Die("NewCa failed");
		String certs = ApiListener::GetCertsDir();
		if (PkiUtility::NewCert("vnode", certs + "/vnode.key", certs + "/vnode.csr", "") > 0) Die("NewCert failed");
		if (PkiUtility::SignCsr(certs + "/vnode.csr", certs + "/vnode.crt") > 0) Die("SignCsr failed");
		Utility::CopyFile(ApiListener::GetCaDir() + "/ca.crt", certs + "/ca.crt");
		if (PkiUtility::NewCert("stranger", tmp + "/stranger.key", "", tmp + "/stranger.crt") > 0) Die("NewCert (self-signed) failed");
		std::ofstream(tmp + "/done") << "1";
		std::error_code ec;
		fs::rename(tmp, pki, ec);
		if (ec) fs::remove_all(tmp, ec);      /* somebody else was faster */
	}
}

static void BuildNode(const std::string& work, const std::string& id)
{
	l_Dir = work + "/node-" + id;
	std::error_code ec;
	fs::remove_all(l_Dir, ec);
	MkDirs(l_Dir);
	fs::copy(work + "/pki/certs", l_Dir + "/certs", fs::copy_options::recursive, ec);
	fs::copy(work + "/pki/ca", l_Dir + "/ca", fs::copy_options::recursive, ec);
	fs::copy_file(work + "/pki/stranger.crt", l_Dir + "/stranger.crt", ec);
	Configuration::DataDir = l_Dir;
	Configuration::CacheDir = l_Dir + "/cache";
	Configuration::LogDir = l_Dir + "/log";
	Configuration::ZonesDir = l_Dir + "/zones.d";
	Configuration::ConfigDir = l_Dir + "/etc";
	MkDirs(l_Dir + "/cache"); MkDirs(l_Dir + "/log"); MkDirs(l_Dir + "/zones.d"); MkDirs(l_Dir + "/etc");
	MkDirs(l_Dir + "/certificate-requests");
	ScriptGlobal::Set("NodeName", "vnode");
	Application::SetStartTime(1000);
	SetNow(l_Now);

	l_CaText = ReadFile(l_Dir + "/certs/ca.crt");
	l_OwnCertText = ReadFile(l_Dir + "/certs/vnode.crt");
	l_SelfSignedText = ReadFile(l_Dir + "/stranger.crt");

	ApiListener::Ptr l = new ApiListener();
	l->SetName("api");
	l->SetBindHost("127.0.0.1");
	l->SetBindPort("0");
	l->Register();
	static_pointer_cast<ConfigObject>(l)->OnConfigLoaded();
	l_Ssl = SetupSslContext(ApiListener::GetDefaultCertPath(), ApiListener::GetDefaultKeyPath(), ApiListener::GetDefaultCaPath(),
		"", l->GetCipherList(), l->GetTlsProtocolmin(), DebugInfo());
	l_Listener = l;

	int n = (int)l_F.parent.size();
	std::vector<Endpoint::Ptr> eps;
	for (int z = 0; z < n; z++) {
		if (l_F.Global(z)) continue;
		for (char w : { 'a', 'b' }) {
			Endpoint::Ptr e = new Endpoint();
			e->SetName(String(EpName(z, w)));
			e->Register();
			l_Endpoints[EpName(z, w)] = e;
			eps.push_back(e);
		}
	}
	for (int z = 0; z < n; z++) {
		Zone::Ptr zo = new Zone();
		zo->SetName(String(ZoneName(z)));
		if (l_F.Global(z)) {
			zo->SetGlobal(true);
		} else {
			zo->SetEndpointsRaw(new Array({ String(EpName(z, 'a')), String(EpName(z, 'b')) }));
			if (l_F.parent[z] >= 0)
				zo->SetParentRaw(String(ZoneName(l_F.parent[z])));
		}
		zo->Register();
		l_Zones.push_back(zo);
	}
	for (auto& z : l_Zones) static_pointer_cast<ConfigObject>(z)->OnAllConfigLoaded();
	for (auto& e : eps) static_pointer_cast<ConfigObject>(e)->OnAllConfigLoaded();
	l_Listener->SetIdentity(String(EpName(l_F.local, 'a')));
	static_pointer_cast<ConfigObject>(l_Listener)->OnAllConfigLoaded();
	l_Listener->PreActivate();
	l_Listener->Activate();
	for (auto& e : eps) { e->PreActivate(); e->Activate(); }
	for (auto& z : l_Zones) { z->PreActivate(); z->Activate(); }
	if (Zone::GetLocalZone() != l_Zones[l_F.local]) Die("local zone not resolved");

	/* connections */
	auto mkConn = [&](const std::string& identity, bool auth) {
		return JsonRpcConnection::Ptr(new JsonRpcConnection(String(identity), auth,
			Shared<AsioTlsStream>::Make(IoEngine::Get().GetIoContext(), *l_Ssl), RoleServer));
	};
	for (int z = 0; z < n; z++) {
		if (l_F.Global(z)) continue;
		for (char w : { 'a', 'b' }) {
			if (z == l_F.local && w == 'a') continue;     /* that is us */
			JsonRpcConnection::Ptr c = mkConn(EpName(z, w), true);
			l_Endpoints[EpName(z, w)]->AddClient(c);
			l_Conns["ep:" + EpName(z, w)] = c;
		}
		char w = z == l_F.local ? 'b' : 'a';
		l_Conns["a" + std::to_string(z)] = l_Conns["ep:" + EpName(z, w)];
		l_Conns["n" + std::to_string(z)] = mkConn(EpName(z, w), false);
	}
	l_Conns["u"] = mkConn("stranger", true);
	l_Conns["x"] = mkConn("anonymous", false);

	/* objects */
	CheckCommand::Ptr cmd = new CheckCommand();
	cmd->SetName("vcmd");
	cmd->SetExecute(new Function("vexec", VExec));
	Bring(cmd);
	User::Ptr user = new User();
	user->SetName("u1");
	Bring(user);
	std::vector<std::string> ozs;
	for (int z = 0; z < n; z++) ozs.push_back(std::to_string(z));
	ozs.push_back("-");
	for (auto& oz : ozs) {
		String zn = oz == "-" ? String() : String(ZoneName(atoi(oz.c_str())));
		String hn = String(HostName(oz));
		Host::Ptr h = new Host();
		h->SetName(hn);
		SetF(h, "check_command", "vcmd");
		bool globalZone = oz != "-" && l_F.Global(atoi(oz.c_str()));
		h->SetZoneName(globalZone ? String() : zn);
		Bring(h);
		Service::Ptr s = new Service();
		SetF(s, "host_name", hn);
		s->SetShortName("s", true);
		s->SetName(hn + "!s");
		SetF(s, "check_command", "vcmd");
		s->SetZoneName(globalZone ? String() : zn);
		Bring(s);
		for (const char *suffix : { "!n", "!s!n" }) {
			Notification::Ptr nt = new Notification();
			SetF(nt, "host_name", hn);
			if (suffix[1] == 's') SetF(nt, "service_name", "s");
			nt->SetName(hn + suffix);
			nt->SetZoneName(zn);
			Bring(nt);
		}
		for (const char *suffix : { "!d", "!s!d" }) {
			Downtime::Ptr d = new Downtime();
			SetF(d, "host_name", hn);
			if (suffix[1] == 's') SetF(d, "service_name", "s");
			d->SetFixed(true);
			d->SetStartTime(4e9); d->SetEndTime(4e9 + 3600); d->SetEntryTime(1);
			d->SetAuthor("v"); d->SetComment("v");
			d->SetName(hn + suffix);
			d->SetZoneName(zn);
			Bring(d);
		}
		for (const char *suffix : { "!c", "!s!c" }) {
			Comment::Ptr c = new Comment();
			SetF(c, "host_name", hn);
			if (suffix[1] == 's') SetF(c, "service_name", "s");
			c->SetAuthor("v");
			c->SetText("v");
			c->SetName(hn + suffix);
			c->SetZoneName(zn);
			Bring(c);
		}
	}

	/* services whose own zone differs from their (zone-less) host's */
	for (auto& oz : ozs) {
		if (oz == "-" || l_F.Global(atoi(oz.c_str()))) continue;
		Service::Ptr s = new Service();
		SetF(s, "host_name", String("hU"));
		s->SetShortName(String("s" + oz), true);
		s->SetName(String("hU!s" + oz));
		SetF(s, "check_command", "vcmd");
		s->SetZoneName(String(ZoneName(atoi(oz.c_str()))));
		Bring(s);
	}

	Checkable::OnNotificationsRequested.connect([](const Checkable::Ptr&, NotificationType, const CheckResult::Ptr&,
		const String&, const String&, const MessageOrigin::Ptr&) { l_Executed++; });
	Checkable::OnNotificationSentToUser.connect([](const Notification::Ptr&, const Checkable::Ptr&, const User::Ptr&,
		const NotificationType&, const CheckResult::Ptr&, const String&, const String&, const String&,
		const MessageOrigin::Ptr&) { l_Executed++; });
	Checkable::OnNotificationSentToAllUsers.connect([](const Notification::Ptr&, const Checkable::Ptr&, const std::set<User::Ptr>&,
		const NotificationType&, const CheckResult::Ptr&, const String&, const String&,
		const MessageOrigin::Ptr&) { l_Executed++; });

	ApiFunction::Register("verif::Probe", new ApiFunction([](const MessageOrigin::Ptr& origin, const Dictionary::Ptr&) -> Value {
		l_ProbeZone = origin->FromZone ? std::string(origin->FromZone->GetName().CStr()) : "-";
		Endpoint::Ptr ep = origin->FromClient ? origin->FromClient->GetEndpoint() : nullptr;
		l_ProbeEndpoint = ep ? std::string(ep->GetName().CStr()) : "-";
		return Empty;
	}));
	Sync();
}

/* outgoing queues: barrier on the connection's strand, then count and clear */
static int Drain(const JsonRpcConnection::Ptr& c)
{
	std::promise<int> done;
	auto fut = done.get_future();
	JsonRpcConnection *raw = c.get();
	boost::asio::post(raw->*get(StrandTag()), [raw, &done]() {
		auto& q = raw->*get(OutQTag());
		int k = (int)q.size();
		q.clear();
		done.set_value(k);
	});
	return fut.get();
}

/* Handlers may detach threads (config::Update: std::thread running HandleConfigUpdate; event::ExecuteCommand: the
 * remote check scheduler).  A thread that did not exist before the message was handed over must be gone before the
 * "after" snapshot is taken — no sleeps, no guesses about how long a thread takes to start. */
static std::set<std::string> Tids()
{
	std::set<std::string> r;
	std::error_code ec;
	for (auto& e : fs::directory_iterator("/proc/self/task", ec)) r.insert(e.path().filename().string());
	return r;
}

static void JoinNewThreads(const std::set<std::string>& before)
{
	for (int i = 0; i < 400000; i++) {           /* <= ~40 s */
		bool any = false;
		for (auto& t : Tids()) if (!before.count(t)) { any = true; break; }
		if (!any) return;
		usleep(100);
	}
	Die("a thread started by a handler did not finish");
}

static void Quiesce()
{
	Sync();
	/* remote check queue (event::ExecuteCommand) */
	for (int i = 0; i < 200000; i++) {
		if (ClusterEvents::GetCheckRequestQueueSize() == 0 && !*get(SchedTag())) break;
		usleep(50);
	}
	Sync();
}

static uint64_t Fnv(const std::string& s)
{
	uint64_t h = 1469598103934665603ULL;
	for (unsigned char c : s) { h ^= c; h *= 1099511628211ULL; }
	return h;
}

typedef std::map<std::string, uint64_t> Snap;

static Snap SnapObjects()
{
	Snap s;
	for (const Type::Ptr& type : Type::GetAllTypes()) {
		auto *ct = dynamic_cast<ConfigType *>(type.get());
		if (!ct) continue;
		for (const ConfigObject::Ptr& o : ct->GetObjects()) {
			std::string key = std::string(type->GetName().CStr()) + "!" + o->GetName().CStr();
			String js = JsonEncode(Serialize(o, FAEphemeral | FAConfig | FAState));
			s[key] = Fnv(std::string(js.CStr(), js.GetLength())) ^ (o->IsActive() ? 1 : 0);
		}
	}
	return s;
}

static Snap SnapFiles()
{
	Snap s;
	std::error_code ec;
	for (auto it = fs::recursive_directory_iterator(l_Dir, ec); !ec && it != fs::recursive_directory_iterator(); it.increment(ec)) {
		std::string p = it->path().string().substr(l_Dir.size());
		/* the replay log is written through a buffered stream: its growth is seen through the relay instead */
		if (p.rfind("/api/log", 0) == 0) continue;
		if (it->is_directory(ec)) s[p] = 1;
		else s[p] = Fnv(ReadFile(it->path().string())) | 2;
	}
	return s;
}

static Dictionary::Ptr MakeCrDict(int state)
{
	return new Dictionary({ { "type", "CheckResult" }, { "state", state }, { "output", String("o" + std::to_string(l_Tick)) },
		{ "schedule_start", l_Now }, { "schedule_end", l_Now }, { "execution_start", l_Now }, { "execution_end", l_Now },
		{ "active", true }, { "exit_status", state }, { "performance_data", Array::Ptr(new Array()) } });
}

struct Case {
	std::string method, sender, origin, objzone, execzone;
	int cmdep, acfg, acmd, exists, var;
};

static bool ParseCase(const std::vector<std::string>& w, Case& c)
{
	if (w.size() != 11 || w[0] != "M") return false;
	c.method = w[1]; c.sender = w[2]; c.origin = w[3]; c.objzone = w[4]; c.execzone = w[5];
	c.cmdep = atoi(w[6].c_str()); c.acfg = atoi(w[7].c_str()); c.acmd = atoi(w[8].c_str());
	c.exists = atoi(w[9].c_str()); c.var = atoi(w[10].c_str());
	return true;
}

static std::string SenderEndpointName(const Case& c)
{
	if (c.sender[0] != 'a' && c.sender[0] != 'n') return "";
	int z = atoi(c.sender.c_str() + 1);
	return EpName(z, z == l_F.local ? 'b' : 'a');
}

/* ApiListener::TryActivateZonesStage validates staged configuration by running argv[0] with the daemon's arguments
 * plus --validate; the harness's "daemon" is /bin/true resp. /bin/false. */
static char *l_ArgvTrue[] = { (char *)"/bin/true", nullptr };
static char *l_ArgvFalse[] = { (char *)"/bin/false", nullptr };

static void SetValidator(bool ok)
{
	Application::SetArgC(1);
	Application::SetArgV(ok ? l_ArgvTrue : l_ArgvFalse);
}

static void RemoveRuntimeUser()
{
	ConfigObject::Ptr o = ConfigObject::GetObject("User", "rtu");
	if (!o) return;
	Array::Ptr errors = new Array();
	ConfigObjectUtility::DeleteObject(o, false, errors, nullptr);
	Sync();
}

static void CreateRuntimeUser()
{
	if (ConfigObject::GetObject("User", "rtu")) return;
	Array::Ptr errors = new Array();
	if (!ConfigObjectUtility::CreateObject(User::TypeInstance, "rtu", "object User \"rtu\" {\n}\n", errors, nullptr)) {
		std::string e;
		ObjectLock olock(errors);
		for (const String& s : errors) e += std::string(s.CStr()) + "; ";
		Die("cannot create runtime object: " + e);
	}
	Sync();
}

/* Establish the precondition under which an accepted message changes something, and build the parameters. */
static Dictionary::Ptr Prepare(const Case& c)
{
	const std::string& m = c.method;
	bool cross = c.var == 2 && c.exists && m != "event::SetRemovalInfo" && TargetsCheckable(m) && c.objzone != "-";
	String hn = !c.exists ? String("nohost") : cross ? String("hU") : String(HostName(c.objzone));
	bool svc = (cross || (c.var & 1)) && m != "event::ExecuteCommand" && m != "pki::UpdateCertificate";
	String sn = cross ? String("s" + c.objzone) : String("s");
	bool downtime = m == "event::SetRemovalInfo" && (c.var & 2);
	Host::Ptr host = Host::GetByName(hn);
	Checkable::Ptr chk = host;
	if (host && svc) chk = host->GetServiceByShortName(sn);
	String nname = hn + (svc ? "!s!n" : "!n");
	String cname = hn + (svc ? "!s" : "") + (downtime ? "!d" : "!c");
	Notification::Ptr nt = Notification::GetByName(nname);
	Dictionary::Ptr p = new Dictionary();
	auto hostParams = [&]() { p->Set("host", hn); if (svc) p->Set("service", sn); };
	double v = l_Now + 1000 + (double)l_Tick;

	l_Listener->SetAcceptConfig(c.acfg != 0);
	l_Listener->SetAcceptCommands(c.acmd != 0);
	if (chk) {
		std::string sep = SenderEndpointName(c), ce;
		if (c.cmdep == 1) ce = sep;
		else if (c.cmdep == 2 && !sep.empty()) {
			int z = atoi(c.sender.c_str() + 1);
			ce = EpName(z, z == l_F.local ? 'a' : 'b');
		} else if (c.cmdep == 3) ce = EpName(l_F.local, 'a');
		SetF(chk, "command_endpoint", String(ce));
	}

	if (m == "event::CheckResult") {
		hostParams();
		p->Set("cr", MakeCrDict(1 + (int)(l_Tick % 3)));
	} else if (m == "event::SetNextCheck") {
		hostParams(); p->Set("next_check", v);
	} else if (m == "event::SetLastCheckStarted") {
		hostParams(); p->Set("last_check_started", v);
	} else if (m == "event::SetStateBeforeSuppression") {
		hostParams(); p->Set("state_before_suppression", chk ? ((int)chk->GetStateBeforeSuppression() + 1) % 4 : 1);
	} else if (m == "event::SetSuppressedNotifications") {
		hostParams(); p->Set("suppressed_notifications", chk ? (chk->GetSuppressedNotifications() + 1) % 64 : 1);
	} else if (m == "event::SetSuppressedNotificationTypes") {
		p->Set("notification", nname); p->Set("suppressed_notifications", nt ? (nt->GetSuppressedNotifications() + 1) % 64 : 1);
	} else if (m == "event::SetNextNotification") {
		p->Set("notification", nname); p->Set("next_notification", v);
	} else if (m == "event::UpdateLastNotifiedStatePerUser") {
		p->Set("notification", nname); p->Set("user", "u1"); p->Set("state", (double)(l_Tick % 1000) + 5);
	} else if (m == "event::ClearLastNotifiedStatePerUser") {
		p->Set("notification", nname);
		if (nt) nt->GetLastNotifiedStatePerUser()->Set("u1", 2);
	} else if (m == "event::SetForceNextCheck") {
		hostParams(); p->Set("forced", chk ? !chk->GetForceNextCheck() : true);
	} else if (m == "event::SetForceNextNotification") {
		hostParams(); p->Set("forced", chk ? !chk->GetForceNextNotification() : true);
	} else if (m == "event::SetAcknowledgement") {
		hostParams();
		p->Set("author", "a"); p->Set("comment", "c"); p->Set("acktype", 1); p->Set("notify", false);
		p->Set("persistent", false); p->Set("expiry", 0); p->Set("change_time", l_Now);
		if (chk) { chk->SetAcknowledgementRaw(AcknowledgementNone); chk->SetAcknowledgementExpiry(0); }
	} else if (m == "event::ClearAcknowledgement") {
		hostParams(); p->Set("author", "a"); p->Set("change_time", l_Now);
		if (chk) chk->SetAcknowledgementRaw(AcknowledgementNormal);
	} else if (m == "event::ExecuteCommand") {
		p->Set("host", "vhost"); p->Set("command", "vcmd"); p->Set("command_type", "check_command");
		p->Set("macros", Dictionary::Ptr(new Dictionary()));
		if (c.execzone != "-") {
			/* forwarding branch: another node is the target.  Keep its two error-notice branches out of the way:
			 * every endpoint can execute arbitrary commands (icinga::Hello cases overwrite the field) and the
			 * host is one the target's zone may access. */
			for (auto& kv : l_Endpoints) kv.second->SetCapabilities((uint_fast64_t)ApiCapabilities::ExecuteArbitraryCommand);
			p->Set("endpoint", String(EpName(atoi(c.execzone.c_str()), 'b')));
			p->Set("host", String(HostName(c.execzone)));
			p->Set("source", String("src" + std::to_string(l_Tick))); p->Set("deadline", l_Now + 300);
			/* ... or take them: var 2 no endpoint can, var 3 a host of the receiver's own zone */
			if (c.var == 2) for (auto& kv : l_Endpoints) kv.second->SetCapabilities(0);
			if (c.var == 3) p->Set("host", String(HostName(std::to_string(l_F.local))));
		} else if (c.var == 1) p->Set("endpoint", String(EpName(l_F.local, 'a')));
		else if (c.var == 2) { p->Set("source", String("src" + std::to_string(l_Tick))); p->Set("deadline", l_Now + 300); }
	} else if (m == "event::SendNotifications") {
		hostParams(); p->Set("type", 32); p->Set("author", "a"); p->Set("text", "t");
	} else if (m == "event::NotificationSentUser") {
		hostParams(); p->Set("notification", nname); p->Set("user", "u1"); p->Set("type", 32);
		p->Set("author", "a"); p->Set("text", "t"); p->Set("command", "nc");
	} else if (m == "event::NotificationSentToAllUsers") {
		hostParams(); p->Set("notification", nname); p->Set("users", Array::Ptr(new Array({ String("u1") }))); p->Set("type", 32);
		p->Set("author", "a"); p->Set("text", "t"); p->Set("last_notification", v); p->Set("next_notification", v + 60);
		p->Set("notification_number", (double)(l_Tick % 1000)); p->Set("last_problem_notification", v);
		p->Set("no_more_notifications", false);
	} else if (m == "event::ExecutedCommand") {
		hostParams(); p->Set("execution", "uuid1"); p->Set("exit", (double)(l_Tick % 100)); p->Set("output", "out");
		p->Set("start", l_Now); p->Set("end", l_Now);
		if (chk) {
			Dictionary::Ptr ex = new Dictionary();
			if (c.execzone != "-")
				ex->Set("uuid1", Dictionary::Ptr(new Dictionary({ { "endpoint", String(EpName(atoi(c.execzone.c_str()), 'b')) }, { "pending", true } })));
			chk->SetExecutions(ex);
		}
	} else if (m == "event::UpdateExecutions") {
		hostParams();
		p->Set("executions", new Dictionary({ { String("x" + std::to_string(l_Tick)), Dictionary::Ptr(new Dictionary({ { "pending", true } })) } }));
		if (chk) chk->SetExecutions(new Dictionary());
	} else if (m == "event::SetRemovalInfo") {
		p->Set("object_type", downtime ? "Downtime" : "Comment"); p->Set("object_name", cname);
		p->Set("removed_by", String("r" + std::to_string(l_Tick))); p->Set("remove_time", v);
	} else if (m == "event::Heartbeat") {
		p->Set("timeout", 120);
	} else if (m == "config::Update") {
		std::error_code ec;
		fs::remove_all(l_Dir + "/api/zones-stage", ec);
		fs::remove_all(l_Dir + "/api/zones", ec);
		for (const char *f : { "/api/zones-stage-startup.log", "/api/zones-stage-status", "/api/zones-stage-startup-last-failed.log" })
			fs::remove(l_Dir + f, ec);
		l_Listener->SetLastFailedZonesStageValidation(Dictionary::Ptr());
		String zn = String(ZoneName(l_F.local));
		if (c.var == 0) {
			p->Set("update", Dictionary::Ptr(new Dictionary({ { zn, Dictionary::Ptr(new Dictionary()) } })));
			p->Set("update_v2", Dictionary::Ptr(new Dictionary({ { zn, Dictionary::Ptr(new Dictionary({ { "/.timestamp", "0" } })) } })));
		} else {
			/* real content: one configuration file and a fresh timestamp; the stage is validated by running
			 * argv[0] --validate ... (ApiListener::TryActivateZonesStage) */
			String content = String("object User \"synced" + std::to_string(l_Tick) + "\" {\n}\n");
			String ts = String(std::to_string((long)l_Now));
			p->Set("update", Dictionary::Ptr(new Dictionary({ { zn, Dictionary::Ptr(new Dictionary({ { "/_etc/users.conf", content } })) } })));
			p->Set("update_v2", Dictionary::Ptr(new Dictionary({ { zn, Dictionary::Ptr(new Dictionary({ { "/.timestamp", ts } })) } })));
			if (c.var >= 2)
				p->Set("checksums", Dictionary::Ptr(new Dictionary({ { zn, Dictionary::Ptr(new Dictionary({
					{ "/_etc/users.conf", SHA256(content) }, { "/.timestamp", SHA256(ts) } })) } })));
			SetValidator(c.var != 3);
		}
	} else if (m == "config::UpdateObject") {
		bool existing = c.var == 1 || c.var == 2 || c.var == 4 || c.var == 5;
		String name = c.var == 5 ? "u1" : "rtu";
		if (c.var != 5) { if (existing) CreateRuntimeUser(); else RemoveRuntimeUser(); }
		ConfigObject::Ptr obj = ConfigObject::GetObject("User", name);
		if (existing && !obj) Die("config::UpdateObject: target object missing");
		if (obj) { obj->SetVersion(l_Now, false); Sync(); }
		p->Set("name", name); p->Set("type", "User");
		p->Set("version", c.var == 2 ? l_Now - (double)(l_Tick % 2) * 5 : v);
		p->Set("config", (c.var == 3 || c.var == 4) ? String() : String("object User \"rtu\" {\n}\n"));
		if (c.objzone != "-") p->Set("zone", String(ZoneName(atoi(c.objzone.c_str()))));
		Dictionary::Ptr mod = new Dictionary();
		if (c.var == 1 || c.var == 2 || c.var == 5)
			mod->Set("enable_notifications", obj ? !static_pointer_cast<User>(obj)->GetEnableNotifications() : false);
		p->Set("modified_attributes", mod); p->Set("original_attributes", Array::Ptr(new Array()));
	} else if (m == "config::DeleteObject") {
		if (c.var == 1) {
			if (!ConfigObject::GetObject("User", "u2")) { User::Ptr u = new User(); u->SetName("u2"); Bring(u); }
			p->Set("name", "u2");
		} else {
			if (c.exists) CreateRuntimeUser(); else RemoveRuntimeUser();
			p->Set("name", "rtu");
		}
		p->Set("type", "User"); p->Set("version", v);
	} else if (m == "pki::UpdateCertificate") {
		/* the branch for a certificate of another node: the signed certificate is stored with the pending
		 * request certificate-requests/<fingerprint>.json (the branch that replaces the node's own certificate
		 * sits behind the same guard) */
		if (c.var == 1) {
			/* own-certificate branch (never generated, corpus only, last line of its part: an accepted message makes
			 * ApiListener::UpdateSSLContext disconnect every client): `cert` is the node's current certificate (public:
			 * the node presents it in every TLS handshake), `ca` is whatever the sender likes */
			p->Set("ca", l_CaText + String("# replaced " + std::to_string(l_Tick) + "\n")); p->Set("cert", l_OwnCertText);
		} else {
			std::ofstream(l_Dir + "/certificate-requests/abcd.json") << "{\"tick\":" << l_Tick << "}";
			p->Set("ca", l_CaText); p->Set("cert", l_CaText); p->Set("fingerprint_request", "abcd");
		}
	} else if (m == "pki::RequestCertificate") {
		std::error_code ec;
		for (auto& e : fs::directory_iterator(l_Dir + "/certificate-requests", ec)) fs::remove(e.path(), ec);
		p->Set("cert_request", l_SelfSignedText);
	} else if (m == "icinga::Hello") {
		p->Set("version", 21300 + (double)(l_Tick % 50)); p->Set("capabilities", (double)(l_Tick % 2));
	} else if (m == "log::SetLogPosition") {
		p->Set("log_position", v);
	} else {
		Die("no parameters for method " + m);
	}
	return p;
}

static void RunCase(const Case& c)
{
	l_Tick++;
	l_Now += 1;
	SetNow(l_Now);
	auto it = l_Conns.find(c.sender);
	if (it == l_Conns.end()) Die("unknown sender " + c.sender);
	JsonRpcConnection::Ptr conn = it->second;
	if (!ApiFunction::GetByName(String(c.method))) Die("method not registered: " + c.method);

	Dictionary::Ptr params = Prepare(c);
	Quiesce();
	for (auto& kv : l_Conns) Drain(kv.second);
	l_Executed = 0;

	auto mkMsg = [&](const String& method, const Dictionary::Ptr& p) {
		Dictionary::Ptr msg = new Dictionary({ { "jsonrpc", "2.0" }, { "method", method }, { "params", p } });
		if (c.origin == "?") msg->Set("originZone", "no-such-zone");
		else if (c.origin != "-") msg->Set("originZone", String(ZoneName(atoi(c.origin.c_str()))));
		return msg;
	};
	JsonRpcConnection *raw = conn.get();

	/* what does the production MessageHandler make of this connection + originZone? */
	l_ProbeZone = "!"; l_ProbeEndpoint = "!";
	(raw->*get(MhTag()))(mkMsg("verif::Probe", Dictionary::Ptr(new Dictionary({ { "x", 1 } }))));

	Snap o0 = SnapObjects(), f0 = SnapFiles();
	std::set<std::string> tids = Tids();
	(raw->*get(MhTag()))(mkMsg(String(c.method), params));
	Quiesce();
	JoinNewThreads(tids);
	{
		std::mutex& mx = *get(StageLockTag());
		mx.lock(); mx.unlock();
	}
	Quiesce();
	Snap o1 = SnapObjects(), f1 = SnapFiles();
	int relayed = 0, replied = 0;
	std::set<JsonRpcConnection *> seen;
	for (auto& kv : l_Conns) {
		if (!seen.insert(kv.second.get()).second) continue;
		int k = Drain(kv.second);
		if (kv.second == conn) replied += k; else relayed += k;
	}
	std::string fz = l_ProbeZone;
	if (fz.size() > 1 && fz[0] == 'z') fz = fz.substr(1);
	/* did anything but the sender's own Endpoint object change? */
	bool foreign = false;
	{
		std::string own = "Endpoint!" + SenderEndpointName(c);
		for (auto& kv : o1) if (kv.first != own && (!o0.count(kv.first) || o0[kv.first] != kv.second)) foreign = true;
		for (auto& kv : o0) if (kv.first != own && !o1.count(kv.first)) foreign = true;
	}
	printf("M %s %s %s %s %s %d %d %d %d %d | %d %d %d %d %d %s %d %d\n", c.method.c_str(), c.sender.c_str(), c.origin.c_str(),
		c.objzone.c_str(), c.execzone.c_str(), c.cmdep, c.acfg, c.acmd, c.exists, c.var,
		o0 != o1 ? 1 : 0, f0 != f1 ? 1 : 0, relayed > 0 ? 1 : 0, l_Executed.load() > 0 ? 1 : 0, replied,
		fz.c_str(), l_ProbeEndpoint == "-" ? 0 : l_ProbeEndpoint == "!" ? 9 : 1, foreign ? 1 : 0);
	if (getenv("VERIF_C13_DEBUG") && o0 != o1)
		for (auto& kv : o1) if (!o0.count(kv.first) || o0[kv.first] != kv.second) fprintf(stderr, "  changed: %s\n", kv.first.c_str());
	if (getenv("VERIF_C13_DEBUG") && f0 != f1)
		for (auto& kv : f1) if (!f0.count(kv.first) || f0[kv.first] != kv.second) fprintf(stderr, "  file: %s\n", kv.first.c_str());
}

static int NodeMain(const std::string& file, const std::string& work, const std::string& id)
{
	std::ifstream in(file);
	if (!in) Die("cannot open " + file);
	std::string line;
	bool built = false;
	while (std::getline(in, line)) {
		auto w = Words(line);
		if (w.empty()) continue;
		if (w[0] == "F") {
			if (built) Die("one forest per node process");
			if (!ParseForest(w, l_F)) Die("bad F line: " + line);
			Process::InitializeSpawnHelper();     /* must be forked before any thread exists (daemoncommand.cpp:538) */
			InitIcinga();
			BuildNode(work, id);
			{
				/* start the process I/O threads now: JoinNewThreads() must not mistake them for a handler's thread */
				Process::Ptr warm = new Process(Process::PrepareCommand(new Array({ String("/bin/true") })));
				warm->SetTimeout(600);
				warm->Run();
				warm->WaitForResult();
			}
			built = true;
			printf("%s\n", l_F.Line().c_str());
		} else if (w[0] == "M") {
			Case c;
			if (!built || !ParseCase(w, c)) Die("bad M line: " + line);
			RunCase(c);
		}
	}
	fflush(stdout);
	_exit(0);
}

/* ------------------------------------------------------------------------------------------- */
/* driver process: split into one part per forest, run the parts as node processes in parallel */

static int RunParts(const char *self, const std::vector<std::vector<std::string>>& parts, const std::string& work)
{
	MkDirs(work);
	InitIcinga();
	SetupPki(work);
	size_t maxPar = 8;
	if (const char *e = getenv("VERIF_C13_JOBS")) maxPar = (size_t)std::max(1, atoi(e));
	std::vector<pid_t> pids(parts.size(), -1);
	std::vector<int> status(parts.size(), -1);
	size_t started = 0, finished = 0;
	auto partFile = [&](size_t i, const char *ext) { return work + "/part-" + std::to_string(i) + ext; };
	while (finished < parts.size()) {
		while (started < parts.size() && started - finished < maxPar) {
			size_t i = started++;
			{
				std::ofstream o(partFile(i, ".ops"));
				for (auto& l : parts[i]) o << l << "\n";
			}
			pid_t pid = fork();
			if (pid < 0) Die("fork failed");
			if (pid == 0) {
				if (!freopen(partFile(i, ".out").c_str(), "w", stdout)) _exit(3);
				std::string id = std::to_string(i);
				execl(self, self, "node", partFile(i, ".ops").c_str(), "--work", work.c_str(), "--id", id.c_str(), (char *)nullptr);
				_exit(3);
			}
			pids[i] = pid;
		}
		int st = 0;
		pid_t p = wait(&st);
		if (p < 0) Die("wait failed");
		for (size_t i = 0; i < parts.size(); i++) if (pids[i] == p) { status[i] = st; finished++; }
	}
	int rc = 0;
	for (size_t i = 0; i < parts.size(); i++) {
		std::string out = ReadFile(partFile(i, ".out"));
		fwrite(out.data(), 1, out.size(), stdout);
		if (!WIFEXITED(status[i]) || WEXITSTATUS(status[i]) != 0) {
			fprintf(stderr, "h_c13: node %zu failed (status %d)\n", i, status[i]);
			rc = 2;
		}
	}
	fflush(stdout);
	_exit(rc);
}

int main(int argc, char **argv)
{
	if (argc < 2) { fprintf(stderr, "usage: h_c13 gen|ops|node ...\n"); return 2; }
	std::string mode = argv[1];
	std::string work = argOr(argc, argv, "--work", "/verif/_work/c13/nodes");
	/* the harness re-executes itself: /proc/self/exe survives a relative argv[0] */
	char self[4096];
	ssize_t sl = readlink("/proc/self/exe", self, sizeof self - 1);
	if (sl <= 0) return 2;
	self[sl] = 0;

	if (mode == "node") {
		if (argc < 3) return 2;
		return NodeMain(argv[2], work, argOr(argc, argv, "--id", "0"));
	}
	std::vector<std::vector<std::string>> parts;
	if (mode == "gen") {
		uint64_t seed = strtoull(argOr(argc, argv, "--seed", "1"), nullptr, 10);
		bool thorough = std::string(argOr(argc, argv, "--tier", "quick")) == "thorough";
		Rng rng(seed * 0x9e3779b97f4a7c15ULL + 13);
		/* the fixed forest from the root, the middle and the leaf position (and, thorough, from the others) */
		std::vector<int> locals = { 0, 1, 2 };
		if (thorough) { locals.push_back(3); locals.push_back(5); }
		for (int local : locals) {
			Forest f = FixedForest(local);
			std::vector<std::string> part = { f.Line() };
			GenCases(f, rng, part, 1);
			parts.push_back(part);
		}
		int nRandom = thorough ? 24 : 3;
		for (int i = 0; i < nRandom; i++) {
			Forest f = RandomForest(rng);
			std::vector<std::string> part = { f.Line() };
			GenCases(f, rng, part, thorough ? 2 : 3);
			parts.push_back(part);
		}
		/* the cases of one forest are independent of each other (Prepare() establishes each case's precondition): spread a
		 * long part over several node processes of the same forest so that no single process dominates the wall time */
		{
			const size_t chunk = 1500;
			std::vector<std::vector<std::string>> split;
			for (auto& part : parts) {
				for (size_t i = 1; i < part.size(); i += chunk) {
					std::vector<std::string> piece = { part[0] };
					piece.insert(piece.end(), part.begin() + i, part.begin() + std::min(part.size(), i + chunk));
					split.push_back(piece);
				}
				if (part.size() == 1) split.push_back(part);
			}
			parts.swap(split);
		}
	} else if (mode == "ops") {
		if (argc < 3) return 2;
		std::ifstream in(argv[2]);
		if (!in) { perror("open"); return 2; }
		std::string line;
		while (std::getline(in, line)) {
			auto w = Words(line);
			if (w.empty()) continue;
			if (w[0] == "F") parts.push_back({});
			if (parts.empty()) { fprintf(stderr, "h_c13: M line before any F line\n"); return 2; }
			std::string clean;
			for (auto& t : w) clean += (clean.empty() ? "" : " ") + t;
			parts.back().push_back(clean);
		}
	} else {
		return 2;
	}
	return RunParts(self, parts, work);
}

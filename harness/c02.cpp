/* C02 harness: suppression and release of Problem/Recovery/Flapping notifications.
 * Drives the real Checkable::ProcessCheckResult / FireSuppressedNotifications (directly and through
 * the registered 5 s timer via the pump) on a real host or service with a real parent, downtime,
 * acknowledgement and authority changes under a virtual clock.
 *
 *   C <kind h|s> <max> <volatile> <flapping> [<check_interval s> [<scheduling offset>]]   (defaults 300, 0)
 *   R <state> <dt> <active> | <accepted> <state> <stype> <attempt> ; env: <reach> <indt> <acked> <wasflap> <isflap> <paused> ; <sup> <sbs> ; <notifs>
 *   F <dt> <viaTimer>      | env: <fired> <paused> <enabled> <statesupp> <indt> <isflap> <active_checks> <interval us> <next_check-now us> <parentrecent> ; <sup> <sbs> ; <IsLikelyToBeCheckedSoon()> ; <notifs> ; <IsAcknowledged() before the handler>
 *   D+ <i> / D- <i>        downtime i (0/1) registered+triggered / removed
 *   A+ <sticky> <expiry-dt> / A-   acknowledge (expiry relative, 0 = none) as the API action does (refused for OK / already
 *                          acknowledged objects) / clear                       | <applied> <IsAcknowledged() after>
 *   A! <sticky> <expiry-dt>  Checkable::AcknowledgeProblem() called directly, also on an object that is acknowledged already
 *                          (two API requests racing past the unlocked IsAcknowledged() test)   | 1 <IsAcknowledged() after>
 *   Q+ <disable_notifications> / Q-   a second Dependency (parent: a second host, state filter Up) attached / detached
 *   Q <state>              that second parent gets a hard result
 *   P <state>              parent (host of the service / parent host of the host) gets a hard result
 *   U <0|1>                authority (0 = paused)
 *   N <0|1>                enable_notifications
 *   E <0|1>                enable_active_checks
 *   X <dt>                 next_check := now + dt (the scheduler / a cluster peer moved the next check)
 *   FR <dt> <state>        the handler runs and a check result <state> is processed by "another thread" between the handler's
 *                          read of suppressed_notifications (checkable-notification.cpp:143) and its write (:237-245): the
 *                          result is processed inside the handler's first OnNotificationsRequested callback (no lock is
 *                          held there); if the handler requests nothing, or flapping bits are stashed, right after it.
 *                          | <fenv before: 10 fields as F> ; <fenv after> ; <interleaved> <accepted> <state> <stype> <attempt> ; <renv as R> ; <sup> <sbs> ; <notifs>
 *   Y <sup> <sbs>          suppressed_notifications / state_before_suppression overwritten, as the state-file restore and
 *                          the cluster handlers event::SetSuppressedNotifications / SetStateBeforeSuppression do
 * notifs: comma separated <type>:<state> in emission order, '-' if none; sup = suppressed_notifications bitmask.
 * Lines other than R/F echo as "<op> |" (no observation).
 */
#include "common.hpp"
#include <cmath>
#include "icinga/dependency.hpp"
#include "icinga/downtime.hpp"
#include "icinga/notification.hpp"

using namespace icinga;
using namespace vh;

static std::vector<std::pair<int, int>> l_Notifs;
static Checkable::Ptr l_Obj;
static long long l_Now = 100000;
static int l_CaseNo = 0;

struct World {
	Host::Ptr parent;      /* host of the service, or parent host of the host */
	Host::Ptr parent2;     /* parent of the optional second dependency */
	Dependency::Ptr dep2;
	Host::Ptr host;        /* the host (kind h) */
	Service::Ptr service;  /* the service (kind s) */
	Dependency::Ptr dep;
	Checkable::Ptr obj;
	Downtime::Ptr dt[2];
	bool isHost;
};

static World l_W;

static void Teardown()
{
	if (!l_W.obj)
		return;
	for (int i = 0; i < 2; i++) {
		if (l_W.dt[i]) {
			l_W.obj->UnregisterDowntime(l_W.dt[i]);
			l_W.dt[i]->Unregister();
			l_W.dt[i] = nullptr;
		}
	}
	if (l_W.dep2) {
		l_W.dep2->GetChild()->RemoveDependency(l_W.dep2);
		l_W.dep2->GetParent()->RemoveReverseDependency(l_W.dep2);
		l_W.dep2 = nullptr;
	}
	if (l_W.dep) {
		l_W.dep->GetChild()->RemoveDependency(l_W.dep);
		l_W.dep->GetParent()->RemoveReverseDependency(l_W.dep);
		l_W.dep = nullptr;
	}
	l_W.obj->SetActive(false);
	if (l_W.service) { l_W.service->Unregister(); }
	if (l_W.host) { l_W.host->SetActive(false); l_W.host->Unregister(); }
	if (l_W.parent) { l_W.parent->SetActive(false); l_W.parent->Unregister(); }
	if (l_W.parent2) { l_W.parent2->SetActive(false); l_W.parent2->Unregister(); }
	l_W = World();
	l_Obj = nullptr;
}

static void Setup(bool isHost, int mx, bool vol, bool flap, int interval, long offset)
{
	Teardown();
	l_CaseNo++;
	l_Now += 1000000; /* far from any earlier case */
	SetNow((double)l_Now);
	std::string sfx = std::to_string(l_CaseNo);
	l_W.isHost = isHost;

	l_W.parent = new Host();
	l_W.parent->SetName("c02-parent-" + sfx);
	l_W.parent->SetActive(true);
	l_W.parent->SetMaxCheckAttempts(1);
	l_W.parent->Register();
	l_W.parent->Activate();
	l_W.parent->SetAuthority(true);
	static_pointer_cast<ConfigObject>(l_W.parent)->OnAllConfigLoaded();

	l_W.parent2 = new Host();
	l_W.parent2->SetName("c02-parentb-" + sfx);
	l_W.parent2->SetActive(true);
	l_W.parent2->SetMaxCheckAttempts(1);
	l_W.parent2->Register();
	l_W.parent2->Activate();
	l_W.parent2->SetAuthority(true);
	static_pointer_cast<ConfigObject>(l_W.parent2)->OnAllConfigLoaded();

	if (isHost) {
		l_W.host = new Host();
		l_W.host->SetName("c02-host-" + sfx);
		l_W.obj = l_W.host;
	} else {
		l_W.service = new Service();
		l_W.service->SetHostName(l_W.parent->GetName());
		l_W.service->SetName(l_W.parent->GetName() + "!svc");
		l_W.service->SetShortName("svc");
		l_W.obj = l_W.service;
	}
	l_W.obj->SetMaxCheckAttempts(mx);
	l_W.obj->SetVolatile(vol);
	l_W.obj->SetEnableFlapping(flap);
	l_W.obj->SetCheckInterval(interval);
	l_W.obj->SetActive(true);
	l_W.obj->Register();
	l_W.obj->Activate();
	l_W.obj->SetAuthority(true);
	static_pointer_cast<ConfigObject>(l_W.obj)->OnAllConfigLoaded();
	/* the constructor draws a random offset: fix it so that next_check is a function of the operations */
	l_W.obj->SetSchedulingOffset(offset);

	if (isHost) {
		l_W.dep = new Dependency();
		l_W.dep->SetParent(l_W.parent);
		l_W.dep->SetChild(l_W.obj);
		l_W.dep->SetName("c02-dep-" + sfx + "!" + l_W.obj->GetName());
		l_W.dep->SetStateFilter(StateFilterUp);
		l_W.dep->SetDisableNotifications(true);
		l_W.dep->SetRedundancyGroup("");
		l_W.obj->AddDependency(l_W.dep);
		l_W.parent->AddReverseDependency(l_W.dep);
	}
	l_Obj = l_W.obj;
}

static std::string NotifStr()
{
	if (l_Notifs.empty())
		return "-";
	std::ostringstream s;
	for (size_t i = 0; i < l_Notifs.size(); i++) {
		if (i) s << ",";
		s << l_Notifs[i].first << ":" << l_Notifs[i].second;
	}
	return s.str();
}

static bool ParentRecoveryRecent()
{
	/* same computation as the lambda in Checkable::FireSuppressedNotifications, from public getters */
	CheckResult::Ptr cr = l_W.obj->GetLastCheckResult();
	if (!cr)
		return true;
	double threshold = cr->GetExecutionStart();
	/* the service's host resp. the host's parent */
	if (!l_W.parent->GetProblem() && l_W.parent->GetLastStateChange() >= threshold)
		return true;
	/* the parent of the second dependency, while it is attached */
	if (l_W.dep2 && !l_W.parent2->GetProblem() && l_W.parent2->GetLastStateChange() >= threshold)
		return true;
	return false;
}

static void OpResult(int state, long long dt, int active)
{
	l_Now += dt;
	SetNow((double)l_Now);
	l_Notifs.clear();
	int reach = l_W.obj->IsReachable(DependencyNotification) ? 1 : 0;
	int wasFlap = l_W.obj->IsFlapping() ? 1 : 0;
	int paused = l_W.obj->IsPaused() ? 1 : 0;
	CheckResult::Ptr cr = MakeCr((ServiceState)state, (double)l_Now, (double)l_Now, active != 0);
	auto res = l_W.obj->ProcessCheckResult(cr);
	int accepted = (res == Checkable::ProcessingResult::Ok) ? 1 : 0;
	printf("R %d %lld %d | %d %d %d %ld ; %d %d %d %d %d %d ; %d %d ; %s\n", state, dt, active, accepted,
		(int)l_W.obj->GetStateRaw(), (int)l_W.obj->GetStateType(), (long)l_W.obj->GetCheckAttempt(),
		reach, l_W.obj->IsInDowntime() ? 1 : 0, l_W.obj->IsAcknowledged() ? 1 : 0, wasFlap, l_W.obj->IsFlapping() ? 1 : 0, paused,
		(int)l_W.obj->GetSuppressedNotifications(), (int)l_W.obj->GetStateBeforeSuppression(), NotifStr().c_str());
}

static void OpFire(long long dt, int viaTimer)
{
	l_Now += dt;
	SetNow((double)l_Now);
	l_Notifs.clear();
	int paused = l_W.obj->IsPaused() ? 1 : 0;
	int enabled = l_W.obj->GetEnableNotifications() ? 1 : 0;
	/* the suppression reasons of the property, from the primitive predicates (not from
	 * NotificationReasonSuppressed(), which is part of the code under test) */
	int statesupp = (!l_W.obj->IsReachable(DependencyNotification) || l_W.obj->IsInDowntime() || l_W.obj->IsAcknowledged()) ? 1 : 0;
	int ackedBefore = l_W.obj->IsAcknowledged() ? 1 : 0;
	int indt = l_W.obj->IsInDowntime() ? 1 : 0;
	int isflap = l_W.obj->IsFlapping() ? 1 : 0;
	int likely = l_W.obj->IsLikelyToBeCheckedSoon() ? 1 : 0;
	/* what "the next check is imminent" depends on, from the attributes (microseconds) */
	int act = l_W.obj->GetEnableActiveChecks() ? 1 : 0;
	long long ivl = llround(l_W.obj->GetCheckInterval() * 1e6);
	long long nin = llround((l_W.obj->GetNextCheck() - (double)l_Now) * 1e6);
	int precent = ParentRecoveryRecent() ? 1 : 0;
	int fired = 1;
	if (viaTimer) {
		/* the registered 5 s timer; it only does something when it is due */
		fired = Timer::VerifFireDue((double)l_Now) > 0 ? 1 : 0;
	} else {
		l_W.obj->FireSuppressedNotifications();
	}
	printf("F %lld %d | %d %d %d %d %d %d %d %lld %lld %d ; %d %d ; %d ; %s ; %d\n", dt, viaTimer, fired, paused, enabled, statesupp, indt, isflap,
		act, ivl, nin, precent,
		(int)l_W.obj->GetSuppressedNotifications(), (int)l_W.obj->GetStateBeforeSuppression(), likely, NotifStr().c_str(), ackedBefore);
}

struct FEnvRec { int paused, enabled, statesupp, indt, isflap, act; long long ivl, nin; int precent; };

static FEnvRec ReadFEnv()
{
	FEnvRec e;
	e.paused = l_W.obj->IsPaused() ? 1 : 0;
	e.enabled = l_W.obj->GetEnableNotifications() ? 1 : 0;
	e.statesupp = (!l_W.obj->IsReachable(DependencyNotification) || l_W.obj->IsInDowntime() || l_W.obj->IsAcknowledged()) ? 1 : 0;
	e.indt = l_W.obj->IsInDowntime() ? 1 : 0;
	e.isflap = l_W.obj->IsFlapping() ? 1 : 0;
	e.act = l_W.obj->GetEnableActiveChecks() ? 1 : 0;
	e.ivl = llround(l_W.obj->GetCheckInterval() * 1e6);
	e.nin = llround((l_W.obj->GetNextCheck() - (double)l_Now) * 1e6);
	e.precent = ParentRecoveryRecent() ? 1 : 0;
	return e;
}

static int l_NestedState = -1;   /* armed: process this result inside the next notification callback */
static char l_NestedObs[128];

static void NestedResult(int state)
{
	int reach = l_W.obj->IsReachable(DependencyNotification) ? 1 : 0;
	int wasFlap = l_W.obj->IsFlapping() ? 1 : 0;
	int paused = l_W.obj->IsPaused() ? 1 : 0;
	CheckResult::Ptr cr = MakeCr((ServiceState)state, (double)l_Now, (double)l_Now, true);
	auto res = l_W.obj->ProcessCheckResult(cr);
	snprintf(l_NestedObs, sizeof l_NestedObs, "%d %d %d %ld ; %d %d %d %d %d %d", (res == Checkable::ProcessingResult::Ok) ? 1 : 0,
		(int)l_W.obj->GetStateRaw(), (int)l_W.obj->GetStateType(), (long)l_W.obj->GetCheckAttempt(),
		reach, l_W.obj->IsInDowntime() ? 1 : 0, l_W.obj->IsAcknowledged() ? 1 : 0, wasFlap, l_W.obj->IsFlapping() ? 1 : 0, paused);
}

static void OpFireResult(long long dt, int state)
{
	l_Now += dt;
	SetNow((double)l_Now);
	l_Notifs.clear();
	FEnvRec a = ReadFEnv();
	int interleaved = 0;
	if (!(l_W.obj->GetSuppressedNotifications() & (NotificationFlappingStart | NotificationFlappingEnd)))
		l_NestedState = state;
	l_W.obj->FireSuppressedNotifications();
	if (l_NestedState >= 0) {      /* no callback happened: the result comes after the handler */
		l_NestedState = -1;
		NestedResult(state);
	} else {
		interleaved = 1;
	}
	FEnvRec b = ReadFEnv();
	printf("FR %lld %d | 1 %d %d %d %d %d %d %lld %lld %d ; 1 %d %d %d %d %d %d %lld %lld %d ; %d %s ; %d %d ; %s\n", dt, state,
		a.paused, a.enabled, a.statesupp, a.indt, a.isflap, a.act, a.ivl, a.nin, a.precent,
		b.paused, b.enabled, b.statesupp, b.indt, b.isflap, b.act, b.ivl, b.nin, b.precent,
		interleaved, l_NestedObs,
		(int)l_W.obj->GetSuppressedNotifications(), (int)l_W.obj->GetStateBeforeSuppression(), NotifStr().c_str());
}

static void OpDowntime(int i, bool add, bool flexible = false)
{
	if (add) {
		if (l_W.dt[i]) { printf("%s %d |\n", flexible ? "DF" : "D+", i); return; }
		Downtime::Ptr d = new Downtime();
		if (l_W.isHost) {
			d->SetHostName(l_W.obj->GetName());
		} else {
			d->SetHostName(l_W.parent->GetName());
			d->SetServiceName("svc");
		}
		d->SetName(l_W.obj->GetName() + "!dt" + std::to_string(i));
		d->SetFixed(!flexible);
		d->SetStartTime((double)l_Now - 3600);
		d->SetEndTime((double)l_Now + 100000000.0);
		if (flexible)
			d->SetDuration(50000000.0);
		l_W.obj->RegisterDowntime(d);
		d->Register();
		d->OnAllConfigLoaded();
		/* a fixed downtime is in effect at once; a flexible one waits for the next non-OK result
		 * (Checkable::TriggerDowntimes inside ProcessCheckResult) */
		if (!flexible)
			d->TriggerDowntime((double)l_Now);
		l_W.dt[i] = d;
		printf("%s %d |\n", flexible ? "DF" : "D+", i);
	} else {
		if (l_W.dt[i]) {
			l_W.obj->UnregisterDowntime(l_W.dt[i]);
			l_W.dt[i]->Unregister();
			l_W.dt[i] = nullptr;
		}
		printf("D- %d |\n", i);
	}
}

static void OpAck(bool set, int sticky, long long expiryDt, bool direct = false)
{
	if (set) {
		int applied = 0;
		/* A+: as the API action does, only problems that are not acknowledged yet; A!: the public function itself */
		if (direct || (!l_W.obj->IsStateOK(l_W.obj->GetStateRaw()) && !l_W.obj->IsAcknowledged())) {
			l_W.obj->AcknowledgeProblem("harness", "ack", sticky ? AcknowledgementSticky : AcknowledgementNormal, false, false,
				(double)l_Now, expiryDt ? (double)(l_Now + expiryDt) : 0);
			applied = 1;
		}
		printf("%s %d %lld | %d %d\n", direct ? "A!" : "A+", sticky, expiryDt, applied, l_W.obj->IsAcknowledged() ? 1 : 0);
	} else {
		l_W.obj->ClearAcknowledgement("harness");
		printf("A- | 1 %d\n", l_W.obj->IsAcknowledged() ? 1 : 0);
	}
}

static void OpDep2(bool add, int disableNotifications)
{
	if (add) {
		if (!l_W.dep2) {
			Dependency::Ptr d = new Dependency();
			d->SetParent(l_W.parent2);
			d->SetChild(l_W.obj);
			d->SetName("c02-depb-" + std::to_string(l_CaseNo) + "!" + l_W.obj->GetName());
			d->SetStateFilter(StateFilterUp);
			d->SetDisableNotifications(disableNotifications != 0);
			d->SetRedundancyGroup("");
			l_W.obj->AddDependency(d);
			l_W.parent2->AddReverseDependency(d);
			l_W.dep2 = d;
		}
		printf("Q+ %d |\n", disableNotifications);
	} else {
		if (l_W.dep2) {
			l_W.dep2->GetChild()->RemoveDependency(l_W.dep2);
			l_W.dep2->GetParent()->RemoveReverseDependency(l_W.dep2);
			l_W.dep2 = nullptr;
		}
		printf("Q- |\n");
	}
}

static void OpParent2(int state)
{
	l_Notifs.clear();
	CheckResult::Ptr cr = MakeCr((ServiceState)state, (double)l_Now, (double)l_Now, true);
	l_W.parent2->ProcessCheckResult(cr);
	printf("Q %d |\n", state);
}

static void OpParent(int state)
{
	l_Notifs.clear();
	CheckResult::Ptr cr = MakeCr((ServiceState)state, (double)l_Now, (double)l_Now, true);
	l_W.parent->ProcessCheckResult(cr);
	printf("P %d |\n", state);
}

static bool ExecLine(const char *line)
{
	char k; int a, b, c; long long x, y;
	int ivl = 300; long off = 0; int nf;
	if ((nf = sscanf(line, "C %c %d %d %d %d %ld", &k, &a, &b, &c, &ivl, &off)) >= 4) {
		if (nf < 5) ivl = 300;
		if (nf < 6) off = 0;
		Setup(k == 'h', a, b != 0, c != 0, ivl, off);
		printf("C %c %d %d %d %d %ld\n", k, a, b, c, ivl, off);
	} else if (sscanf(line, "R %d %lld %d", &a, &x, &b) == 3) {
		if (a < 0) a = (int)l_W.obj->GetStateRaw(); /* "R -1": repeat the current state */
		OpResult(a, x, b);
	} else if (sscanf(line, "FR %lld %d", &x, &a) == 2) {
		if (a < 0) a = (int)l_W.obj->GetStateRaw();
		OpFireResult(x, a & 3);
	} else if (sscanf(line, "F %lld %d", &x, &a) == 2) {
		OpFire(x, a);
	} else if (sscanf(line, "D+ %d", &a) == 1) {
		OpDowntime(a & 1, true);
	} else if (sscanf(line, "DF %d", &a) == 1) {
		OpDowntime(a & 1, true, true);
	} else if (sscanf(line, "D- %d", &a) == 1) {
		OpDowntime(a & 1, false);
	} else if (sscanf(line, "A+ %d %lld", &a, &y) == 2) {
		OpAck(true, a, y);
	} else if (sscanf(line, "A! %d %lld", &a, &y) == 2) {
		OpAck(true, a, y, true);
	} else if (sscanf(line, "Q+ %d", &a) == 1) {
		OpDep2(true, a);
	} else if (!strncmp(line, "Q-", 2)) {
		OpDep2(false, 0);
	} else if (sscanf(line, "Q %d", &a) == 1) {
		OpParent2(a);
	} else if (!strncmp(line, "A-", 2)) {
		OpAck(false, 0, 0);
	} else if (sscanf(line, "P %d", &a) == 1) {
		OpParent(a);
	} else if (sscanf(line, "U %d", &a) == 1) {
		l_W.obj->SetAuthority(a != 0);
		printf("U %d |\n", a);
	} else if (sscanf(line, "N %d", &a) == 1) {
		l_W.obj->SetEnableNotifications(a != 0);
		printf("N %d |\n", a);
	} else if (sscanf(line, "E %d", &a) == 1) {
		l_W.obj->SetEnableActiveChecks(a != 0);
		printf("E %d |\n", a);
	} else if (sscanf(line, "X %lld", &x) == 1) {
		l_W.obj->SetNextCheck((double)(l_Now + x));
		printf("X %lld |\n", x);
	} else if (sscanf(line, "Y %d %d", &a, &b) == 2) {
		a &= (NotificationProblem | NotificationRecovery | NotificationFlappingStart | NotificationFlappingEnd);
		if ((a & NotificationFlappingStart) && (a & NotificationFlappingEnd)) /* never both: they cancel when stashed */
			a &= ~NotificationFlappingEnd;
		l_W.obj->SetSuppressedNotifications(a);
		l_W.obj->SetStateBeforeSuppression((ServiceState)(b & 3));
		printf("Y %d %d |\n", a, b & 3);
	} else {
		return false;
	}
	return true;
}

/* operation alphabet for the exhaustive part (7 symbols + results) */
static const char *const kAlphabet[] = {
	"R 0 10 1", "R 2 10 1", "R 1 10 1", "D+ 0", "D- 0", "A+ 0 0", "P 2", "P 0", "F 400 0", "F 0 0", "DF 1"
};
static const int kAlphabetN = sizeof(kAlphabet) / sizeof(kAlphabet[0]);

static void RandomOp(Rng& rng, char *buf, size_t n, int pFlapBias)
{
	int k = (int)rng.below(109);
	if (k >= 100) {
		static const int ex[] = {0, 0, 5, 30, 100};
		if (k < 102) snprintf(buf, n, "Q+ %d", (int)rng.below(2));
		else if (k < 103) snprintf(buf, n, "Q-");
		else if (k < 106) snprintf(buf, n, "Q %d", (int)rng.below(2) ? 2 : 0);
		else snprintf(buf, n, "A! %d %d", (int)rng.below(2), ex[rng.below(5)]);
	} else if (k < 45) {
		int st;
		if (pFlapBias && rng.below(3)) st = (int)rng.below(2) ? 0 : 2; /* alternate to trigger flapping */
		else st = (int)rng.below(4);
		static const int dts[] = {0, 1, 5, 10, 60, 300, 400};
		snprintf(buf, n, "R %d %d %d", st, dts[rng.below(7)], (int)rng.below(2));
	} else if (k < 57) {
		static const int dts[] = {0, 1, 5, 30, 100, 400, 1000};
		snprintf(buf, n, "F %d %d", dts[rng.below(7)], (int)rng.below(2));
	} else if (k < 60) {
		static const int xs[] = {-5, 0, 1, 10, 19, 20, 21, 35, 50, 59, 60, 61, 100, 1000};
		snprintf(buf, n, "X %d", xs[rng.below(14)]);
	} else if (k < 64) snprintf(buf, n, "D+ %d", (int)rng.below(2));
	else if (k < 68) snprintf(buf, n, "DF %d", (int)rng.below(2));
	else if (k < 76) snprintf(buf, n, "D- %d", (int)rng.below(2));
	else if (k < 83) { static const int ex[] = {0, 0, 5, 100}; snprintf(buf, n, "A+ %d %d", (int)rng.below(2), ex[rng.below(4)]); }
	else if (k < 87) snprintf(buf, n, "A-");
	else if (k < 93) snprintf(buf, n, "P %d", (int)rng.below(2) ? 2 : 0);
	else if (k < 96) snprintf(buf, n, "U %d", (int)rng.below(2));
	else if (k < 98) snprintf(buf, n, "N %d", (int)rng.below(2));
	else if (k < 99) snprintf(buf, n, "E %d", (int)rng.below(2));
	else {
		static const int sups[] = {0, 32, 64, 96, 128, 256, 160, 320};
		snprintf(buf, n, "Y %d %d", sups[rng.below(8)], (int)rng.below(4));
	}
}

/* check intervals around the two ends of the clamp in IsLikelyToBeCheckedSoon (10 s and 70 s) */
static const int kIntervals[] = {300, 300, 300, 300, 1, 5, 10, 11, 20, 30, 45, 60, 69, 70, 71, 90};
static const int kIntervalsN = sizeof(kIntervals) / sizeof(kIntervals[0]);

int main(int argc, char **argv)
{
	if (argc < 2) { fprintf(stderr, "usage: h_c02 gen|ops ...\n"); return 2; }
	InitIcinga();

	Checkable::OnNotificationsRequested.connect([](const Checkable::Ptr& checkable, NotificationType type,
		const CheckResult::Ptr& cr, const String&, const String&, const MessageOrigin::Ptr&) {
		/* only the four types this property is about (DowntimeStart/End, Acknowledgement, Custom are C05/C06/C03) */
		if (checkable == l_Obj && (type == NotificationProblem || type == NotificationRecovery ||
			type == NotificationFlappingStart || type == NotificationFlappingEnd))
			l_Notifs.emplace_back((int)type, cr ? (int)cr->GetState() : -1);
		if (checkable == l_Obj && l_NestedState >= 0) {
			int st = l_NestedState;
			l_NestedState = -1;
			NestedResult(st);
		}
	});

	std::string mode = argv[1];
	if (mode == "gen") {
		uint64_t seed = strtoull(argOr(argc, argv, "--seed", "1"), nullptr, 10);
		bool thorough = std::string(argOr(argc, argv, "--tier", "quick")) == "thorough";
		/* exhaustive part: all op sequences of length L over the alphabet, after bringing the object to hard OK */
		int L = thorough ? 5 : 4;
		long total = 1;
		for (int i = 0; i < L; i++) total *= kAlphabetN;
		for (int host = 0; host < 2; host++)
		for (int mx = 1; mx <= 2; mx++)
		for (int vol = 0; vol < 2; vol++)
		for (long code = 0; code < total; code++) {
			char hdr[64];
			snprintf(hdr, sizeof hdr, "C %c %d %d 0", host ? 'h' : 's', mx, vol);
			ExecLine(hdr);
			ExecLine("R 0 10 1");
			long c = code;
			for (int i = 0; i < L; i++) { ExecLine(kAlphabet[c % kAlphabetN]); c /= kAlphabetN; }
			/* end every suppression reason, let the object settle in a hard state, run the handler
			 * directly and through the registered timer */
			ExecLine("D- 0");
			ExecLine("D- 1");
			ExecLine("A-");
			ExecLine("P 0");
			ExecLine("F 1 0");
			ExecLine("R -1 10 1");
			ExecLine("F 30 0");
			ExecLine("R -1 10 1");
			ExecLine("F 30 1");
		}
		/* imminence sweep: a withheld event (Problem / Recovery / none owed), every suppression reason over, and the
		 * handler run for every check interval x distance of the next check around the thresholds x active checks
		 * on/off, directly after the result as the scheduler left next_check and after moving it */
		{
			static const int ivls[] = {0, 1, 5, 9, 10, 11, 12, 20, 30, 45, 59, 60, 61, 69, 70, 71, 72, 80, 120, 300, 3600};
			for (int host = 0; host < 2; host++)
			for (int scen = 0; scen < 3; scen++)
			for (int act = 0; act < 2; act++)
			for (size_t ii = 0; ii < sizeof(ivls) / sizeof(ivls[0]); ii++) {
				int iv = ivls[ii];
				int xs[] = {-1, 0, 1, iv - 11, iv - 10, iv - 9, 59, 60, 61, iv, 100000, 100001 /* = leave next_check alone */};
				for (int xi = 0; xi < 12; xi++) {
					char buf[64];
					snprintf(buf, sizeof buf, "C %c 1 0 0 %d %d", host ? 'h' : 's', iv, (int)((ii * 37 + xi * 11) % 500));
					ExecLine(buf);
					ExecLine(scen == 1 ? "R 2 10 1" : "R 0 10 1");
					ExecLine("D+ 0");
					ExecLine(scen == 1 ? "R 0 10 1" : "R 2 10 1");
					if (scen == 2) ExecLine("R 0 10 1");      /* back to the remembered state: nothing owed */
					ExecLine("D- 0");
					snprintf(buf, sizeof buf, "E %d", act);
					ExecLine(buf);
					if (xs[xi] != 100001) { snprintf(buf, sizeof buf, "X %d", xs[xi]); ExecLine(buf); }
					ExecLine("F 0 0");
					ExecLine("F 3 1");
					ExecLine("X 100000");
					ExecLine("F 5 0");
				}
			}
		}
		/* a second dependency with disable_notifications off / on whose parent fails and recovers: unreachable, but
		 * (with the setting off) not for notifications.  All sequences of length 3 over 9 operations. */
		{
			static const char *const al[] = {"R 0 10 1", "R 2 10 1", "R 1 10 1", "Q 2", "Q 0", "F 400 0", "D+ 0", "D- 0", "P 2"};
			const int an = 9, LL = thorough ? 4 : 3;
			long tot = 1;
			for (int i = 0; i < LL; i++) tot *= an;
			for (int host = 0; host < 2; host++)
			for (int dn = 0; dn < 2; dn++)
			for (int mx = 1; mx <= 2; mx++)
			for (int vol = 0; vol < 2; vol++)
			for (int down = 0; down < 2; down++)
			for (long code = 0; code < tot; code++) {
				char buf[64];
				snprintf(buf, sizeof buf, "C %c %d %d 0", host ? 'h' : 's', mx, vol);
				ExecLine(buf);
				ExecLine("R 0 10 1");
				snprintf(buf, sizeof buf, "Q+ %d", dn);
				ExecLine(buf);
				ExecLine(down ? "Q 2" : "Q 0");
				long c = code;
				for (int i = 0; i < LL; i++) { ExecLine(al[c % an]); c /= an; }
				ExecLine("D- 0");
				ExecLine("P 0");
				ExecLine("F 1 0");
				ExecLine("R -1 10 1");
				ExecLine("F 400 0");
				ExecLine("Q 0");
				ExecLine("R -1 10 1");
				ExecLine("F 400 1");
			}
		}
		/* authority and the notification switch: results and handler runs while paused / switched off, then the
		 * tail with authority back.  All sequences of length 3 (4) over 10 operations. */
		{
			static const char *const al[] = {"R 0 10 1", "R 2 10 1", "R 3 10 1", "D+ 0", "D- 0", "U 0", "U 1", "N 0", "N 1", "F 400 0"};
			const int an = 10, LL = thorough ? 4 : 3;
			long tot = 1;
			for (int i = 0; i < LL; i++) tot *= an;
			for (int host = 0; host < 2; host++)
			for (int mx = 1; mx <= 2; mx++)
			for (int pre = 0; pre < 2; pre++)
			for (long code = 0; code < tot; code++) {
				char buf[64];
				snprintf(buf, sizeof buf, "C %c %d 0 0", host ? 'h' : 's', mx);
				ExecLine(buf);
				ExecLine("R 0 10 1");
				if (pre) { ExecLine("D+ 0"); ExecLine("R 2 10 1"); ExecLine("R 2 10 1"); }   /* a Problem is withheld already */
				long c = code;
				for (int i = 0; i < LL; i++) { ExecLine(al[c % an]); c /= an; }
				ExecLine("D- 0");
				ExecLine("F 400 0");
				ExecLine("U 1");
				ExecLine("N 1");
				ExecLine("F 400 0");
				ExecLine("R -1 10 1");
				ExecLine("F 400 1");
			}
		}
		/* acknowledgements: set through the API-like path and directly (also on top of one in place), with and
		 * without expiry, sticky and normal, cleared, expired, ended by state changes.  All sequences of length 4
		 * over 12 operations on a hard CRITICAL object. */
		{
			static const char *const al[] = {"A! 0 0", "A! 1 0", "A! 1 50", "A! 0 50", "A+ 1 20", "A+ 0 0", "A-",
				"R 2 10 1", "R 1 10 1", "R 0 10 1", "F 30 0", "F 100 0"};
			const int an = 12, LL = thorough ? 5 : 4;
			long tot = 1;
			for (int i = 0; i < LL; i++) tot *= an;
			for (int host = 0; host < 2; host++)
			for (long code = 0; code < tot; code++) {
				ExecLine(host ? "C h 1 0 0" : "C s 1 0 0");
				ExecLine("R 0 10 1");
				ExecLine("R 2 10 1");
				long c = code;
				for (int i = 0; i < LL; i++) { ExecLine(al[c % an]); c /= an; }
				ExecLine("F 400 0");
				ExecLine("R -1 10 1");
				ExecLine("F 400 1");
			}
		}
		/* the handler with a result processed by "another thread" in the middle of it (F-C02c): one FR per case */
		for (int host = 0; host < 2; host++)
		for (int vol = 0; vol < 2; vol++)
		for (int scen = 0; scen < 3; scen++)
		for (int st = 0; st < 4; st++) {
			char buf[64];
			snprintf(buf, sizeof buf, "C %c 1 %d 0", host ? 'h' : 's', vol);
			ExecLine(buf);
			ExecLine(scen == 1 ? "R 2 10 1" : "R 0 10 1");
			ExecLine("D+ 0");
			ExecLine(scen == 1 ? "R 0 10 1" : "R 2 10 1");
			if (scen != 2) ExecLine("D- 0");              /* scen 2: still suppressed, the handler requests nothing */
			snprintf(buf, sizeof buf, "FR 100 %d", st);
			ExecLine(buf);
			ExecLine("D- 0");
			ExecLine("F 400 0");
			ExecLine("R -1 10 1");
			ExecLine("F 100 0");
		}
		/* random part */
		Rng rng(seed);
		int n = thorough ? 60000 : 6000;
		for (int i = 0; i < n; i++) {
			char hdr[64];
			int flap = (int)rng.below(2);
			snprintf(hdr, sizeof hdr, "C %c %d %d %d %d %d", rng.coin() ? 'h' : 's', 1 + (int)rng.below(4), rng.below(4) == 0 ? 1 : 0, flap,
				kIntervals[rng.below(kIntervalsN)], (int)rng.below(100000));
			ExecLine(hdr);
			int len = 1 + (int)rng.below(thorough ? 60 : 30);
			for (int j = 0; j < len; j++) {
				char buf[64];
				RandomOp(rng, buf, sizeof buf, flap);
				ExecLine(buf);
			}
		}
		/* flapping scenarios: long alternating / stable phases so that flapping starts and ends inside and
		 * outside suppression windows (a withheld FlappingStart/End next to withheld state notifications) */
		int nf = thorough ? 8000 : 1200;
		for (int i = 0; i < nf; i++) {
			char hdr[64];
			snprintf(hdr, sizeof hdr, "C %c %d %d 1 %d %d", rng.coin() ? 'h' : 's', 1 + (int)rng.below(3), rng.below(6) == 0 ? 1 : 0,
				kIntervals[rng.below(kIntervalsN)], (int)rng.below(100000));
			ExecLine(hdr);
			ExecLine("R 0 10 1");
			int phases = 3 + (int)rng.below(6);
			int bad = 2;
			for (int ph = 0; ph < phases; ph++) {
				int k = (int)rng.below(10);
				char buf[64];
				if (k < 3) { /* alternate */
					int n = 6 + (int)rng.below(10);
					bad = rng.coin() ? 2 : 1 + (int)rng.below(3);
					for (int j = 0; j < n; j++) { snprintf(buf, sizeof buf, "R %d 10 1", (j & 1) ? 0 : bad); ExecLine(buf); }
				} else if (k < 6) { /* stable */
					int n = 10 + (int)rng.below(14);
					int st = rng.coin() ? 0 : bad;
					for (int j = 0; j < n; j++) { snprintf(buf, sizeof buf, "R %d 10 1", st); ExecLine(buf); }
				} else if (k == 6) { snprintf(buf, sizeof buf, "D+ %d", (int)rng.below(2)); ExecLine(buf); }
				else if (k == 7) { ExecLine("D- 0"); ExecLine("D- 1"); }
				else if (k == 8) { snprintf(buf, sizeof buf, "R %d 10 1", (int)rng.below(4)); ExecLine(buf); ExecLine("F 30 0"); }
				else { ExecLine(rng.coin() ? "A+ 1 0" : "A-"); }
			}
			ExecLine("D- 0"); ExecLine("D- 1"); ExecLine("A-");
			ExecLine("F 1 0");
			ExecLine("R -1 10 1");
			ExecLine("F 30 0");
			ExecLine("R -1 10 1");
			ExecLine("F 30 1");
		}
		Teardown();
	} else if (mode == "ops") {
		if (argc < 3) return 2;
		FILE *f = fopen(argv[2], "r");
		if (!f) { perror("open"); return 2; }
		char line[512];
		while (fgets(line, sizeof line, f)) {
			if (line[0] == '\n' || line[0] == '#') continue;
			if (!ExecLine(line)) { fprintf(stderr, "bad line: %s", line); return 2; }
		}
		fclose(f);
		Teardown();
	} else {
		return 2;
	}
	fflush(stdout);
	_exit(0);
}

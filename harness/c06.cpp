/* C06 harness: acknowledgements on real Host / Service objects, driven through the production entry
 * points: the HTTP dispatcher HttpHandler::ProcessRequest with `POST /v1/actions/acknowledge-problem` /
 * `remove-acknowledgement` (ActionsHandler -> FilterUtility -> ApiActions), the registered API actions invoked
 * directly, ExternalCommandProcessor::Execute with command lines, the cluster ApiFunctions
 * `event::SetAcknowledgement` / `event::ClearAcknowledgement` with a constructed MessageOrigin,
 * Checkable::ProcessCheckResult, the timer pump Timer::VerifFireDue (comment-expiry timer), fixed downtimes, and a
 * virtual clock.  Comments are created by the code under test itself (Comment::AddComment ->
 * ConfigObjectUtility::CreateObject in a scratch data directory).
 *
 *   C <kind h|s> <max> <volatile>
 *   R <state> <execStart> <execEnd> <now>                                   check result
 *   A <via h|a|e|x|c> <sticky> <notify> <persistent> <expiry> <now>         acknowledge
 *        h = HTTP request, a = API action invoked directly (expiry 0: parameter absent), e = ACKNOWLEDGE_*_PROBLEM,
 *        x = ACKNOWLEDGE_*_PROBLEM_EXPIRE, c = cluster event::SetAcknowledgement;
 *        f / y = the same two external commands with <sticky> <notify> <persistent> being the command's literal integer
 *        arguments (documented encoding: sticky iff 2, notify / persistent iff > 0)
 *   X <via h|a|e|c> <now>                                                   remove acknowledgement
 *   T <now> [<reader 0|1|2>]                                                time passes, then the object is looked at;
 *        <reader>: which getter looks first — 0 GetHandled, 1 GetSeverity, 2 GetAcknowledgement (default 0)
 *   P <now> <fired>                                                         Timer::VerifFireDue(now); <fired> (0|1: a timer
 *        ran — only the comment-expiry timer can be due, see Setup) is the implementation's own value, an oracle input
 *   D <on 0|1> <now>                                                        a fixed downtime in effect is added / removed
 *   U <on 0|1> <now>                                                        the object is paused (SetAuthority(false)) / resumed
 *   N <now>                                                                 NotificationComponent::NotificationTimerHandler()
 *        with the reminder of the case's Notification object due (interval 1 s, next_notification reset before the call;
 *        no users, period or filters, so that whether Notification::BeginExecuteNotification(Problem, reminder) is
 *        reached — observed through OnNotificationSentToAllUsers — depends on the handler's guards only)
 *   F <now>                                                                 Checkable::FireSuppressedNotifications() — what the
 *        checkable's 5 s timer (FireSuppressedNotificationsTimer, parked in this harness) calls for every host and service —
 *        at a moment at which no check is imminent (active checks switched off for the call) and the service's host has not
 *        recovered recently (its last_state_change is 0): when the handler runs and those two delays are C02's subject
 * every line is followed by
 *   | <acc> <ack> <expiry> <handled> <problem> <state> <stype> <attempt> <nSet> <nCleared> <nAckNotif> <nProblemNotif> <comments>
 *     <raw> <sevAck> <suppProblem> <suppRecovery> <nRecoveryNotif> <nReminders>
 * where <raw> is the raw attribute `acknowledgement` read first of all (no reader involved), then — in the order the
 * <reader> of a T line chooses, GetHandled first otherwise — <handled> is GetHandled(), <sevAck> is bit 512 ("acknowledged"
 * class) of GetSeverity() and <ack> is Checkable::GetAcknowledgement(), all *at the virtual time `now`* (whichever comes
 * first performs the lazy expiry), the n* are the numbers of OnAcknowledgementSet / OnAcknowledgementCleared /
 * OnNotificationsRequested(Acknowledgement / Problem / Recovery) signals during the operation and the look,
 * <suppProblem>/<suppRecovery> are the bits of suppressed_notifications (the stash C02's timer empties later), and
 * <comments> is the sorted list `entryTime:persistent:expireTime,...` of the existing comments of entry type
 * acknowledgement (`-` if none).
 *
 * Times on the lines are relative to the case; the virtual clock runs at `base + t` with a base that grows from case
 * to case, so that process-global timers see a monotonic clock.
 *
 * Modes:  gen --seed S --tier quick|thorough [--datadir D] [--jobs J] [--len L] [--random N]
 *             exhaustive enumeration + seeded random histories, split over J exec'ed worker processes
 *             (`worker` mode, internal) whose outputs are concatenated in a fixed order
 *         ops FILE [--datadir D]       replay the operation lines of FILE (text after '|' and the <fired> field ignored)
 *         (env C06_DEBUG=1 with `ops`: Icinga's log on stdout, for diagnosing a failing set-up)
 */
#include "common.hpp"
#include "base/configuration.hpp"
#include "base/exception.hpp"
#include "base/io-engine.hpp"
#include "base/tlsstream.hpp"
#include "config/activationcontext.hpp"
#include "config/configitem.hpp"
#include "config/configitembuilder.hpp"
#include "icinga/apiactions.hpp"
#include "icinga/comment.hpp"
#include "icinga/downtime.hpp"
#include "icinga/externalcommandprocessor.hpp"
#include "icinga/notification.hpp"
#include "notification/notificationcomponent.hpp"
#include "remote/apiaction.hpp"
#include "remote/apifunction.hpp"
#include "remote/apiuser.hpp"
#include "remote/httphandler.hpp"
#include "remote/httpserverconnection.hpp"
#include "remote/endpoint.hpp"
#include "remote/jsonrpcconnection.hpp"
#include "remote/messageorigin.hpp"
#include <boost/asio/spawn.hpp>
#include <boost/beast/http.hpp>
#include <algorithm>
#include <cerrno>
#include <sys/stat.h>
#include <sys/wait.h>

using namespace icinga;
using namespace vh;

namespace vh {
typedef void NthFn();
VH_ROB_MEMBER(NthTag, NotificationComponent, NthFn, NotificationTimerHandler)
}

static Checkable *l_Obj = nullptr;
static int l_Set, l_Cleared, l_AckNotif, l_ProblemNotif, l_RecoveryNotif, l_Reminders;
static NotificationComponent::Ptr l_NC;
static Notification *l_Notif = nullptr;
static MessageOrigin::Ptr l_Origin;
static long l_Cases = 0;
static long long l_Base = 0;      /* virtual clock = l_Base + case-relative time */
static long long l_MaxT = 0;      /* largest relative time of the current case */
static const long long kBaseStep = 100000;
static const double kFarFuture = 1e14;

struct Case {
	Host::Ptr host;
	Service::Ptr svc;
	Checkable::Ptr obj;
	Downtime::Ptr downtime;
	Notification::Ptr notif;
	bool isHost;
	bool paused = false;
};

static void Clock(long long t)
{
	if (t > l_MaxT) l_MaxT = t;
	SetNow((double)(l_Base + t));
}

static long long Rel(double abs) /* 0 stays 0 (= none) */
{
	return abs == 0 ? 0 : (long long)abs - l_Base;
}

static Case MakeCase(bool isHost, int mx, bool vol)
{
	Case c;
	c.isHost = isHost;
	l_Base += kBaseStep + (l_MaxT > kBaseStep / 2 ? l_MaxT : 0);
	l_MaxT = 0;
	Clock(0);
	c.host = new Host();
	c.host->SetName("h");
	c.host->SetActive(true);
	c.host->SetMaxCheckAttempts(mx);
	c.host->SetVolatile(vol);
	c.host->Activate();
	c.host->SetAuthority(true);
	c.host->Register();
	if (!isHost) {
		c.svc = new Service();
		c.svc->SetHostName("h");
		c.svc->SetShortName("s");
		c.svc->SetName("h!s");
		c.svc->SetActive(true);
		c.svc->SetMaxCheckAttempts(mx);
		c.svc->SetVolatile(vol);
		c.svc->Activate();
		c.svc->SetAuthority(true);
		c.svc->Register();
	}
	c.host->OnAllConfigLoaded();
	if (c.svc) {
		c.svc->OnAllConfigLoaded();
		/* the (never checked) host of a service case has not "recovered recently": last_state_change defaults to the
		 * application's start time, which lies after every time of the virtual clock */
		c.host->SetLastStateChange(0);
	}
	c.obj = isHost ? Checkable::Ptr(c.host) : Checkable::Ptr(c.svc);
	l_Obj = c.obj.get();
	{
		/* one Notification object without users, period, times or filters, reminders every second (constructed directly,
		 * as the Host/Service are); no NotificationComponent is started, so requests are counted, not executed */
		Notification::Ptr n = new Notification();
		n->SetName(isHost ? "h!n" : "h!s!n");
		n->SetField(n->GetReflectionType()->GetFieldId("host_name"), String("h"));
		if (!isHost)
			n->SetField(n->GetReflectionType()->GetFieldId("service_name"), String("s"));
		n->SetInterval(1);
		n->SetTypeFilter(~0);
		n->SetStateFilter(~0);
		n->Register();
		static_pointer_cast<ConfigObject>(n)->OnAllConfigLoaded();
		n->SetActive(true);
		n->SetAuthority(true);
		c.notif = n;
		l_Notif = n.get();
	}
	l_Cases++;
	return c;
}

static void Finish(Case& c)
{
	if (!c.obj)
		return;
	l_Obj = nullptr;
	if (c.downtime) {
		c.obj->UnregisterDowntime(c.downtime);
		c.downtime = nullptr;
	}
	c.obj->RemoveAllComments();
	if (c.notif) {
		l_Notif = nullptr;
		c.obj->UnregisterNotification(c.notif);
		c.notif->SetActive(false);
		c.notif->Unregister();
		c.notif = nullptr;
	}
	if (c.svc) {
		c.svc->SetActive(false);
		c.svc->Unregister();
	}
	c.host->SetActive(false);
	c.host->Unregister();
	c = Case();
}

static void ResetCounters()
{
	l_Set = l_Cleared = l_AckNotif = l_ProblemNotif = l_RecoveryNotif = l_Reminders = 0;
}

struct Cm { long long entry; int persistent; long long expire; };

static void Observe(const Case& c, int acc, int reader = 0)
{
	/* the raw attribute first: nothing has looked at the object since the operation */
	int raw = (int)c.obj->GetAcknowledgementRaw();
	/* then the three readers, each of which evaluates the expiry lazily; whichever comes first has to see it */
	int ack = 0, handled = 0, sevAck = 0;
	for (int i = 0; i < 3; i++) {
		int which = (reader + i) % 3; /* reader 0: handled, severity, ack; 1: severity, ack, handled; 2: ack, handled, severity */
		if (which == 0) handled = c.obj->GetHandled() ? 1 : 0;
		else if (which == 1) sevAck = (c.obj->GetSeverity() & 512) ? 1 : 0;
		else ack = (int)c.obj->GetAcknowledgement();
	}
	int problem = c.obj->GetProblem() ? 1 : 0;
	int supp = c.obj->GetSuppressedNotifications();
	long long expiry = Rel(c.obj->GetAcknowledgementExpiry());
	std::vector<Cm> cm;
	for (const Comment::Ptr& comment : c.obj->GetComments()) {
		if (comment->GetEntryType() == CommentAcknowledgement)
			cm.push_back({ Rel(comment->GetEntryTime()), comment->GetPersistent() ? 1 : 0, Rel(comment->GetExpireTime()) });
	}
	std::sort(cm.begin(), cm.end(), [](const Cm& a, const Cm& b) {
		if (a.entry != b.entry) return a.entry < b.entry;
		if (a.persistent != b.persistent) return a.persistent < b.persistent;
		return a.expire < b.expire;
	});
	printf(" | %d %d %lld %d %d %d %d %ld %d %d %d %d ", acc, ack, expiry, handled, problem,
		(int)c.obj->GetStateRaw(), (int)c.obj->GetStateType(), (long)c.obj->GetCheckAttempt(),
		l_Set, l_Cleared, l_AckNotif, l_ProblemNotif);
	if (cm.empty())
		printf("-");
	for (size_t i = 0; i < cm.size(); i++)
		printf("%s%lld:%d:%lld", i ? "," : "", cm[i].entry, cm[i].persistent, cm[i].expire);
	printf(" %d %d %d %d %d %d\n", raw, sevAck, (supp & NotificationProblem) ? 1 : 0, (supp & NotificationRecovery) ? 1 : 0,
		l_RecoveryNotif, l_Reminders);
}

/* ---- HTTP layer (as harness/c18.cpp): a whole request through the production dispatcher ---- */
static boost::asio::io_context l_Io;
static Shared<AsioTlsStream>::Ptr l_Stream;
static HttpServerConnection::Ptr l_Conn;
static ApiUser::Ptr l_User;

static void InitHttp()
{
	namespace asio = boost::asio;
	using tcp = asio::ip::tcp;
	static asio::ssl::context ssl(asio::ssl::context::tls);
	static tcp::acceptor acc(l_Io, tcp::endpoint(asio::ip::address_v4::loopback(), 0));
	static tcp::socket peer(l_Io);
	l_Stream = Shared<AsioTlsStream>::Make(l_Io, ssl);
	l_Stream->lowest_layer().connect(acc.local_endpoint());
	acc.accept(peer);
	l_Conn = new HttpServerConnection("verif", false, l_Stream);
	l_User = new ApiUser();
	l_User->SetName("verif");
	l_User->SetPermissions(new Array({ String("actions/*") }));
}

/* POST /v1/actions/<action> with a JSON body; returns the HTTP status */
static int HttpAction(const Case& c, const char *action, const Dictionary::Ptr& body)
{
	namespace http = boost::beast::http;
	body->Set("type", c.isHost ? "Host" : "Service");
	body->Set(c.isHost ? "host" : "service", c.isHost ? "h" : "h!s");
	http::request<http::string_body> req{http::verb::post, std::string("/v1/actions/") + action, 11};
	req.set(http::field::accept, "application/json");
	req.body() = JsonEncode(body).GetData();
	req.prepare_payload();
	http::response<http::string_body> resp;
	bool crashed = false;
	IoEngine::SpawnCoroutine(l_Io, [&](boost::asio::yield_context yc) {
		try { HttpHandler::ProcessRequest(*l_Stream, l_User, req, resp, yc, *l_Conn); } catch (const std::exception&) { crashed = true; }
	});
	l_Io.run();
	l_Io.restart();
	return crashed ? 599 : (int)resp.result_int();
}

static void DoResult(const Case& c, int state, long long execStart, long long execEnd, long long now)
{
	Clock(now);
	ResetCounters();
	printf("R %d %lld %lld %lld", state, execStart, execEnd, now);
	CheckResult::Ptr cr = MakeCr((ServiceState)state, (double)(l_Base + execStart), (double)(l_Base + execEnd), true);
	auto res = c.obj->ProcessCheckResult(cr);
	Observe(c, res == Checkable::ProcessingResult::Ok ? 1 : 0);
}

static void DoAck(const Case& c, char via, int sticky, int notify, int persistent, long long expiry, long long now)
{
	Clock(now);
	ResetCounters();
	printf("A %c %d %d %d %lld %lld", via, sticky, notify, persistent, expiry, now);
	int acc = 0;
	long long absExpiry = expiry != 0 ? l_Base + expiry : 0;
	if (via == 'a' || via == 'h') {
		Dictionary::Ptr params = new Dictionary({
			{ "author", "verif" }, { "comment", "ack" },
			{ "sticky", sticky != 0 }, { "notify", notify != 0 }, { "persistent", persistent != 0 }
		});
		if (expiry != 0)
			params->Set("expiry", (double)absExpiry);
		if (via == 'h') {
			acc = HttpAction(c, "acknowledge-problem", params) / 100 == 2 ? 1 : 0; /* any 2xx = accepted */
		} else {
			Dictionary::Ptr r = ApiAction::GetByName("acknowledge-problem")->Invoke(c.obj, params);
			acc = ((int)(double)r->Get("code") / 100 == 2) ? 1 : 0; /* any 2xx = accepted, as ActionsHandler classes it */
		}
	} else if (via == 'e' || via == 'x' || via == 'f' || via == 'y') {
		bool expire = via == 'x' || via == 'y';
		std::ostringstream line;
		line << "[" << (l_Base + now) << "] ACKNOWLEDGE_" << (c.isHost ? "HOST" : "SVC") << "_PROBLEM" << (expire ? "_EXPIRE" : "") << ";h;";
		if (!c.isHost)
			line << "s;";
		if (via == 'f' || via == 'y')
			line << sticky << ";" << notify << ";" << persistent << ";"; /* the command's own integer arguments, as given */
		else
			line << (sticky ? 2 : 1) << ";" << notify << ";" << persistent << ";";
		if (expire)
			line << absExpiry << ";";
		line << "verif;ack";
		try {
			ExternalCommandProcessor::Execute(line.str());
			acc = 1;
		} catch (const std::exception&) {
			/* refused — whatever the exception's type or wording (callers catch std::exception) */
			acc = 0;
		}
	} else if (via == 'c') {
		Dictionary::Ptr params = new Dictionary({
			{ "host", "h" }, { "author", "verif" }, { "comment", "ack" },
			{ "acktype", sticky ? 2 : 1 }, { "notify", notify != 0 }, { "persistent", persistent != 0 },
			{ "expiry", (double)absExpiry }, { "change_time", (double)(l_Base + now) }
		});
		if (!c.isHost)
			params->Set("service", "s");
		ApiFunction::GetByName("event::SetAcknowledgement")->Invoke(l_Origin, params);
		acc = l_Set > 0 ? 1 : 0; /* the handler returns nothing; "accepted" = it set the acknowledgement */
	} else {
		fprintf(stderr, "bad via\n");
		_exit(2);
	}
	Observe(c, acc);
}

static void DoRemove(const Case& c, char via, long long now)
{
	Clock(now);
	ResetCounters();
	printf("X %c %lld", via, now);
	if (via == 'a') {
		Dictionary::Ptr params = new Dictionary({ { "author", "verif" } });
		ApiAction::GetByName("remove-acknowledgement")->Invoke(c.obj, params);
	} else if (via == 'h') {
		Dictionary::Ptr params = new Dictionary({ { "author", "verif" } });
		HttpAction(c, "remove-acknowledgement", params);
	} else if (via == 'e') {
		std::ostringstream line;
		line << "[" << (l_Base + now) << "] REMOVE_" << (c.isHost ? "HOST" : "SVC") << "_ACKNOWLEDGEMENT;h";
		if (!c.isHost)
			line << ";s";
		ExternalCommandProcessor::Execute(line.str());
	} else if (via == 'c') {
		Dictionary::Ptr params = new Dictionary({ { "host", "h" }, { "author", "verif" }, { "change_time", (double)(l_Base + now) } });
		if (!c.isHost)
			params->Set("service", "s");
		ApiFunction::GetByName("event::ClearAcknowledgement")->Invoke(l_Origin, params);
	} else {
		fprintf(stderr, "bad via\n");
		_exit(2);
	}
	Observe(c, 1);
}

static void DoAdvance(const Case& c, long long now, int reader = 0)
{
	Clock(now);
	ResetCounters();
	printf("T %lld %d", now, reader);
	Observe(c, 1, reader);
}

static void DoRemind(const Case& c, long long now)
{
	Clock(now);
	ResetCounters();
	printf("N %lld", now);
	/* the reminder is due (when reminders are due is C03's subject) */
	c.notif->SetNextNotification(0);
	c.notif->SetLastProblemNotification(0);
	(l_NC.get()->*get(NthTag()))();
	/* a reminder was attempted: the sent-to-all-users signal (with an empty user set) or the problem-notification stamp */
	if (l_Reminders == 0 && c.notif->GetLastProblemNotification() != 0)
		l_Reminders = 1;
	if (l_Reminders > 1)
		l_Reminders = 1;
	Observe(c, 1);
}

static void DoFire(const Case& c, long long now)
{
	Clock(now);
	ResetCounters();
	printf("F %lld", now);
	bool active = c.obj->GetEnableActiveChecks();
	c.obj->SetEnableActiveChecks(false); /* IsLikelyToBeCheckedSoon(): no */
	c.obj->FireSuppressedNotifications();
	c.obj->SetEnableActiveChecks(active);
	Observe(c, 1);
}

static void DoPause(Case& c, int on, long long now)
{
	Clock(now);
	ResetCounters();
	printf("U %d %lld", on, now);
	/* HA: the object is active on the other zone member (ApiListener::UpdateObjectAuthority does exactly this call) */
	c.obj->SetAuthority(!on);
	c.paused = on != 0;
	Observe(c, 1);
}

static void DoPump(const Case& c, long long now)
{
	Clock(now);
	ResetCounters();
	int fired = Timer::VerifFireDue((double)(l_Base + now)) > 0 ? 1 : 0;
	printf("P %lld %d", now, fired);
	Observe(c, 1);
}

static void DoDowntime(Case& c, int on, long long now)
{
	Clock(now);
	ResetCounters();
	printf("D %d %lld", on, now);
	if (on && !c.downtime) {
		/* a fixed downtime that is in effect for as long as it is registered (constructed directly, as
		 * test/icinga-checkresult.cpp does) */
		Downtime::Ptr dt = new Downtime();
		dt->SetHostName("h");
		if (!c.isHost)
			dt->SetServiceName("s");
		dt->SetName(c.isHost ? "h!dt" : "h!s!dt");
		dt->SetFixed(true);
		dt->SetStartTime((double)l_Base - 3600);
		dt->SetEndTime(kFarFuture);
		dt->SetTriggers(new Array());
		dt->OnAllConfigLoaded();
		c.obj->RegisterDowntime(dt);
		c.downtime = dt;
	} else if (!on && c.downtime) {
		c.obj->UnregisterDowntime(c.downtime);
		c.downtime = nullptr;
	}
	Observe(c, 1);
}

static Case Header(bool isHost, int mx, bool vol)
{
	printf("C %c %d %d\n", isHost ? 'h' : 's', mx, vol ? 1 : 0);
	return MakeCase(isHost, mx, vol);
}

/* --- exhaustive part: all sequences of `len` symbols of a 16-symbol alphabet; time advances by 10 per step.  Sequences
 * that begin with a pure look (time advance, pump, reminder) are left out: on the never-checked, never-acknowledged object
 * of a fresh case these do nothing, so such a sequence is its own tail, which is enumerated as the head of others. --- */
static const int kSymbols = 16;
static bool PureLook(int sym) { return sym == 11 || sym == 12 || sym == 15; }

static void DoSymbol(Case& c, int sym, long long t, int pos)
{
	switch (sym) {
	case 0: DoResult(c, 0, t, t, t); break;
	case 1: DoResult(c, 2, t, t, t); break;
	case 2: DoResult(c, 1, t, t, t); break;
	case 3: DoResult(c, 0, t - 15, t - 15, t); break; /* late result: executed before the previous step */
	case 4: DoAck(c, 'h', 0, 1, 0, 0, t); break;
	case 5: DoAck(c, 'a', 1, 0, 1, t + 15, t); break;
	case 6: DoAck(c, 'e', 0, 0, 0, 0, t); break;
	case 7: DoAck(c, 'x', 1, 1, 0, t + 15, t); break;
	case 8: DoAck(c, 'c', 1, 1, 0, 0, t); break;
	case 9: DoRemove(c, 'h', t); break;
	case 10: DoRemove(c, 'e', t); break;
	case 11: DoAdvance(c, t + 8, pos % 3); break;     /* the first reader rotates with the position */
	case 12: DoPump(c, t + 8); break;
	case 13: DoDowntime(c, c.downtime ? 0 : 1, t); break; /* toggle */
	case 14: DoPause(c, c.paused ? 0 : 1, t); break;      /* toggle */
	case 15: DoRemind(c, t + 8); break;
	}
}

static void Enumerate(int len, int job, int jobs)
{
	long total = 1;
	for (int i = 0; i < len; i++) total *= kSymbols;
	long all = total * 4; /* kind x max_check_attempts 1..2 */
	long lo = all * job / jobs, hi = all * (job + 1) / jobs;
	for (long idx = lo; idx < hi; idx++) {
		long code = idx % total;
		int cfg = (int)(idx / total);
		if (len > 1 && PureLook((int)(code % kSymbols)))
			continue;
		Case c = Header((cfg & 2) != 0, 1 + (cfg & 1), false);
		long k = code;
		long long t = 1000;
		for (int i = 0; i < len; i++) {
			t += 10;
			DoSymbol(c, (int)(k % kSymbols), t, i);
			k /= kSymbols;
		}
		Finish(c);
	}
}

/* --- second exhaustive part, around the suppressed-notification handler: after a first CRITICAL/DOWN result, all sequences
 * of `len` symbols of a 9-symbol alphabet that contain at least one run of the handler (the others are the first part's). --- */
static const int kSymbols2 = 9;

static void DoSymbol2(Case& c, int sym, long long t)
{
	switch (sym) {
	case 0: DoResult(c, 0, t, t, t); break;
	case 1: DoResult(c, 2, t, t, t); break;
	case 2: DoResult(c, 1, t, t, t); break;
	case 3: DoAck(c, 'a', 1, 0, 1, t + 15, t); break;   /* sticky, runs out before the next step's handler run */
	case 4: DoAck(c, 'c', 1, 1, 0, 0, t); break;        /* sticky, no expiry */
	case 5: DoRemove(c, 'h', t); break;
	case 6: DoDowntime(c, c.downtime ? 0 : 1, t); break;
	case 7: DoPause(c, c.paused ? 0 : 1, t); break;
	case 8: DoFire(c, t + 8); break;
	}
}

static void Enumerate2(int len, int job, int jobs)
{
	long total = 1;
	for (int i = 0; i < len; i++) total *= kSymbols2;
	long all = total * 4;
	long lo = all * job / jobs, hi = all * (job + 1) / jobs;
	for (long idx = lo; idx < hi; idx++) {
		long code = idx % total;
		int cfg = (int)(idx / total);
		bool hasFire = false;
		for (long k = code, i = 0; i < len; i++, k /= kSymbols2)
			if (k % kSymbols2 == 8) hasFire = true;
		if (!hasFire)
			continue;
		Case c = Header((cfg & 2) != 0, 1 + (cfg & 1), false);
		long long t = 1000;
		DoResult(c, 2, t, t, t);
		long k = code;
		for (int i = 0; i < len; i++) {
			t += 10;
			DoSymbol2(c, (int)(k % kSymbols2), t);
			k /= kSymbols2;
		}
		Finish(c);
	}
}

static void Random(Rng& rng, int n, int maxLen)
{
	for (int i = 0; i < n; i++) {
		bool host = rng.coin();
		int mx = 1 + (int)rng.below(4);
		bool vol = rng.below(5) == 0;
		Case c = Header(host, mx, vol);
		int len = 1 + (int)rng.below(maxLen);
		long long t = 1000;
		long long lastExec = 0;
		int pAck = 1 + (int)rng.below(5);
		for (int j = 0; j < len; j++) {
			t += (long long)rng.below(12);
			int k = (int)rng.below(15);
			if (k == 14) {
				t += (long long)rng.below(20);
				DoFire(c, t);
			} else if (k == 13) {
				t += (long long)rng.below(20);
				DoRemind(c, t);
			} else if (k == 12) {
				DoPause(c, (int)rng.below(3) == 0 ? 0 : (c.paused ? 0 : 1), t);
			} else if (k == 10) {
				t += (long long)rng.below(40);
				DoPump(c, t);
			} else if (k == 11) {
				DoDowntime(c, (int)rng.below(2), t);
			} else if (k < 4) {
				/* result; states biased to problems; execution mostly now, sometimes earlier, sometimes stale */
				int st = rng.below(3) == 0 ? (int)rng.below(2) : 1 + (int)rng.below(3);
				if (rng.below(4) == 0) st = (int)c.obj->GetStateRaw(); /* repeat the state */
				long long es = t, ee = t;
				int m = (int)rng.below(10);
				if (m == 0) { es = t - (long long)rng.below(30); ee = es + (long long)rng.below(5); }
				else if (m == 1) { es = t - (long long)rng.below(8); ee = es; }
				else if (m == 2 && lastExec > 1) { es = lastExec - 1; ee = es; }
				if (es < 1) es = 1;
				if (ee < 1) ee = 1;
				if (ee > t) ee = t;
				DoResult(c, st, es, ee, t);
				if (es >= lastExec) lastExec = es;
			} else if (k < 4 + pAck && k < 8) {
				const char vias[] = { 'h', 'a', 'e', 'x', 'x', 'c', 'c', 'f', 'y' };
				char via = vias[rng.below(sizeof vias)];
				bool rawArgs = via == 'f' || via == 'y';
				long long expiry = 0;
				int m = (int)rng.below(8);
				if (via != 'e' && via != 'f') {
					if (m < 4) expiry = t + 1 + (long long)rng.below(rng.coin() ? 40 : 8);
					else if (m == 4) expiry = t;                       /* not in the future */
					else if (m == 5) expiry = t - 1 - (long long)rng.below(10);
				}
				if (rawArgs)
					DoAck(c, via, (int)rng.below(4), (int)rng.below(3), (int)rng.below(3), expiry, t);
				else
					DoAck(c, via, rng.coin(), rng.coin(), rng.below(3) == 0, expiry, t);
			} else if (k == 8) {
				const char vias[] = { 'h', 'a', 'e', 'c' };
				DoRemove(c, vias[rng.below(4)], t);
			} else {
				t += (long long)rng.below(30);
				DoAdvance(c, t, (int)rng.below(3));
			}
		}
		Finish(c);
	}
}

static std::string l_DataDir;
static std::string BaseDir(int argc, char **argv);

static void Setup(int argc, char **argv)
{
	std::string base = BaseDir(argc, argv);
	Utility::MkDirP(base, 0700);
	std::string tmpl = base + "/run.XXXXXX";
	std::vector<char> buf(tmpl.begin(), tmpl.end());
	buf.push_back(0);
	if (!mkdtemp(buf.data())) { perror("mkdtemp"); _exit(2); }
	l_DataDir = buf.data();
	Configuration::DataDir = l_DataDir;

	Checkable::OnAcknowledgementSet.connect([](const Checkable::Ptr& o, const String&, const String&, AcknowledgementType,
		bool, bool, double, double, const MessageOrigin::Ptr&) { if (o.get() == l_Obj) l_Set++; });
	Checkable::OnAcknowledgementCleared.connect([](const Checkable::Ptr& o, const String&, double, const MessageOrigin::Ptr&) {
		if (o.get() == l_Obj) l_Cleared++; });
	Checkable::OnNotificationsRequested.connect([](const Checkable::Ptr& o, NotificationType type, const CheckResult::Ptr&,
		const String&, const String&, const MessageOrigin::Ptr&) {
		if (o.get() != l_Obj) return;
		if (type == NotificationAcknowledgement) l_AckNotif++;
		if (type == NotificationProblem) l_ProblemNotif++;
		if (type == NotificationRecovery) l_RecoveryNotif++;
	});
	Checkable::OnNotificationSentToAllUsers.connect([](const Notification::Ptr& n, const Checkable::Ptr&, const std::set<User::Ptr>&,
		const NotificationType& type, const CheckResult::Ptr&, const String&, const String&, const MessageOrigin::Ptr&) {
		if (n.get() == l_Notif && type == NotificationProblem) l_Reminders++;
	});
	/* the component whose timer handler the N operation calls; never activated: no timer, no signal connection */
	l_NC = new NotificationComponent();
	l_NC->SetName("c06-nc");

	/* Comment::AddComment validates `host_name` against the registered *configuration items*; the harness builds its
	 * Host/Service objects directly (as test/icinga-checkresult.cpp does), so it registers one never-committed
	 * configuration item for the host name it uses. */
	{
		ActivationScope ascope;
		ConfigItemBuilder builder;
		builder.SetType(Host::TypeInstance);
		builder.SetName("h");
		ConfigItem::Ptr item = builder.Compile();
		item->Register();
	}

	/* Only the comment-expiry timer may become due when the harness pumps: the two process-global timers that
	 * Checkable::Start creates once (suppressed notifications — C02's subject —, deadlined executions) are created
	 * here, under a clock in the far future, so that their next run never comes. */
	{
		SetNow(1e15);
		Host::Ptr dummy = new Host();
		dummy->SetName("parked");
		dummy->SetActive(true);
		dummy->Activate();
		dummy->SetActive(false);
		SetNow(0);
	}

	InitHttp();

	/* a cluster peer: an authenticated connection object (never started) whose identity names a registered endpoint */
	static boost::asio::ssl::context sslCtx(boost::asio::ssl::context::tlsv12);
	Endpoint::Ptr ep = new Endpoint();
	ep->SetName("peer");
	ep->Register();
	auto stream = Shared<AsioTlsStream>::Make(IoEngine::Get().GetIoContext(), sslCtx);
	JsonRpcConnection::Ptr conn = new JsonRpcConnection("peer", true, stream, RoleClient);
	l_Origin = new MessageOrigin();
	l_Origin->FromClient = conn;
}

static void Teardown()
{
	fflush(stdout);
	try { Utility::RemoveDirRecursive(l_DataDir); } catch (...) { }
}

static std::string BaseDir(int argc, char **argv)
{
	const char *dd = argOr(argc, argv, "--datadir", nullptr);
	return dd ? dd : "/verif/_work/c06/data";
}

static void RunOps(const char *path)
{
	FILE *f = fopen(path, "r");
	if (!f) { perror("open"); _exit(2); }
	char line[512];
	Case c;
	while (fgets(line, sizeof line, f)) {
		if (line[0] == 'C') {
			char k; int mx, vol;
			if (sscanf(line, "C %c %d %d", &k, &mx, &vol) != 3) { fprintf(stderr, "bad C line\n"); _exit(2); }
			Finish(c);
			c = Header(k == 'h', mx, vol != 0);
		} else if (line[0] == 'R') {
			int st; long long es, ee, now;
			if (sscanf(line, "R %d %lld %lld %lld", &st, &es, &ee, &now) != 4 || !c.obj) { fprintf(stderr, "bad R line\n"); _exit(2); }
			DoResult(c, st, es, ee, now);
		} else if (line[0] == 'A') {
			char via; int sticky, notify, persistent; long long expiry, now;
			if (sscanf(line, "A %c %d %d %d %lld %lld", &via, &sticky, &notify, &persistent, &expiry, &now) != 6 || !c.obj) { fprintf(stderr, "bad A line\n"); _exit(2); }
			DoAck(c, via, sticky, notify, persistent, expiry, now);
		} else if (line[0] == 'X') {
			char via; long long now;
			if (sscanf(line, "X %c %lld", &via, &now) != 2 || !c.obj) { fprintf(stderr, "bad X line\n"); _exit(2); }
			DoRemove(c, via, now);
		} else if (line[0] == 'T') {
			long long now; int reader = 0;
			if (sscanf(line, "T %lld %d", &now, &reader) < 1 || !c.obj) { fprintf(stderr, "bad T line\n"); _exit(2); }
			DoAdvance(c, now, ((reader % 3) + 3) % 3);
		} else if (line[0] == 'P') {
			long long now;
			if (sscanf(line, "P %lld", &now) != 1 || !c.obj) { fprintf(stderr, "bad P line\n"); _exit(2); }
			DoPump(c, now);
		} else if (line[0] == 'D') {
			int on; long long now;
			if (sscanf(line, "D %d %lld", &on, &now) != 2 || !c.obj) { fprintf(stderr, "bad D line\n"); _exit(2); }
			DoDowntime(c, on, now);
		} else if (line[0] == 'N') {
			long long now;
			if (sscanf(line, "N %lld", &now) != 1 || !c.obj) { fprintf(stderr, "bad N line\n"); _exit(2); }
			DoRemind(c, now);
		} else if (line[0] == 'F') {
			long long now;
			if (sscanf(line, "F %lld", &now) != 1 || !c.obj) { fprintf(stderr, "bad F line\n"); _exit(2); }
			DoFire(c, now);
		} else if (line[0] == 'U') {
			int on; long long now;
			if (sscanf(line, "U %d %lld", &on, &now) != 2 || !c.obj) { fprintf(stderr, "bad U line\n"); _exit(2); }
			DoPause(c, on, now);
		}
	}
	Finish(c);
	fclose(f);
}

int main(int argc, char **argv)
{
	if (argc < 2) { fprintf(stderr, "usage: h_c06 gen|ops ...\n"); return 2; }
	std::string mode = argv[1];
	std::string base = BaseDir(argc, argv);

	if (mode == "gen") {
		/* Creating a comment writes and compiles a configuration file, which dominates the run time; the case space is
		 * therefore split over `--jobs` worker processes, forked *before* anything of Icinga is initialised.  Worker j
		 * handles a fixed slice, so the concatenated output depends on (seed, tier, jobs) only. */
		uint64_t seed = strtoull(argOr(argc, argv, "--seed", "1"), nullptr, 10);
		bool thorough = std::string(argOr(argc, argv, "--tier", "quick")) == "thorough";
		int len = atoi(argOr(argc, argv, "--len", thorough ? "5" : "4"));
		int nRandom = atoi(argOr(argc, argv, "--random", thorough ? "24000" : "4000"));
		int jobs = atoi(argOr(argc, argv, "--jobs", thorough ? "12" : "8"));
		if (jobs < 1) jobs = 1;
		if (mkdir(base.c_str(), 0700) != 0 && errno != EEXIST) {
			std::string cmd = "mkdir -p '" + base + "'";
			if (system(cmd.c_str()) != 0) { perror("mkdir"); return 2; }
		}
		std::vector<pid_t> pids;
		std::vector<std::string> parts;
		for (int j = 0; j < jobs; j++) {
			parts.push_back(base + "/part." + std::to_string((long)getpid()) + "." + std::to_string(j));
			pid_t pid = fork();
			if (pid < 0) { perror("fork"); return 2; }
			if (pid == 0) {
				/* exec a fresh image: ConfigObjectsSharedLock lives in a MAP_SHARED mapping created during static
				 * initialisation, which forked-only workers would share (its try-lock then fails spuriously and the
				 * API action answers 503 "Icinga is reloading") */
				std::string js = std::to_string(j), jn = std::to_string(jobs), ls = std::to_string(len),
					rs = std::to_string(nRandom), ss = std::to_string((unsigned long long)seed);
				const char *av[] = { "h_c06", "worker", "--job", js.c_str(), "--jobs", jn.c_str(), "--len", ls.c_str(),
					"--random", rs.c_str(), "--seed", ss.c_str(), "--tier", thorough ? "thorough" : "quick",
					"--datadir", base.c_str(), "--out", parts[j].c_str(), nullptr };
				execv("/proc/self/exe", (char * const *)av);
				perror("execv");
				_exit(2);
			}
			pids.push_back(pid);
		}
		int rc = 0;
		for (pid_t pid : pids) {
			int st = 0;
			if (waitpid(pid, &st, 0) < 0 || !WIFEXITED(st) || WEXITSTATUS(st) != 0) {
				fprintf(stderr, "worker %ld failed (status %d)\n", (long)pid, st);
				rc = 3;
			}
		}
		for (const std::string& part : parts) {
			FILE *f = fopen(part.c_str(), "r");
			if (f) {
				char buf[65536];
				size_t n;
				while ((n = fread(buf, 1, sizeof buf, f)) > 0)
					fwrite(buf, 1, n, stdout);
				fclose(f);
			}
			unlink(part.c_str());
		}
		fflush(stdout);
		return rc;
	} else if (mode == "worker") {
		uint64_t seed = strtoull(argOr(argc, argv, "--seed", "1"), nullptr, 10);
		bool thorough = std::string(argOr(argc, argv, "--tier", "quick")) == "thorough";
		int len = atoi(argOr(argc, argv, "--len", "4"));
		int nRandom = atoi(argOr(argc, argv, "--random", "0"));
		int jobs = atoi(argOr(argc, argv, "--jobs", "1"));
		int j = atoi(argOr(argc, argv, "--job", "0"));
		const char *out = argOr(argc, argv, "--out", nullptr);
		if (out && !freopen(out, "w", stdout)) _exit(2);
		InitIcinga();
		Setup(argc, argv);
		Enumerate(len, j, jobs);
		Enumerate2(len, j, jobs);
		Rng rng(seed * 1000003ULL + (uint64_t)j);
		Random(rng, nRandom / jobs + (j < nRandom % jobs ? 1 : 0), thorough ? 120 : 40);
		Teardown();
		_exit(0);
	} else if (mode == "ops") {
		if (argc < 3) return 2;
		InitIcinga();
		if (getenv("C06_DEBUG")) { /* diagnostics when the set-up itself fails */
			Logger::SetConsoleLogSeverity(LogNotice);
			Logger::EnableConsoleLog();
			std::cout.setf(std::ios::unitbuf);
			setvbuf(stdout, nullptr, _IONBF, 0);
		}
		Setup(argc, argv);
		RunOps(argv[2]);
		Teardown();
		_exit(0);
	}
	return 2;
}

/* C03 harness: who gets which notification when.
 * Drives the real Notification::BeginExecuteNotification through the real entry points
 *   - Checkable::OnNotificationsRequested -> started NotificationComponent -> Checkable::SendNotifications
 *   - NotificationComponent::NotificationTimerHandler (directly, or through its registered 5 s timer via the pump)
 * on a real Host/Service with real Users, a UserGroup, TimePeriods, a Dependency, a Downtime and a
 * NotificationCommand whose `execute` is a native Function that records the deliveries, under a virtual clock.
 *
 * The line protocol is specified in corpus/C03/PROTOCOL.txt (lean/Driver/C03.lean parses it):
 *   C <kind h|s> <interval> <tbegin|-> <tend|-> <typeFilter> <stateFilter> <hasPeriod> <nusers> {<attach> <utf> <usf> <uhasPeriod>}*
 *   S/V/D/A/L/R/K/G/E/P/Y/W/U/F ...   environment operations, echoed as "<op> |"
 *   N <typebit> <dt> | <20 env ints> ; <users> ; <events> ; <cmds> ; <npu> <lns> <next> <noMore> <number> <sup>
 *   T <dt> <direct>  | (same observation)
 */
#include "common.hpp"
#include "base/function.hpp"
#include "icinga/dependency.hpp"
#include "icinga/downtime.hpp"
#include "icinga/notification.hpp"
#include "icinga/notificationcommand.hpp"
#include "icinga/timeperiod.hpp"
#include "icinga/user.hpp"
#include "icinga/usergroup.hpp"
#include "notification/notificationcomponent.hpp"
#include "remote/apilistener.hpp"
#include "remote/endpoint.hpp"
#include <algorithm>
#include <atomic>
#include <chrono>
#include <map>
#include <mutex>
#include <set>
#include <thread>

using namespace icinga;
using namespace vh;

namespace vh {
typedef void NthFn();
VH_ROB_MEMBER(NthTag, NotificationComponent, NthFn, NotificationTimerHandler)
}

static const char *const kCmdName = "c03-cmd";

static void Die(const std::string& msg, int code = 2)
{
	fflush(stdout);
	fprintf(stderr, "h_c03: %s\n", msg.c_str());
	_exit(code);
}

/* ---- recorded command executions (thread pool threads) ---- */
static std::mutex l_CmdMutex;
static std::vector<std::pair<int, std::string>> l_Cmds;
static std::atomic<int> l_CmdCount{0};

static Value CmdExecute(const std::vector<Value>& args)
{
	/* {notification, user, cr, type, author, comment, resolvedMacros, useResolvedMacros} */
	int type = -1;
	std::string name = "?";
	if (args.size() >= 4) {
		User::Ptr user = args[1];
		type = (int)(double)args[3];
		if (user)
			name = user->GetName().GetData();
	}
	{
		std::unique_lock<std::mutex> lock(l_CmdMutex);
		l_Cmds.emplace_back(type, name);
	}
	l_CmdCount.fetch_add(1);
	return Empty;
}

/* ---- events of the current operation (main thread: the signals are emitted synchronously) ---- */
struct Event {
	int ty;
	int passed;
	bool clearedPending; /* pushed by the cleared-signal and not yet upgraded */
	std::vector<int> users;
};

struct UserW {
	User::Ptr user;
	TimePeriod::Ptr period;
	int attach;
};

struct World {
	bool isHost{false};
	Host::Ptr parent;      /* host of the service, or parent host of the host */
	Host::Ptr host;        /* the host (kind h) */
	Service::Ptr service;  /* the service (kind s) */
	Checkable::Ptr obj;
	Dependency::Ptr dep;
	Downtime::Ptr dt;
	Notification::Ptr notif;
	TimePeriod::Ptr period;
	UserGroup::Ptr group;
	std::vector<UserW> users;
	std::map<std::string, int> idByName;
};

static World l_W;
static std::vector<Event> l_Events;
static NotificationComponent::Ptr l_NC;
static long long l_Now = 100000;
static int l_CaseNo = 0;
static bool l_Debug = false;

static int UserId(const String& name)
{
	auto it = l_W.idByName.find(name.GetData());
	if (it == l_W.idByName.end())
		Die("unknown user name '" + std::string(name.GetData()) + "'");
	return it->second;
}

static void SetF(const ConfigObject::Ptr& o, const char *field, const Value& v)
{
	int id = o->GetReflectionType()->GetFieldId(field);
	if (id < 0)
		Die(std::string("no field ") + field);
	o->SetField(id, v);
}

static void SetPeriodOpen(const TimePeriod::Ptr& tp, bool open)
{
	ObjectLock olock(tp);
	if (open)
		tp->SetSegments(new Array({ new Dictionary({ { "begin", 0.0 }, { "end", 1e18 } }) }));
	else
		tp->SetSegments(new Array());
}

static TimePeriod::Ptr MakePeriod(const std::string& name)
{
	TimePeriod::Ptr tp = new TimePeriod();
	tp->SetName(name);
	tp->SetValidBegin(0.0);
	tp->SetValidEnd(1e18);
	SetPeriodOpen(tp, true);
	tp->Register();
	return tp;
}

static void CheckNoStray(const char *where)
{
	if (l_CmdCount.load() != 0)
		Die(std::string("STRAY command execution seen ") + where, 4);
}

static void RemoveDowntime()
{
	if (l_W.dt) {
		l_W.obj->UnregisterDowntime(l_W.dt);
		l_W.dt->Unregister();
		l_W.dt = nullptr;
	}
}

static void Teardown()
{
	if (!l_W.obj)
		return;
	CheckNoStray("at teardown");
	if (l_W.notif) {
		l_W.obj->UnregisterNotification(l_W.notif);
		l_W.notif->SetActive(false);
		l_W.notif->Unregister();
	}
	RemoveDowntime();
	if (l_W.dep) {
		l_W.dep->GetChild()->RemoveDependency(l_W.dep);
		l_W.dep->GetParent()->RemoveReverseDependency(l_W.dep);
		l_W.dep = nullptr;
	}
	for (auto& u : l_W.users) {
		if (l_W.group)
			l_W.group->RemoveMember(u.user);
		u.user->Unregister();
		if (u.period)
			u.period->Unregister();
	}
	if (l_W.group)
		l_W.group->Unregister();
	if (l_W.period)
		l_W.period->Unregister();
	l_W.obj->SetActive(false);
	if (l_W.service) {
		l_W.service->Unregister();
		l_W.parent->RemoveService(l_W.service);
	}
	if (l_W.host) {
		l_W.host->Unregister();
	}
	if (l_W.parent) {
		l_W.parent->SetActive(false);
		l_W.parent->Unregister();
	}
	l_W = World();
	l_Events.clear();
}

struct UserCfg { int attach, tf, sf, hasPeriod; };

struct CaseCfg {
	char kind;
	long long interval;
	bool hasBegin, hasEnd;
	long long tbegin, tend;
	int tf, sf, hasPeriod;
	std::vector<UserCfg> users;
};

static void Setup(const CaseCfg& c)
{
	Teardown();
	l_CaseNo++;
	l_Now += 1000000; /* far from any earlier case */
	SetNow((double)l_Now);
	IcingaApplication::GetInstance()->SetEnableNotifications(true);
	std::string sfx = std::to_string(l_CaseNo);
	l_W.isHost = c.kind == 'h';

	l_W.parent = new Host();
	l_W.parent->SetName("c03-p" + sfx);
	l_W.parent->SetStateRaw(ServiceOK);
	l_W.parent->SetStateType(StateTypeHard);
	l_W.parent->SetEnableActiveChecks(false);
	l_W.parent->SetActive(true);
	l_W.parent->Register();
	l_W.parent->SetAuthority(true);
	static_pointer_cast<ConfigObject>(l_W.parent)->OnAllConfigLoaded();

	if (l_W.isHost) {
		l_W.host = new Host();
		l_W.host->SetName("c03-h" + sfx);
		l_W.obj = l_W.host;
	} else {
		l_W.service = new Service();
		l_W.service->SetHostName(l_W.parent->GetName());
		l_W.service->SetName(l_W.parent->GetName() + "!svc");
		l_W.service->SetShortName("svc");
		l_W.obj = l_W.service;
	}
	l_W.obj->SetStateRaw(ServiceOK);
	l_W.obj->SetStateType(StateTypeHard);
	l_W.obj->SetLastHardStateChange((double)l_Now);
	l_W.obj->SetVolatile(false);
	l_W.obj->SetEnableFlapping(true);
	l_W.obj->SetEnableNotifications(true);
	l_W.obj->SetEnableActiveChecks(false);
	l_W.obj->SetForceNextNotification(false);
	l_W.obj->SetActive(true);
	l_W.obj->Register();
	l_W.obj->SetAuthority(true);
	static_pointer_cast<ConfigObject>(l_W.obj)->OnAllConfigLoaded();

	if (l_W.isHost) {
		l_W.dep = new Dependency();
		l_W.dep->SetParent(l_W.parent);
		l_W.dep->SetChild(l_W.obj);
		l_W.dep->SetName("c03-dep-" + sfx + "!" + l_W.obj->GetName());
		l_W.dep->SetStateFilter(StateFilterUp);
		l_W.dep->SetDisableNotifications(true);
		l_W.dep->SetRedundancyGroup("");
		/* the checkable is not Start()ed (that would register checkable timers): do the one thing Checkable::Start
		 * does for dependencies, else AddDependency only parks the dependency as "pending" and IsReachable ignores it */
		l_W.obj->PushDependencyGroupsToRegistry();
		l_W.obj->AddDependency(l_W.dep);
		l_W.parent->AddReverseDependency(l_W.dep);
	}

	if (c.hasPeriod)
		l_W.period = MakePeriod("c03-tp" + sfx + "-n");

	l_W.group = new UserGroup();
	l_W.group->SetName("c03-g" + sfx);
	l_W.group->Register();

	Array::Ptr userNames = new Array();
	bool anyGroup = false;
	for (size_t i = 0; i < c.users.size(); i++) {
		const UserCfg& uc = c.users[i];
		UserW uw;
		uw.attach = uc.attach;
		std::string uname = "c03-u" + sfx + "-" + std::to_string(i);
		std::string pname;
		if (uc.hasPeriod) {
			pname = "c03-tp" + sfx + "-u" + std::to_string(i);
			uw.period = MakePeriod(pname);
		}
		uw.user = new User();
		uw.user->SetName(uname);
		uw.user->SetEnableNotifications(true);
		uw.user->SetTypeFilter(uc.tf);
		uw.user->SetStateFilter(uc.sf);
		uw.user->SetPeriodRaw(pname);
		uw.user->Register();
		if (uc.attach & 1)
			userNames->Add(String(uname));
		if (uc.attach & 2) {
			l_W.group->ResolveGroupMembership(uw.user, true);
			anyGroup = true;
		}
		l_W.idByName[uname] = (int)i;
		l_W.users.push_back(uw);
	}

	Notification::Ptr n = new Notification();
	n->SetName(l_W.obj->GetName() + "!n");
	SetF(n, "host_name", l_W.isHost ? l_W.obj->GetName() : l_W.parent->GetName());
	if (!l_W.isHost)
		SetF(n, "service_name", String("svc"));
	SetF(n, "command", String(kCmdName));
	n->SetInterval((double)c.interval);
	n->SetPeriodRaw(l_W.period ? l_W.period->GetName() : String());
	n->SetUsersRaw(userNames);
	if (anyGroup)
		n->SetUserGroupsRaw(new Array({ l_W.group->GetName() }));
	if (c.hasBegin || c.hasEnd) {
		Dictionary::Ptr times = new Dictionary();
		if (c.hasBegin)
			times->Set("begin", (double)c.tbegin);
		if (c.hasEnd)
			times->Set("end", (double)c.tend);
		n->SetTimes(times);
	}
	n->SetTypeFilter(c.tf);
	n->SetStateFilter(c.sf);
	n->Register();
	static_pointer_cast<ConfigObject>(n)->OnAllConfigLoaded();
	n->SetActive(true);
	n->SetAuthority(true);
	if (n->GetCheckable() != l_W.obj)
		Die("notification did not resolve its checkable");
	l_W.notif = n;
	l_Events.clear();
}

/* ---- observation ---- */

static std::string JoinIds(std::vector<int> ids)
{
	if (ids.empty())
		return "_";
	std::sort(ids.begin(), ids.end());
	std::string s;
	for (size_t i = 0; i < ids.size(); i++) {
		if (i) s += "+";
		s += std::to_string(ids[i]);
	}
	return s;
}

static bool PeriodOpen(const TimePeriod::Ptr& tp)
{
	return !tp || tp->IsInside((double)l_Now);
}

struct Env { long long v[19]; };

static Env ReadEnv()
{
	Env e;
	Checkable::Ptr o = l_W.obj;
	int state = l_W.isHost ? (int)l_W.host->GetState() : (int)l_W.service->GetState();
	int i = 0;
	e.v[i++] = l_Now;
	e.v[i++] = state;
	e.v[i++] = o->GetStateType() == StateTypeHard ? 1 : 0;
	e.v[i++] = (long long)o->GetLastHardStateChange();
	e.v[i++] = o->GetVolatile() ? 1 : 0;
	e.v[i++] = o->IsReachable(DependencyNotification) ? 1 : 0;
	e.v[i++] = o->IsInDowntime() ? 1 : 0;
	e.v[i++] = o->IsAcknowledged() ? 1 : 0;
	e.v[i++] = o->IsFlapping() ? 1 : 0;
	e.v[i++] = (o->GetSuppressedNotifications() & NotificationProblem) ? 1 : 0;
	e.v[i++] = PeriodOpen(l_W.notif->GetPeriod()) ? 1 : 0;
	e.v[i++] = IcingaApplication::GetInstance()->GetEnableNotifications() ? 1 : 0;
	e.v[i++] = o->GetEnableNotifications() ? 1 : 0;
	e.v[i++] = l_W.notif->IsPaused() ? 1 : 0;
	e.v[i++] = (Endpoint::GetLocalEndpoint() && l_NC->GetEnableHA()) ? 1 : 0;
	e.v[i++] = o->IsLikelyToBeCheckedSoon() ? 1 : 0;
	e.v[i++] = o->NotificationReasonApplies(NotificationProblem) ? 1 : 0;
	e.v[i++] = o->NotificationReasonApplies(NotificationRecovery) ? 1 : 0;
	e.v[i++] = o->GetForceNextNotification() ? 1 : 0;
	return e;
}

static std::string UsersStr()
{
	/* the attached set as the real objects see it: users ∪ members of user_groups */
	std::set<User::Ptr> all = l_W.notif->GetUsers();
	for (const UserGroup::Ptr& ug : l_W.notif->GetUserGroups()) {
		std::set<User::Ptr> members = ug->GetMembers();
		all.insert(members.begin(), members.end());
	}
	std::vector<std::pair<int, User::Ptr>> byId;
	for (const User::Ptr& u : all)
		byId.emplace_back(UserId(u->GetName()), u);
	std::sort(byId.begin(), byId.end(), [](const std::pair<int, User::Ptr>& a, const std::pair<int, User::Ptr>& b) { return a.first < b.first; });
	if (byId.empty())
		return "-";
	std::string s;
	char buf[96];
	for (size_t i = 0; i < byId.size(); i++) {
		const User::Ptr& u = byId[i].second;
		snprintf(buf, sizeof buf, "%s%d:%d:%d:%d:%d", i ? "," : "", byId[i].first, u->GetEnableNotifications() ? 1 : 0,
			PeriodOpen(u->GetPeriod()) ? 1 : 0, (int)u->GetTypeFilter(), (int)u->GetStateFilter());
		s += buf;
	}
	return s;
}

static void BeginOp(const char *where)
{
	CheckNoStray(where);
	l_Events.clear();
}

static void FinishObserved(const std::string& opText, const Env& env, int fired, const std::string& users, bool isT, bool hadP)
{
	/* group 3: events */
	std::string ev;
	int expected = 0;
	bool sawProblem = false;
	for (size_t i = 0; i < l_Events.size(); i++) {
		const Event& e = l_Events[i];
		int reminder = 0;
		if (isT && e.ty == NotificationProblem) {
			reminder = (hadP && !sawProblem) ? 0 : 1;
			sawProblem = true;
		}
		if (e.passed)
			expected += (int)e.users.size();
		if (i) ev += ",";
		ev += std::to_string(e.ty) + ":" + std::to_string(reminder) + ":" + std::to_string(e.passed) + ":" + JoinIds(e.users);
	}
	if (l_Events.empty())
		ev = "-";

	/* group 4: wait for the thread pool to run the commands */
	if (l_CmdCount.load() != expected) {
		auto t0 = std::chrono::steady_clock::now();
		while (l_CmdCount.load() != expected) {
			std::this_thread::yield();
			if (std::chrono::steady_clock::now() - t0 > std::chrono::seconds(5)) {
				fflush(stdout);
				fprintf(stderr, "TIMEOUT (case %d, op '%s': %d command executions, %d announced)\n", l_CaseNo, opText.c_str(), l_CmdCount.load(), expected);
				_exit(3);
			}
		}
	}
	std::vector<std::pair<int, int>> cmds;
	{
		std::unique_lock<std::mutex> lock(l_CmdMutex);
		for (auto& c : l_Cmds)
			cmds.emplace_back(c.first, UserId(String(c.second)));
		l_Cmds.clear();
		l_CmdCount.store(0);
	}
	std::sort(cmds.begin(), cmds.end());
	std::string cs;
	for (size_t i = 0; i < cmds.size(); i++) {
		if (i) cs += ",";
		cs += std::to_string(cmds[i].first) + ":" + std::to_string(cmds[i].second);
	}
	if (cmds.empty())
		cs = "-";

	/* group 5: attributes of the notification object */
	std::vector<int> npu;
	{
		Array::Ptr a = l_W.notif->GetNotifiedProblemUsers();
		ObjectLock olock(a);
		for (const Value& v : a)
			npu.push_back(UserId(v));
	}
	std::vector<std::pair<int, int>> lns;
	{
		Dictionary::Ptr d = l_W.notif->GetLastNotifiedStatePerUser();
		ObjectLock olock(d);
		for (const Dictionary::Pair& kv : d)
			lns.emplace_back(UserId(kv.first), (int)(double)kv.second);
	}
	std::sort(lns.begin(), lns.end());
	std::string ls;
	for (size_t i = 0; i < lns.size(); i++) {
		if (i) ls += "+";
		ls += std::to_string(lns[i].first) + "=" + std::to_string(lns[i].second);
	}
	if (lns.empty())
		ls = "_";

	std::string envs;
	for (int i = 0; i < 19; i++) {
		envs += std::to_string(env.v[i]);
		envs += " ";
	}
	envs += std::to_string(fired);

	printf("%s | %s ; %s ; %s ; %s ; %s %s %lld %d %d %d\n", opText.c_str(), envs.c_str(), users.c_str(), ev.c_str(), cs.c_str(),
		JoinIds(npu).c_str(), ls.c_str(), (long long)l_W.notif->GetNextNotification(), l_W.notif->GetNoMoreNotifications() ? 1 : 0,
		(int)l_W.notif->GetNotificationNumber(), (int)l_W.notif->GetSuppressedNotifications());
	l_Events.clear();
}

static void OpNotify(int type, long long dt)
{
	l_Now += dt;
	SetNow((double)l_Now);
	BeginOp("before N");
	Env env = ReadEnv();
	std::string users = UsersStr();
	Checkable::OnNotificationsRequested(l_W.obj, (NotificationType)type, l_W.obj->GetLastCheckResult(), "a", "t", nullptr);
	char op[64];
	snprintf(op, sizeof op, "N %d %lld", type, dt);
	FinishObserved(op, env, 1, users, false, false);
}

static void OpTick(long long dt, int direct)
{
	l_Now += dt;
	SetNow((double)l_Now);
	BeginOp("before T");
	Env env = ReadEnv();
	std::string users = UsersStr();
	bool hadP = (l_W.notif->GetSuppressedNotifications() & NotificationProblem) != 0;
	int fired = 1;
	if (direct) {
		(l_NC.get()->*get(NthTag()))();
	} else {
		int n = Timer::VerifFireDue((double)l_Now);
		if (l_Debug)
			fprintf(stderr, "debug: VerifFireDue(%lld) = %d\n", l_Now, n);
		fired = n > 0 ? 1 : 0;
	}
	char op[64];
	snprintf(op, sizeof op, "T %lld %d", dt, direct);
	FinishObserved(op, env, fired, users, true, hadP);
}

static void OpState(int state, int hard, int setlhsc)
{
	l_W.obj->SetStateRaw((ServiceState)state);
	l_W.obj->SetStateType(hard ? StateTypeHard : StateTypeSoft);
	if (setlhsc)
		l_W.obj->SetLastHardStateChange((double)l_Now);
	l_W.obj->SetLastCheckResult(MakeCr((ServiceState)state, (double)l_Now, (double)l_Now, true));
}

static void OpDowntime(int on)
{
	if (on) {
		if (l_W.dt)
			return;
		Downtime::Ptr d = new Downtime();
		if (l_W.isHost) {
			d->SetHostName(l_W.obj->GetName());
		} else {
			d->SetHostName(l_W.parent->GetName());
			d->SetServiceName("svc");
		}
		d->SetName(l_W.obj->GetName() + "!dt");
		d->SetFixed(true);
		d->SetStartTime((double)l_Now - 3600);
		d->SetEndTime((double)l_Now + 100000000.0);
		l_W.obj->RegisterDowntime(d);
		d->Register();
		d->OnAllConfigLoaded();
		d->TriggerDowntime((double)l_Now);
		l_W.dt = d;
	} else {
		RemoveDowntime();
	}
}

static void OpReachable(int reachable)
{
	/* parent = the service's own host, or the host's parent through the Dependency */
	ServiceState st = reachable ? ServiceOK : ServiceCritical;
	l_W.parent->SetStateRaw(st);
	l_W.parent->SetStateType(StateTypeHard);
	l_W.parent->SetLastCheckResult(MakeCr(st, (double)l_Now, (double)l_Now, true));
}

static std::vector<std::string> Tokens(const char *line)
{
	std::vector<std::string> w;
	const char *p = line;
	while (*p) {
		while (*p == ' ' || *p == '\t' || *p == '\n' || *p == '\r') p++;
		if (!*p || *p == '|')
			break;
		const char *q = p;
		while (*q && *q != ' ' && *q != '\t' && *q != '\n' && *q != '\r') q++;
		w.emplace_back(p, q - p);
		p = q;
	}
	return w;
}

static bool ParseLL(const std::string& s, long long& out)
{
	if (s.empty())
		return false;
	char *end = nullptr;
	out = strtoll(s.c_str(), &end, 10);
	return end && *end == 0;
}

static bool ExecLine(const char *line)
{
	std::vector<std::string> w = Tokens(line);
	if (w.empty())
		return false;
	const std::string& k = w[0];
	if (k.size() != 1)
		return false;

	std::string echo;
	for (size_t i = 0; i < w.size(); i++) {
		if (i) echo += " ";
		echo += w[i];
	}

	if (k == "C") {
		if (w.size() < 9)
			return false;
		CaseCfg c;
		long long v;
		if (w[1] != "h" && w[1] != "s") return false;
		c.kind = w[1][0];
		if (!ParseLL(w[2], c.interval)) return false;
		c.hasBegin = w[3] != "-";
		c.hasEnd = w[4] != "-";
		c.tbegin = c.tend = 0;
		if (c.hasBegin && !ParseLL(w[3], c.tbegin)) return false;
		if (c.hasEnd && !ParseLL(w[4], c.tend)) return false;
		if (!ParseLL(w[5], v)) return false; c.tf = (int)v;
		if (!ParseLL(w[6], v)) return false; c.sf = (int)v;
		if (!ParseLL(w[7], v)) return false; c.hasPeriod = v != 0;
		long long nu;
		if (!ParseLL(w[8], nu) || nu < 0 || nu > 16) return false;
		if (w.size() != 9 + 4 * (size_t)nu) return false;
		for (long long i = 0; i < nu; i++) {
			long long a, t, s, p;
			if (!ParseLL(w[9 + 4 * i], a) || !ParseLL(w[10 + 4 * i], t) || !ParseLL(w[11 + 4 * i], s) || !ParseLL(w[12 + 4 * i], p))
				return false;
			c.users.push_back(UserCfg{ (int)a, (int)t, (int)s, p != 0 });
		}
		Setup(c);
		printf("%s\n", echo.c_str());
		return true;
	}

	if (!l_W.obj)
		return false;

	long long a = 0, b = 0, c = 0;
	auto need = [&](size_t n) { return w.size() == n + 1; };

	if (k == "N") {
		if (!need(2) || !ParseLL(w[1], a) || !ParseLL(w[2], b) || b < 0) return false;
		OpNotify((int)a, b);
		return true;
	}
	if (k == "T") {
		if (!need(2) || !ParseLL(w[1], a) || !ParseLL(w[2], b) || a < 0) return false;
		OpTick(a, b != 0);
		return true;
	}

	/* environment operations */
	BeginOp("before an environment operation");
	if (k == "S") {
		if (!need(3) || !ParseLL(w[1], a) || !ParseLL(w[2], b) || !ParseLL(w[3], c) || a < 0 || a > 3) return false;
		OpState((int)a, b != 0, c != 0);
	} else if (k == "F") {
		if (!need(0)) return false;
		l_W.obj->SetForceNextNotification(true);
	} else if (k == "W") {
		if (!need(2) || !ParseLL(w[2], b)) return false;
		if (w[1] == "n") {
			if (l_W.period)
				SetPeriodOpen(l_W.period, b != 0);
		} else {
			if (!ParseLL(w[1], a)) return false;
			if (a >= 0 && (size_t)a < l_W.users.size() && l_W.users[a].period)
				SetPeriodOpen(l_W.users[a].period, b != 0);
		}
	} else if (k == "U") {
		if (!need(2) || !ParseLL(w[1], a) || !ParseLL(w[2], b)) return false;
		if (a >= 0 && (size_t)a < l_W.users.size())
			l_W.users[a].user->SetEnableNotifications(b != 0);
	} else {
		if (!need(1) || !ParseLL(w[1], a)) return false;
		bool on = a != 0;
		switch (k[0]) {
			case 'V': l_W.obj->SetVolatile(on); break;
			case 'D': OpDowntime(on); break;
			case 'A': l_W.obj->SetAcknowledgementRaw(on ? AcknowledgementNormal : AcknowledgementNone); break;
			case 'L': SetF(l_W.obj, "flapping", on); break;
			case 'R': OpReachable(on); break;
			case 'K': l_W.obj->SetSuppressedNotifications(on ? NotificationProblem : 0); break;
			case 'G': IcingaApplication::GetInstance()->SetEnableNotifications(on); break;
			case 'E': l_W.obj->SetEnableNotifications(on); break;
			case 'P': l_W.notif->SetAuthority(on); break;
			case 'Y':
				if (on) {
					l_W.obj->SetEnableActiveChecks(true);
					l_W.obj->SetNextCheck((double)l_Now);
				} else {
					l_W.obj->SetEnableActiveChecks(false);
				}
				break;
			default:
				return false;
		}
	}
	if (!l_Events.empty())
		Die("environment operation '" + echo + "' emitted a notification event", 4);
	/* self-check: the operation had the effect on the real objects that the protocol promises */
	{
		bool ok = true;
		bool on = w.size() >= 2 && w[1] != "0";
		switch (k[0]) {
			case 'D': ok = l_W.obj->IsInDowntime() == on; break;
			case 'A': ok = l_W.obj->IsAcknowledged() == on; break;
			case 'L': ok = l_W.obj->IsFlapping() == on; break;
			case 'R': ok = l_W.obj->IsReachable(DependencyNotification) == on; break;
			case 'Y': ok = l_W.obj->IsLikelyToBeCheckedSoon() == on; break;
			case 'P': ok = l_W.notif->IsPaused() == !on; break;
			case 'W':
				if (w[1] == "n" && l_W.period)
					ok = l_W.period->IsInside((double)l_Now) == (w[2] != "0");
				break;
			default: break;
		}
		if (!ok)
			Die("environment operation '" + echo + "' did not have its effect on the real objects", 4);
	}
	printf("%s |\n", echo.c_str());
	return true;
}

/* ---- generator ---- */

static const char *const kAlphabet[] = {
	"N 32 0", "N 64 0", "N 16 0", "T 60 1", "T 1 1", "S 2 1 1", "S 0 1 1", "W n 0", "W n 1", "U 1 0", "U 1 1", "F"
};
static const int kAlphabetN = sizeof(kAlphabet) / sizeof(kAlphabet[0]);

struct GenState {
	char kind;
	int nusers;
	int curState;
	int nOpen;       /* what the generator last set: notification period open */
	int uOpen[4];    /* user periods */
	int uEnabled[4]; /* user enable_notifications */
};

static int FlipBiased(Rng& rng, int& cur)
{
	/* toggles without an inherently bad value: flip the current setting 75% of the time, so that a closed
	 * period / disabled user is usually reverted by the next such op */
	int v = rng.below(100) < 75 ? !cur : cur;
	cur = v;
	return v;
}

static void RandomStateOp(Rng& rng, GenState& g, char *buf, size_t n)
{
	int st = g.kind == 'h' ? (rng.below(2) ? 2 : 0) : (int)rng.below(4);
	int hard = rng.below(100) < 85 ? 1 : 0;
	int rnd = rng.below(10) == 0 ? 1 : 0;
	int setlhsc = (hard && (st != g.curState || rnd)) ? 1 : 0;
	g.curState = st;
	snprintf(buf, n, "S %d %d %d", st, hard, setlhsc);
}

static int RevertBiased(Rng& rng, int badValue)
{
	/* pick the reverting (good) value 60% of the time */
	return rng.below(100) < 60 ? !badValue : badValue;
}

static void RandomOp(Rng& rng, GenState& g, char *buf, size_t n)
{
	int k = (int)rng.below(100);
	if (k < 35) {
		int r = (int)rng.below(100);
		int type;
		if (r < 35) type = 32;
		else if (r < 55) type = 64;
		else if (r < 67) type = 16;
		else { static const int others[] = {1, 2, 4, 8, 128, 256}; type = others[rng.below(6)]; }
		static const int dts[] = {0, 0, 1, 5, 10, 60, 61, 300};
		snprintf(buf, n, "N %d %d", type, dts[rng.below(8)]);
	} else if (k < 60) {
		static const int dts[] = {0, 1, 5, 6, 59, 60, 61, 300, 2000};
		int dt = dts[rng.below(9)];
		snprintf(buf, n, "T %d %d", dt, rng.below(10) < 7 ? 1 : 0);
	} else if (k < 72) {
		RandomStateOp(rng, g, buf, n);
	} else if (k < 79) {
		if (rng.coin()) {
			snprintf(buf, n, "W n %d", FlipBiased(rng, g.nOpen));
		} else {
			int i = (int)rng.below(g.nusers);
			snprintf(buf, n, "W %d %d", i, FlipBiased(rng, g.uOpen[i]));
		}
	} else if (k < 84) {
		int i = (int)rng.below(g.nusers);
		snprintf(buf, n, "U %d %d", i, FlipBiased(rng, g.uEnabled[i]));
	} else if (k < 87) {
		snprintf(buf, n, "F");
	} else if (k < 95) {
		static const char ops[] = {'D', 'A', 'L', 'R', 'K'};
		static const int bad[] = {1, 1, 1, 0, 1};
		int i = (int)rng.below(5);
		snprintf(buf, n, "%c %d", ops[i], RevertBiased(rng, bad[i]));
	} else {
		static const char ops[] = {'V', 'G', 'E', 'P', 'Y'};
		static const int bad[] = {-1, 0, 0, 0, 1};
		int i = (int)rng.below(5);
		int v = bad[i] < 0 ? (int)rng.below(2) : RevertBiased(rng, bad[i]);
		snprintf(buf, n, "%c %d", ops[i], v);
	}
}

static std::string RandomHeader(Rng& rng, GenState& g)
{
	static const int intervals[] = {0, 0, 1, 60, 60, 300};
	static const char *const begins[] = {"-", "-", "-", "0", "5", "60"};
	static const char *const ends[] = {"-", "-", "-", "0", "30", "600"};
	g.kind = rng.coin() ? 'h' : 's';
	g.curState = 0;
	g.nOpen = 1;
	for (int i = 0; i < 4; i++) { g.uOpen[i] = 1; g.uEnabled[i] = 1; }
	int interval = intervals[rng.below(6)];
	const char *tb = begins[rng.below(6)];
	const char *te = ends[rng.below(6)];
	int tf;
	if (rng.coin()) tf = 511;
	else { tf = (int)rng.below(512); if (rng.coin()) tf |= 32; }
	int sf = rng.coin() ? 63 : (int)rng.below(64);
	int hasPeriod = rng.coin() ? 1 : 0;
	g.nusers = 1 + (int)rng.below(4);
	std::ostringstream s;
	s << "C " << g.kind << " " << interval << " " << tb << " " << te << " " << tf << " " << sf << " " << hasPeriod << " " << g.nusers;
	for (int i = 0; i < g.nusers; i++) {
		static const int attaches[] = {1, 1, 2, 3};
		int attach = rng.below(10) == 0 ? 0 : attaches[rng.below(4)];
		int utf = rng.below(100) < 40 ? 511 : (int)rng.below(512);
		int usf = rng.coin() ? 63 : (int)rng.below(64);
		int up = rng.below(100) < 30 ? 1 : 0;
		s << " " << attach << " " << utf << " " << usf << " " << up;
	}
	return s.str();
}

static void Must(const char *line)
{
	if (!ExecLine(line))
		Die(std::string("generator produced a bad line: ") + line);
}

int main(int argc, char **argv)
{
	if (argc < 2) { fprintf(stderr, "usage: h_c03 gen --seed S --tier quick|thorough | ops FILE\n"); return 2; }
	l_Debug = getenv("C03_DEBUG") != nullptr;
	static char outbuf[1 << 20];
	setvbuf(stdout, outbuf, _IOFBF, sizeof outbuf);

	InitIcinga();
	SetNow((double)l_Now);
	/* without this Checkable::SendNotifications stashes everything as "cold startup" */
	ApiListener::UpdateObjectAuthority();

	NotificationCommand::Ptr cmd = new NotificationCommand();
	cmd->SetName(kCmdName);
	cmd->SetExecute(new Function("C03Execute", CmdExecute, { "notification", "user", "cr", "itype", "author", "comment", "resolvedMacros", "useResolvedMacros" }));
	cmd->Register();

	/* signals: events of the current case's notification, in emission order */
	Notification::OnLastNotifiedStatePerUserCleared.connect([](const Notification::Ptr& n, const MessageOrigin::Ptr&) {
		if (n != l_W.notif)
			return;
		l_Events.push_back(Event{ NotificationRecovery, 0, true, {} });
	});
	Checkable::OnNotificationSentToAllUsers.connect([](const Notification::Ptr& n, const Checkable::Ptr&, const std::set<User::Ptr>& users,
		const NotificationType& type, const CheckResult::Ptr&, const String&, const String&, const MessageOrigin::Ptr&) {
		if (n != l_W.notif)
			return;
		std::vector<int> ids;
		for (const User::Ptr& u : users)
			ids.push_back(UserId(u->GetName()));
		std::sort(ids.begin(), ids.end());
		if (type == NotificationRecovery && !l_Events.empty() && l_Events.back().clearedPending) {
			Event& e = l_Events.back();
			e.passed = 1;
			e.clearedPending = false;
			e.users = ids;
		} else {
			l_Events.push_back(Event{ (int)type, 1, false, ids });
		}
	});

	/* the real component: its Start() connects OnNotificationsRequested -> SendNotifications and creates the 5 s timer */
	l_NC = new NotificationComponent();
	l_NC->SetName("c03-nc");
	l_NC->Register();
	l_NC->PreActivate();
	l_NC->Activate();
	l_NC->SetAuthority(true);

	std::string mode = argv[1];
	if (mode == "gen") {
		uint64_t seed = strtoull(argOr(argc, argv, "--seed", "1"), nullptr, 10);
		bool thorough = std::string(argOr(argc, argv, "--tier", "quick")) == "thorough";
		/* (a) exhaustive part */
		int L = thorough ? 5 : 4;
		long total = 1;
		for (int i = 0; i < L; i++) total *= kAlphabetN;
		for (int kind = 0; kind < 2; kind++)
		for (int iv = 0; iv < 2; iv++)
		for (long code = 0; code < total; code++) {
			char hdr[128];
			snprintf(hdr, sizeof hdr, "C %c %d - - 511 63 1 2 1 511 63 0 1 %d 63 1", kind ? 'h' : 's', iv ? 60 : 0, kind ? 511 : 80);
			Must(hdr);
			Must("S 2 1 1");
			long c = code;
			for (int i = 0; i < L; i++) { Must(kAlphabet[c % kAlphabetN]); c /= kAlphabetN; }
			Must("W n 1");
			Must("T 60 1");
			Must("N 64 0");
			Must("N 16 0");
		}
		/* (b) random part */
		Rng rng(seed);
		int n = thorough ? 100000 : 10000;
		int maxLen = thorough ? 60 : 30;
		for (int i = 0; i < n; i++) {
			GenState g;
			std::string hdr = RandomHeader(rng, g);
			Must(hdr.c_str());
			int len = 1 + (int)rng.below(maxLen);
			for (int j = 0; j < len; j++) {
				char buf[64];
				/* half of the cases start with a state change, else most short cases never leave OK/Up */
				if (j == 0 && rng.coin())
					RandomStateOp(rng, g, buf, sizeof buf);
				else
					RandomOp(rng, g, buf, sizeof buf);
				Must(buf);
			}
		}
		Teardown();
	} else if (mode == "ops") {
		if (argc < 3) return 2;
		FILE *f = fopen(argv[2], "r");
		if (!f) { perror("open"); return 2; }
		char line[1024];
		while (fgets(line, sizeof line, f)) {
			if (line[0] == '\n' || line[0] == '#') continue;
			if (!ExecLine(line)) { fflush(stdout); fprintf(stderr, "bad line: %s", line); _exit(2); }
		}
		fclose(f);
		Teardown();
	} else {
		return 2;
	}
	fflush(stdout);
	_exit(0);
}

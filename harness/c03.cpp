/* C03 harness: who gets which notification when.
 * Drives the real Notification::BeginExecuteNotification through the real entry points
 *   - Checkable::OnNotificationsRequested -> started NotificationComponent -> Checkable::SendNotifications
 *   - NotificationComponent::NotificationTimerHandler (directly, or through its registered 5 s timer via the pump)
 * on a real Host/Service with real Users, a UserGroup, TimePeriods, a Dependency, a Downtime and a
 * NotificationCommand whose `execute` is a native Function that records the deliveries, under a virtual clock.
 *
 * The line protocol is specified in corpus/C03/PROTOCOL.txt (lean/Driver/C03.lean parses it):
 *   C <kind h|s> <interval> <tbegin|-> <tend|-> <typeFilter> <stateFilter> <hasPeriod> <nusers> {<attach> <utf> <usf> <uhasPeriod>}*
 *   S/V/D/A/L/R/K/G/E/P/Y/W/U/F ...   environment operations, echoed as "<op> |"
 *   O <interval> <tbegin|-> <tend|-> <typeFilter> <stateFilter> <hasPeriod> {<attach>}*   further notification object (right after C)
 *   N <typebit> <dt> | <21 env ints> ; <users> ; <events> ; <cmds> ; <npu> <lns> <next> <noMore> <number> <sup> <stash>
 *   T <dt> <direct>  | (same observation)
 *   X <state> <dt> / Z <dt>   real ProcessCheckResult / FireSuppressedNotifications; each request the code raises prints "q <typebit> | obs"
 *   "+ <k> | obs" = the preceding operation as seen by notification object k; "z | numbers" = notification_number resync
 */
#include "common.hpp"
#include "base/function.hpp"
#include "icinga/dependency.hpp"
#include "icinga/downtime.hpp"
#include "icinga/notification.hpp"
#include "icinga/notificationcommand.hpp"
#include "icinga/timeperiod.hpp"
#include "icinga/user.hpp"
#include "icinga/usergroup.hpp"
#include "notification/notificationcomponent.hpp"
#include "remote/apilistener.hpp"
#include "remote/endpoint.hpp"
#include <algorithm>
#include <atomic>
#include <chrono>
#include <map>
#include <mutex>
#include <set>
#include <thread>

using namespace icinga;
using namespace vh;

namespace vh {
typedef void NthFn();
VH_ROB_MEMBER(NthTag, NotificationComponent, NthFn, NotificationTimerHandler)
VH_ROB_MEMBER(NtTag, NotificationComponent, Timer::Ptr, m_NotificationTimer)
/* ApiListener::m_UpdatedObjectAuthority: false during the cold-start phase, in which requests are stashed.  The member's
 * type is deduced (any bool-assignable flag type will do), so only its name ties the harness to it. */
template<typename Tag, auto M>
struct RobAuto {
	friend auto get(Tag) { return M; }
};
struct UoaTag { friend auto get(UoaTag); };
template struct RobAuto<UoaTag, &ApiListener::m_UpdatedObjectAuthority>;
static inline void SetAuthorityUpdated(bool v) { *get(UoaTag()) = v; }

/* ApiListener::m_Instance (static) and m_LocalEndpoint: a local endpoint makes NotificationTimerHandler skip paused objects when
 * enable_ha is set (the HA cluster case).  Static-initialiser idiom of harness/c20.cpp. */
struct ApiInstTag { typedef ApiListener::Ptr *type; };
struct ApiLocalEpTag { typedef Endpoint::Ptr ApiListener::*type; };
template<typename Tag> struct Stash { static typename Tag::type value; };
template<typename Tag> typename Tag::type Stash<Tag>::value;
template<typename Tag, typename Tag::type M> struct RobFill { RobFill() { Stash<Tag>::value = M; } static RobFill inst; };
template<typename Tag, typename Tag::type M> RobFill<Tag, M> RobFill<Tag, M>::inst;
template struct RobFill<ApiInstTag, &ApiListener::m_Instance>;
template struct RobFill<ApiLocalEpTag, &ApiListener::m_LocalEndpoint>;
}

static const char *const kCmdName = "c03-cmd";

static void Die(const std::string& msg, int code = 2)
{
	fflush(stdout);
	fprintf(stderr, "h_c03: %s\n", msg.c_str());
	_exit(code);
}

/* ---- recorded command executions (thread pool threads) ---- */
static std::mutex l_CmdMutex;
struct CmdRec { int type; std::string user; std::string notif; };
static std::vector<CmdRec> l_Cmds;
static std::atomic<int> l_CmdCount{0};

static Value CmdExecute(const std::vector<Value>& args)
{
	/* {notification, user, cr, type, author, comment, resolvedMacros, useResolvedMacros} */
	int type = -1;
	std::string name = "?", nname = "?";
	if (args.size() >= 4) {
		Notification::Ptr nobj = args[0];
		if (nobj)
			nname = nobj->GetName().GetData();
		User::Ptr user = args[1];
		type = (int)(double)args[3];
		if (user)
			name = user->GetName().GetData();
	}
	{
		std::unique_lock<std::mutex> lock(l_CmdMutex);
		l_Cmds.push_back(CmdRec{ type, name, nname });
	}
	l_CmdCount.fetch_add(1);
	return Empty;
}

/* ---- events of the current operation (main thread: the signals are emitted synchronously) ---- */
struct Event {
	int ty;
	int passed;
	bool clearedPending; /* pushed by the cleared-signal and not yet upgraded */
	std::vector<int> users;
	int force;           /* from the text the harness attached to the request ("n:<f>" / "s:<f>"), -1 = no label */
};

struct UserW {
	User::Ptr user;
	TimePeriod::Ptr period;
	int tf, sf;   /* the filters as configured (the case line): what the model and the specification are given */
};

struct EnvV { long long v[20]; };

/* one notification object of the checkable, with its own period, its own two user groups and its own observation */
struct NotifW {
	Notification::Ptr notif;
	TimePeriod::Ptr period;
	UserGroup::Ptr group[2];
	std::vector<Event> events;
	EnvV env;
	std::string users;
	bool hadP{false};
};

struct World {
	bool isHost{false};
	Host::Ptr parent;      /* host of the service, or parent host of the host */
	Host::Ptr host;        /* the host (kind h) */
	Service::Ptr service;  /* the service (kind s) */
	Checkable::Ptr obj;
	Dependency::Ptr dep;
	Downtime::Ptr dt;
	std::vector<NotifW> ns;
	std::vector<UserW> users;
	std::map<std::string, int> idByName;
	std::map<std::string, int> notifByName;
};

static World l_W;
static bool l_Detached = false;     /* H 0: the notification objects are not registered with the checkable (and inactive) */
static int l_ForceBefore = 0;       /* force_next_notification before the running request (detached requests print it) */
static bool l_HA = false;           /* J 1: during timer runs a local Endpoint exists (ApiListener instance, never activated) */
static ApiListener::Ptr l_Api;
static bool l_InX = false;          /* inside an X / Z operation: requests print "q" lines */
static std::string l_NText;         /* text of the running N operation */
static NotificationComponent::Ptr l_NC;
static long long l_Now = 100000;
static int l_CaseNo = 0;
static bool l_Debug = false;

static int UserId(const String& name)
{
	auto it = l_W.idByName.find(name.GetData());
	if (it == l_W.idByName.end())
		Die("unknown user name '" + std::string(name.GetData()) + "'");
	return it->second;
}

static void SetF(const ConfigObject::Ptr& o, const char *field, const Value& v)
{
	int id = o->GetReflectionType()->GetFieldId(field);
	if (id < 0)
		Die(std::string("no field ") + field);
	o->SetField(id, v);
}

static void SetPeriodOpen(const TimePeriod::Ptr& tp, bool open)
{
	ObjectLock olock(tp);
	if (open)
		tp->SetSegments(new Array({ new Dictionary({ { "begin", 0.0 }, { "end", 1e18 } }) }));
	else
		tp->SetSegments(new Array());
}

/* Filters the way the configuration gives them: `types` / `states` arrays resolved by OnConfigLoaded through FilterArrayToInt and
 * the name maps of Notification::StaticInitialize (notification.cpp:64-108, user.cpp:14-20).  The representation is a function of the
 * configured values (deterministic on replay): 0 = the integer attributes set directly, 1 = names (no array at all for "everything":
 * the default ~0), 2 = names and numeric bits mixed. */
static const char *const kTypeNames[] = { "DowntimeStart", "DowntimeEnd", "DowntimeRemoved", "Custom", "Acknowledgement", "Problem", "Recovery", "FlappingStart", "FlappingEnd" };
static const char *const kStateNames[] = { "OK", "Warning", "Critical", "Unknown", "Up", "Down" };

static Array::Ptr FilterArray(int mask, const char *const *names, int n, int mode)
{
	if (mode == 1 && mask == (1 << n) - 1)
		return nullptr;
	Array::Ptr a = new Array();
	for (int i = 0; i < n; i++) {
		if (!(mask & (1 << i)))
			continue;
		if (mode == 2 && (i & 1))
			a->Add((double)(1 << i));
		else
			a->Add(String(names[i]));
	}
	return a;
}

template<typename T>
static void ConfigureFilters(const T& obj, int tf, int sf, long long salt)
{
	int mode = (int)(((long long)tf + sf + salt) % 3);
	if (mode == 0 || tf < 0 || tf > 511 || sf < 0 || sf > 63) {
		obj->SetTypeFilter(tf);
		obj->SetStateFilter(sf);
		return;
	}
	obj->SetTypes(FilterArray(tf, kTypeNames, 9, mode));
	obj->SetStates(FilterArray(sf, kStateNames, 6, mode));
	static_pointer_cast<ConfigObject>(obj)->OnConfigLoaded();
}

static TimePeriod::Ptr MakePeriod(const std::string& name)
{
	TimePeriod::Ptr tp = new TimePeriod();
	tp->SetName(name);
	tp->SetValidBegin(0.0);
	tp->SetValidEnd(1e18);
	SetPeriodOpen(tp, true);
	tp->Register();
	return tp;
}

static void CheckNoStray(const char *where)
{
	if (l_CmdCount.load() != 0)
		Die(std::string("STRAY command execution seen ") + where, 4);
}

static void RemoveDowntime()
{
	if (l_W.dt) {
		l_W.obj->UnregisterDowntime(l_W.dt);
		l_W.dt->Unregister();
		l_W.dt = nullptr;
	}
}

static void Teardown()
{
	if (!l_W.obj)
		return;
	CheckNoStray("at teardown");
	for (auto& nw : l_W.ns) {
		l_W.obj->UnregisterNotification(nw.notif);
		nw.notif->SetActive(false);
		nw.notif->Unregister();
	}
	RemoveDowntime();
	if (l_W.dep) {
		l_W.dep->GetChild()->RemoveDependency(l_W.dep);
		l_W.dep->GetParent()->RemoveReverseDependency(l_W.dep);
		l_W.dep = nullptr;
	}
	for (auto& u : l_W.users) {
		for (auto& nw : l_W.ns)
			for (int gi = 0; gi < 2; gi++)
				nw.group[gi]->RemoveMember(u.user);
		u.user->Unregister();
		if (u.period)
			u.period->Unregister();
	}
	for (auto& nw : l_W.ns) {
		for (int gi = 0; gi < 2; gi++)
			nw.group[gi]->Unregister();
		if (nw.period)
			nw.period->Unregister();
	}
	l_W.obj->SetActive(false);
	if (l_W.service) {
		l_W.service->Unregister();
		l_W.parent->RemoveService(l_W.service);
	}
	if (l_W.host) {
		l_W.host->Unregister();
	}
	if (l_W.parent) {
		l_W.parent->SetActive(false);
		l_W.parent->Unregister();
	}
	l_W = World();
}

struct UserCfg { int tf, sf, hasPeriod; };

/* one notification object: attach per user: bit 0 = in `users`, bit 1 = member of the object's group a, bit 2 = of its group b */
struct NotifCfg {
	long long interval;
	bool hasBegin, hasEnd;
	long long tbegin, tend;
	int tf, sf, hasPeriod;
	std::vector<int> attach;
};

struct CaseCfg {
	char kind;
	NotifCfg n0;
	std::vector<UserCfg> users;
};

static void AddNotification(const NotifCfg& c);

static void Setup(const CaseCfg& c)
{
	Teardown();
	l_CaseNo++;
	l_Now += 1000000; /* far from any earlier case */
	SetNow((double)l_Now);
	IcingaApplication::GetInstance()->SetEnableNotifications(true);
	SetAuthorityUpdated(true);
	l_Detached = false;
	l_HA = false;
	std::string sfx = std::to_string(l_CaseNo);
	l_W.isHost = c.kind == 'h';

	l_W.parent = new Host();
	l_W.parent->SetName("c03-p" + sfx);
	l_W.parent->SetStateRaw(ServiceOK);
	l_W.parent->SetStateType(StateTypeHard);
	l_W.parent->SetEnableActiveChecks(false);
	l_W.parent->SetActive(true);
	l_W.parent->Register();
	l_W.parent->SetAuthority(true);
	static_pointer_cast<ConfigObject>(l_W.parent)->OnAllConfigLoaded();

	if (l_W.isHost) {
		l_W.host = new Host();
		l_W.host->SetName("c03-h" + sfx);
		l_W.obj = l_W.host;
	} else {
		l_W.service = new Service();
		l_W.service->SetHostName(l_W.parent->GetName());
		l_W.service->SetName(l_W.parent->GetName() + "!svc");
		l_W.service->SetShortName("svc");
		l_W.obj = l_W.service;
	}
	l_W.obj->SetStateRaw(ServiceOK);
	l_W.obj->SetStateType(StateTypeHard);
	l_W.obj->SetLastHardStateChange((double)l_Now);
	l_W.obj->SetVolatile(false);
	l_W.obj->SetEnableFlapping(true);
	l_W.obj->SetEnableNotifications(true);
	l_W.obj->SetEnableActiveChecks(false);
	l_W.obj->SetForceNextNotification(false);
	l_W.obj->SetActive(true);
	l_W.obj->Register();
	l_W.obj->SetAuthority(true);
	static_pointer_cast<ConfigObject>(l_W.obj)->OnAllConfigLoaded();

	if (l_W.isHost) {
		l_W.dep = new Dependency();
		l_W.dep->SetParent(l_W.parent);
		l_W.dep->SetChild(l_W.obj);
		l_W.dep->SetName("c03-dep-" + sfx + "!" + l_W.obj->GetName());
		l_W.dep->SetStateFilter(StateFilterUp);
		l_W.dep->SetDisableNotifications(true);
		l_W.dep->SetRedundancyGroup("");
		/* the checkable is not Start()ed (that would register checkable timers): do the one thing Checkable::Start
		 * does for dependencies, else AddDependency only parks the dependency as "pending" and IsReachable ignores it */
		l_W.obj->PushDependencyGroupsToRegistry();
		l_W.obj->AddDependency(l_W.dep);
		l_W.parent->AddReverseDependency(l_W.dep);
	}

	for (size_t i = 0; i < c.users.size(); i++) {
		const UserCfg& uc = c.users[i];
		UserW uw;
		std::string uname = "c03-u" + sfx + "-" + std::to_string(i);
		std::string pname;
		if (uc.hasPeriod) {
			pname = "c03-tp" + sfx + "-u" + std::to_string(i);
			uw.period = MakePeriod(pname);
		}
		uw.user = new User();
		uw.user->SetName(uname);
		uw.user->SetEnableNotifications(true);
		uw.tf = uc.tf;
		uw.sf = uc.sf;
		ConfigureFilters(uw.user, uc.tf, uc.sf, (long long)i);
		uw.user->SetPeriodRaw(pname);
		uw.user->Register();
		l_W.idByName[uname] = (int)i;
		l_W.users.push_back(uw);
	}
	AddNotification(c.n0);
}

static void AddNotification(const NotifCfg& c)
{
	std::string sfx = std::to_string(l_CaseNo);
	int k = (int)l_W.ns.size();
	std::string ks = std::to_string(k);
	NotifW nw;
	if (c.hasPeriod)
		nw.period = MakePeriod("c03-tp" + sfx + "-n" + ks);
	for (int gi = 0; gi < 2; gi++) {
		nw.group[gi] = new UserGroup();
		nw.group[gi]->SetName("c03-g" + sfx + "-" + ks + (gi ? "b" : "a"));
		nw.group[gi]->Register();
	}
	Array::Ptr userNames = new Array();
	bool anyGroup[2] = { false, false };
	for (size_t i = 0; i < l_W.users.size() && i < c.attach.size(); i++) {
		int at = c.attach[i];
		if (at & 1)
			userNames->Add(l_W.users[i].user->GetName());
		for (int gi = 0; gi < 2; gi++) {
			if (at & (2 << gi)) {
				nw.group[gi]->ResolveGroupMembership(l_W.users[i].user, true);
				anyGroup[gi] = true;
			}
		}
	}

	Notification::Ptr n = new Notification();
	n->SetName(l_W.obj->GetName() + "!n" + ks);
	SetF(n, "host_name", l_W.isHost ? l_W.obj->GetName() : l_W.parent->GetName());
	if (!l_W.isHost)
		SetF(n, "service_name", String("svc"));
	SetF(n, "command", String(kCmdName));
	n->SetInterval((double)c.interval);
	n->SetPeriodRaw(nw.period ? nw.period->GetName() : String());
	n->SetUsersRaw(userNames);
	Array::Ptr groupNames = new Array();
	for (int gi = 0; gi < 2; gi++)
		if (anyGroup[gi])
			groupNames->Add(nw.group[gi]->GetName());
	if (groupNames->GetLength())
		n->SetUserGroupsRaw(groupNames);
	if (c.hasBegin || c.hasEnd) {
		Dictionary::Ptr times = new Dictionary();
		if (c.hasBegin)
			times->Set("begin", (double)c.tbegin);
		if (c.hasEnd)
			times->Set("end", (double)c.tend);
		n->SetTimes(times);
	}
	ConfigureFilters(n, c.tf, c.sf, c.interval);
	n->Register();
	static_pointer_cast<ConfigObject>(n)->OnAllConfigLoaded();
	n->SetActive(true);
	n->SetAuthority(true);
	if (n->GetCheckable() != l_W.obj)
		Die("notification did not resolve its checkable");
	nw.notif = n;
	l_W.notifByName[n->GetName().GetData()] = k;
	l_W.ns.push_back(nw);
}

/* ---- observation ---- */

static std::string JoinIds(std::vector<int> ids)
{
	if (ids.empty())
		return "_";
	std::sort(ids.begin(), ids.end());
	std::string s;
	for (size_t i = 0; i < ids.size(); i++) {
		if (i) s += "+";
		s += std::to_string(ids[i]);
	}
	return s;
}

static bool PeriodOpen(const TimePeriod::Ptr& tp)
{
	return !tp || tp->IsInside((double)l_Now);
}

static EnvV ReadEnv(int k)
{
	EnvV e;
	Checkable::Ptr o = l_W.obj;
	const Notification::Ptr& nf = l_W.ns[k].notif;
	int state = l_W.isHost ? (int)l_W.host->GetState() : (int)l_W.service->GetState();
	int i = 0;
	e.v[i++] = l_Now;
	e.v[i++] = state;
	e.v[i++] = o->GetStateType() == StateTypeHard ? 1 : 0;
	e.v[i++] = (long long)o->GetLastHardStateChange();
	e.v[i++] = o->GetVolatile() ? 1 : 0;
	e.v[i++] = o->IsReachable(DependencyNotification) ? 1 : 0;
	e.v[i++] = o->IsInDowntime() ? 1 : 0;
	e.v[i++] = o->IsAcknowledged() ? 1 : 0;
	e.v[i++] = o->IsFlapping() ? 1 : 0;
	e.v[i++] = (o->GetSuppressedNotifications() & NotificationProblem) ? 1 : 0;
	e.v[i++] = PeriodOpen(nf->GetPeriod()) ? 1 : 0;
	e.v[i++] = IcingaApplication::GetInstance()->GetEnableNotifications() ? 1 : 0;
	e.v[i++] = o->GetEnableNotifications() ? 1 : 0;
	e.v[i++] = nf->IsPaused() ? 1 : 0;
	e.v[i++] = (Endpoint::GetLocalEndpoint() && l_NC->GetEnableHA()) ? 1 : 0;
	e.v[i++] = o->IsLikelyToBeCheckedSoon() ? 1 : 0;
	e.v[i++] = o->NotificationReasonApplies(NotificationProblem) ? 1 : 0;
	e.v[i++] = o->NotificationReasonApplies(NotificationRecovery) ? 1 : 0;
	e.v[i++] = o->GetForceNextNotification() ? 1 : 0;
	e.v[i++] = ApiListener::UpdatedObjectAuthority() ? 1 : 0;
	return e;
}

static std::string UsersStr(int k)
{
	/* the attached set as the real objects see it: users ∪ members of user_groups (a user reachable twice counts once) */
	const Notification::Ptr& nf = l_W.ns[k].notif;
	std::set<User::Ptr> all = nf->GetUsers();
	for (const UserGroup::Ptr& ug : nf->GetUserGroups()) {
		std::set<User::Ptr> members = ug->GetMembers();
		all.insert(members.begin(), members.end());
	}
	/* (the filters are printed as configured, not as the objects resolved them: the resolution is code under test) */
	std::vector<std::pair<int, User::Ptr>> byId;
	for (const User::Ptr& u : all)
		byId.emplace_back(UserId(u->GetName()), u);
	std::sort(byId.begin(), byId.end(), [](const std::pair<int, User::Ptr>& a, const std::pair<int, User::Ptr>& b) { return a.first < b.first; });
	if (byId.empty())
		return "-";
	std::string s;
	char buf[96];
	for (size_t i = 0; i < byId.size(); i++) {
		const User::Ptr& u = byId[i].second;
		snprintf(buf, sizeof buf, "%s%d:%d:%d:%d:%d", i ? "," : "", byId[i].first, u->GetEnableNotifications() ? 1 : 0,
			PeriodOpen(u->GetPeriod()) ? 1 : 0, l_W.users[byId[i].first].tf, l_W.users[byId[i].first].sf);
		s += buf;
	}
	return s;
}

static bool AnyEvents()
{
	for (auto& nw : l_W.ns)
		if (!nw.events.empty())
			return true;
	return false;
}

/* before a call into the code under test: nothing pending, snapshot what the code is about to read */
static void BeginOp(const char *where)
{
	CheckNoStray(where);
	for (auto& nw : l_W.ns)
		nw.events.clear();
}

static void Snapshot()
{
	for (size_t k = 0; k < l_W.ns.size(); k++) {
		NotifW& nw = l_W.ns[k];
		nw.env = ReadEnv((int)k);
		nw.users = UsersStr((int)k);
		nw.hadP = (nw.notif->GetSuppressedNotifications() & NotificationProblem) != 0;
	}
}

static void PrintNumbers()
{
	/* notification_number is reset by ProcessCheckResult (ResetNotificationNumbers) outside the modelled code: resynchronise */
	printf("z |");
	for (auto& nw : l_W.ns)
		printf(" %d", (int)nw.notif->GetNotificationNumber());
	printf("\n");
}

static void FinishObserved(const std::string& opText, int fired, bool isT)
{
	/* wait for the thread pool to run the commands announced by the events of all notification objects */
	int expected = 0;
	for (auto& nw : l_W.ns)
		for (auto& e : nw.events)
			if (e.passed)
				expected += (int)e.users.size();
	if (l_CmdCount.load() != expected) {
		auto t0 = std::chrono::steady_clock::now();
		while (l_CmdCount.load() != expected) {
			std::this_thread::yield();
			if (std::chrono::steady_clock::now() - t0 > std::chrono::seconds(5)) {
				fflush(stdout);
				fprintf(stderr, "TIMEOUT (case %d, op '%s': %d command executions, %d announced)\n", l_CaseNo, opText.c_str(), l_CmdCount.load(), expected);
				_exit(3);
			}
		}
	}
	std::vector<std::vector<std::pair<int, int>>> cmds(l_W.ns.size());
	{
		std::unique_lock<std::mutex> lock(l_CmdMutex);
		for (auto& c : l_Cmds) {
			auto it = l_W.notifByName.find(c.notif);
			if (it == l_W.notifByName.end())
				Die("command executed for unknown notification '" + c.notif + "'", 4);
			cmds[it->second].emplace_back(c.type, UserId(String(c.user)));
		}
		l_Cmds.clear();
		l_CmdCount.store(0);
	}

	for (size_t k = 0; k < l_W.ns.size(); k++) {
		NotifW& nw = l_W.ns[k];
		/* group 3: events */
		std::string ev;
		bool sawProblem = false;
		for (size_t i = 0; i < nw.events.size(); i++) {
			const Event& e = nw.events[i];
			int reminder = 0;
			if (isT && e.ty == NotificationProblem && e.force < 0) {
				/* (a labelled event is the replay of a stashed request, never a reminder) */
				reminder = (nw.hadP && !sawProblem) ? 0 : 1;
				sawProblem = true;
			}
			/* forced? labelled requests carry it in their text; unlabelled ones are requests the code raised itself and
			 * processed at once (force_next_notification as read before the call), or the timer's own calls (never forced) */
			int force = e.force >= 0 ? e.force : (isT ? 0 : (int)nw.env.v[18]);
			if (i) ev += ",";
			ev += std::to_string(e.ty) + ":" + std::to_string(reminder) + ":" + std::to_string(e.passed) + ":" + std::to_string(force) + ":" + JoinIds(e.users);
		}
		if (nw.events.empty())
			ev = "-";

		/* group 4: executed commands */
		std::sort(cmds[k].begin(), cmds[k].end());
		std::string cs;
		for (size_t i = 0; i < cmds[k].size(); i++) {
			if (i) cs += ",";
			cs += std::to_string(cmds[k][i].first) + ":" + std::to_string(cmds[k][i].second);
		}
		if (cmds[k].empty())
			cs = "-";

		/* group 5: attributes of the notification object */
		std::vector<int> npu;
		{
			Array::Ptr a = nw.notif->GetNotifiedProblemUsers();
			ObjectLock olock(a);
			for (const Value& v : a)
				npu.push_back(UserId(v));
		}
		std::vector<std::pair<int, int>> lns;
		{
			Dictionary::Ptr d = nw.notif->GetLastNotifiedStatePerUser();
			ObjectLock olock(d);
			for (const Dictionary::Pair& kv : d)
				lns.emplace_back(UserId(kv.first), (int)(double)kv.second);
		}
		std::sort(lns.begin(), lns.end());
		std::string ls;
		for (size_t i = 0; i < lns.size(); i++) {
			if (i) ls += "+";
			ls += std::to_string(lns[i].first) + "=" + std::to_string(lns[i].second);
		}
		if (lns.empty())
			ls = "_";

		std::string envs;
		for (int i = 0; i < 19; i++) {
			envs += std::to_string(nw.env.v[i]);
			envs += " ";
		}
		envs += std::to_string(fired);
		envs += " " + std::to_string(nw.env.v[19]);

		/* stashed requests (cold start), in order */
		std::string st;
		{
			Array::Ptr a = nw.notif->GetStashedNotifications();
			ObjectLock olock(a);
			for (const Value& v : a) {
				Dictionary::Ptr d = v;
				if (!st.empty()) st += ",";
				st += std::to_string((int)(double)d->Get("notification_type")) + ":" + ((bool)d->Get("force") ? "1" : "0");
			}
		}
		if (st.empty())
			st = "-";

		std::string head = k == 0 ? opText : "+ " + std::to_string(k);
		printf("%s | %s ; %s ; %s ; %s ; %s %s %lld %d %d %d %s\n", head.c_str(), envs.c_str(), nw.users.c_str(), ev.c_str(), cs.c_str(),
			JoinIds(npu).c_str(), ls.c_str(), (long long)nw.notif->GetNextNotification(), nw.notif->GetNoMoreNotifications() ? 1 : 0,
			(int)nw.notif->GetNotificationNumber(), (int)nw.notif->GetSuppressedNotifications(), st.c_str());
		nw.events.clear();
	}
}

/* Every request for the checkable — from an N operation, or raised by the code itself inside ProcessCheckResult /
 * FireSuppressedNotifications (X / Z operations) — is observed by two slots around the NotificationComponent's own slot. */
static void RequestPre(const Checkable::Ptr& checkable)
{
	if (checkable != l_W.obj)
		return;
	BeginOp("before a request");
	l_ForceBefore = checkable->GetForceNextNotification() ? 1 : 0;
	if (l_Detached)
		return;
	if (l_InX)
		PrintNumbers();
	Snapshot();
}

static void RequestPost(const Checkable::Ptr& checkable, NotificationType type)
{
	if (checkable != l_W.obj)
		return;
	if (l_Detached) {
		/* no notification object is registered with the checkable: the request reaches none; what remains to be seen is
		 * force_next_notification before / after it */
		if (AnyEvents() || l_CmdCount.load() != 0)
			Die("a request reached a notification object that is not registered with the checkable", 4);
		char op[32];
		snprintf(op, sizeof op, "q %d", (int)type);
		printf("%s | unseen %d %d\n", l_InX ? op : l_NText.c_str(), l_ForceBefore, checkable->GetForceNextNotification() ? 1 : 0);
		return;
	}
	if (l_InX) {
		char op[32];
		snprintf(op, sizeof op, "q %d", (int)type);
		FinishObserved(op, 1, false);
	} else {
		FinishObserved(l_NText, 1, false);
	}
}

static void OpNotify(int type, long long dt)
{
	l_Now += dt;
	SetNow((double)l_Now);
	char op[64];
	snprintf(op, sizeof op, "N %d %lld", type, dt);
	l_NText = op;
	/* the text travels with the request (also through the stash) to OnNotificationSentToAllUsers: label it with its force flag */
	String text = l_W.obj->GetForceNextNotification() ? "n:1" : "n:0";
	Checkable::OnNotificationsRequested(l_W.obj, (NotificationType)type, l_W.obj->GetLastCheckResult(), "a", text, nullptr);
}

static void OpTick(long long dt, int direct)
{
	l_Now += dt;
	SetNow((double)l_Now);
	BeginOp("before T");
	if (l_Detached) {
		/* the real handler runs; it must not touch objects that are not active */
		if (direct)
			(l_NC.get()->*get(NthTag()))();
		else
			Timer::VerifFireDue((double)l_Now);
		if (AnyEvents() || l_CmdCount.load() != 0)
			Die("the timer processed a notification object that is not active", 4);
		printf("T %lld %d | unseen\n", dt, direct);
		return;
	}
	if (l_HA)
		*Stash<ApiInstTag>::value = l_Api;
	Snapshot();
	/* label what is stashed (requests the code raised itself carry no text) so that the events of the replay can be attributed */
	for (auto& nw : l_W.ns) {
		Array::Ptr a = nw.notif->GetStashedNotifications();
		ObjectLock olock(a);
		for (const Value& v : a) {
			Dictionary::Ptr d = v;
			d->Set("text", String((bool)d->Get("force") ? "s:1" : "s:0"));
		}
	}
	int fired = 1;
	if (direct) {
		(l_NC.get()->*get(NthTag()))();
	} else {
		/* the pump fires every due timer of the process (the WorkQueues of the HA node's ApiListener have status timers of their own):
		 * the handler ran iff the component's own timer was due */
		Timer::Ptr nt = (l_NC.get())->*get(NtTag());
		bool due = nt && nt->GetNext() <= (double)l_Now;
		int n = Timer::VerifFireDue((double)l_Now);
		if (l_Debug)
			fprintf(stderr, "debug: VerifFireDue(%lld) = %d, component timer due = %d\n", l_Now, n, due ? 1 : 0);
		if (due && n == 0)
			Die("the notification timer was due but the pump fired nothing", 4);
		fired = due ? 1 : 0;
	}
	char op[64];
	snprintf(op, sizeof op, "T %lld %d", dt, direct);
	FinishObserved(op, fired, true);
	*Stash<ApiInstTag>::value = nullptr;
}

/* X: a real check result through Checkable::ProcessCheckResult — the state machine, suppression and flapping logic decide
 * which notifications are requested; every request shows as a "q" line. */
static void OpResult(int state, long long dt)
{
	l_Now += dt;
	SetNow((double)l_Now);
	BeginOp("before X");
	printf("X %d %lld |\n", state, dt);
	l_InX = true;
	l_W.obj->ProcessCheckResult(MakeCr((ServiceState)state, (double)l_Now, (double)l_Now, true));
	l_InX = false;
	if (!l_Detached)
		PrintNumbers();
}

/* Z: Checkable::FireSuppressedNotifications (what the checkable's own 5 s timer calls). */
static void OpFireCheckable(long long dt)
{
	l_Now += dt;
	SetNow((double)l_Now);
	BeginOp("before Z");
	printf("Z %lld |\n", dt);
	l_InX = true;
	l_W.obj->FireSuppressedNotifications();
	l_InX = false;
	if (!l_Detached)
		PrintNumbers();
}

static void OpState(int state, int hard, int setlhsc)
{
	l_W.obj->SetStateRaw((ServiceState)state);
	l_W.obj->SetStateType(hard ? StateTypeHard : StateTypeSoft);
	if (setlhsc)
		l_W.obj->SetLastHardStateChange((double)l_Now);
	l_W.obj->SetLastCheckResult(MakeCr((ServiceState)state, (double)l_Now, (double)l_Now, true));
}

static void OpDowntime(int on)
{
	if (on) {
		if (l_W.dt)
			return;
		Downtime::Ptr d = new Downtime();
		if (l_W.isHost) {
			d->SetHostName(l_W.obj->GetName());
		} else {
			d->SetHostName(l_W.parent->GetName());
			d->SetServiceName("svc");
		}
		d->SetName(l_W.obj->GetName() + "!dt");
		d->SetFixed(true);
		d->SetStartTime((double)l_Now - 3600);
		d->SetEndTime((double)l_Now + 100000000.0);
		l_W.obj->RegisterDowntime(d);
		d->Register();
		d->OnAllConfigLoaded();
		d->TriggerDowntime((double)l_Now);
		l_W.dt = d;
	} else {
		RemoveDowntime();
	}
}

static void OpReachable(int reachable)
{
	/* parent = the service's own host, or the host's parent through the Dependency */
	ServiceState st = reachable ? ServiceOK : ServiceCritical;
	l_W.parent->SetStateRaw(st);
	l_W.parent->SetStateType(StateTypeHard);
	l_W.parent->SetLastCheckResult(MakeCr(st, (double)l_Now, (double)l_Now, true));
}

static std::vector<std::string> Tokens(const char *line)
{
	std::vector<std::string> w;
	const char *p = line;
	while (*p) {
		while (*p == ' ' || *p == '\t' || *p == '\n' || *p == '\r') p++;
		if (!*p || *p == '|')
			break;
		const char *q = p;
		while (*q && *q != ' ' && *q != '\t' && *q != '\n' && *q != '\r') q++;
		w.emplace_back(p, q - p);
		p = q;
	}
	return w;
}

static bool ParseLL(const std::string& s, long long& out)
{
	if (s.empty())
		return false;
	char *end = nullptr;
	out = strtoll(s.c_str(), &end, 10);
	return end && *end == 0;
}

static bool ExecLine(const char *line)
{
	std::vector<std::string> w = Tokens(line);
	if (w.empty())
		return false;
	const std::string& k = w[0];
	if (k.size() != 1)
		return false;

	std::string echo;
	for (size_t i = 0; i < w.size(); i++) {
		if (i) echo += " ";
		echo += w[i];
	}

	/* lines the harness prints itself inside / after an operation: ignored on replay */
	if (k == "+" || k == "q" || k == "z")
		return true;

	auto parseNotif = [&](size_t at, NotifCfg& n) -> bool {
		long long v;
		if (!ParseLL(w[at], n.interval)) return false;
		n.hasBegin = w[at + 1] != "-";
		n.hasEnd = w[at + 2] != "-";
		n.tbegin = n.tend = 0;
		if (n.hasBegin && !ParseLL(w[at + 1], n.tbegin)) return false;
		if (n.hasEnd && !ParseLL(w[at + 2], n.tend)) return false;
		if (!ParseLL(w[at + 3], v)) return false; n.tf = (int)v;
		if (!ParseLL(w[at + 4], v)) return false; n.sf = (int)v;
		if (!ParseLL(w[at + 5], v)) return false; n.hasPeriod = v != 0;
		return true;
	};

	if (k == "C") {
		if (w.size() < 9)
			return false;
		CaseCfg c;
		if (w[1] != "h" && w[1] != "s") return false;
		c.kind = w[1][0];
		if (!parseNotif(2, c.n0)) return false;
		long long nu;
		if (!ParseLL(w[8], nu) || nu < 0 || nu > 8) return false;
		if (w.size() != 9 + 4 * (size_t)nu) return false;
		for (long long i = 0; i < nu; i++) {
			long long a, t, s, p;
			if (!ParseLL(w[9 + 4 * i], a) || !ParseLL(w[10 + 4 * i], t) || !ParseLL(w[11 + 4 * i], s) || !ParseLL(w[12 + 4 * i], p))
				return false;
			c.n0.attach.push_back((int)a);
			c.users.push_back(UserCfg{ (int)t, (int)s, p != 0 });
		}
		Setup(c);
		printf("%s\n", echo.c_str());
		return true;
	}

	if (!l_W.obj)
		return false;

	long long a = 0, b = 0, c = 0;
	auto need = [&](size_t n) { return w.size() == n + 1; };

	if (k == "O") {
		/* a further notification object of the same checkable: O <interval> <tbegin|-> <tend|-> <tf> <sf> <hasPeriod> {<attach>} x nusers */
		if (w.size() != 7 + l_W.users.size() || l_W.ns.size() >= 4) return false;
		NotifCfg n;
		if (!parseNotif(1, n)) return false;
		for (size_t i = 0; i < l_W.users.size(); i++) {
			long long v;
			if (!ParseLL(w[7 + i], v)) return false;
			n.attach.push_back((int)v);
		}
		AddNotification(n);
		printf("%s\n", echo.c_str());
		return true;
	}
	if (k == "N") {
		if (!need(2) || !ParseLL(w[1], a) || !ParseLL(w[2], b) || b < 0) return false;
		OpNotify((int)a, b);
		return true;
	}
	if (k == "X") {
		if (!need(2) || !ParseLL(w[1], a) || !ParseLL(w[2], b) || a < 0 || a > 3 || b < 0) return false;
		OpResult((int)a, b);
		return true;
	}
	if (k == "Z") {
		if (!need(1) || !ParseLL(w[1], a) || a < 0) return false;
		OpFireCheckable(a);
		return true;
	}
	if (k == "T") {
		if (!need(2) || !ParseLL(w[1], a) || !ParseLL(w[2], b) || a < 0) return false;
		OpTick(a, b != 0);
		return true;
	}

	/* environment operations */
	BeginOp("before an environment operation");
	if (k == "S") {
		if (!need(3) || !ParseLL(w[1], a) || !ParseLL(w[2], b) || !ParseLL(w[3], c) || a < 0 || a > 3) return false;
		OpState((int)a, b != 0, c != 0);
	} else if (k == "F") {
		if (!need(0)) return false;
		l_W.obj->SetForceNextNotification(true);
	} else if (k == "W") {
		/* W n <v> [k]: period of notification object k (default 0); W <i> <v>: period of user i */
		if (w.size() < 3 || !ParseLL(w[2], b)) return false;
		if (w[1] == "n") {
			if (w.size() == 4) { if (!ParseLL(w[3], c)) return false; } else if (w.size() != 3) return false;
			if (c >= 0 && (size_t)c < l_W.ns.size() && l_W.ns[c].period)
				SetPeriodOpen(l_W.ns[c].period, b != 0);
		} else {
			if (w.size() != 3) return false;
			if (!ParseLL(w[1], a)) return false;
			if (a >= 0 && (size_t)a < l_W.users.size() && l_W.users[a].period)
				SetPeriodOpen(l_W.users[a].period, b != 0);
		}
	} else if (k == "U") {
		if (!need(2) || !ParseLL(w[1], a) || !ParseLL(w[2], b)) return false;
		if (a >= 0 && (size_t)a < l_W.users.size())
			l_W.users[a].user->SetEnableNotifications(b != 0);
	} else if (k == "H") {
		/* H 0: the checkable has no notification objects (they are created later: config reload, apply rule, API): unregister
		 * them from the checkable and deactivate them; H 1: they appear (what Notification::OnAllConfigLoaded / Start do) */
		if (!need(1) || !ParseLL(w[1], a)) return false;
		bool detach = a == 0;
		if (detach != l_Detached) {
			for (auto& nw : l_W.ns) {
				if (detach) {
					l_W.obj->UnregisterNotification(nw.notif);
					nw.notif->SetActive(false);
				} else {
					nw.notif->SetActive(true);
					l_W.obj->RegisterNotification(nw.notif);
				}
			}
			l_Detached = detach;
		}
		if (l_W.obj->GetNotifications().size() != (detach ? 0 : l_W.ns.size()))
			Die("environment operation '" + echo + "' did not have its effect on the real objects", 4);
	} else if (k == "J") {
		/* J 1: HA cluster node - Endpoint::GetLocalEndpoint() is set while the notification timer runs (enable_ha is true by default) */
		if (!need(1) || !ParseLL(w[1], a)) return false;
		l_HA = a != 0;
	} else if (k == "B") {
		/* B 0: cold start (object authority not updated yet: SendNotifications stashes), B 1: authority updated */
		if (!need(1) || !ParseLL(w[1], a)) return false;
		SetAuthorityUpdated(a != 0);
	} else if (k == "M") {
		if (!need(1) || !ParseLL(w[1], a) || a < 1 || a > 10) return false;
		l_W.obj->SetMaxCheckAttempts((int)a);
	} else if (k == "P") {
		/* P <v> [k]: authority of notification object k (default 0); 0 = paused */
		if (w.size() < 2 || w.size() > 3 || !ParseLL(w[1], a)) return false;
		if (w.size() == 3 && !ParseLL(w[2], c)) return false;
		if (c >= 0 && (size_t)c < l_W.ns.size()) {
			l_W.ns[c].notif->SetAuthority(a != 0);
			if (l_W.ns[c].notif->IsPaused() != (a == 0))
				Die("environment operation '" + echo + "' did not have its effect on the real objects", 4);
		}
	} else {
		if (!need(1) || !ParseLL(w[1], a)) return false;
		bool on = a != 0;
		switch (k[0]) {
			case 'V': l_W.obj->SetVolatile(on); break;
			case 'D': OpDowntime(on); break;
			case 'A': l_W.obj->SetAcknowledgementRaw(on ? AcknowledgementNormal : AcknowledgementNone); break;
			case 'L': SetF(l_W.obj, "flapping", on); break;
			case 'R': OpReachable(on); break;
			case 'K': l_W.obj->SetSuppressedNotifications(on ? NotificationProblem : 0); break;
			case 'G': IcingaApplication::GetInstance()->SetEnableNotifications(on); break;
			case 'E': l_W.obj->SetEnableNotifications(on); break;
			case 'Y':
				if (on) {
					l_W.obj->SetEnableActiveChecks(true);
					l_W.obj->SetNextCheck((double)l_Now);
				} else {
					l_W.obj->SetEnableActiveChecks(false);
				}
				break;
			default:
				return false;
		}
	}
	if (AnyEvents())
		Die("environment operation '" + echo + "' emitted a notification event", 4);
	/* self-check: the operation had the effect on the real objects that the protocol promises */
	{
		bool ok = true;
		bool on = w.size() >= 2 && w[1] != "0";
		switch (k[0]) {
			case 'D': ok = l_W.obj->IsInDowntime() == on; break;
			case 'A': ok = l_W.obj->IsAcknowledged() == on; break;
			case 'L': ok = l_W.obj->IsFlapping() == on; break;
			case 'R': ok = l_W.obj->IsReachable(DependencyNotification) == on; break;
			case 'Y': ok = l_W.obj->IsLikelyToBeCheckedSoon() == on; break;
			case 'W':
				if (w[1] == "n" && (size_t)c < l_W.ns.size() && l_W.ns[c].period)
					ok = l_W.ns[c].period->IsInside((double)l_Now) == (w[2] != "0");
				break;
			default: break;
		}
		if (!ok)
			Die("environment operation '" + echo + "' did not have its effect on the real objects", 4);
	}
	printf("%s |\n", echo.c_str());
	return true;
}

/* ---- generator ---- */

static const char *const kAlphabet[] = {
	"N 32 0", "N 64 0", "N 16 0", "T 60 1", "T 1 1", "S 2 1 1", "S 0 1 1", "W n 0", "W n 1", "U 1 0", "U 1 1", "F"
};
static const int kAlphabetN = sizeof(kAlphabet) / sizeof(kAlphabet[0]);

struct GenState {
	char kind;
	int nusers;
	int curState;
	int nobj;        /* notification objects of the case */
	int useX;        /* state changes mostly through the real ProcessCheckResult */
	int cold;        /* the case starts in the cold-start phase */
	int late;        /* the notification objects come and go (H) */
	int ha;          /* HA cluster node: a local endpoint exists during timer runs; authority changes (P) are frequent */
	int detached;
	int nOpen[3];    /* what the generator last set: notification periods open */
	int uOpen[4];    /* user periods */
	int uEnabled[4]; /* user enable_notifications */
};

static int FlipBiased(Rng& rng, int& cur)
{
	/* toggles without an inherently bad value: flip the current setting 75% of the time, so that a closed
	 * period / disabled user is usually reverted by the next such op */
	int v = rng.below(100) < 75 ? !cur : cur;
	cur = v;
	return v;
}

static void RandomStateOp(Rng& rng, GenState& g, char *buf, size_t n)
{
	int st = g.kind == 'h' ? (rng.below(2) ? 2 : 0) : (int)rng.below(4);
	if (g.useX && rng.below(100) < 85) {
		/* a real check result; repeat the previous state often so that soft states harden */
		static const int dts[] = {0, 1, 10, 10, 60, 300};
		if (rng.below(100) < 45)
			st = g.curState;
		g.curState = st;
		snprintf(buf, n, "X %d %d", st, dts[rng.below(6)]);
		return;
	}
	int hard = rng.below(100) < 85 ? 1 : 0;
	int rnd = rng.below(10) == 0 ? 1 : 0;
	int setlhsc = (hard && (st != g.curState || rnd)) ? 1 : 0;
	g.curState = st;
	snprintf(buf, n, "S %d %d %d", st, hard, setlhsc);
}

static int RevertBiased(Rng& rng, int badValue)
{
	/* pick the reverting (good) value 60% of the time */
	return rng.below(100) < 60 ? !badValue : badValue;
}

static void RandomOp(Rng& rng, GenState& g, char *buf, size_t n)
{
	if (g.cold && rng.below(100) < 12) {
		snprintf(buf, n, "B %d", rng.below(100) < 75 ? 1 : 0);
		return;
	}
	if (g.late && rng.below(100) < (g.detached ? 30 : 8)) {
		g.detached = !g.detached;
		snprintf(buf, n, "H %d", g.detached ? 0 : 1);
		return;
	}
	if (g.ha && rng.below(100) < 8) {
		int v = RevertBiased(rng, 0);
		if (g.nobj > 1 && rng.coin())
			snprintf(buf, n, "P %d %d", v, 1 + (int)rng.below(g.nobj - 1));
		else
			snprintf(buf, n, "P %d", v);
		return;
	}
	int k = (int)rng.below(100);
	if (k < 35) {
		int r = (int)rng.below(100);
		int type;
		if (r < 35) type = 32;
		else if (r < 55) type = 64;
		else if (r < 67) type = 16;
		else { static const int others[] = {1, 2, 4, 8, 128, 256}; type = others[rng.below(6)]; }
		static const int dts[] = {0, 0, 1, 5, 10, 60, 61, 300};
		snprintf(buf, n, "N %d %d", type, dts[rng.below(8)]);
	} else if (k < 60) {
		static const int dts[] = {0, 1, 5, 6, 59, 60, 61, 300, 2000};
		int dt = dts[rng.below(9)];
		snprintf(buf, n, "T %d %d", dt, rng.below(10) < 7 ? 1 : 0);
	} else if (k < 72) {
		RandomStateOp(rng, g, buf, n);
	} else if (k < 79) {
		if (rng.coin()) {
			int k = (int)rng.below(g.nobj);
			if (k == 0)
				snprintf(buf, n, "W n %d", FlipBiased(rng, g.nOpen[0]));
			else
				snprintf(buf, n, "W n %d %d", FlipBiased(rng, g.nOpen[k]), k);
		} else {
			int i = (int)rng.below(g.nusers);
			snprintf(buf, n, "W %d %d", i, FlipBiased(rng, g.uOpen[i]));
		}
	} else if (k < 84) {
		int i = (int)rng.below(g.nusers);
		snprintf(buf, n, "U %d %d", i, FlipBiased(rng, g.uEnabled[i]));
	} else if (k < 87) {
		snprintf(buf, n, "F");
	} else if (k < 95) {
		static const char ops[] = {'D', 'A', 'L', 'R', 'K'};
		static const int bad[] = {1, 1, 1, 0, 1};
		int i = (int)rng.below(5);
		snprintf(buf, n, "%c %d", ops[i], RevertBiased(rng, bad[i]));
	} else {
		static const char ops[] = {'V', 'G', 'E', 'P', 'Y'};
		static const int bad[] = {-1, 0, 0, 0, 1};
		int i = (int)rng.below(5);
		int v = bad[i] < 0 ? (int)rng.below(2) : RevertBiased(rng, bad[i]);
		if (ops[i] == 'P' && g.nobj > 1 && rng.coin())
			snprintf(buf, n, "P %d %d", v, 1 + (int)rng.below(g.nobj - 1));
		else if (ops[i] == 'Y' && g.useX)
			snprintf(buf, n, "Z %d", rng.coin() ? 0 : 400); /* the checkable's own suppressed-notification handler */
		else
			snprintf(buf, n, "%c %d", ops[i], v);
	}
}

static int RandomAttach(Rng& rng)
{
	/* bit 0 users, bit 1 group a, bit 2 group b; overlapping membership (3, 5, 6, 7) is common */
	static const int attaches[] = {1, 1, 2, 3, 4, 5, 6, 7};
	return rng.below(10) == 0 ? 0 : attaches[rng.below(8)];
}

static std::string RandomNotifCfg(Rng& rng)
{
	static const int intervals[] = {0, 0, 1, 60, 60, 300};
	static const char *const begins[] = {"-", "-", "-", "0", "5", "60"};
	static const char *const ends[] = {"-", "-", "-", "0", "30", "600"};
	int interval = intervals[rng.below(6)];
	const char *tb = begins[rng.below(6)];
	const char *te = ends[rng.below(6)];
	int tf;
	if (rng.coin()) tf = 511;
	else { tf = (int)rng.below(512); if (rng.coin()) tf |= 32; }
	int sf = rng.coin() ? 63 : (int)rng.below(64);
	int hasPeriod = rng.coin() ? 1 : 0;
	std::ostringstream s;
	s << interval << " " << tb << " " << te << " " << tf << " " << sf << " " << hasPeriod;
	return s.str();
}

/* the case header, followed by the lines that must come right after it (further notification objects, max_check_attempts) */
static std::vector<std::string> RandomHeader(Rng& rng, GenState& g)
{
	g.kind = rng.coin() ? 'h' : 's';
	g.curState = 0;
	for (int i = 0; i < 3; i++) g.nOpen[i] = 1;
	for (int i = 0; i < 4; i++) { g.uOpen[i] = 1; g.uEnabled[i] = 1; }
	g.nusers = 1 + (int)rng.below(4);
	int r = (int)rng.below(100);
	g.nobj = r < 55 ? 1 : (r < 85 ? 2 : 3);
	g.useX = rng.below(100) < 35 ? 1 : 0;
	g.cold = rng.below(100) < 15 ? 1 : 0;
	g.late = rng.below(100) < 15 ? 1 : 0;
	g.ha = rng.below(100) < 20 ? 1 : 0;
	g.detached = 0;
	std::vector<std::string> lines;
	std::ostringstream s;
	s << "C " << g.kind << " " << RandomNotifCfg(rng) << " " << g.nusers;
	for (int i = 0; i < g.nusers; i++) {
		int utf = rng.below(100) < 40 ? 511 : (int)rng.below(512);
		int usf = rng.coin() ? 63 : (int)rng.below(64);
		int up = rng.below(100) < 30 ? 1 : 0;
		s << " " << RandomAttach(rng) << " " << utf << " " << usf << " " << up;
	}
	lines.push_back(s.str());
	for (int k = 1; k < g.nobj; k++) {
		std::ostringstream o;
		o << "O " << RandomNotifCfg(rng);
		for (int i = 0; i < g.nusers; i++)
			o << " " << RandomAttach(rng);
		lines.push_back(o.str());
	}
	if (g.useX)
		lines.push_back("M " + std::to_string(1 + (int)rng.below(3)));
	if (g.cold)
		lines.push_back("B 0");
	if (g.late && rng.coin()) {
		g.detached = 1;
		lines.push_back("H 0");
	}
	if (g.ha)
		lines.push_back("J 1");
	return lines;
}

static void Must(const char *line)
{
	if (!ExecLine(line))
		Die(std::string("generator produced a bad line: ") + line);
}

int main(int argc, char **argv)
{
	if (argc < 2) { fprintf(stderr, "usage: h_c03 gen --seed S --tier quick|thorough | ops FILE\n"); return 2; }
	l_Debug = getenv("C03_DEBUG") != nullptr;
	static char outbuf[1 << 20];
	setvbuf(stdout, outbuf, _IOFBF, sizeof outbuf);

	InitIcinga();
	SetNow((double)l_Now);
	/* without this Checkable::SendNotifications stashes everything as "cold startup" */
	ApiListener::UpdateObjectAuthority();

	NotificationCommand::Ptr cmd = new NotificationCommand();
	cmd->SetName(kCmdName);
	cmd->SetExecute(new Function("C03Execute", CmdExecute, { "notification", "user", "cr", "itype", "author", "comment", "resolvedMacros", "useResolvedMacros" }));
	cmd->Register();

	/* signals: events of the current case's notification objects, in emission order */
	Notification::OnLastNotifiedStatePerUserCleared.connect([](const Notification::Ptr& n, const MessageOrigin::Ptr&) {
		auto it = l_W.notifByName.find(n->GetName().GetData());
		if (it == l_W.notifByName.end() || l_W.ns[it->second].notif != n)
			return;
		l_W.ns[it->second].events.push_back(Event{ NotificationRecovery, 0, true, {}, -1 });
	});
	Checkable::OnNotificationSentToAllUsers.connect([](const Notification::Ptr& n, const Checkable::Ptr&, const std::set<User::Ptr>& users,
		const NotificationType& type, const CheckResult::Ptr&, const String&, const String& text, const MessageOrigin::Ptr&) {
		int force = -1;
		if (text.GetLength() == 3 && (text.GetData()[0] == 'n' || text.GetData()[0] == 's') && text.GetData()[1] == ':')
			force = text.GetData()[2] == '1' ? 1 : 0;
		auto it = l_W.notifByName.find(n->GetName().GetData());
		if (it == l_W.notifByName.end() || l_W.ns[it->second].notif != n)
			return;
		std::vector<Event>& evs = l_W.ns[it->second].events;
		std::vector<int> ids;
		for (const User::Ptr& u : users)
			ids.push_back(UserId(u->GetName()));
		std::sort(ids.begin(), ids.end());
		if (type == NotificationRecovery && !evs.empty() && evs.back().clearedPending) {
			Event& e = evs.back();
			e.passed = 1;
			e.clearedPending = false;
			e.users = ids;
			e.force = force;
		} else {
			evs.push_back(Event{ (int)type, 1, false, ids, force });
		}
	});

	/* first slot of OnNotificationsRequested: snapshot what SendNotifications is about to read */
	Checkable::OnNotificationsRequested.connect([](const Checkable::Ptr& checkable, NotificationType, const CheckResult::Ptr&,
		const String&, const String&, const MessageOrigin::Ptr&) { RequestPre(checkable); });

	/* the real component: its Start() connects OnNotificationsRequested -> SendNotifications and creates the 5 s timer */
	l_NC = new NotificationComponent();
	l_NC->SetName("c03-nc");
	l_NC->Register();
	l_NC->PreActivate();
	l_NC->Activate();
	l_NC->SetAuthority(true);

	/* last slot of OnNotificationsRequested (after the component's): print the observation of the request */
	Checkable::OnNotificationsRequested.connect([](const Checkable::Ptr& checkable, NotificationType type, const CheckResult::Ptr&,
		const String&, const String&, const MessageOrigin::Ptr&) { RequestPost(checkable, type); });

	/* a bare ApiListener with a local endpoint, never activated (RelayMessage returns at once): installed only around timer runs */
	{
		Endpoint::Ptr ep = new Endpoint();
		ep->SetName("c03-local-endpoint");
		ep->Register();
		l_Api = new ApiListener();
		(l_Api.get())->*(Stash<ApiLocalEpTag>::value) = ep;
		if (!l_NC->GetEnableHA())
			Die("enable_ha is not the default");
	}

	std::string mode = argv[1];
	if (mode == "gen") {
		uint64_t seed = strtoull(argOr(argc, argv, "--seed", "1"), nullptr, 10);
		bool thorough = std::string(argOr(argc, argv, "--tier", "quick")) == "thorough";
		/* (a) exhaustive part */
		int L = thorough ? 5 : 4;
		long total = 1;
		for (int i = 0; i < L; i++) total *= kAlphabetN;
		for (int kind = 0; kind < 2; kind++)
		for (int iv = 0; iv < 2; iv++)
		for (long code = 0; code < total; code++) {
			char hdr[128];
			snprintf(hdr, sizeof hdr, "C %c %d - - 511 63 1 2 1 511 63 0 1 %d 63 1", kind ? 'h' : 's', iv ? 60 : 0, kind ? 511 : 80);
			Must(hdr);
			if (kind)
				Must(iv ? "O 0 - - 96 63 1 3 2" : "O 60 - - 96 63 1 3 2"); /* second object: Problem|Recovery only, own period, other interval */
			Must("S 2 1 1");
			long c = code;
			for (int i = 0; i < L; i++) { Must(kAlphabet[c % kAlphabetN]); c /= kAlphabetN; }
			Must("W n 1");
			Must("T 60 1");
			Must("N 64 0");
			Must("N 16 0");
		}
		/* (a') exhaustive: the checkable's side of a request - force_next_notification is consumed by every request, also while
		 * the checkable has no notification objects (yet); objects that appear later see ordinary requests as ordinary */
		{
			static const char *const kAlpha2[] = { "F", "H 0", "H 1", "N 32 0", "N 8 0", "W n 0", "E 0", "T 60 1" };
			const int A2 = 8, L2 = thorough ? 5 : 4;
			long total2 = 1;
			for (int i = 0; i < L2; i++) total2 *= A2;
			for (int variant = 0; variant < 4; variant++)
			for (long code = 0; code < total2; code++) {
				char hdr[128];
				/* notification type filter: everything / Recovery only; users subscribed to everything / user 1 to Problem|Recovery */
				bool host = variant == 1 || variant == 3, recoveryOnly = variant == 1 || variant == 2, startDetached = variant >= 2;
				snprintf(hdr, sizeof hdr, "C %c 60 - - %d 63 1 2 1 511 63 0 1 96 63 0", host ? 'h' : 's', recoveryOnly ? 64 : 511);
				Must(hdr);
				if (host)
					Must("O 0 - - 96 63 0 3 2");
				Must("S 2 1 1");
				if (startDetached)
					Must("H 0");
				long c = code;
				for (int i = 0; i < L2; i++) { Must(kAlpha2[c % A2]); c /= A2; }
				Must("H 1");
				Must("N 32 0");
				Must("N 16 0");
			}
		}
		/* (b) random part */
		Rng rng(seed);
		int n = thorough ? 100000 : 10000;
		int maxLen = thorough ? 60 : 30;
		for (int i = 0; i < n; i++) {
			GenState g;
			for (const std::string& hl : RandomHeader(rng, g))
				Must(hl.c_str());
			int len = 1 + (int)rng.below(maxLen);
			for (int j = 0; j < len; j++) {
				char buf[64];
				/* half of the cases start with a state change, else most short cases never leave OK/Up */
				if (j == 0 && rng.coin())
					RandomStateOp(rng, g, buf, sizeof buf);
				else
					RandomOp(rng, g, buf, sizeof buf);
				Must(buf);
			}
		}
		Teardown();
	} else if (mode == "ops") {
		if (argc < 3) return 2;
		FILE *f = fopen(argv[2], "r");
		if (!f) { perror("open"); return 2; }
		char line[1024];
		while (fgets(line, sizeof line, f)) {
			if (line[0] == '\n' || line[0] == '#') continue;
			if (!ExecLine(line)) { fflush(stdout); fprintf(stderr, "bad line: %s", line); _exit(2); }
		}
		fclose(f);
		Teardown();
	} else {
		return 2;
	}
	fflush(stdout);
	_exit(0);
}

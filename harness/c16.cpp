/* C16 harness: apply rules (Service/Notification/Dependency/ScheduledDowntime, `to Host` / `to Service`, `for` loops,
 * assign/ignore filters) loaded through the production commit path, and the name-index fast path that
 * ApplyRule::AddTargetedRule and FilterUtility::GetFilterTargets share (ApplyRule::GetTargetHosts/GetTargetServices).
 *
 * ApplyRule / ConfigItem are process-global: every configuration load runs in a freshly exec'ed child
 * (`h_c16 child <inv|plain|wrap> <conc>`, case lines on stdin). The top-level process (gen / ops) never initialises
 * Icinga; it generates/parses cases, runs the children (pool of 16) and prints the merged lines in case order.
 *
 * Lines (text after " | " is the implementation's observation; stripped on input):
 *   C <n> <tag>                                         | boundH=<names> boundS=<names>   (inv child: the names
 *                                                       FilterUtility::EvaluateFilter binds for a Host / Service target)
 *   K <NAME> <val>                                      const NAME = <val>
 *   U <name> <val>                                      var <name> = <val>   (top level; captured by rules with u=<name>)
 *   H <name> <os> <groups> <arr> <dict> <mix> [j=<pec>]           object Host
 *   S <host> <short> <os> <groups> <arr> <dict> <mix> [j=<pec>]   object Service
 *       j= joins: p check_period = "tp", e event_command = "ecmd", c command_endpoint = "ep" + zone = "z"
 *   O <i> <dsl text>                                    | h=<bits> s=<bits>        (inv child: truth of the atom per H / S line)
 *   R <id> <src> <tgt> <name> <for> <fk> <fv> <bodyhost> [a=<expr>]... [i=<expr>]... [u=<name>[,<name>...]]...
 *                                                       u= renders as `use (n1, n2)` in the apply header
 *                                                       the a= / i= tokens are the assign / ignore statements of the rule body and are
 *                                                       printed in the order given (any interleaving)
 *   L <concs> [q][x]                                    | p1=<res> w1=<res> [p16=<res> w16=<res>] [q1=<res>] [x1=<res>]
 *                                                       q / x: also load the PERMUTED text as written / wrapped (Concurrency 1): rules in
 *                                                       reverse order (in front of the objects), the statements of each rule in reverse
 *                                                       order (in front of the attributes), services and hosts in reverse order
 *   L ... late=<h>[,<h>!<s>]...                         | ... l1=<res>   two-stage commit: everything except the named hosts (with their
 *                                                       services) and services, then - same process, new ActivationContext - those
 *   A <H|S> <expr> <fv> [p=<expr>]                      p=: the query comes from an ApiUser with permissions = [ { permission = "*",
 *                                                       filter = {{ <expr> }} } ]; observation gains pb=<bits>: truth of the permission filter per
 *                                                       H / S line of the queried type (E: raised)
 *   A <H|S> <expr> <fv>                                 | fast=<ares> slow=<ares> dups=<n> nf=<n> ns=<n> qf=<c> qs=<c> af=<c> as=<c>
 *                                                       nf/ns: entries FilterUtility::GetFilterTargets returned (-1: raised) for the filter as
 *                                                       written / wrapped; qf/qs and af/as: entries of `results` of GET /v1/objects/<type> and
 *                                                       POST /v1/actions/reschedule-check through HttpHandler::ProcessRequest (e<status>: not 200;
 *                                                       x: HTTP layer unavailable in this child)
 * The full format (values, prefix expressions, rendering, observations) is described in _work/scratch/c16/PROTOCOL.md.
 *
 * Modes:  gen --seed S --tier quick|thorough [--cases N] [--print-only]   (quick 4000 cases, L 1 q, L 1,16 qx on every 3rd;
 *                                                                         thorough 18000 cases, all L 1,16 qx)
 *         ops FILE
 *         child <inv|plain|wrap|perm|permwrap> <conc>    (internal: one configuration load, case lines on stdin)
 * The children do not call ConfigItem::ActivateItems: the observations are taken right after a successful CommitItems.
 * Every rendered filter is compiled separately in the child and its AST compared with the prefix form (FATAL if different).
 * Env:    C16_DEBUG=1  children keep stderr and print `# ...` diagnostics (config text, error texts)
 *         C16_JOBS=n   size of the child pool (default 16)
 */
#include "common.hpp"
#include "icinga/notification.hpp"
#include "icinga/dependency.hpp"
#include "icinga/scheduleddowntime.hpp"
#include "remote/apiuser.hpp"
#include "remote/filterutility.hpp"
#include "config/configcompiler.hpp"
#include "config/configitem.hpp"
#include "config/activationcontext.hpp"
#include "config/expression.hpp"
#include "base/workqueue.hpp"
#include "base/scriptframe.hpp"
#include "base/scriptglobal.hpp"
#include "base/namespace.hpp"
#include "base/configuration.hpp"
#include "base/exception.hpp"
#include "base/io-engine.hpp"
#include "base/tlsstream.hpp"
#include "remote/httphandler.hpp"
#include "remote/httpserverconnection.hpp"
#include <boost/asio/spawn.hpp>
#include <boost/beast/http.hpp>
#include <algorithm>
#include <atomic>
#include <condition_variable>
#include <functional>
#include <map>
#include <memory>
#include <mutex>
#include <set>
#include <stdexcept>
#include <thread>
#include <fcntl.h>
#include <signal.h>
#include <sys/wait.h>

using namespace icinga;
using namespace vh;

/* ------------------------------------------------------------------------------------------ strings */

struct Bad : std::runtime_error {
	using std::runtime_error::runtime_error;
};

static std::vector<std::string> Split(const std::string& s, char sep)
{
	std::vector<std::string> out;
	std::string cur;
	for (char c : s) {
		if (c == sep) { out.push_back(cur); cur.clear(); } else cur += c;
	}
	out.push_back(cur);
	return out;
}

static std::vector<std::string> Words(const std::string& s)
{
	std::vector<std::string> out;
	std::istringstream is(s);
	std::string w;
	while (is >> w) out.push_back(w);
	return out;
}

static std::string Join(const std::vector<std::string>& v, const char *sep)
{
	std::string o;
	for (size_t i = 0; i < v.size(); i++) o += (i ? sep : "") + v[i];
	return o;
}

static std::string Quote(const std::string& s)
{
	std::string o = "\"";
	for (char c : s) {
		if (c == '"' || c == '\\') o += '\\';
		o += c;
	}
	return o + "\"";
}

static bool IsIdent(const std::string& s)
{
	static const std::set<std::string> kw = {
		"object", "template", "include", "include_recursive", "include_zones", "library", "null", "true", "false", "const",
		"var", "this", "globals", "locals", "use", "using", "namespace", "default", "ignore_on_error", "current_filename",
		"current_line", "debugger", "apply", "to", "where", "import", "assign", "ignore", "function", "return", "break",
		"continue", "for", "if", "else", "while", "throw", "try", "except", "in", "__function", "__return", "__for"
	};
	if (s.empty() || !(isalpha((unsigned char)s[0]) || s[0] == '_')) return false;
	for (char c : s)
		if (!(isalnum((unsigned char)c) || c == '_')) return false;
	return !kw.count(s);
}

static bool IsNumberText(const std::string& s)
{
	size_t i = 0;
	if (i < s.size() && s[i] == '-') i++;
	size_t d = 0;
	while (i < s.size() && isdigit((unsigned char)s[i])) { i++; d++; }
	if (i < s.size() && s[i] == '.') {
		i++;
		while (i < s.size() && isdigit((unsigned char)s[i])) { i++; d++; }
	}
	return d > 0 && i == s.size();
}

/* ------------------------------------------------------------------------------------------ values */

static std::string ValDsl(const std::string& tok)
{
	if (!tok.empty()) {
		if (tok[0] == '\'') return Quote(tok.substr(1));
		if (tok[0] == '#' && IsNumberText(tok.substr(1))) return tok.substr(1);
		if (tok == "T") return "true";
		if (tok == "F") return "false";
		if (tok == "N") return "null";
	}
	throw Bad("bad value '" + tok + "'");
}

static Value ValValue(const std::string& tok)
{
	if (!tok.empty()) {
		if (tok[0] == '\'') return String(tok.substr(1));
		if (tok[0] == '#' && IsNumberText(tok.substr(1))) return atof(tok.c_str() + 1);
		if (tok == "T") return true;
		if (tok == "F") return false;
		if (tok == "N") return Empty;
	}
	throw Bad("bad value '" + tok + "'");
}

static std::string ValEnc(const Value& v)
{
	switch (v.GetType()) {
	case ValueEmpty: return "N";
	case ValueString: return "'" + std::string(v.Get<String>().GetData());
	case ValueBoolean: return v.Get<bool>() ? "T" : "F";
	case ValueNumber: {
		double d = v.Get<double>();
		char buf[64];
		if (d == (double)(long long)d) snprintf(buf, sizeof buf, "#%lld", (long long)d);
		else snprintf(buf, sizeof buf, "#%g", d);
		return buf;
	}
	default: return "?" + std::string(v.GetTypeName().GetData());
	}
}

static std::string ListDsl(const std::string& tok)
{
	if (tok == "e" || tok.empty()) return "[]";
	std::vector<std::string> v;
	for (auto& t : Split(tok, ',')) v.push_back(ValDsl(t));
	return "[ " + Join(v, ", ") + " ]";
}

static std::string NameListDsl(const std::string& tok)
{
	if (tok == "e" || tok.empty()) return "[]";
	std::vector<std::string> v;
	for (auto& t : Split(tok, ',')) v.push_back(Quote(t));
	return "[ " + Join(v, ", ") + " ]";
}

static std::vector<std::pair<std::string, std::string>> KvList(const std::string& tok)
{
	std::vector<std::pair<std::string, std::string>> out;
	if (tok == "e" || tok.empty()) return out;
	for (auto& t : Split(tok, ',')) {
		auto eq = t.find('=');
		if (eq == std::string::npos || eq == 0) throw Bad("bad key=value '" + t + "'");
		out.emplace_back(t.substr(0, eq), t.substr(eq + 1));
	}
	return out;
}

static std::string DictDsl(const std::string& tok)
{
	auto kvs = KvList(tok);
	if (kvs.empty()) return "{}";
	std::vector<std::string> v;
	for (auto& kv : kvs) v.push_back((IsIdent(kv.first) ? kv.first : Quote(kv.first)) + " = " + ValDsl(kv.second));
	return "{ " + Join(v, ", ") + " }";
}

static std::string MixDsl(const std::string& tok)
{
	if (tok.compare(0, 2, "a:") == 0) return ListDsl(tok.substr(2));
	if (tok.compare(0, 2, "d:") == 0) return DictDsl(tok.substr(2));
	throw Bad("bad mix '" + tok + "'");
}

/* ------------------------------------------------------------------------------------------ expressions */

struct Ex;
typedef std::shared_ptr<Ex> P;

struct Ex {
	char k = 'T';  /* S string, # number, T F N, V variable, . indexer, = ~ & | binary, ! not, ( parentheses, @ atom */
	std::string s;
	P a, b;
};

static P Mk(char k, const std::string& s = "", P a = nullptr, P b = nullptr)
{
	P e = std::make_shared<Ex>();
	e->k = k; e->s = s; e->a = std::move(a); e->b = std::move(b);
	return e;
}

static P Clone(const P& e)
{
	if (!e) return nullptr;
	return Mk(e->k, e->s, Clone(e->a), Clone(e->b));
}

static P ParseEx(const std::string& t, size_t& i)
{
	if (i >= t.size()) throw Bad("expression ends early");
	char c = t[i++];
	switch (c) {
	case '\'': case '#': case '$': case '@': {
		auto e = t.find(';', i);
		if (e == std::string::npos) throw Bad("missing ;");
		std::string s = t.substr(i, e - i);
		i = e + 1;
		if (c == '#' && (!IsNumberText(s) || s[0] == '-')) throw Bad("bad number literal (a negative number is not a literal in the DSL)");
		if (c == '@' && (s.empty() || s.find_first_not_of("0123456789") != std::string::npos)) throw Bad("bad atom");
		if (c == '$' && !IsIdent(s)) throw Bad("bad variable");
		return Mk(c == '\'' ? 'S' : c == '$' ? 'V' : c, s);
	}
	case 'T': case 'F': case 'N':
		return Mk(c);
	case '.': case '=': case '~': case '&': case '|': {
		P a = ParseEx(t, i);
		P b = ParseEx(t, i);
		return Mk(c, "", a, b);
	}
	case '!': case '(':
		return Mk(c, "", ParseEx(t, i));
	default:
		throw Bad(std::string("bad expression char '") + c + "'");
	}
}

static P ParseExpr(const std::string& t)
{
	size_t i = 0;
	P e = ParseEx(t, i);
	if (i != t.size()) throw Bad("trailing text in expression");
	return e;
}

static std::string Enc(const P& e)
{
	switch (e->k) {
	case 'S': return "'" + e->s + ";";
	case '#': return "#" + e->s + ";";
	case 'V': return "$" + e->s + ";";
	case '@': return "@" + e->s + ";";
	case 'T': case 'F': case 'N': return std::string(1, e->k);
	case '!': case '(': return std::string(1, e->k) + Enc(e->a);
	default: return std::string(1, e->k) + Enc(e->a) + Enc(e->b);
	}
}

static bool IsBin(const P& e) { return e->k == '|' || e->k == '&' || e->k == '=' || e->k == '~'; }

static int Prec(const P& e)
{
	switch (e->k) {
	case '|': return 1;
	case '&': return 2;
	case '=': case '~': return 3;
	case '!': return 4;
	default: return 5;
	}
}

typedef std::map<int, std::string> Atoms;

/* Renders exactly the AST shape the prefix form describes (see PROTOCOL.md, "expressions"). */
static std::string Dsl(const P& e, const Atoms& atoms)
{
	auto par = [](const std::string& s) { return "(" + s + ")"; };
	switch (e->k) {
	case 'S': return Quote(e->s);
	case '#': return e->s;
	case 'V': return e->s;
	case 'T': return "true";
	case 'F': return "false";
	case 'N': return "null";
	case '@': {
		auto it = atoms.find(atoi(e->s.c_str()));
		if (it == atoms.end()) throw Bad("atom @" + e->s + " is not defined");
		return par(it->second);
	}
	case '(': return par(Dsl(e->a, atoms));
	case '!': {
		std::string a = Dsl(e->a, atoms);
		return "!" + (IsBin(e->a) ? par(a) : a);
	}
	case '|': case '&': {
		int p = Prec(e);
		std::string l = Dsl(e->a, atoms), r = Dsl(e->b, atoms);
		if ((IsBin(e->a) || e->a->k == '!') && Prec(e->a) < p) l = par(l);
		if ((IsBin(e->b) || e->b->k == '!') && Prec(e->b) <= p) r = par(r);
		return l + (e->k == '|' ? " || " : " && ") + r;
	}
	case '=': case '~': {
		std::string l = Dsl(e->a, atoms), r = Dsl(e->b, atoms);
		if (IsBin(e->a)) l = par(l);
		if (IsBin(e->b)) r = par(r);
		return l + (e->k == '=' ? " == " : " != ") + r;
	}
	case '.': {
		std::string a = Dsl(e->a, atoms);
		if (e->b->k == 'S' && IsIdent(e->b->s) && (e->a->k == 'V' || e->a->k == '.'))
			return a + "." + e->b->s;
		if (!(e->a->k == 'V' || e->a->k == '.' || e->a->k == '(' || e->a->k == '@')) a = par(a);
		return a + "[" + Dsl(e->b, atoms) + "]";
	}
	}
	throw Bad("bad node");
}

/* ------------------------------------------------------------------------------------------ cases */

struct HostL { std::string name, os, groups, arr, dict, mix, joins; };
struct SvcL { std::string host, name, os, groups, arr, dict, mix, joins; };
struct RuleL {
	std::string id, src, tgt, name, forSpec, fk, fv;
	int bodyhost = 0;
	std::vector<std::string> assigns, ignores, uses;
	std::vector<std::pair<char, std::string>> stmts;  /* the a= / i= tokens in the order given: the order of the statements */
};
struct ALine { char type = 'H'; std::string expr, fv, perm; };  /* perm: the ApiUser's permission filter (prefix form), "" = unrestricted */

struct Case {
	std::vector<std::string> lines;  /* normalised, observations stripped */
	std::vector<char> kinds;         /* first letter of each line */
	std::vector<std::pair<std::string, std::string>> consts;
	std::vector<std::pair<std::string, std::string>> uvars;
	std::vector<HostL> hosts;
	std::vector<SvcL> svcs;
	std::vector<std::pair<int, std::string>> olines;
	Atoms atoms;
	std::vector<RuleL> rules;
	std::vector<int> concs;
	bool hasL = false;
	bool permQ = false, permX = false;  /* L ... q / x: also load the permuted text as written (q1=) / wrapped (x1=) */
	std::vector<std::string> late;      /* L ... late=<h>,<h>!<s>: hosts (with their services) and services committed in a second stage (l1=) */
	std::vector<ALine> alines;
};

/* Strips the observation, normalises blanks. Returns false for lines that are ignored on input. */
static bool NormaliseLine(std::string s, std::string& out)
{
	size_t bar = s.find(" | ");
	if (bar != std::string::npos) s.erase(bar);
	while (!s.empty() && (s.back() == '\n' || s.back() == '\r' || s.back() == ' ' || s.back() == '\t')) s.pop_back();
	size_t b = s.find_first_not_of(" \t");
	if (b == std::string::npos) return false;
	s.erase(0, b);
	/* "L 1 |" style leftovers */
	if (s.size() >= 2 && s.compare(s.size() - 2, 2, " |") == 0) s.erase(s.size() - 2);
	if (s.empty() || s[0] == '#' || s.compare(0, 5, "STATS") == 0) return false;
	if (s[0] == 'O') {
		/* the DSL text is kept verbatim */
		std::istringstream is(s);
		std::string o, idx;
		is >> o >> idx;
		std::string rest;
		std::getline(is, rest);
		size_t rb = rest.find_first_not_of(" \t");
		rest = rb == std::string::npos ? "" : rest.substr(rb);
		out = o + " " + idx + (rest.empty() ? "" : " " + rest);
		return true;
	}
	out = Join(Words(s), " ");
	return true;
}

/* the optional trailing j=<letters> token of H and S lines */
static std::string TakeJoins(std::vector<std::string>& w)
{
	if (w.empty() || w.back().compare(0, 2, "j=") != 0) return "";
	std::string j = w.back().substr(2);
	for (char ch : j)
		if (ch != 'p' && ch != 'e' && ch != 'c') throw Bad("bad joins '" + j + "'");
	w.pop_back();
	return j;
}

static void ParseCaseLine(Case& c, const std::string& line)
{
	auto w = Words(line);
	if (w.empty()) throw Bad("empty line");
	c.lines.push_back(line);
	c.kinds.push_back(w[0].size() == 1 ? w[0][0] : '?');
	if (w[0] == "C") {
		if (c.lines.size() != 1) throw Bad("C inside a case");
	} else if (w[0] == "K") {
		if (w.size() != 3 || !IsIdent(w[1])) throw Bad("bad K line");
		ValDsl(w[2]);
		c.consts.emplace_back(w[1], w[2]);
	} else if (w[0] == "U") {
		if (w.size() != 3 || !IsIdent(w[1])) throw Bad("bad U line");
		ValDsl(w[2]);
		c.uvars.emplace_back(w[1], w[2]);
	} else if (w[0] == "H") {
		std::string j = TakeJoins(w);
		if (w.size() != 7) throw Bad("bad H line");
		c.hosts.push_back({ w[1], w[2], w[3], w[4], w[5], w[6], j });
	} else if (w[0] == "S") {
		std::string j = TakeJoins(w);
		if (w.size() != 8) throw Bad("bad S line");
		c.svcs.push_back({ w[1], w[2], w[3], w[4], w[5], w[6], w[7], j });
	} else if (w[0] == "O") {
		if (w.size() < 3 || w[1].find_first_not_of("0123456789") != std::string::npos) throw Bad("bad O line");
		size_t p = line.find(w[1], 1) + w[1].size();
		std::string text = line.substr(line.find_first_not_of(' ', p));
		int i = atoi(w[1].c_str());
		if (c.atoms.count(i)) throw Bad("duplicate atom");
		c.atoms[i] = text;
		c.olines.emplace_back(i, text);
	} else if (w[0] == "R") {
		if (w.size() < 9) throw Bad("bad R line");
		RuleL r;
		r.id = w[1]; r.src = w[2]; r.tgt = w[3]; r.name = w[4]; r.forSpec = w[5]; r.fk = w[6]; r.fv = w[7];
		if (w[8] != "0" && w[8] != "1") throw Bad("bad bodyhost");
		r.bodyhost = w[8] == "1";
		if (r.src != "S" && r.src != "N" && r.src != "D" && r.src != "T") throw Bad("bad rule source type");
		if (r.tgt != "H" && r.tgt != "S") throw Bad("bad rule target type");
		for (size_t i = 9; i < w.size(); i++) {
			if (w[i].compare(0, 2, "a=") == 0) { r.assigns.push_back(w[i].substr(2)); r.stmts.emplace_back('a', w[i].substr(2)); }
			else if (w[i].compare(0, 2, "i=") == 0) { r.ignores.push_back(w[i].substr(2)); r.stmts.emplace_back('i', w[i].substr(2)); }
			else if (w[i].compare(0, 2, "u=") == 0) {
				for (auto& n : Split(w[i].substr(2), ',')) {
					if (!IsIdent(n)) throw Bad("bad use name '" + n + "'");
					r.uses.push_back(n);
				}
			}
			else throw Bad("bad rule token '" + w[i] + "'");
		}
		c.rules.push_back(r);
	} else if (w[0] == "L") {
		if (w.size() < 2 || w.size() > 4 || c.hasL) throw Bad("bad L line");
		for (size_t i = 2; i < w.size(); i++) {
			if (w[i].compare(0, 5, "late=") == 0) {
				if (!c.late.empty()) throw Bad("bad L line");
				for (auto& n : Split(w[i].substr(5), ',')) {
					if (n.empty() || n == "zp") throw Bad("bad late target");
					c.late.push_back(n);
				}
				if (c.late.empty()) throw Bad("bad late list");
				continue;
			}
			for (char ch : w[i]) {
				if (ch == 'q') c.permQ = true;
				else if (ch == 'x') c.permX = true;
				else throw Bad("bad L variants");
			}
		}
		for (auto& t : Split(w[1], ',')) {
			int n = atoi(t.c_str());
			if (n < 1 || n > 256 || t.find_first_not_of("0123456789") != std::string::npos) throw Bad("bad concurrency");
			c.concs.push_back(n);
		}
		c.hasL = true;
	} else if (w[0] == "A") {
		if ((w.size() != 4 && w.size() != 5) || (w[1] != "H" && w[1] != "S")) throw Bad("bad A line");
		ALine a;
		a.type = w[1][0]; a.expr = w[2]; a.fv = w[3];
		if (w.size() == 5) {
			if (w[4].compare(0, 2, "p=") != 0 || w[4].size() < 3) throw Bad("bad A permission filter");
			a.perm = w[4].substr(2);
		}
		c.alines.push_back(a);
	} else
		throw Bad("unknown line '" + line + "'");
}

/* ------------------------------------------------------------------------------------------ config text */

static std::string Preamble()
{
	std::string t =
		"object CheckCommand \"dummy\" { execute = function(checkable, cr, resolvedMacros, useResolvedMacros) { } }\n"
		"object NotificationCommand \"ncmd\" { execute = function(notification, user, cr, itype, author, comment, resolvedMacros, useResolvedMacros) { } }\n"
		"object User \"u\" { }\n"
		"object TimePeriod \"tp\" { update = function(tp, begin, end) { return [] } }\n"
		"object EventCommand \"ecmd\" { execute = function(checkable, resolvedMacros, useResolvedMacros) { } }\n"
		"object Endpoint \"ep\" { }\n"
		"object Zone \"z\" { endpoints = [ \"ep\" ] }\n";
	for (const char *g : { "g1", "g2", "g3" }) t += std::string("object HostGroup \"") + g + "\" { }\n";
	for (const char *g : { "sg1", "sg2" }) t += std::string("object ServiceGroup \"") + g + "\" { }\n";
	return t;
}

static std::string VarsText(const std::string& os, const std::string& groups, const std::string& arr, const std::string& dict,
	const std::string& mix, const std::string& joins)
{
	std::string t;
	if (joins.find('p') != std::string::npos) t += "  check_period = \"tp\"\n";
	if (joins.find('e') != std::string::npos) t += "  event_command = \"ecmd\"\n";
	if (joins.find('c') != std::string::npos) t += "  command_endpoint = \"ep\"\n  zone = \"z\"\n";
	if (os != "-") t += "  vars.os = " + ValDsl(os) + "\n";
	if (groups != "-") t += "  groups = " + NameListDsl(groups) + "\n";
	if (arr != "-") t += "  vars.arr = " + ListDsl(arr) + "\n";
	if (dict != "-") t += "  vars.dict = " + DictDsl(dict) + "\n";
	if (mix != "-") t += "  vars.mix = " + MixDsl(mix) + "\n";
	return t;
}

static std::string GlobalsText(const Case& c)
{
	std::string t;
	for (auto& k : c.consts) t += "const " + k.first + " = " + ValDsl(k.second) + "\n";
	for (auto& u : c.uvars) t += "var " + u.first + " = " + ValDsl(u.second) + "\n";
	return t;
}

static std::string HostText(const HostL& h)
{
	return "object Host " + Quote(h.name) + " {\n  check_command = \"dummy\"\n" + VarsText(h.os, h.groups, h.arr, h.dict, h.mix, h.joins) + "}\n";
}

static std::string SvcText(const SvcL& s)
{
	return "object Service " + Quote(s.name) + " {\n  host_name = " + Quote(s.host) + "\n  check_command = \"dummy\"\n"
		+ VarsText(s.os, s.groups, s.arr, s.dict, s.mix, s.joins) + "}\n";
}

static std::string RuleText(const Case& c, const RuleL& r, bool wrap, bool perm)
{
	std::string t;
	const char *type = r.src == "S" ? "Service" : r.src == "N" ? "Notification" : r.src == "D" ? "Dependency" : "ScheduledDowntime";
	std::string tv = r.tgt == "H" ? "host" : "service";
	t += std::string("apply ") + type + " " + Quote(r.name);
	if (r.forSpec != "-") {
		std::string term;
		if (r.forSpec.compare(0, 2, "L:") == 0) term = ListDsl(r.forSpec.substr(2));
		else if (r.forSpec.compare(0, 2, "M:") == 0) term = DictDsl(r.forSpec.substr(2));
		else if (r.forSpec == "arr" || r.forSpec == "dict" || r.forSpec == "mix") term = tv + ".vars." + r.forSpec;
		else if (r.forSpec == "harr" || r.forSpec == "hdict" || r.forSpec == "hmix") term = "host.vars." + r.forSpec.substr(1);
		else throw Bad("bad for '" + r.forSpec + "'");
		if (r.fk == "-") throw Bad("for without loop variable");
		t += " for (" + r.fk + (r.fv != "-" ? " => " + r.fv : "") + " in " + term + ")";
	}
	t += std::string(" to ") + (r.tgt == "H" ? "Host" : "Service");
	if (!r.uses.empty()) t += " use (" + Join(r.uses, ", ") + ")";
	t += " {\n";
	/* the assign / ignore statements in the order of the R line's tokens (reversed in the permuted variant); the permuted
	 * variant also puts them in front of the attribute assignments */
	std::string st;
	std::vector<std::pair<char, std::string>> stmts = r.stmts;
	if (perm) std::reverse(stmts.begin(), stmts.end());
	for (auto& s : stmts) {
		std::string f = Dsl(ParseExpr(s.second), c.atoms);
		if (s.first == 'a') st += "  assign where " + (wrap ? "(" + f + ") && true" : f) + "\n";
		else st += "  ignore where " + f + "\n";
	}
	if (perm) t += st;
	if (r.src == "S") t += "  check_command = \"dummy\"\n";
	else if (r.src == "N") t += "  command = \"ncmd\"\n  users = [ \"u\" ]\n";
	else if (r.src == "D") t += "  parent_host_name = \"zp\"\n";
	else t += "  author = \"a\"\n  comment = \"c\"\n  ranges = { monday = \"00:00-01:00\" }\n";
	if (r.fk != "-") t += "  vars.k = " + r.fk + "\n";
	if (r.fv != "-") t += "  vars.v = " + r.fv + "\n";
	if (r.bodyhost) {
		t += "  vars.hn = host.name\n";
		if (r.tgt == "S") t += "  vars.sn = service.name\n";
	}
	if (!perm) t += st;
	t += "}\n";
	return t;
}

/* The configuration of a case. As written: constants, variables, hosts, services, rules - each in the order of the case's
 * lines. Permuted (`perm`): constants, variables (the rules capture them), then the rules in reverse order - so a `to Service`
 * rule may precede the `apply Service` rule that creates its targets - each with its assign/ignore statements in reverse
 * order, then the services and the hosts, both in reverse order. */
static std::string ConfigText(const Case& c, bool rules, bool wrap, bool perm)
{
	std::string t = GlobalsText(c);
	if (!perm) {
		for (auto& h : c.hosts) t += HostText(h);
		for (auto& s : c.svcs) t += SvcText(s);
		if (rules)
			for (auto& r : c.rules) t += RuleText(c, r, wrap, false);
	} else {
		if (rules)
			for (auto it = c.rules.rbegin(); it != c.rules.rend(); ++it) t += RuleText(c, *it, wrap, true);
		for (auto it = c.svcs.rbegin(); it != c.svcs.rend(); ++it) t += SvcText(*it);
		for (auto it = c.hosts.rbegin(); it != c.hosts.rend(); ++it) t += HostText(*it);
	}
	return t;
}

/* The configuration of a case in two stages (`L ... late=`): first everything except the late hosts (with their services) and
 * the late services, then - in a second commit with an ActivationContext of its own, the way ConfigObjectUtility::CreateObject
 * commits a runtime-created object - the late objects. The apply rules are all part of the first stage. */
static bool IsLateHost(const Case& c, const std::string& h)
{
	return std::find(c.late.begin(), c.late.end(), h) != c.late.end();
}

static bool IsLateSvc(const Case& c, const SvcL& s)
{
	return IsLateHost(c, s.host) || std::find(c.late.begin(), c.late.end(), s.host + "!" + s.name) != c.late.end();
}

static void StageTexts(const Case& c, std::string& first, std::string& second)
{
	first = GlobalsText(c);
	second.clear();
	for (auto& h : c.hosts) (IsLateHost(c, h.name) ? second : first) += HostText(h);
	for (auto& s : c.svcs) (IsLateSvc(c, s) ? second : first) += SvcText(s);
	for (auto& r : c.rules) first += RuleText(c, r, false, false);
}

/* ------------------------------------------------------------------------------------------ child */

static bool l_Debug = false;

namespace vh {
VH_ROB_MEMBER(RobUnaryOperand, UnaryExpression, std::unique_ptr<Expression>, m_Operand)
}

/* Self-check of the rendering: does the parser build exactly the AST the prefix form describes? Atoms are opaque. */
static bool SameAst(const P& e0, Expression *x)
{
	P e = e0;
	while (e->k == '(') e = e->a;
	if (!x) return false;
	auto lit = [&](ValueType t) -> const Value * {
		auto l = dynamic_cast<LiteralExpression *>(x);
		return l && l->GetValue().GetType() == t ? &l->GetValue() : nullptr;
	};
	switch (e->k) {
	case '@': return true;
	case 'S': { auto v = lit(ValueString); return v && v->Get<String>() == String(e->s); }
	case '#': { auto v = lit(ValueNumber); return v && v->Get<double>() == atof(e->s.c_str()); }
	case 'T': { auto v = lit(ValueBoolean); return v && v->Get<bool>(); }
	case 'F': { auto v = lit(ValueBoolean); return v && !v->Get<bool>(); }
	case 'N': return lit(ValueEmpty) != nullptr;
	case 'V': { auto v = dynamic_cast<VariableExpression *>(x); return v && v->GetVariable() == String(e->s); }
	case '!': {
		auto n = dynamic_cast<LogicalNegateExpression *>(x);
		return n && SameAst(e->a, (static_cast<UnaryExpression *>(n)->*get(RobUnaryOperand())).get());
	}
	case '.': case '=': case '~': case '&': case '|': {
		BinaryExpression *b = nullptr;
		if (e->k == '.') b = dynamic_cast<IndexerExpression *>(x);
		else if (e->k == '=') b = dynamic_cast<EqualExpression *>(x);
		else if (e->k == '~') b = dynamic_cast<NotEqualExpression *>(x);
		else if (e->k == '&') b = dynamic_cast<LogicalAndExpression *>(x);
		else b = dynamic_cast<LogicalOrExpression *>(x);
		return b && SameAst(e->a, b->GetOperand1().get()) && SameAst(e->b, b->GetOperand2().get());
	}
	}
	return false;
}

static bool HasAtom(const P& e) { return e && (e->k == '@' || HasAtom(e->a) || HasAtom(e->b)); }

static void CheckRendering(const std::string& prefix, const Atoms& atoms)
{
	P e = ParseExpr(prefix);
	std::string dsl = Dsl(e, atoms);
	std::unique_ptr<Expression> x;
	try {
		x = ConfigCompiler::CompileText("<selfcheck>", dsl);
	} catch (const std::exception&) {
		if (HasAtom(e)) return; /* an atom text that does not compile: the load reports it */
		throw Bad("rendering of " + prefix + " does not compile: " + dsl);
	}
	auto dict = dynamic_cast<DictExpression *>(x.get());
	if (!dict || dict->GetExpressions().size() != 1u || !SameAst(e, dict->GetExpressions().at(0).get()))
		throw Bad("rendering of " + prefix + " parses to a different AST: " + dsl);
}

/* Loads one text the way DaemonUtility::LoadConfigFiles does: compile + evaluate inside an ActivationScope, freeze the
 * globals, commit with a WorkQueue of Configuration::Concurrency threads. The objects are registered by ConfigItem::Commit;
 * they are deliberately not activated (no timers, no checks). */
static bool LoadConfig(const std::string& text, int conc, std::string& err)
{
	Configuration::Concurrency = conc;
	try {
		ActivationScope ascope;

		std::unique_ptr<Expression> expr = ConfigCompiler::CompileText("<c16>", text);
		if (!expr) {
			err = "compile returned null";
			return false;
		}

		ScriptFrame frame(true);
		expr->Evaluate(frame);
		expr.reset();

		ScriptGlobal::GetGlobals()->Freeze();

		WorkQueue upq(25000, Configuration::Concurrency);
		upq.SetName("c16");

		std::vector<ConfigItem::Ptr> newItems;

		if (!ConfigItem::CommitItems(ascope.GetContext(), upq, newItems, true)) {
			for (const boost::exception_ptr& ex : upq.GetExceptions())
				err += std::string(DiagnosticInformation(ex, false).GetData()) + "\n";
			if (err.empty())
				err = "commit failed without exception";
			return false;
		}
	} catch (const std::exception& ex) {
		err = DiagnosticInformation(ex, false).GetData();
		if (err.empty())
			err = "exception";
		return false;
	} catch (...) {
		err = "unknown exception";
		return false;
	}
	return true;
}

static void DebugText(const char *what, const std::string& text)
{
	if (!l_Debug) return;
	std::istringstream is(text);
	std::string l;
	while (std::getline(is, l)) printf("# %s: %s\n", what, l.c_str());
}

template<typename T>
static void Collect(const std::set<std::string>& declared, std::vector<std::string>& out)
{
	for (const auto& o : ConfigType::GetObjectsByType<T>()) {
		std::string name = o->GetName().GetData();
		std::string type = o->GetReflectionType()->GetName().GetData();
		if (type == "Service" && declared.count(name)) continue;
		Dictionary::Ptr vars = o->GetVars();
		std::string e = type + "/" + name;
		for (const char *key : { "k", "v", "hn", "sn" }) {
			Value v;
			if (vars && vars->Get(key, &v)) e += "/" + ValEnc(v);
			else e += "/-";
		}
		out.push_back(e);
	}
}

static std::string ObserveObjects(const Case& c)
{
	std::set<std::string> declared;
	for (auto& s : c.svcs) declared.insert(s.host + "!" + s.name);
	std::vector<std::string> out;
	Collect<Service>(declared, out);
	Collect<Notification>(declared, out);
	Collect<Dependency>(declared, out);
	Collect<ScheduledDowntime>(declared, out);
	std::sort(out.begin(), out.end());
	return "ok:" + (out.empty() ? std::string("-") : Join(out, ","));
}

static char EvalAtom(Expression *e, const Host::Ptr& host, const Service::Ptr& service)
{
	if (!e) return 'E';
	try {
		ScriptFrame frame(true);
		frame.Locals->Set("host", host);
		if (service) frame.Locals->Set("service", service);
		Value v = e->Evaluate(frame);
		return v.ToBool() ? '1' : '0';
	} catch (const std::exception&) {
		return 'E';
	} catch (...) {
		return 'E';
	}
}

static std::string RunQuery(const char *type, const std::string& filter, const Dictionary::Ptr& fvars, const ApiUser::Ptr& user, int *dups,
	int *total = nullptr, bool restricted = false)
{
	if (dups) *dups = 0;
	if (total) *total = -1;
	try {
		QueryDescription qd;
		qd.Types.insert(type);
		/* a restricted user: the permission the object query handler asks for, so that CheckPermission hands out the user's filter */
		qd.Permission = restricted ? "objects/query/" + String(type) : String("");
		Dictionary::Ptr query = new Dictionary();
		query->Set("type", String(type));
		query->Set("filter", String(filter));
		if (fvars) query->Set("filter_vars", fvars->ShallowClone());
		std::vector<Value> objs = FilterUtility::GetFilterTargets(qd, query, user);
		std::vector<std::string> names;
		for (const Value& v : objs) {
			ConfigObject::Ptr o = v;
			names.push_back(o ? std::string(o->GetName().GetData()) : std::string("?null"));
		}
		std::sort(names.begin(), names.end());
		size_t before = names.size();
		names.erase(std::unique(names.begin(), names.end()), names.end());
		if (dups) *dups = (int)(before - names.size());
		if (total) *total = (int)before;
		return "ok:" + (names.empty() ? std::string("-") : Join(names, ","));
	} catch (const std::exception& ex) {
		if (l_Debug) DebugText("query error", DiagnosticInformation(ex, false).GetData());
		return "err";
	} catch (...) {
		return "err";
	}
}

/* ---- the real HTTP handlers (HttpHandler::ProcessRequest -> ObjectQueryHandler / ActionsHandler), as harness/c18.cpp drives them:
 * a connected loopback socket pair under an AsioTlsStream that no handler touches, one coroutine per request */

static boost::asio::io_context l_Io;
static Shared<AsioTlsStream>::Ptr l_Stream;
static HttpServerConnection::Ptr l_Conn;
static bool l_HttpOk = false;

static bool InitHttp()
{
	namespace asio = boost::asio;
	using tcp = asio::ip::tcp;
	try {
		static asio::ssl::context ssl(asio::ssl::context::tls);
		static tcp::acceptor acc(l_Io, tcp::endpoint(asio::ip::address_v4::loopback(), 0));
		static tcp::socket peer(l_Io);
		l_Stream = Shared<AsioTlsStream>::Make(l_Io, ssl);
		l_Stream->lowest_layer().connect(acc.local_endpoint());
		acc.accept(peer);
		l_Conn = new HttpServerConnection("verif", false, l_Stream);
		l_HttpOk = true;
	} catch (const std::exception& ex) {
		if (l_Debug) printf("# HTTP layer unavailable: %s\n", ex.what());
		l_HttpOk = false;
	}
	return l_HttpOk;
}

/* One request through HttpHandler::ProcessRequest. Returns the number of entries of the response's `results` array
 * (one per object the handler visited), or e<status> when the status is not 200, or "x" if the HTTP layer is unavailable. */
static std::string HttpResults(boost::beast::http::verb verb, const std::string& target, const Dictionary::Ptr& body, const ApiUser::Ptr& user)
{
	namespace http = boost::beast::http;
	if (!l_HttpOk) return "x";
	http::request<http::string_body> req{verb, target, 11};
	http::response<http::string_body> resp;
	req.set(http::field::accept, "application/json");
	req.body() = JsonEncode(body).GetData();
	req.prepare_payload();
	bool crashed = false;
	IoEngine::SpawnCoroutine(l_Io, [&](boost::asio::yield_context yc) {
		try { HttpHandler::ProcessRequest(*l_Stream, user, req, resp, yc, *l_Conn); } catch (const std::exception&) { crashed = true; }
	});
	l_Io.run();
	l_Io.restart();
	if (crashed) return "e599";
	int status = (int)resp.result_int();
	if (status != 200) return "e" + std::to_string(status);
	try {
		Dictionary::Ptr r = JsonDecode(resp.body());
		Array::Ptr results = r->Get("results");
		return std::to_string(results ? (long)results->GetLength() : -1L);
	} catch (const std::exception&) {
		return "e598";
	}
}

static Dictionary::Ptr HttpBody(const char *type, const std::string& filter, const Dictionary::Ptr& fvars)
{
	Dictionary::Ptr body = new Dictionary();
	body->Set("type", String(type));
	body->Set("filter", String(filter));
	if (fvars) body->Set("filter_vars", fvars->ShallowClone());
	return body;
}

/* The names FilterUtility::EvaluateFilter binds in the frame for a target of this type (same loop, by reflection). */
static std::string BoundNames(const char *typeName)
{
	Type::Ptr type = Type::GetByName(typeName);
	if (!type) return "?";
	std::set<std::string> names;
	names.insert("obj");
	names.insert(type->GetName().ToLower().GetData());
	for (int fid = 0; fid < type->GetFieldCount(); fid++) {
		Field field = type->GetFieldInfo(fid);
		if ((field.Attributes & FANavigation) == 0) continue;
		names.insert(field.NavigationName ? field.NavigationName : field.Name);
	}
	return Join(std::vector<std::string>(names.begin(), names.end()), ",");
}

static int ChildMain(const std::string& variant, int conc)
{
	alarm(300);   /* wall clock: a hang of the real code ends the child; 60 s was reached on an oversubscribed machine (load > 100) */
	l_Debug = getenv("C16_DEBUG") != nullptr;
	if (!l_Debug) {
		int devnull = open("/dev/null", O_WRONLY);
		if (devnull >= 0) {
			dup2(devnull, 2);
			close(devnull);
		}
	}
	static char outbuf[1 << 16];
	setvbuf(stdout, outbuf, _IOFBF, sizeof outbuf);

	if (variant == "bound") {
		InitIcinga();
		printf("C boundH=%s boundS=%s\nEND\n", BoundNames("Host").c_str(), BoundNames("Service").c_str());
		fflush(stdout);
		_exit(0);
	}

	Case c;
	std::string text, text2;
	try {
		std::string raw, line;
		char buf[4096];
		ssize_t n;
		while ((n = read(0, buf, sizeof buf)) > 0) raw.append(buf, n);
		std::istringstream is(raw);
		while (std::getline(is, line)) {
			std::string norm;
			if (NormaliseLine(line, norm)) ParseCaseLine(c, norm);
		}
		if (variant == "plain") text = Preamble() + ConfigText(c, true, false, false);
		else if (variant == "wrap") text = Preamble() + ConfigText(c, true, true, false);
		else if (variant == "perm") text = Preamble() + ConfigText(c, true, false, true);
		else if (variant == "permwrap") text = Preamble() + ConfigText(c, true, true, true);
		else if (variant == "inv") text = Preamble() + ConfigText(c, false, false, false);
		else if (variant == "late") {
			if (c.late.empty()) throw Bad("late variant without late targets");
			std::string first;
			StageTexts(c, first, text2);
			text = Preamble() + first;
		}
		else throw Bad("bad variant");
	} catch (const std::exception& ex) {
		printf("FATAL %s\n", ex.what());
		fflush(stdout);
		_exit(3);
	}
	DebugText("cfg", text);

	InitIcinga();

	try {
		if (variant == "inv") {
			for (auto& a : c.alines) {
				CheckRendering(a.expr, c.atoms);
				if (!a.perm.empty()) CheckRendering(a.perm, c.atoms);
			}
		} else {
			for (auto& r : c.rules) {
				for (auto& a : r.assigns) CheckRendering(a, c.atoms);
				for (auto& i : r.ignores) CheckRendering(i, c.atoms);
			}
		}
	} catch (const std::exception& ex) {
		printf("FATAL %s\n", ex.what());
		fflush(stdout);
		_exit(3);
	}

	std::string err;
	bool ok = LoadConfig(text, conc, err);
	if (!ok) DebugText("load error", err);
	if (ok && variant == "late") {
		/* the second stage: the same process, the same rule registry, a new ActivationContext */
		DebugText("cfg2", text2);
		ok = LoadConfig(text2, conc, err);
		if (!ok) DebugText("load error (stage 2)", err);
	}

	if (variant != "inv") {
		printf("R %s\n", ok ? ObserveObjects(c).c_str() : "rejected");
	} else {
		if (ok) printf("C boundH=%s boundS=%s\n", BoundNames("Host").c_str(), BoundNames("Service").c_str());
		else printf("C boundH=? boundS=?\n");
		std::vector<Host::Ptr> hosts;
		std::vector<Service::Ptr> svcs;
		if (ok) {
			for (auto& h : c.hosts) hosts.push_back(Host::GetByName(h.name));
			for (auto& s : c.svcs) svcs.push_back(Service::GetByNamePair(s.host, s.name));
		}
		for (auto& o : c.olines) {
			if (!ok) { printf("O h=? s=?\n"); continue; }
			std::unique_ptr<Expression> e;
			try { e = ConfigCompiler::CompileText("<atom>", o.second); } catch (const std::exception&) { e.reset(); }
			std::string hb, sb;
			for (auto& h : hosts) hb += h ? EvalAtom(e.get(), h, nullptr) : '?';
			for (auto& s : svcs) sb += s ? EvalAtom(e.get(), s->GetHost(), s) : '?';
			printf("O h=%s s=%s\n", hb.empty() ? "-" : hb.c_str(), sb.empty() ? "-" : sb.c_str());
		}
		ApiUser::Ptr user0 = new ApiUser();
		user0->SetName("c16");
		user0->SetPermissions(new Array({ String("*") }));
		if (ok && !c.alines.empty()) InitHttp();
		for (auto& a : c.alines) {
			if (!ok) { printf("A fast=? slow=? dups=0\n"); continue; }
			std::string fast, slow, qf, qs, af, as, pb;
			int dups = 0, nf = -1, ns = -1;
			ApiUser::Ptr user = user0;
			bool restricted = !a.perm.empty();
			try {
				if (restricted) {
					/* an ApiUser whose permissions carry a filter function: permissions = [ { permission = "*", filter = {{ P }} } ].
					 * pb=: the truth of P per object of the queried type, evaluated the way EvaluatePermissionFilter does it
					 * (FilterUtility::EvaluateFilter in a namespace of its own), one object at a time */
					std::string pdsl = Dsl(ParseExpr(a.perm), c.atoms);
					std::unique_ptr<Expression> pe = ConfigCompiler::CompileText("<perm>", "{{ " + pdsl + " }}");
					ScriptFrame pframe(true);
					Value fn = pe->Evaluate(pframe);
					Dictionary::Ptr pd = new Dictionary();
					pd->Set("permission", String("*"));
					pd->Set("filter", fn);
					user = new ApiUser();
					user->SetName("c16r");
					user->SetPermissions(new Array({ Value(pd) }));
					std::unique_ptr<Expression> pfilter;
					FilterUtility::CheckPermission(user, "objects/query/host", &pfilter);
					auto bit = [&](const ConfigObject::Ptr& o) -> char {
						if (!o || !pfilter) return '?';
						try {
							Namespace::Ptr ns = new Namespace();
							ScriptFrame f(false, ns);
							return FilterUtility::EvaluateFilter(f, pfilter.get(), o) ? '1' : '0';
						} catch (const std::exception&) { return 'E'; }
					};
					if (a.type == 'H') for (auto& h : hosts) pb += bit(h);
					else for (auto& s : svcs) pb += bit(s);
					if (pb.empty()) pb = "-";
				}
				std::string dsl = Dsl(ParseExpr(a.expr), c.atoms);
				std::string wrapped = "(" + dsl + ") && true";
				Dictionary::Ptr fvars;
				if (a.fv != "-") {
					fvars = new Dictionary();
					for (auto& kv : KvList(a.fv)) fvars->Set(kv.first, ValValue(kv.second));
				}
				const char *type = a.type == 'H' ? "Host" : "Service";
				if (l_Debug) printf("# filter: %s\n", dsl.c_str());
				fast = RunQuery(type, dsl, fvars, user, &dups, &nf, restricted);
				slow = RunQuery(type, wrapped, fvars, user, nullptr, &ns, restricted);
				/* the same two filters through the real handlers: GET /v1/objects/<type> and POST /v1/actions/reschedule-check
				 * (an action that only sets next_check / force_next_check; every visit of an object is one entry of `results`) */
				namespace http = boost::beast::http;
				std::string otarget = a.type == 'H' ? "/v1/objects/hosts" : "/v1/objects/services";
				qf = HttpResults(http::verb::get, otarget, HttpBody(type, dsl, fvars), user);
				qs = HttpResults(http::verb::get, otarget, HttpBody(type, wrapped, fvars), user);
				af = HttpResults(http::verb::post, "/v1/actions/reschedule-check", HttpBody(type, dsl, fvars), user);
				as = HttpResults(http::verb::post, "/v1/actions/reschedule-check", HttpBody(type, wrapped, fvars), user);
			} catch (const std::exception& ex) {
				printf("FATAL %s\n", ex.what());
				fflush(stdout);
				_exit(3);
			}
			printf("A fast=%s slow=%s dups=%d nf=%d ns=%d qf=%s qs=%s af=%s as=%s%s%s\n", fast.c_str(), slow.c_str(), dups, nf, ns,
				qf.c_str(), qs.c_str(), af.c_str(), as.c_str(), restricted ? " pb=" : "", pb.c_str());
		}
	}
	printf("END\n");
	fflush(stdout);
	_exit(0);
}

/* ------------------------------------------------------------------------------------------ parent: running children */

struct Job {
	size_t ci = 0;
	std::string variant;
	int conc = 1;
	std::vector<std::string> out;
	bool ok = false;
	std::string why;
};

struct CaseRun {
	Case c;
	std::string input;
	std::string parseError;
	std::vector<size_t> jobs;
	int remaining = 0;
};

static bool WriteAll(int fd, const std::string& s)
{
	size_t off = 0;
	while (off < s.size()) {
		ssize_t n = write(fd, s.data() + off, s.size() - off);
		if (n < 0) {
			if (errno == EINTR) continue;
			return false;
		}
		off += (size_t)n;
	}
	return true;
}

static void RunChild(const std::string& input, Job& j)
{
	int in[2], out[2];
	if (pipe2(in, O_CLOEXEC) != 0) { j.why = "pipe"; return; }
	if (pipe2(out, O_CLOEXEC) != 0) { close(in[0]); close(in[1]); j.why = "pipe"; return; }
	std::string concs = std::to_string(j.conc);
	char *argv[] = { (char *)"h_c16", (char *)"child", (char *)j.variant.c_str(), (char *)concs.c_str(), nullptr };
	pid_t pid = fork();
	if (pid < 0) {
		close(in[0]); close(in[1]); close(out[0]); close(out[1]);
		j.why = "fork";
		return;
	}
	if (pid == 0) {
		/* only async-signal-safe calls up to the exec */
		dup2(in[0], 0);
		dup2(out[1], 1);
		signal(SIGPIPE, SIG_DFL);
		execv("/proc/self/exe", argv);
		_exit(127);
	}
	close(in[0]);
	close(out[1]);
	WriteAll(in[1], input);
	close(in[1]);
	std::string data;
	char buf[8192];
	for (;;) {
		ssize_t n = read(out[0], buf, sizeof buf);
		if (n < 0 && errno == EINTR) continue;
		if (n <= 0) break;
		data.append(buf, (size_t)n);
	}
	close(out[0]);
	int status = 0;
	while (waitpid(pid, &status, 0) < 0 && errno == EINTR) { }
	std::istringstream is(data);
	std::string l;
	while (std::getline(is, l)) j.out.push_back(l);
	if (WIFSIGNALED(status)) j.why = "child killed by signal " + std::to_string(WTERMSIG(status));
	else if (!WIFEXITED(status) || WEXITSTATUS(status) != 0) {
		j.why = "child exit status " + std::to_string(WIFEXITED(status) ? WEXITSTATUS(status) : -1);
		for (auto& o : j.out) if (o.compare(0, 5, "FATAL") == 0) j.why += ": " + o.substr(5);
	} else if (j.out.empty() || j.out.back() != "END") j.why = "child output incomplete";
	else j.ok = true;
}

/* The lines of a job's output with the given prefix letter (debug `#` lines skipped). */
static std::vector<std::string> OutLines(const Job& j, char k)
{
	std::vector<std::string> v;
	for (auto& l : j.out)
		if (l.size() >= 2 && l[0] == k && l[1] == ' ') v.push_back(l.substr(2));
	return v;
}

static int PrintCase(const CaseRun& cr, const std::vector<Job>& jobs)
{
	const Case& c = cr.c;
	std::string tag = c.lines.empty() ? "?" : c.lines[0];
	if (!cr.parseError.empty()) {
		printf("FATAL %s: %s\n", tag.c_str(), cr.parseError.c_str());
		return 3;
	}
	const Job *inv = nullptr;
	std::map<std::string, const Job *> byKey;
	for (size_t ji : cr.jobs) {
		const Job& j = jobs[ji];
		if (!j.ok) {
			printf("FATAL %s: %s %d: %s\n", tag.c_str(), j.variant.c_str(), j.conc, j.why.c_str());
			return 3;
		}
		if (j.variant == "inv") inv = &j;
		else byKey[std::string(j.variant == "plain" ? "p" : j.variant == "wrap" ? "w" : j.variant == "perm" ? "q" : j.variant == "late" ? "l" : "x") + std::to_string(j.conc)] = &j;
	}
	std::vector<std::string> oobs, aobs, cobs;
	if (inv) {
		oobs = OutLines(*inv, 'O');
		aobs = OutLines(*inv, 'A');
		cobs = OutLines(*inv, 'C');
		if (oobs.size() != c.olines.size() || aobs.size() != c.alines.size() || cobs.size() != 1) {
			printf("FATAL %s: inv child printed %zu/%zu O and %zu/%zu A lines\n", tag.c_str(), oobs.size(), c.olines.size(),
				aobs.size(), c.alines.size());
			return 3;
		}
	}
	std::string lobs;
	for (int conc : c.concs) {
		for (const char *v : { "p", "w" }) {
			auto it = byKey.find(v + std::to_string(conc));
			std::vector<std::string> r;
			if (it != byKey.end()) r = OutLines(*it->second, 'R');
			if (r.size() != 1) {
				printf("FATAL %s: no result of %s%d\n", tag.c_str(), v, conc);
				return 3;
			}
			lobs += (lobs.empty() ? "" : " ") + std::string(v) + std::to_string(conc) + "=" + r[0];
		}
	}
	for (const char *v : { "q", "x", "l" }) {
		if (!(v[0] == 'q' ? c.permQ : v[0] == 'x' ? c.permX : !c.late.empty())) continue;
		auto it = byKey.find(std::string(v) + "1");
		std::vector<std::string> r;
		if (it != byKey.end()) r = OutLines(*it->second, 'R');
		if (r.size() != 1) {
			printf("FATAL %s: no result of %s1\n", tag.c_str(), v);
			return 3;
		}
		lobs += (lobs.empty() ? "" : " ") + std::string(v) + "1=" + r[0];
	}
	size_t oi = 0, ai = 0;
	for (size_t i = 0; i < c.lines.size(); i++) {
		switch (c.kinds[i]) {
		case 'C':
			if (cobs.size() == 1) printf("%s | %s\n", c.lines[i].c_str(), cobs[0].c_str());
			else printf("%s\n", c.lines[i].c_str());
			break;
		case 'O': printf("%s | %s\n", c.lines[i].c_str(), oobs[oi++].c_str()); break;
		case 'A': printf("%s | %s\n", c.lines[i].c_str(), aobs[ai++].c_str()); break;
		case 'L': printf("%s | %s\n", c.lines[i].c_str(), lobs.c_str()); break;
		default: printf("%s\n", c.lines[i].c_str());
		}
	}
	if (l_Debug)
		for (size_t ji : cr.jobs)
			for (auto& l : jobs[ji].out)
				if (l.size() >= 2 && l[0] == '#') printf("# [%s %d] %s\n", jobs[ji].variant.c_str(), jobs[ji].conc, l.c_str() + 2);
	return 0;
}

static int RunAll(const std::vector<std::string>& lines)
{
	/* split into cases */
	std::vector<std::unique_ptr<CaseRun>> cases;
	int rc = 0;
	for (auto& raw : lines) {
		std::string s;
		if (!NormaliseLine(raw, s)) continue;
		if (s[0] == 'C' && (s.size() == 1 || s[1] == ' ')) cases.emplace_back(new CaseRun());
		if (cases.empty()) {
			printf("FATAL line before the first case: %s\n", s.c_str());
			rc = 3;
			continue;
		}
		CaseRun& cr = *cases.back();
		cr.input += s + "\n";
		if (!cr.parseError.empty()) continue;
		try {
			ParseCaseLine(cr.c, s);
		} catch (const std::exception& ex) {
			cr.parseError = ex.what();
		}
	}

	std::vector<Job> jobs;
	for (size_t ci = 0; ci < cases.size(); ci++) {
		CaseRun& cr = *cases[ci];
		if (!cr.parseError.empty()) continue;
		/* things only the child notices otherwise: check the renderings here so that a bad case costs no processes */
		try {
			ConfigText(cr.c, true, true, false);
			for (auto& a : cr.c.alines) {
				Dsl(ParseExpr(a.expr), cr.c.atoms);
				if (!a.perm.empty()) Dsl(ParseExpr(a.perm), cr.c.atoms);
				if (a.fv != "-") for (auto& kv : KvList(a.fv)) ValDsl(kv.second);
			}
		} catch (const std::exception& ex) {
			cr.parseError = ex.what();
			continue;
		}
		auto add = [&](const char *variant, int conc) {
			Job j;
			j.ci = ci; j.variant = variant; j.conc = conc;
			cr.jobs.push_back(jobs.size());
			jobs.push_back(std::move(j));
		};
		add("inv", 1);
		for (int conc : cr.c.concs) {
			add("plain", conc);
			add("wrap", conc);
		}
		if (cr.c.permQ) add("perm", 1);
		if (cr.c.permX) add("permwrap", 1);
		if (!cr.c.late.empty()) add("late", 1);
		cr.remaining = (int)cr.jobs.size();
	}

	signal(SIGPIPE, SIG_IGN);

	std::mutex mtx;
	std::condition_variable cv;
	std::atomic<size_t> next(0);
	int nthreads = atoi(getenv("C16_JOBS") ? getenv("C16_JOBS") : "16");
	if (nthreads < 1) nthreads = 1;
	std::vector<std::thread> pool;
	for (int t = 0; t < nthreads; t++) {
		pool.emplace_back([&]() {
			for (;;) {
				size_t ji = next.fetch_add(1);
				if (ji >= jobs.size()) return;
				Job& j = jobs[ji];
				RunChild(cases[j.ci]->input, j);
				std::unique_lock<std::mutex> lock(mtx);
				if (--cases[j.ci]->remaining == 0) cv.notify_all();
			}
		});
	}

	for (size_t ci = 0; ci < cases.size(); ci++) {
		CaseRun& cr = *cases[ci];
		{
			std::unique_lock<std::mutex> lock(mtx);
			cv.wait(lock, [&]() { return cr.remaining == 0; });
		}
		int r = PrintCase(cr, jobs);
		if (r) rc = r;
		for (size_t ji : cr.jobs) { jobs[ji].out.clear(); jobs[ji].out.shrink_to_fit(); }
		if ((ci & 15) == 15 || ci + 1 == cases.size()) {
			if (fflush(stdout) != 0 || ferror(stdout)) {
				/* reader went away: stop spawning and leave */
				next.store(jobs.size());
				for (auto& th : pool) th.join();
				_exit(1);
			}
		}
	}
	for (auto& th : pool) th.join();
	fflush(stdout);
	return rc;
}

/* ------------------------------------------------------------------------------------------ generator */

static const struct { const char *text; bool svc; } kAtoms[] = {
	{ "host.vars.os == \"linux\"", false },
	{ "\"g1\" in host.groups", false },
	{ "match(\"h[0-2]\", host.name)", false },
	{ "host.vars.os", false },
	{ "host.name in [ \"h0\", \"h3\" ]", false },
	{ "service.vars.os == \"linux\"", true },
	{ "\"sg1\" in service.groups", true },
	{ "match(\"s*\", service.name)", true },
	{ "len(host.groups) > 1", false },
};
static const int kAtomsN = sizeof(kAtoms) / sizeof(*kAtoms);

struct Gen {
	Rng& r;
	bool hasK = false;
	std::vector<std::string> hosts;                          /* incl. zp */
	std::vector<std::pair<std::string, std::string>> svcs;   /* host, short name */
	std::vector<bool> atomSvc;
	bool avoidZp = false;  /* a Dependency rule that applies to host zp makes zp its own parent: the load is rejected */
	std::set<std::string> uvars;              /* U variables of the case (ux, us, un, host) */
	std::vector<std::string> created;         /* short names of services the case's S->H rules can create (cascade cases) */
	bool useCreated = false;                  /* the rule being generated is a ->S rule of a cascade case */
	std::vector<std::string> boundH, boundS;  /* names EvaluateFilter binds for a Host / Service target (from `child bound`) */
	std::vector<std::string> leakNames;       /* constants of the case that share their name with loop / closure variables of its rules */

	explicit Gen(Rng& rng) : r(rng) { }

	bool pct(int p) { return (int)r.below(100) < p; }

	P Str(const std::string& s) { return Mk('S', s); }
	P Var(const std::string& s) { return Mk('V', s); }
	P Par(P a) { return Mk('(', "", a); }
	P Not(P a) { return Mk('!', "", a); }
	P Bin(char k, P a, P b) { return Mk(k, "", a, b); }

	std::string PickHost()
	{
		int k = (int)r.below(10);
		if (k < 7 && !hosts.empty()) {
			const std::string& h = hosts[r.below(hosts.size())];
			if (!(avoidZp && h == "zp")) return h;
		}
		if (k < 9) return "h" + std::to_string(r.below(6));
		return "h9";
	}

	std::pair<std::string, std::string> PickSvc()
	{
		static const char *names[] = { "s0", "s1", "s2", "ping", "s9" };
		if (useCreated && !created.empty() && pct(40)) return { PickHost(), created[r.below(created.size())] };
		int k = (int)r.below(10);
		if (k < 7 && !svcs.empty()) return svcs[r.below(svcs.size())];
		return { PickHost(), names[r.below(k < 9 ? 4 : 5)] };
	}

	P NameCmp(const char *var, const std::string& name)
	{
		P ix = Bin('.', Var(var), Str("name"));
		if (r.below(12) == 0) ix = Par(ix);
		P lit = Str(name);
		if (r.below(24) == 0) lit = Par(lit);
		P e = r.coin() ? Bin('=', ix, lit) : Bin('=', lit, ix);
		if (r.below(6) == 0) e = Par(e);
		return e;
	}

	P Disjunct(char tgt)
	{
		if (tgt == 'H') return NameCmp("host", PickHost());
		auto hs = PickSvc();
		P a = NameCmp("host", hs.first), b = NameCmp("service", hs.second);
		P e = r.coin() ? Bin('&', a, b) : Bin('&', b, a);
		if (r.below(6) == 0) e = Par(e);
		return e;
	}

	P Fold(const std::vector<P>& list)
	{
		P f = list[0];
		for (size_t i = 1; i < list.size(); i++) {
			f = r.coin() ? Bin('|', f, list[i]) : Bin('|', list[i], f);
			if (r.below(8) == 0) f = Par(f);
		}
		return f;
	}

	std::vector<P> Disjuncts(char tgt)
	{
		std::vector<P> list;
		int n = 1 + (int)r.below(3);
		for (int i = 0; i < n; i++) list.push_back(Disjunct(tgt));
		if (r.below(5) == 0) list.insert(list.begin() + r.below(list.size() + 1), Clone(list[r.below(list.size())]));
		return list;
	}

	P AtomOrTrue(char tgt, bool noAtoms)
	{
		if (noAtoms || atomSvc.empty()) return Mk('T');
		std::vector<int> ok;
		bool misuse = r.below(20) == 0;
		for (size_t i = 0; i < atomSvc.size(); i++)
			if (misuse || !atomSvc[i] || tgt == 'S') ok.push_back((int)i);
		if (ok.empty()) return Mk('T');
		return Mk('@', std::to_string(ok[r.below(ok.size())]));
	}

	static void Walk(const P& e, const std::function<void(const P&)>& f)
	{
		if (!e) return;
		f(e);
		Walk(e->a, f);
		Walk(e->b, f);
	}

	std::vector<P> Nodes(const P& root, const std::function<bool(const P&)>& pred)
	{
		std::vector<P> v;
		Walk(root, [&](const P& e) { if (pred(e)) v.push_back(e); });
		return v;
	}

	/* ONE near-miss mutation of a recognisable filter; returns the (deep-copied) result */
	P Mutate(const P& orig, char tgt, bool noAtoms)
	{
		P root = Clone(orig);
		for (int attempt = 0; attempt < 8; attempt++) {
			int m = (int)r.below(8);
			switch (m) {
			case 0: { /* == -> != */
				auto v = Nodes(root, [](const P& e) { return e->k == '='; });
				if (v.empty()) break;
				v[r.below(v.size())]->k = '~';
				return root;
			}
			case 1: { /* a compared literal becomes a constant reference or a number */
				auto v = Nodes(root, [](const P& e) { return e->k == 'S' && e->s != "name"; });
				if (v.empty()) break;
				P n = v[r.below(v.size())];
				int k = (int)r.below(10);
				if (hasK && k < 5) { std::string c = (n->s[0] == 'h' || n->s[0] == 'z') ? "HN" : "SN"; n->k = 'V'; n->s = c; }
				else if (hasK && k < 7) { n->k = 'V'; n->s = "NUM"; }
				else { n->k = '#'; n->s = "1"; }
				return root;
			}
			case 2: { /* "name" becomes a constant reference */
				if (!hasK) break;
				auto v = Nodes(root, [](const P& e) { return e->k == 'S' && e->s == "name"; });
				if (v.empty()) break;
				P n = v[r.below(v.size())];
				n->k = 'V'; n->s = "NAMEF";
				return root;
			}
			case 3: { /* an extra conjunct */
				auto v = Nodes(root, [&](const P& e) { return e == root || e->k == '=' || e->k == '&'; });
				P n = v[r.below(v.size())];
				P old = Mk(n->k, n->s, n->a, n->b);
				P extra = r.coin() ? AtomOrTrue(tgt, noAtoms) : Mk('T');
				n->k = '&'; n->s.clear();
				if (r.coin()) { n->a = old; n->b = extra; } else { n->a = extra; n->b = old; }
				return root;
			}
			case 4: { /* host <-> service in one place */
				auto v = Nodes(root, [](const P& e) { return e->k == 'V' && (e->s == "host" || e->s == "service"); });
				if (v.empty()) break;
				P n = v[r.below(v.size())];
				n->s = n->s == "host" ? "service" : "host";
				return root;
			}
			case 5: { /* target Service: one of the two comparisons dropped or duplicated */
				auto v = Nodes(root, [](const P& e) { return e->k == '&'; });
				if (v.empty()) break;
				P n = v[r.below(v.size())];
				if (r.coin()) {
					P keep = r.coin() ? n->a : n->b;
					*n = *keep;
				} else {
					if (r.coin()) n->b = Clone(n->a); else n->a = Clone(n->b);
				}
				return root;
			}
			case 6: { /* || -> && */
				auto v = Nodes(root, [](const P& e) { return e->k == '|'; });
				if (v.empty()) break;
				v[r.below(v.size())]->k = '&';
				return root;
			}
			default: { /* a ! in front */
				auto v = Nodes(root, [&](const P& e) { return e == root || e->k == '=' || e->k == '&' || e->k == '|'; });
				P n = v[r.below(v.size())];
				P old = Mk(n->k, n->s, n->a, n->b);
				n->k = '!'; n->s.clear(); n->a = old; n->b = nullptr;
				return root;
			}
			}
		}
		return root;
	}

	P RandEx(int depth, char tgt, bool noAtoms)
	{
		if (depth <= 0 || r.below(3) == 0) {
			int k = (int)r.below(10);
			if (k < 3) return NameCmp("host", PickHost());
			if (k < 4) return tgt == 'S' ? NameCmp("service", PickSvc().second) : NameCmp("host", PickHost());
			if (k < 5) return Disjunct(tgt);
			if (k < 8) return AtomOrTrue(tgt, noAtoms);
			return Mk(k == 8 ? 'T' : 'F');
		}
		switch (r.below(7)) {
		case 0: return Not(RandEx(depth - 1, tgt, noAtoms));
		case 1: case 2: return Bin('&', RandEx(depth - 1, tgt, noAtoms), RandEx(depth - 1, tgt, noAtoms));
		case 3: case 4: case 5: return Bin('|', RandEx(depth - 1, tgt, noAtoms), RandEx(depth - 1, tgt, noAtoms));
		default: return Par(RandEx(depth - 1, tgt, noAtoms));
		}
	}

	std::string ValTok()
	{
		static const char *vals[] = { "'a", "'b", "'c", "#1", "#2" };
		return vals[r.below(5)];
	}

	std::string DistinctVals(int n)
	{
		static const char *vals[] = { "'a", "'b", "'c", "#1", "#2" };
		std::vector<int> idx = { 0, 1, 2, 3, 4 };
		for (int i = 4; i > 0; i--) std::swap(idx[i], idx[r.below(i + 1)]);
		std::vector<std::string> v;
		for (int i = 0; i < n; i++) v.push_back(vals[idx[i]]);
		return v.empty() ? "e" : Join(v, ",");
	}

	std::string DictVals(int n)
	{
		static const char *keys[] = { "x", "y", "z" };
		std::vector<int> idx = { 0, 1, 2 };
		for (int i = 2; i > 0; i--) std::swap(idx[i], idx[r.below(i + 1)]);
		std::vector<std::string> v;
		for (int i = 0; i < n; i++) v.push_back(std::string(keys[idx[i]]) + "=" + ValTok());
		return v.empty() ? "e" : Join(v, ",");
	}

	std::string VarFields(bool host)
	{
		static const char *os[] = { "'linux", "'win", "-" };
		std::string t = os[r.below(3)];
		/* groups */
		std::vector<std::string> g;
		if (host) { for (const char *n : { "g1", "g2", "g3" }) if (r.below(3) == 0) g.push_back(n); }
		else { for (const char *n : { "sg1", "sg2" }) if (r.below(3) == 0) g.push_back(n); }
		t += " " + (g.empty() ? std::string("-") : Join(g, ","));
		t += " " + (r.below(4) == 0 ? std::string("-") : DistinctVals((int)r.below(4)));
		t += " " + (r.below(4) == 0 ? std::string("-") : DictVals((int)r.below(4)));
		int m = (int)r.below(5);
		if (m < 2) t += " -";
		else if (m < 4) t += " a:" + DistinctVals((int)r.below(4));
		else t += " d:" + DictVals((int)r.below(4));
		/* joins: the navigation fields EvaluateFilter binds are non-null on ~35 % of the objects */
		if (pct(35)) {
			std::string j;
			int k = (int)r.below(20);
			if (k == 0) j = r.coin() ? "c" : (r.coin() ? "pc" : "pec");
			else if (k < 8) j = "p";
			else if (k < 15) j = "e";
			else j = "pe";
			t += " j=" + j;
		}
		return t;
	}

	/* Replaces one compared literal by $ux; / $us; or one 'name; by $un; (whichever U variables the case has): a captured
	 * variable is not a literal. Returns the variable referenced ("" if nothing could be replaced). */
	std::string SubstUse(const P& root)
	{
		struct Cand { P node; std::string var; };
		std::vector<Cand> cands;
		std::function<void(const P&, const std::string&)> walk = [&](const P& e, const std::string& side) {
			if (!e) return;
			if (e->k == '=' || e->k == '~') {
				/* which name is compared here? */
				std::string v;
				Walk(e, [&](const P& x) { if (x->k == 'V' && (x->s == "host" || x->s == "service")) v = x->s; });
				walk(e->a, v);
				walk(e->b, v);
				return;
			}
			if (e->k == 'S') {
				if (e->s == "name") { if (uvars.count("un")) cands.push_back({ e, "un" }); }
				else if (side == "service") { if (uvars.count("us")) cands.push_back({ e, "us" }); }
				else if (uvars.count("ux")) cands.push_back({ e, "ux" });
				return;
			}
			walk(e->a, side);
			walk(e->b, side);
		};
		walk(root, "");
		if (cands.empty()) return "";
		Cand& c = cands[r.below(cands.size())];
		c.node->k = 'V';
		c.node->s = c.var;
		return c.var;
	}

	std::string GenRule(int id, char src, char tgt, bool cascadeTarget)
	{
		std::string forSpec = "-", fk = "-", fv = "-";
		bool hasFor = r.coin();
		bool loopHost = false;
		useCreated = cascadeTarget;
		if (hasFor) {
			bool dictLike;
			if (pct(3)) {
				forSpec = (tgt == 'S' && (cascadeTarget || r.coin())) ? "hmix" : "mix";
				dictLike = r.coin();
			} else if (cascadeTarget) {
				/* created services have no vars the model knows about: only host-side and literal for-terms */
				switch (r.below(4)) {
				case 0: forSpec = "L:" + (r.below(3) == 0 ? ValTok() + "," + ValTok() : DistinctVals((int)r.below(4))); dictLike = false; break;
				case 1: forSpec = "M:" + DictVals((int)r.below(4)); dictLike = true; break;
				case 2: forSpec = "harr"; dictLike = false; break;
				default: forSpec = "hdict"; dictLike = true; break;
				}
				if (pct(5)) dictLike = !dictLike;
			} else {
				switch (r.below(6)) {
				case 0: forSpec = "L:" + (r.below(3) == 0 ? ValTok() + "," + ValTok() : DistinctVals((int)r.below(4))); dictLike = false; break;
				case 1: forSpec = "M:" + DictVals((int)r.below(4)); dictLike = true; break;
				case 2: forSpec = "arr"; dictLike = false; break;
				case 3: forSpec = "dict"; dictLike = true; break;
				case 4: forSpec = "harr"; dictLike = false; break;
				default: forSpec = "hdict"; dictLike = true; break;
				}
				if (pct(5)) dictLike = !dictLike;  /* wrong kind of iterator */
			}
			fk = "k";
			if (dictLike) fv = "v";
			if (r.below(1000) < 11) { fk = r.coin() ? "host" : "service"; loopHost = true; }
			else if (dictLike && r.below(1000) < 8) { fv = r.coin() ? "host" : "service"; loopHost = true; }
			else if (dictLike && pct(2)) fv = fk;
		}
		bool noAtoms = loopHost || cascadeTarget;
		int bodyhost = loopHost ? 0 : (pct(60) ? 1 : 0);

		/* captured variables: a random non-empty subset of the case's U variables in ~60 % of the rules */
		std::set<std::string> ruleUses;
		if (!uvars.empty() && pct(60)) {
			for (auto& u : uvars) if (r.coin()) ruleUses.insert(u);
			if (ruleUses.empty()) { auto it = uvars.begin(); std::advance(it, r.below(uvars.size())); ruleUses.insert(*it); }
		}
		/* a reference to a U variable: normally captured, in ~10 % of the uses not (undefined variable when evaluated) */
		auto referenced = [&](const std::string& v) {
			if (v.empty()) return;
			if (pct(10)) ruleUses.erase(v); else ruleUses.insert(v);
		};
		bool haveRef = uvars.count("ux") || uvars.count("us") || uvars.count("un");

		std::vector<std::string> toks;
		bool noAssign = hasFor && pct(5);
		bool pure = false;
		avoidZp = src == 'D' && tgt == 'H';
		if (!noAssign) {
			if (pct(55)) {
				std::vector<P> list = Disjuncts(tgt);
				pure = true;
				if (haveRef && !ruleUses.empty() && pct(50)) {
					/* near miss: a captured variable instead of a literal */
					pure = false;
					P f = Clone(Fold(list));
					referenced(SubstUse(f));
					toks.push_back("a=" + Enc(f));
				} else if (pct(35)) {
					pure = false;
					if (list.size() >= 2 && r.below(9) == 0) {
						/* split over two assign lines: still the same (recognisable) disjunction */
						size_t cut = 1 + r.below(list.size() - 1);
						std::vector<P> l1(list.begin(), list.begin() + cut), l2(list.begin() + cut, list.end());
						toks.push_back("a=" + Enc(Fold(l1)));
						toks.push_back("a=" + Enc(Fold(l2)));
					} else
						toks.push_back("a=" + Enc(Mutate(Fold(list), tgt, noAtoms)));
				} else
					toks.push_back("a=" + Enc(Fold(list)));
			} else {
				P f = RandEx(3, tgt, noAtoms);
				if (haveRef && pct(25)) referenced(SubstUse(f));
				toks.push_back("a=" + Enc(f));
				if (r.below(10) == 0) toks.push_back("a=" + Enc(RandEx(2, tgt, noAtoms)));
			}
		}
		if (pct(25)) {
			P ig = r.coin() ? Disjunct(tgt) : RandEx(2, tgt, noAtoms);
			if (haveRef && pct(30)) referenced(SubstUse(ig));
			toks.push_back("i=" + Enc(ig));
			if (r.below(8) == 0) toks.push_back("i=" + Enc(NameCmp("host", PickHost())));
		}
		/* an `assign where` written below the `ignore where` statements (the combination is about the whole rule) */
		bool hasIgnore = false;
		for (auto& t : toks) if (t.compare(0, 2, "i=") == 0) hasIgnore = true;
		if (hasIgnore && !noAssign && pct(30)) {
			P f = r.coin() ? Disjunct(tgt) : RandEx(2, tgt, noAtoms);
			toks.push_back("a=" + Enc(f));
			pure = false;
		}
		/* keep most Dependency-to-Host rules whose filter is not a plain name list away from zp */
		if (avoidZp && !pure && pct(70)) toks.push_back("i=" + Enc(NameCmp("host", "zp")));
		avoidZp = false;
		useCreated = false;
		/* a compared literal becomes a reference to a GLOBAL constant whose name another rule (or this one) uses for a loop or
		 * closure variable: each rule sees its own variables and the globals, never what another rule bound */
		if (!leakNames.empty() && !toks.empty() && pct(60)) {
			size_t ti = r.below(toks.size());
			P f = ParseExpr(toks[ti].substr(2));
			auto lits = Nodes(f, [](const P& e) { return e->k == 'S' && e->s != "name"; });
			if (!lits.empty()) {
				P n = lits[r.below(lits.size())];
				n->k = 'V';
				n->s = leakNames[r.below(leakNames.size())];
				ruleUses.erase(n->s);
				toks[ti] = toks[ti].substr(0, 2) + Enc(f);
			}
		}
		/* every interleaving of the assign / ignore statements: half of the rules with several statements are shuffled */
		if (toks.size() >= 2 && r.coin())
			for (size_t i = toks.size(); i > 1; i--) std::swap(toks[i - 1], toks[r.below(i)]);
		if (!ruleUses.empty()) {
			std::vector<std::string> names(ruleUses.begin(), ruleUses.end());
			for (size_t i = names.size(); i > 1; i--) std::swap(names[i - 1], names[r.below(i)]);
			toks.insert(toks.begin() + r.below(toks.size() + 1), "u=" + Join(names, ","));
		}
		std::string line = "R " + std::to_string(id) + " " + std::string(1, src) + " " + std::string(1, tgt) + " r" + std::to_string(id) + "- "
			+ forSpec + " " + fk + " " + fv + " " + std::to_string(bodyhost);
		for (auto& t : toks) line += " " + t;
		return line;
	}

	std::string GenA()
	{
		char tgt = r.coin() ? 'H' : 'S';
		int kind = (int)r.below(100);
		std::string fv = "-";
		P e;
		if (kind < 58) {
			e = Fold(Disjuncts(tgt));
			if (pct(35)) e = Mutate(e, tgt, false);
			else e = Clone(e);
			int d = (int)r.below(100);
			if (d < 40) fv = "-";
			else if (d < 50) fv = "e";
			else {
				/* constants from filter_vars */
				std::vector<std::string> kvs;
				auto lits = Nodes(e, [](const P& x) { return x->k == 'S' && x->s != "name"; });
				int nrep = lits.empty() ? 0 : 1 + (int)r.below(std::min<size_t>(lits.size(), 2));
				for (int i = 0; i < nrep; i++) {
					P n = lits[r.below(lits.size())];
					if (n->k != 'S') continue;
					std::string name = "c" + std::to_string(kvs.size());
					int q = (int)r.below(10);
					if (q < 7) kvs.push_back(name + "='" + n->s);
					else if (q < 8) kvs.push_back(name + "=#1");
					else if (q < 9) kvs.push_back(name + "=N");
					else name = "c9"; /* not defined */
					n->k = 'V'; n->s = name;
				}
				if (r.below(4) == 0) {
					auto nm = Nodes(e, [](const P& x) { return x->k == 'S' && x->s == "name"; });
					if (!nm.empty()) {
						P n = nm[r.below(nm.size())];
						n->k = 'V'; n->s = "n";
						kvs.push_back(r.below(12) == 0 ? "n='__name" : "n='name");
					}
				}
				fv = kvs.empty() ? "e" : Join(kvs, ",");
			}
		} else if (kind < 64) {
			/* a filter_vars key that shares its name with what EvaluateFilter binds for the target (obj, host, service,
			 * navigation fields), referenced from the filter as a constant in a fast-path shape */
			const std::vector<std::string>& bound = tgt == 'H' ? boundH : boundS;
			std::string v = bound[r.below(bound.size())];
			auto cmpVar = [&](const char *var) {
				P ix = Bin('.', Var(var), Str("name"));
				return r.coin() ? Bin('=', ix, Var(v)) : Bin('=', Var(v), ix);
			};
			if (tgt == 'H') {
				e = cmpVar("host");
				fv = v + "='" + PickHost();
			} else {
				auto hs = PickSvc();
				bool onHost = r.coin();
				P a = onHost ? cmpVar("host") : NameCmp("host", hs.first);
				P b = onHost ? NameCmp("service", hs.second) : cmpVar("service");
				e = r.coin() ? Bin('&', a, b) : Bin('&', b, a);
				fv = v + "='" + (onHost ? hs.first : hs.second);
			}
			if (r.below(3) == 0) e = r.coin() ? Bin('|', e, Disjunct(tgt)) : Bin('|', Disjunct(tgt), e);
		} else if (kind < 66) {
			/* ... or present in filter_vars without being referenced */
			const std::vector<std::string>& bound = tgt == 'H' ? boundH : boundS;
			std::string v = bound[r.below(bound.size())];
			e = Fold(Disjuncts(tgt));
			fv = v + "='" + (r.coin() ? PickHost() : PickSvc().second);
			if (r.below(3) == 0) {
				auto lits = Nodes(e, [](const P& x) { return x->k == 'S' && x->s != "name"; });
				if (!lits.empty()) {
					P n = lits[r.below(lits.size())];
					fv += ",c0='" + n->s;
					n->k = 'V'; n->s = "c0";
				}
			}
		} else {
			e = RandEx(3, tgt, false);
			if (r.below(6) == 0) fv = "e";
		}
		/* ~25 % of the queries come from an ApiUser whose permission carries a filter: mostly a list of names (or its negation) */
		std::string perm;
		if (pct(25)) {
			P pe;
			int k = (int)r.below(4);
			if (k < 2) {
				std::vector<P> l;
				int n = 1 + (int)r.below(3);
				for (int i = 0; i < n; i++)
					l.push_back(tgt == 'S' && r.coin() ? NameCmp("service", PickSvc().second) : NameCmp("host", PickHost()));
				pe = Clone(Fold(l));
				if (k == 1) pe = Not(pe);
			} else if (k == 2) pe = Clone(Disjunct(tgt));
			else pe = RandEx(2, tgt, false);
			perm = " p=" + Enc(pe);
		}
		return std::string("A ") + tgt + " " + Enc(e) + " " + fv + perm;
	}

	void GenCase(int idx, bool both, std::vector<std::string>& out)
	{
		hosts.clear(); svcs.clear(); atomSvc.clear(); uvars.clear(); created.clear();
		/* rule kinds first: a Dependency rule needs host zp */
		static const char kinds[7][2] = { { 'S', 'H' }, { 'N', 'H' }, { 'N', 'S' }, { 'D', 'H' }, { 'D', 'S' }, { 'T', 'H' }, { 'T', 'S' } };
		int nr = 1 + (int)r.below(4);
		std::vector<int> rk;
		bool hasDep = false;
		/* services created by an `apply Service` rule become targets of the `to Service` rules of the same load (cascade):
		 * half of the cases allow an S->H rule next to ->S rules, the others have either an S->H rule or ->S rules */
		bool allowCascade = r.coin();
		bool hasSH = false, hasToS = false;
		for (int i = 0; i < nr; i++) {
			int k;
			do {
				k = (int)r.below(7);
			} while (!allowCascade && ((k == 0 && hasToS) || (kinds[k][1] == 'S' && hasSH)));
			if (k == 0) hasSH = true;
			if (kinds[k][1] == 'S') hasToS = true;
			rk.push_back(k);
			if (kinds[k][0] == 'D') hasDep = true;
		}
		out.push_back("C " + std::to_string(idx) + " gen");
		hasK = pct(30);
		if (hasK) {
			out.push_back("K HN 'h1");
			out.push_back("K SN 's0");
			out.push_back("K NUM #1");
			out.push_back("K NAMEF 'name");
		}
		/* ~12 % of the cases: global constants named like the loop variables (k, v) and the closure variable (ux) of the rules */
		leakNames.clear();
		bool leak = pct(12);
		bool leakUx = false;
		if (leak) {
			static const char *hn[] = { "'h0", "'h1", "'h2", "'a", "'s0" };
			out.push_back(std::string("K k ") + hn[r.below(5)]);
			leakNames.push_back("k");
			if (r.coin()) { out.push_back(std::string("K v ") + hn[r.below(5)]); leakNames.push_back("v"); }
			if (r.coin()) { out.push_back(std::string("K ux ") + hn[r.below(3)]); leakNames.push_back("ux"); leakUx = true; }
		}
		int nh = 1 + (int)r.below(6);
		std::vector<int> hidx = { 0, 1, 2, 3, 4, 5 };
		for (int i = 5; i > 0; i--) std::swap(hidx[i], hidx[r.below(i + 1)]);
		hidx.resize(nh);
		std::sort(hidx.begin(), hidx.end());
		for (int h : hidx) hosts.push_back("h" + std::to_string(h));
		if (hasDep || r.coin()) hosts.push_back("zp");
		std::vector<std::string> hl, sl;
		static const char *snames[] = { "s0", "s1", "s2", "ping" };
		for (auto& h : hosts) {
			hl.push_back("H " + h + " " + VarFields(true));
			int ns = (int)r.below(4);
			std::vector<int> si = { 0, 1, 2, 3 };
			for (int i = 3; i > 0; i--) std::swap(si[i], si[r.below(i + 1)]);
			si.resize(ns);
			std::sort(si.begin(), si.end());
			for (int s : si) {
				svcs.emplace_back(h, snames[s]);
				sl.push_back("S " + h + " " + snames[s] + " " + VarFields(false));
			}
		}
		/* U lines (top-level variables for use() closures) go between the constants and the inventory */
		if (leakUx) { out.push_back("U ux '" + PickHost()); uvars.insert("ux"); }
		else if (pct(20)) {
			int nu = 1 + (int)r.below(2);
			std::vector<int> ui = { 0, 1, 2 };
			for (int i = 2; i > 0; i--) std::swap(ui[i], ui[r.below(i + 1)]);
			ui.resize(nu);
			std::sort(ui.begin(), ui.end());
			for (int u : ui) {
				if (u == 0) { out.push_back("U ux '" + PickHost()); uvars.insert("ux"); }
				else if (u == 1) { out.push_back("U us '" + PickSvc().second); uvars.insert("us"); }
				else { out.push_back("U un 'name"); uvars.insert("un"); }
			}
		}
		if (pct(2)) { out.push_back("U host 'h1"); uvars.insert("host"); }
		for (auto& l : hl) out.push_back(l);
		for (auto& l : sl) out.push_back(l);
		int na = 1 + (int)r.below(4);
		std::vector<int> ai;
		for (int i = 0; i < kAtomsN; i++) ai.push_back(i);
		for (int i = kAtomsN - 1; i > 0; i--) std::swap(ai[i], ai[r.below(i + 1)]);
		for (int i = 0; i < na; i++) {
			out.push_back("O " + std::to_string(i) + " " + kAtoms[ai[i]].text);
			atomSvc.push_back(kAtoms[ai[i]].svc);
		}
		/* the S->H rules first (the ->S rules of a cascade case name services they create), printed in id order */
		bool cascade = hasSH && hasToS;
		std::vector<std::string> rl(nr);
		for (int i = 0; i < nr; i++) {
			if (rk[i] != 0) continue;
			rl[i] = GenRule(i, 'S', 'H', false);
			if (cascade) {
				auto w = Words(rl[i]);
				std::string base = w[4];
				const std::string& fs = w[5];
				std::vector<std::string> sfx;
				if (fs == "-") sfx.push_back("");
				else if (fs.compare(0, 2, "L:") == 0) { if (fs != "L:e") for (auto& v : Split(fs.substr(2), ',')) sfx.push_back(v.substr(1)); }
				else if (fs.compare(0, 2, "M:") == 0) { if (fs != "M:e") for (auto& kv : Split(fs.substr(2), ',')) sfx.push_back(kv.substr(0, kv.find('='))); }
				else if (fs.find("arr") != std::string::npos) sfx = { "a", "b", "c", "1", "2" };
				else if (fs.find("dict") != std::string::npos) sfx = { "x", "y", "z" };
				else sfx = { "a", "b", "1", "x", "y" };
				for (auto& x : sfx) created.push_back(base + x);
			}
		}
		for (int i = 0; i < nr; i++)
			if (rk[i] != 0) rl[i] = GenRule(i, kinds[rk[i]][0], kinds[rk[i]][1], cascade && kinds[rk[i]][1] == 'S');
		for (auto& l : rl) out.push_back(l);
		/* two-stage commit: a non-empty set of hosts (never zp; their services go with them), sometimes also a single service of
		 * a host of the first stage, is committed after the rest of the configuration */
		std::string late;
		if (pct(70)) {
			std::vector<std::string> lh;
			std::vector<std::string> cand;
			for (auto& h : hosts) if (h != "zp") cand.push_back(h);
			for (auto& h : cand) if (r.coin()) lh.push_back(h);
			if (lh.empty() && !cand.empty()) lh.push_back(cand[r.below(cand.size())]);
			if (pct(20) && !svcs.empty()) {
				auto& sv = svcs[r.below(svcs.size())];
				if (std::find(lh.begin(), lh.end(), sv.first) == lh.end()) lh.push_back(sv.first + "!" + sv.second);
			}
			if (!lh.empty()) late = " late=" + Join(lh, ",");
		}
		out.push_back((both ? "L 1,16 qx" : "L 1 q") + late);
		int nq = (int)r.below(5);
		for (int i = 0; i < nq; i++) out.push_back(GenA());
	}
};

/* ------------------------------------------------------------------------------------------ main */

int main(int argc, char **argv)
{
	if (argc < 2) { fprintf(stderr, "usage: h_c16 gen --seed S --tier quick|thorough | ops FILE\n"); return 2; }
	std::string mode = argv[1];

	if (mode == "child") {
		if (argc < 4) return 2;
		return ChildMain(argv[2], atoi(argv[3]));
	}

	static char outbuf[1 << 20];
	setvbuf(stdout, outbuf, _IOFBF, sizeof outbuf);
	l_Debug = getenv("C16_DEBUG") != nullptr;

	std::vector<std::string> lines;
	if (mode == "gen") {
		uint64_t seed = strtoull(argOr(argc, argv, "--seed", "1"), nullptr, 10);
		bool thorough = std::string(argOr(argc, argv, "--tier", "quick")) == "thorough";
		Rng seeder(seed);
		Rng rng(seeder.next() ^ 0xC16);
		Gen g(rng);
		{
			/* the names EvaluateFilter binds, by type reflection in a child (this process never initialises Icinga) */
			Job b;
			b.variant = "bound";
			RunChild("", b);
			auto c = OutLines(b, 'C');
			if (!b.ok || c.size() != 1) { printf("FATAL child bound: %s\n", b.why.c_str()); fflush(stdout); _exit(3); }
			for (auto& w : Words(c[0])) {
				if (w.compare(0, 7, "boundH=") == 0) g.boundH = Split(w.substr(7), ',');
				if (w.compare(0, 7, "boundS=") == 0) g.boundS = Split(w.substr(7), ',');
			}
			if (g.boundH.size() < 2 || g.boundS.size() < 2) { printf("FATAL child bound: no names\n"); fflush(stdout); _exit(3); }
		}
		int n = atoi(argOr(argc, argv, "--cases", thorough ? "18000" : "4000"));
		for (int i = 0; i < n; i++) g.GenCase(i, thorough || i % 3 == 0, lines);
		if (hasFlag(argc, argv, "--print-only")) {
			for (auto& l : lines) puts(l.c_str());
			fflush(stdout);
			_exit(0);
		}
	} else if (mode == "ops") {
		if (argc < 3) return 2;
		FILE *f = fopen(argv[2], "r");
		if (!f) { printf("FATAL cannot open %s\n", argv[2]); fflush(stdout); _exit(2); }
		char *line = nullptr;
		size_t cap = 0;
		while (getline(&line, &cap, f) >= 0) lines.push_back(line);
		fclose(f);
	} else {
		printf("FATAL unknown mode\n");
		fflush(stdout);
		_exit(2);
	}
	int rc = RunAll(lines);
	fflush(stdout);
	_exit(rc);
}
